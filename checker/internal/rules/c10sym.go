package rules

// c10sym.go — the path-sensitive fact engine used by the C10 rules (H1..H5).
//
// Instead of matching the block shape of today's code ("the If right after the call tests err != nil
// and its true edge returns") the rules ask one semantic question:
//
//	on EVERY control-flow path from the entry of a function to a sink instruction, which facts
//	are known to hold when the sink executes?
//
// A fact is the abstract value (true/false/nil/non-nil) of a *term*. Terms are canonical
// descriptions of SSA values: parameters are substituted by the arguments of the static call
// chain through which the function was entered (so a value seen inside a helper and the value
// the caller passed have the same term), single-assignment locals are looked through, loads of
// the same field of the same object coincide, pure constructors are compared structurally, and
// everything else is opaque and identified by its defining instruction. Facts are learned from
// the branches a path takes (`if err != nil` false edge: err is nil), from phi edges (a named
// bool holding a disjunction is decided by the edge it was entered from), from in-package callees
// (the facts common to all successful returns of a helper are imported when its status is learned
// to be success) and from loops (leaving a loop at its header after every iteration passed a
// guard yields a forall fact). Facts about a value die when its defining instruction executes
// again (next loop iteration).

import (
	"fmt"
	"go/constant"
	"go/token"
	"go/types"
	"os"
	"sort"
	"strconv"
	"strings"
	"sync"

	"golang.org/x/tools/go/ssa"

	"charonverif/internal/an"
)

// ---------------------------------------------------------------------------------------------
// abstract values and terms

type c10Abs uint8

const (
	c10U c10Abs = iota
	c10True
	c10False
	c10Nil
	c10NonNil
)

func (a c10Abs) String() string {
	return [...]string{"?", "true", "false", "nil", "non-nil"}[a]
}

// c10T is a canonical term.
type c10T struct {
	op   string
	name string
	args []*c10T
	s    string
}

func c10mk(op, name string, args ...*c10T) *c10T {
	var sb strings.Builder
	sb.WriteString(op)
	if name != "" {
		sb.WriteByte(':')
		sb.WriteString(name)
	}
	if len(args) > 0 {
		sb.WriteByte('(')
		for i, a := range args {
			if i > 0 {
				sb.WriteByte(',')
			}
			sb.WriteString(a.s)
		}
		sb.WriteByte(')')
	}
	return &c10T{op: op, name: name, args: args, s: sb.String()}
}

func (t *c10T) String() string { return t.s }

// is reports op (and name if given).
func (t *c10T) is(op string, name ...string) bool {
	if t == nil || t.op != op {
		return false
	}
	return len(name) == 0 || t.name == name[0]
}

// c10Select is the field selection base.name; a member of a literal is the value it was built from.
func c10Select(name string, base *c10T) *c10T {
	if base.op == "lit" {
		for _, m := range base.args {
			if m.is("member", name) && len(m.args) == 1 {
				return m.args[0]
			}
		}
		return c10mk("zero", base.name+"."+name)
	}
	if base.op == "obj" {
		for _, m := range base.args {
			if m.is("member", name) && len(m.args) == 1 {
				return m.args[0]
			}
		}
	}
	return c10mk("fld", name, base)
}

// c10Path strips field selections and dereferences: returns the root term and the field names
// (outermost last). pure is false if anything else (index, lookup, call ...) is on the way.
func c10Path(t *c10T) (root *c10T, fields []string) {
	for {
		switch t.op {
		case "fld":
			fields = append([]string{t.name}, fields...)
			t = t.args[0]
		case "deref", "addr":
			t = t.args[0]
		default:
			return t, fields
		}
	}
}

// c10RootedAt: t is root or a field path / dereference chain starting at root.
func c10RootedAt(t, root *c10T) bool {
	r, _ := c10Path(t)
	return r.s == root.s
}

// c10Chain is the static call chain through which the analysed function was entered, innermost
// call first: chain[0] executes in the caller of the analysed function, chain[1] in its caller...
type c10Chain []ssa.CallInstruction

func (c c10Chain) id() string {
	var sb strings.Builder
	for _, x := range c {
		fmt.Fprintf(&sb, ":%p", x)
	}
	return sb.String()
}

func (c c10Chain) push(call ssa.CallInstruction) c10Chain {
	out := make(c10Chain, 0, len(c)+1)
	out = append(out, call)
	return append(out, c...)
}

// has reports whether fn is already being analysed in the chain (recursion guard).
func (c c10Chain) has(fn *ssa.Function) bool {
	for _, x := range c {
		if an.Orig(x.Parent()) == fn || c10Callee(x) == fn {
			return true
		}
	}
	return false
}

// c10Callee returns the (generic origin of the) statically known callee with a body, or nil.
func c10Callee(call ssa.CallInstruction) *ssa.Function {
	if call == nil || call.Common().IsInvoke() {
		return nil
	}
	f := an.Orig(call.Common().StaticCallee())
	if f == nil {
		f = c10ClosureVar(call.Common().Value)
	}
	if f == nil || f.Blocks == nil {
		return nil
	}
	return f
}

// c10ClosureVar: v is a local variable (possibly captured by the calling closure) that holds exactly
// one function literal: returns that literal.
func c10ClosureVar(v ssa.Value) *ssa.Function {
	for i := 0; i < 6; i++ {
		v = c10Strip(v)
		switch x := v.(type) {
		case *ssa.MakeClosure:
			f, _ := x.Fn.(*ssa.Function)
			return an.Orig(f)
		case *ssa.Function:
			return an.Orig(x)
		case *ssa.UnOp:
			if x.Op != token.MUL {
				return nil
			}
			switch p := c10Strip(x.X).(type) {
			case *ssa.Alloc:
				if s := c10WholeStore(p); s != nil {
					v = s
					continue
				}
			case *ssa.FreeVar:
				fn := p.Parent()
				par := fn.Parent()
				if par == nil {
					return nil
				}
				idx := -1
				for k, fv := range fn.FreeVars {
					if fv == p {
						idx = k
					}
				}
				var found *ssa.MakeClosure
				for _, in := range an.Instrs(par, false) {
					if mc, ok := in.(*ssa.MakeClosure); ok && mc.Fn == ssa.Value(fn) {
						if found != nil {
							return nil
						}
						found = mc
					}
				}
				if found == nil || idx < 0 || idx >= len(found.Bindings) {
					return nil
				}
				if al, ok := found.Bindings[idx].(*ssa.Alloc); ok {
					if s := c10WholeStore(al); s != nil {
						v = s
						continue
					}
				}
			}
			return nil
		default:
			return nil
		}
	}
	return nil
}

// c10SamePkg: callee belongs to the package of the analysed function (helpers are only followed
// inside the component).
func c10SamePkg(a, b *ssa.Function) bool {
	pa, pb := c10PkgOf(a), c10PkgOf(b)
	return pa != nil && pa == pb
}

func c10PkgOf(f *ssa.Function) *ssa.Package {
	for f != nil && f.Parent() != nil {
		f = f.Parent()
	}
	if f == nil {
		return nil
	}
	if f.Pkg == nil && f.Object() != nil && f.Object().Pkg() != nil && f.Prog != nil {
		// synthetic wrapper of a method (bound method value): it belongs to the package of the method
		return f.Prog.Package(f.Object().Pkg())
	}
	return f.Pkg
}

func c10PureCtor(name string) bool {
	return strings.HasPrefix(name, "core.New") || name == "core.DutyFromProto" || name == "core.PubKeyFromBytes"
}

// ---------------------------------------------------------------------------------------------
// path state

type c10Fact struct {
	t *c10T
	a c10Abs
}

type c10State struct {
	facts map[string]c10Fact
	phis  map[*ssa.Phi]ssa.Value
	// cells: the value last stored on this path into a mutable local variable that is only written as a
	// whole in its own function (a variable assigned on several branches, a named result kept in memory
	// because of a defer); a nil entry means "written, but the value is no longer known"
	cells map[*ssa.Alloc]ssa.Value
	// loads: what a load of such a variable yielded when it executed on this path (the variable may have
	// been written again since)
	loads map[*ssa.UnOp]ssa.Value
	taint bool // a branch whose condition depends on a tracked status could not be evaluated
	trail []*ssa.BasicBlock
}

func c10NewState() *c10State {
	return &c10State{facts: map[string]c10Fact{}, phis: map[*ssa.Phi]ssa.Value{}}
}

func (s *c10State) clone() *c10State {
	n := &c10State{facts: make(map[string]c10Fact, len(s.facts)+2), phis: make(map[*ssa.Phi]ssa.Value, len(s.phis)+2), taint: s.taint}
	if len(s.cells) > 0 {
		n.cells = make(map[*ssa.Alloc]ssa.Value, len(s.cells)+1)
		for k, v := range s.cells {
			n.cells[k] = v
		}
	}
	if len(s.loads) > 0 {
		n.loads = make(map[*ssa.UnOp]ssa.Value, len(s.loads)+1)
		for k, v := range s.loads {
			n.loads[k] = v
		}
	}
	for k, v := range s.facts {
		n.facts[k] = v
	}
	for k, v := range s.phis {
		n.phis[k] = v
	}
	n.trail = append([]*ssa.BasicBlock(nil), s.trail...)
	return n
}

func (s *c10State) fingerprint() string {
	keys := make([]string, 0, len(s.facts)+len(s.phis))
	for k, f := range s.facts {
		keys = append(keys, k+"="+f.a.String())
	}
	for p, v := range s.phis {
		keys = append(keys, fmt.Sprintf("phi%p=%p", p, v))
	}
	for a, v := range s.cells {
		keys = append(keys, fmt.Sprintf("cell%p=%p", a, v))
	}
	for a, v := range s.loads {
		keys = append(keys, fmt.Sprintf("ld%p=%p", a, v))
	}
	sort.Strings(keys)
	if s.taint {
		keys = append(keys, "taint")
	}
	return strings.Join(keys, ";")
}

func (s *c10State) set(t *c10T, a c10Abs) {
	neg := false
	for t.op == "not" {
		t = t.args[0]
		neg = !neg
	}
	if neg {
		switch a {
		case c10True:
			a = c10False
		case c10False:
			a = c10True
		default:
			return
		}
	}
	s.facts[t.s] = c10Fact{t, a}
}

// ---------------------------------------------------------------------------------------------
// the walker

type c10W struct {
	fn   *ssa.Function
	ch   c10Chain
	base func(t *c10T) c10Abs // assumptions on terms (e.g. insecureTest is false)
	// tracked: a branch condition that mentions one of these call terms but cannot be evaluated taints the path
	tracked func(t *c10T) bool
	// keep restricts the facts that are recorded (nil: all); used on very large functions so that
	// paths which differ only in irrelevant branches merge
	keep func(t *c10T) bool
	// forall: callee names (as rendered by c10CallName) that act as per-element guards of a loop
	forall map[string]bool
	// noInline: in-package functions whose results are kept as results of that call (not looked through): the
	// call is itself the mechanism a rule asks about
	noInline func(f *ssa.Function) bool
	// objects: pointers to helper objects built by an in-package composite literal are described by their
	// write-once members (c10n4_objects.go)
	objects bool
	// visit is called for every instruction on every path; returning true ends the path there.
	visit func(in ssa.Instruction, st *c10State) bool
	// onEdge is called before an edge is followed; returning true ends the path there.
	onEdge func(from, to *ssa.BasicBlock, st *c10State) bool

	states   int
	overflow bool
	seen     map[string]bool
	needles  map[*ssa.BasicBlock][]string
	loops    []*an.Loop
	sums     *c10Sums
}

// c10MaxStates bounds the number of (block, predecessor, facts) states one exploration may visit.
var c10MaxStates = func() int {
	if s := os.Getenv("C10MAXSTATES"); s != "" {
		if n, err := strconv.Atoi(s); err == nil && n > 0 {
			return n
		}
	}
	return 30000
}()

// c10Sums caches helper summaries for one rule run.
type c10Sums struct {
	m map[string][]c10Fact
}

func c10NewSums() *c10Sums { return &c10Sums{m: map[string][]c10Fact{}} }

func (w *c10W) cx(st *c10State) c10Cx { return c10Cx{w: w, ch: w.ch, st: st} }

// run explores every path from the entry of w.fn.
func (w *c10W) run(st *c10State) {
	if len(w.fn.Blocks) == 0 {
		return
	}
	w.prepare()
	w.block(w.fn.Blocks[0], nil, 0, st)
}

// runFrom explores every path starting just after instruction from.
func (w *c10W) runFrom(from ssa.Instruction, st *c10State) {
	w.prepare()
	b := from.Block()
	for i, in := range b.Instrs {
		if in == from {
			w.instrs(b, i+1, st)
			return
		}
	}
}

func (w *c10W) prepare() {
	if w.seen == nil {
		w.seen = map[string]bool{}
		w.needles = map[*ssa.BasicBlock][]string{}
		w.loops = an.Loops(w.fn)
		if w.sums == nil {
			w.sums = c10NewSums()
		}
	}
}

func (w *c10W) kill(b *ssa.BasicBlock, st *c10State) {
	nd, ok := w.needles[b]
	if !ok {
		id := w.ch.id()
		for _, in := range b.Instrs {
			if _, isVal := in.(ssa.Value); isVal {
				nd = append(nd, fmt.Sprintf("%p%s|", in, id))
			}
		}
		w.needles[b] = nd
	}
	for k := range st.facts {
		for _, n := range nd {
			if strings.Contains(k, n) {
				delete(st.facts, k)
				break
			}
		}
	}
	// a cell holding a value that is computed again no longer denotes what the instruction now denotes
	for a, v := range st.cells {
		if in, ok := v.(ssa.Instruction); ok && in.Block() == b {
			st.cells[a] = nil
		}
	}
	for ld, v := range st.loads {
		if in, ok := v.(ssa.Instruction); ok && in.Block() == b || ld.Block() == b {
			delete(st.loads, ld)
		}
	}
}

// c10PathCells caches c10PathCell.
var c10PathCells sync.Map

// c10PathCell: the local is read and written only as a whole, by loads and stores of its own function;
// closures may capture it as long as they only read it. Its content on a path is the last value stored.
func c10PathCell(a *ssa.Alloc) bool {
	if v, ok := c10PathCells.Load(a); ok {
		return v.(bool)
	}
	var readOnly func(v ssa.Value, d int) bool
	readOnly = func(v ssa.Value, d int) bool {
		refs := v.Referrers()
		if refs == nil || d > 4 {
			return false
		}
		for _, ref := range *refs {
			switch x := ref.(type) {
			case *ssa.UnOp:
				if x.Op != token.MUL {
					return false
				}
			case *ssa.DebugRef:
			case *ssa.MakeClosure:
				fn, isFn := x.Fn.(*ssa.Function)
				if !isFn {
					return false
				}
				for i, b := range x.Bindings {
					if b == v && (i >= len(fn.FreeVars) || !readOnly(fn.FreeVars[i], d+1)) {
						return false
					}
				}
			default:
				return false
			}
		}
		return true
	}
	ok := a.Referrers() != nil
	if ok {
		for _, ref := range *a.Referrers() {
			switch x := ref.(type) {
			case *ssa.Store:
				if x.Addr != ssa.Value(a) {
					ok = false
				}
			case *ssa.UnOp:
				if x.Op != token.MUL {
					ok = false
				}
			case *ssa.DebugRef:
			case *ssa.MakeClosure:
				fn, isFn := x.Fn.(*ssa.Function)
				if !isFn {
					ok = false
					break
				}
				for i, b := range x.Bindings {
					if b == ssa.Value(a) && (i >= len(fn.FreeVars) || !readOnly(fn.FreeVars[i], 0)) {
						ok = false
					}
				}
			default:
				ok = false
			}
		}
	}
	c10PathCells.Store(a, ok)
	return ok
}

// cell returns the value the path last stored into the local (nil if not tracked or not known).
func (s *c10State) cell(a *ssa.Alloc) ssa.Value {
	if s == nil || s.cells == nil {
		return nil
	}
	return s.cells[a]
}

// block enters b coming from pred (nil at the function entry).
func (w *c10W) block(b, pred *ssa.BasicBlock, _ int, st *c10State) {
	if w.overflow {
		return
	}
	if pred != nil {
		w.kill(b, st)
		for _, in := range b.Instrs {
			phi, ok := in.(*ssa.Phi)
			if !ok {
				break
			}
			delete(st.phis, phi)
			if !c10TrackPhi(phi.Type()) {
				continue
			}
			for i, p := range b.Preds {
				if p == pred && i < len(phi.Edges) {
					e := phi.Edges[i]
					// resolve chains of phis immediately
					if q, isPhi := e.(*ssa.Phi); isPhi {
						if bound, ok := st.phis[q]; ok {
							e = bound
						}
					}
					st.phis[phi] = e
				}
			}
		}
	}
	key := fmt.Sprintf("%p<%p|%s", b, pred, st.fingerprint())
	if w.seen[key] {
		return
	}
	w.seen[key] = true
	w.states++
	if w.states > c10MaxStates {
		w.overflow = true
		return
	}
	st.trail = append(st.trail, b)
	w.instrs(b, 0, st)
}

func c10TrackPhi(t types.Type) bool {
	switch u := t.Underlying().(type) {
	case *types.Basic:
		return u.Info()&(types.IsBoolean|types.IsString) != 0
	case *types.Interface, *types.Pointer, *types.Map, *types.Slice, *types.Signature, *types.Chan:
		return true
	case *types.Struct, *types.Array:
		// a value variable assigned on some branches only (single-exit style): which value it holds is
		// decided by the edge the join was entered from
		return true
	}
	return false
}

func (w *c10W) instrs(b *ssa.BasicBlock, from int, st *c10State) {
	for i := from; i < len(b.Instrs); i++ {
		in := b.Instrs[i]
		if w.visit != nil && w.visit(in, st) {
			return
		}
		switch x := in.(type) {
		case *ssa.If:
			cx := w.cx(st)
			a := cx.eval(x.Cond)
			takeT, takeF := a != c10False, a != c10True
			if takeT && takeF {
				var condT *c10T
				if w.tracked != nil {
					condT = cx.term(x.Cond)
				}
				st2 := st.clone()
				w.cx(st2).assume(x.Cond, false)
				w.taintIfOpaque(condT, st2)
				w.edge(b, b.Succs[1], st2)
				cx.assume(x.Cond, true)
				w.taintIfOpaque(condT, st)
				w.edge(b, b.Succs[0], st)
			} else if takeT {
				cx.assume(x.Cond, true)
				w.edge(b, b.Succs[0], st)
			} else {
				cx.assume(x.Cond, false)
				w.edge(b, b.Succs[1], st)
			}
			return
		case *ssa.Jump:
			w.edge(b, b.Succs[0], st)
			return
		case *ssa.Return, *ssa.Panic:
			return
		case *ssa.Store:
			if a, ok := x.Addr.(*ssa.Alloc); ok && c10WholeStore(a) == nil && c10PathCell(a) {
				if st.cells == nil {
					st.cells = map[*ssa.Alloc]ssa.Value{}
				}
				val := x.Val
				// a copy of another variable is the value that was read from it
				if ld, isLd := c10Strip(val).(*ssa.UnOp); isLd && ld.Op == token.MUL {
					if cur := st.loads[ld]; cur != nil {
						val = cur
					}
				}
				st.cells[a] = val
			}
		case *ssa.UnOp:
			if x.Op != token.MUL {
				break
			}
			var al *ssa.Alloc
			switch p := c10Strip(x.X).(type) {
			case *ssa.Alloc:
				al = p
			case *ssa.FreeVar:
				if b, _, ok := w.cx(st).binding(p); ok {
					al, _ = b.(*ssa.Alloc)
				}
			}
			if al == nil {
				break
			}
			if cur := st.cell(al); cur != nil {
				if st.loads == nil {
					st.loads = map[*ssa.UnOp]ssa.Value{}
				}
				st.loads[x] = cur
			} else if st.loads != nil {
				delete(st.loads, x)
			}
		}
	}
}

func (w *c10W) edge(from, to *ssa.BasicBlock, st *c10State) {
	if w.onEdge != nil && w.onEdge(from, to, st) {
		return
	}
	if w.forall != nil {
		for _, l := range w.loops {
			if l.Header == from && !l.Body[to] {
				w.addForall(l, st)
			}
		}
	}
	w.block(to, from, 0, st)
}

// taintIfOpaque: the branch just taken depends on the status of a tracked call, but taking it did not
// tell what that status is (the status is tested through something the engine does not model).
func (w *c10W) taintIfOpaque(cond *c10T, st *c10State) {
	if cond == nil {
		return
	}
	var visit func(t *c10T)
	visit = func(t *c10T) {
		if w.tracked(t) {
			known := false
			if _, ok := st.facts[t.s]; ok {
				known = true
			}
			for k, f := range st.facts {
				if f.t.is("ext") && len(f.t.args) == 1 && f.t.args[0].s == t.s {
					known = true
				}
				_ = k
			}
			if !known {
				st.taint = true
			}
		}
		for _, a := range t.args {
			visit(a)
		}
	}
	visit(cond)
}

// c10Mentions: some sub-term satisfies pred.
func c10Mentions(t *c10T, pred func(*c10T) bool) bool {
	if pred(t) {
		return true
	}
	for _, a := range t.args {
		if c10Mentions(a, pred) {
			return true
		}
	}
	return false
}

// ---------------------------------------------------------------------------------------------
// term construction and evaluation in a path state

type c10Cx struct {
	w    *c10W
	ch   c10Chain
	st   *c10State
	d    int
	phis []*ssa.Phi // phis being expanded (a loop-carried phi is bound to a value computed from itself)
}

func (cx c10Cx) deeper() c10Cx { cx.d++; return cx }

func (cx c10Cx) id(v any) string { return fmt.Sprintf("#%p%s|", v, cx.ch.id()) }

func c10Strip(v ssa.Value) ssa.Value {
	for i := 0; i < 32; i++ {
		switch x := v.(type) {
		case *ssa.ChangeType:
			v = x.X
		case *ssa.MakeInterface:
			v = x.X
		case *ssa.ChangeInterface:
			v = x.X
		case *ssa.Convert:
			v = x.X
		default:
			return v
		}
	}
	return v
}

func c10FieldNameOf(t types.Type, idx int) string {
	if p, ok := t.Underlying().(*types.Pointer); ok {
		t = p.Elem()
	}
	st, ok := t.Underlying().(*types.Struct)
	if !ok || idx >= st.NumFields() {
		return "?"
	}
	return st.Field(idx).Name()
}

// term returns the canonical term of v in the frame of cx.
func (cx c10Cx) term(v ssa.Value) *c10T {
	if cx.d > 40 {
		return c10mk("deep", cx.id(v))
	}
	cx = cx.deeper()
	v = c10Strip(v)
	switch x := v.(type) {
	case nil:
		return c10mk("nilvalue", "")
	case *ssa.Const:
		if x.Value == nil {
			return c10mk("const", "nil")
		}
		return c10mk("const", x.Value.ExactString()+"/"+an.TypeName(x.Type()))
	case *ssa.Parameter:
		fn := x.Parent()
		if len(cx.ch) > 0 && c10Callee(cx.ch[0]) == an.Orig(fn) {
			for i, p := range fn.Params {
				if p == x && i < len(cx.ch[0].Common().Args) {
					up := cx
					up.ch = cx.ch[1:]
					return up.term(cx.ch[0].Common().Args[i])
				}
			}
		}
		for i, p := range fn.Params {
			if p == x {
				return c10mk("param", fmt.Sprintf("%s#%d%s", an.FuncName(fn), i, cx.ch.id()))
			}
		}
		return c10mk("param", cx.id(x))
	case *ssa.FreeVar:
		if b, bcx, ok := cx.binding(x); ok {
			return bcx.term(b)
		}
		return c10mk("freevar", cx.id(x))
	case *ssa.Alloc:
		return c10mk("alloc", cx.id(x))
	case *ssa.Global:
		return c10mk("global", x.String())
	case *ssa.Function:
		return c10mk("func", an.FuncName(x))
	case *ssa.Builtin:
		return c10mk("builtin", x.Name())
	case *ssa.MakeClosure:
		return c10mk("closure", an.FuncName(x.Fn.(*ssa.Function))+cx.id(x))
	case *ssa.UnOp:
		switch x.Op {
		case token.MUL:
			return cx.load(x)
		case token.NOT:
			t := cx.term(x.X)
			if t.op == "not" {
				return t.args[0]
			}
			return c10mk("not", "", t)
		case token.ARROW:
			return c10mk("recv", cx.id(x), cx.term(x.X))
		}
		return c10mk("unop", x.Op.String(), cx.term(x.X))
	case *ssa.BinOp:
		a, b := cx.term(x.X), cx.term(x.Y)
		switch x.Op {
		case token.EQL, token.NEQ:
			if b.s < a.s {
				a, b = b, a
			}
			t := c10mk("eq", "", a, b)
			if x.Op == token.NEQ {
				return c10mk("not", "", t)
			}
			return t
		case token.GTR:
			return c10mk("lt", "", b, a)
		case token.LSS:
			return c10mk("lt", "", a, b)
		case token.GEQ:
			return c10mk("not", "", c10mk("lt", "", a, b))
		case token.LEQ:
			return c10mk("not", "", c10mk("lt", "", b, a))
		case token.ADD, token.MUL, token.AND, token.OR, token.XOR:
			if b.s < a.s {
				a, b = b, a
			}
		}
		return c10mk("binop", x.Op.String(), a, b)
	case *ssa.Field:
		return c10Select(c10FieldNameOf(x.X.Type(), x.Field), cx.term(x.X))
	case *ssa.FieldAddr:
		return c10mk("addr", "", c10mk("fld", c10FieldNameOf(x.X.Type(), x.Field), cx.pointee(x.X, x)))
	case *ssa.IndexAddr:
		return c10mk("addr", "", c10mk("idx", "", cx.pointee(x.X, x), cx.term(x.Index)))
	case *ssa.Index:
		return c10mk("idx", "", cx.term(x.X), cx.term(x.Index))
	case *ssa.Lookup:
		// a map read is only as stable as the map: identified by its instruction
		if x.CommaOk {
			return c10mk("lookup2", cx.id(x), cx.term(x.X), cx.term(x.Index))
		}
		return c10mk("lookup", cx.id(x), cx.term(x.X), cx.term(x.Index))
	case *ssa.TypeAssert:
		if x.CommaOk {
			return c10mk("tassert2", an.TypeName(x.AssertedType), cx.term(x.X))
		}
		return c10mk("tassert", an.TypeName(x.AssertedType), cx.term(x.X))
	case *ssa.Extract:
		switch t := x.Tuple.(type) {
		case *ssa.Lookup:
			if x.Index == 0 {
				return c10mk("lookup", cx.id(t), cx.term(t.X), cx.term(t.Index))
			}
			return c10mk("lookupok", cx.id(t), cx.term(t.X), cx.term(t.Index))
		case *ssa.TypeAssert:
			if x.Index == 0 {
				return c10mk("tassert", an.TypeName(t.AssertedType), cx.term(t.X))
			}
			return c10mk("tassertok", an.TypeName(t.AssertedType), cx.term(t.X))
		case *ssa.Call:
			if r, rcx, ok := cx.inline(t, x.Index); ok {
				return rcx.term(r)
			}
		}
		return c10mk("ext", fmt.Sprint(x.Index), cx.term(x.Tuple))
	case *ssa.Slice:
		args := []*c10T{cx.pointeeOrValue(x.X, x)}
		for _, b := range []ssa.Value{x.Low, x.High, x.Max} {
			if b != nil {
				args = append(args, cx.term(b))
			}
		}
		return c10mk("slice", "", args...)
	case *ssa.Phi:
		for _, p := range cx.phis {
			if p == x {
				return c10mk("phi", cx.id(x))
			}
		}
		cx.phis = append(cx.phis[:len(cx.phis):len(cx.phis)], x)
		if b, ok := cx.st.phis[x]; ok && b != ssa.Value(x) {
			return cx.term(b)
		}
		var only *c10T
		same := true
		for _, e := range x.Edges {
			if e == ssa.Value(x) {
				continue
			}
			if _, isPhi := c10Strip(e).(*ssa.Phi); isPhi {
				same = false
				break
			}
			t := cx.term(e)
			if only == nil {
				only = t
			} else if only.s != t.s {
				same = false
				break
			}
		}
		if same && only != nil {
			return only
		}
		return c10mk("phi", cx.id(x))
	case *ssa.Call:
		return cx.call(x)
	case *ssa.Next:
		return c10mk("next", cx.id(x), cx.term(x.Iter))
	case *ssa.Range:
		return c10mk("range", cx.id(x), cx.term(x.X))
	case *ssa.MakeMap:
		return c10mk("makemap", cx.id(x))
	case *ssa.MakeSlice:
		return c10mk("makeslice", cx.id(x))
	case *ssa.MakeChan:
		return c10mk("makechan", cx.id(x))
	}
	return c10mk("opaque", cx.id(v))
}

// binding resolves a free variable of a closure to the captured value in the enclosing frame.
func (cx c10Cx) binding(fv *ssa.FreeVar) (ssa.Value, c10Cx, bool) {
	fn := fv.Parent()
	idx := -1
	for i, f := range fn.FreeVars {
		if f == fv {
			idx = i
		}
	}
	if idx < 0 {
		return nil, cx, false
	}
	if len(cx.ch) > 0 && c10Callee(cx.ch[0]) == an.Orig(fn) {
		if mc, ok := cx.ch[0].Common().Value.(*ssa.MakeClosure); ok && idx < len(mc.Bindings) {
			up := cx
			up.ch = cx.ch[1:]
			return mc.Bindings[idx], up, true
		}
	}
	// analysed as an entry of its own: the unique closure creation in the parent
	if par := fn.Parent(); par != nil {
		var found *ssa.MakeClosure
		for _, in := range an.Instrs(par, false) {
			if mc, ok := in.(*ssa.MakeClosure); ok && mc.Fn == ssa.Value(fn) {
				if found != nil {
					return nil, cx, false
				}
				found = mc
			}
		}
		if found != nil && idx < len(found.Bindings) {
			// the captured variable lives in the frame of the enclosing function: the part of the chain
			// above the call made from it (the empty chain if it is not on the chain at all)
			up := cx
			up.ch = nil
			for k := range cx.ch {
				if an.Orig(cx.ch[k].Parent()) == an.Orig(par) {
					up.ch = cx.ch[k+1:]
					break
				}
			}
			return found.Bindings[idx], up, true
		}
	} else if pkg := c10PkgOf(fn); pkg != nil && fn.Synthetic != "" {
		// a method value (bound method wrapper): the receiver is captured where the method value is made
		var found *ssa.MakeClosure
		n := 0
		for _, g := range an.PkgFuncs(pkg) {
			for _, in := range an.Instrs(g, false) {
				if mc, ok := in.(*ssa.MakeClosure); ok && mc.Fn == ssa.Value(fn) {
					found = mc
					n++
				}
			}
		}
		if n == 1 && idx < len(found.Bindings) {
			up := cx
			up.ch = nil
			for k := range cx.ch {
				if an.Orig(cx.ch[k].Parent()) == an.Orig(found.Parent()) {
					up.ch = cx.ch[k+1:]
					break
				}
			}
			return found.Bindings[idx], up, true
		}
	}
	return nil, cx, false
}

// call renders a call: pure constructors structurally, everything else with the identity of the
// call instruction (two executions are different values).
func (cx c10Cx) call(x *ssa.Call) *c10T {
	cc := &x.Call
	var args []*c10T
	if cc.IsInvoke() {
		args = append(args, cx.term(cc.Value))
		for _, a := range cc.Args {
			args = append(args, cx.term(a))
		}
		return c10mk("invoke", cc.Method.Name()+cx.id(x), args...)
	}
	if b, ok := cc.Value.(*ssa.Builtin); ok {
		for _, a := range cc.Args {
			args = append(args, cx.term(a))
		}
		if b.Name() == "len" || b.Name() == "cap" {
			return c10mk(b.Name(), cx.id(x), args...)
		}
		return c10mk("builtin", b.Name()+cx.id(x), args...)
	}
	f := cc.StaticCallee()
	if f == nil {
		f = c10ClosureVar(cc.Value)
	}
	if f != nil {
		name := an.FuncName(f)
		if res := f.Signature.Results(); res.Len() == 1 {
			if r, rcx, ok := cx.inline(x, 0); ok {
				return rcx.term(r)
			}
		}
		// a method value (x.m bound to a variable): the receiver is the captured value; same argument
		// layout as a direct call
		if mc, ok := cc.Value.(*ssa.MakeClosure); ok && strings.HasPrefix(f.Synthetic, "bound method wrapper") && len(mc.Bindings) == 1 {
			args = append(args, cx.term(mc.Bindings[0]))
		}
		for _, a := range cc.Args {
			args = append(args, cx.term(a))
		}
		if c10PureCtor(name) {
			return c10mk("call", name, args...)
		}
		// Clone of a workflow value denotes the same content (compared through c10Unclone)
		if strings.HasSuffix(name, ".Clone") && len(args) == 1 {
			return c10mk("clone", name+cx.id(x), args...)
		}
		return c10mk("call", name+cx.id(x), args...)
	}
	for _, a := range cc.Args {
		args = append(args, cx.term(a))
	}
	name := cx.dynName(cc)
	if name == "" {
		name = "dynamic"
	}
	return c10mk("dyn", name+cx.id(x), args...)
}

// c10Unclone looks through Clone calls (and the extraction of their value result): a clone has the
// content of the original.
func c10Unclone(t *c10T) *c10T {
	for i := 0; i < 4; i++ {
		u := t
		if u.is("ext", "0") && len(u.args) == 1 {
			u = u.args[0]
		}
		if u.op != "clone" || len(u.args) != 1 {
			return t
		}
		t = u.args[0]
	}
	return t
}

// c10CallName strips the identity suffix of a call term's name.
func c10CallName(t *c10T) string {
	if i := strings.Index(t.name, "#"); i >= 0 {
		return t.name[:i]
	}
	return t.name
}

// inline: the idx-th result of a call to an in-package helper with exactly one successful return
// is the value returned there (seen in the callee's frame).
func (cx c10Cx) inline(call *ssa.Call, idx int) (ssa.Value, c10Cx, bool) {
	f := c10Callee(call)
	if f == nil || cx.w == nil || !c10SamePkg(f, cx.w.fn) || len(cx.ch) >= 3 || cx.ch.has(f) || an.Orig(call.Parent()) == f {
		return nil, cx, false
	}
	if c10PureCtor(an.FuncName(f)) || f.Recover != nil {
		return nil, cx, false
	}
	if cx.w.noInline != nil && cx.w.noInline(f) {
		return nil, cx, false
	}
	// the status of a helper (its last, error-typed result) is not a value to look through: it stays the
	// status of that call, about which the path learns facts
	if res := f.Signature.Results(); idx == res.Len()-1 && an.IsErrorType(res.At(idx).Type()) {
		return nil, cx, false
	}
	var ok1 *ssa.Return
	for _, r := range an.Returns(f) {
		if idx >= len(r.Results) {
			return nil, cx, false
		}
		n := len(r.Results)
		if n > 0 && an.IsErrorType(r.Results[n-1].Type()) && n > 1 {
			if k, isC := r.Results[n-1].(*ssa.Const); !isC || k.Value != nil {
				if _, isCall := r.Results[n-1].(*ssa.Call); isCall || c10NonNilAt(r.Results[n-1], r) {
					continue // error return
				}
				return nil, cx, false
			}
		}
		if ok1 != nil {
			return nil, cx, false
		}
		ok1 = r
	}
	if ok1 == nil {
		return nil, cx, false
	}
	in := cx
	in.ch = cx.ch.push(call)
	return ok1.Results[idx], in, true
}

// pointee renders the object a pointer value refers to.
func (cx c10Cx) pointee(p ssa.Value, at ssa.Instruction) *c10T {
	p = c10Strip(p)
	switch x := p.(type) {
	case *ssa.Alloc:
		if v := c10WholeStore(x); v != nil {
			return cx.term(v)
		}
		return c10mk("cell", cx.id(x))
	case *ssa.FreeVar:
		if b, bcx, ok := cx.binding(x); ok {
			return bcx.pointee(b, nil)
		}
	case *ssa.FieldAddr:
		return c10mk("fld", c10FieldNameOf(x.X.Type(), x.Field), cx.pointee(x.X, at))
	case *ssa.IndexAddr:
		return c10mk("idx", "", cx.pointeeOrValue(x.X, at), cx.term(x.Index))
	}
	if obj := cx.heapObject(p); obj != nil {
		return obj
	}
	return c10mk("deref", "", cx.term(p))
}

// pointeeOrValue: for a pointer to an array the array, otherwise the (slice/string) value itself.
func (cx c10Cx) pointeeOrValue(v ssa.Value, at ssa.Instruction) *c10T {
	if _, isPtr := v.Type().Underlying().(*types.Pointer); isPtr {
		return cx.pointee(v, at)
	}
	return cx.term(v)
}

// c10WholeStore returns the value of the only store into the local as a whole, provided the local
// is never written through a field or element address and its address does not escape (nil otherwise).
func c10WholeStore(a *ssa.Alloc) ssa.Value {
	if !c10Immutable(a) {
		return nil
	}
	return an.UniqueStore(a)
}

// load renders *p.
func (cx c10Cx) load(ld *ssa.UnOp) *c10T {
	p := c10Strip(ld.X)
	switch x := p.(type) {
	case *ssa.Alloc:
		if v := c10WholeStore(x); v != nil {
			return cx.term(v)
		}
		if v := cx.st.loads[ld]; v != nil {
			return cx.term(v)
		}
		if n, ok := c10CellWrites(x); ok && n == 0 && c10NoFieldStores(x) {
			return c10mk("zero", an.TypeName(x.Type()))
		}
		if lit := cx.literal(x); lit != nil {
			return lit
		}
		if v := c10ReachingStore(ld, x); v != nil {
			return cx.term(v)
		}
		return c10mk("load", cx.id(ld), c10mk("alloc", cx.id(x)))
	case *ssa.FreeVar:
		if b, bcx, ok := cx.binding(x); ok {
			if al, isAl := b.(*ssa.Alloc); isAl {
				if v := c10WholeStore(al); v != nil {
					return bcx.term(v)
				}
				if v := cx.st.loads[ld]; v != nil {
					return bcx.term(v)
				}
			}
			return c10mk("load", cx.id(ld), bcx.term(b))
		}
	case *ssa.FieldAddr:
		if al, ok := c10Strip(x.X).(*ssa.Alloc); ok && c10WholeStore(al) == nil {
			// a local struct filled field by field: the only store to this field
			if v := c10FieldStore(al, x.Field, ld); v != nil {
				return cx.term(v)
			}
			return c10mk("load", cx.id(ld), c10mk("fld", c10FieldNameOf(x.X.Type(), x.Field), c10mk("cell", cx.id(al))))
		}
		return c10Select(c10FieldNameOf(x.X.Type(), x.Field), cx.pointee(x.X, ld))
	case *ssa.IndexAddr:
		return c10mk("idx", "", cx.pointeeOrValue(x.X, ld), cx.term(x.Index))
	case *ssa.Global:
		return c10mk("gload", x.String())
	}
	return c10mk("deref", "", cx.term(p))
}

// literal: a local struct that is only ever filled field by field, each field at most once, and whose
// address does not escape (a composite literal): described by its members.
func (cx c10Cx) literal(a *ssa.Alloc) *c10T {
	var names []string
	vals := map[string]ssa.Value{}
	for _, ref := range *a.Referrers() {
		switch r := ref.(type) {
		case *ssa.UnOp, *ssa.DebugRef:
		case *ssa.FieldAddr:
			name := c10FieldNameOf(r.X.Type(), r.Field)
			for _, r2 := range *r.Referrers() {
				switch x := r2.(type) {
				case *ssa.Store:
					if x.Addr != ssa.Value(r) {
						return nil
					}
					if _, dup := vals[name]; dup {
						return nil
					}
					vals[name] = x.Val
					names = append(names, name)
				case *ssa.UnOp, *ssa.DebugRef:
				default:
					return nil
				}
			}
		default:
			return nil
		}
	}
	if len(names) == 0 {
		return nil
	}
	sort.Strings(names)
	args := make([]*c10T, 0, len(names))
	for _, n := range names {
		args = append(args, c10mk("member", n, cx.term(vals[n])))
	}
	return c10mk("lit", an.TypeName(a.Type()), args...)
}

// c10NoFieldStores: nothing is stored through a field or element address of the local.
func c10NoFieldStores(a *ssa.Alloc) bool {
	for _, ref := range *a.Referrers() {
		switch r := ref.(type) {
		case *ssa.FieldAddr:
			for _, r2 := range *r.Referrers() {
				if _, isLoad := r2.(*ssa.UnOp); !isLoad {
					return false
				}
			}
		case *ssa.IndexAddr:
			for _, r2 := range *r.Referrers() {
				if _, isLoad := r2.(*ssa.UnOp); !isLoad {
					return false
				}
			}
		}
	}
	return true
}

// c10LeafUnsure: the provenance of the value described by t could not be followed by the engine (a
// mutable local, a value recomputed per iteration, the result of an in-package helper that was not
// inlined), looking through selections of it. A shape mismatch on such a term is undecided, not a violation.
func c10LeafUnsure(t *c10T, pkgPrefix string) bool {
	for i := 0; i < 16; i++ {
		switch t.op {
		case "load", "deep", "opaque", "loopvar", "freevar", "recv", "phi":
			return true
		case "dyn":
			return strings.HasPrefix(t.name, "dynamic#") // a function value whose target is not known
		case "call":
			return strings.Contains(t.name, "#") && pkgPrefix != "" && strings.HasPrefix(t.name, pkgPrefix)
		case "ext", "fld", "deref", "addr", "tassert", "lookup", "idx", "slice":
			if len(t.args) == 0 {
				return false
			}
			t = t.args[0]
		default:
			return false
		}
	}
	return false
}

// c10DiffUnsure: a and b differ, and where they first differ one side is a value whose provenance
// could not be followed.
func c10DiffUnsure(a, b *c10T, pkgPrefix string) bool {
	for i := 0; i < 32; i++ {
		if a.s == b.s {
			return false
		}
		if a.op != b.op || a.name != b.name || len(a.args) != len(b.args) {
			break
		}
		moved := false
		for k := range a.args {
			if a.args[k].s != b.args[k].s {
				a, b = a.args[k], b.args[k]
				moved = true
				break
			}
		}
		if !moved {
			break
		}
	}
	return c10LeafUnsure(a, pkgPrefix) || c10LeafUnsure(b, pkgPrefix)
}

// c10FieldStore: the value of the only store to field idx of local a (nil if none or several, or
// if the local is also stored as a whole).
func c10FieldStore(a *ssa.Alloc, idx int, _ ssa.Instruction) ssa.Value {
	var val ssa.Value
	for _, ref := range *a.Referrers() {
		switch r := ref.(type) {
		case *ssa.Store:
			if r.Addr == ssa.Value(a) {
				if k, isC := r.Val.(*ssa.Const); !isC || k.Value != nil {
					// whole-value store of something else than the zero value
					return nil
				}
			}
		case *ssa.FieldAddr:
			if r.Field != idx {
				continue
			}
			for _, r2 := range *r.Referrers() {
				if st, ok := r2.(*ssa.Store); ok && st.Addr == ssa.Value(r) {
					if val != nil {
						return nil
					}
					val = st.Val
				}
			}
		}
	}
	return val
}

// c10ReachingStore finds the store to a that reaches load ld: the last one before it in its block,
// else (single-predecessor chain) the last one of the predecessors.
func c10ReachingStore(ld ssa.Instruction, a *ssa.Alloc) ssa.Value {
	b := ld.Block()
	limit := len(b.Instrs)
	for i, in := range b.Instrs {
		if in == ld {
			limit = i
		}
	}
	for hop := 0; hop < 8 && b != nil; hop++ {
		for i := limit - 1; i >= 0; i-- {
			switch x := b.Instrs[i].(type) {
			case *ssa.Store:
				if x.Addr == ssa.Value(a) {
					return x.Val
				}
			case ssa.CallInstruction:
				// a call may write the local only if its address escaped into a closure or call
				if !c10AddrLocal(a) {
					return nil
				}
				_ = x
			}
		}
		if len(b.Preds) != 1 {
			return nil
		}
		b = b.Preds[0]
		limit = len(b.Instrs)
	}
	return nil
}

// c10AddrLocal: the address of a is only used for loads and stores in its own function.
func c10AddrLocal(a *ssa.Alloc) bool {
	for _, ref := range *a.Referrers() {
		switch r := ref.(type) {
		case *ssa.Store:
			if r.Addr != ssa.Value(a) {
				return false
			}
		case *ssa.UnOp, *ssa.DebugRef:
		default:
			return false
		}
	}
	return true
}

// eval gives the abstract value of v in the current state.
func (cx c10Cx) eval(v ssa.Value) c10Abs {
	if cx.d > 24 {
		return c10U
	}
	cx = cx.deeper()
	t := cx.term(v)
	if a := cx.lookupFact(t); a != c10U {
		return a
	}
	v = c10Strip(v)
	switch x := v.(type) {
	case *ssa.Const:
		if x.Value == nil {
			return c10Nil
		}
		if x.Value.Kind() == constant.Bool {
			if constant.BoolVal(x.Value) {
				return c10True
			}
			return c10False
		}
	case *ssa.UnOp:
		if x.Op == token.NOT {
			return c10Not(cx.eval(x.X))
		}
		if x.Op == token.MUL {
			if al, ok := c10Strip(x.X).(*ssa.Alloc); ok {
				if s := c10WholeStore(al); s != nil {
					return cx.eval(s)
				}
				if s := cx.st.loads[x]; s != nil {
					return cx.eval(s)
				}
				if s := c10ReachingStore(x, al); s != nil {
					return cx.eval(s)
				}
			}
		}
	case *ssa.BinOp:
		if x.Op != token.EQL && x.Op != token.NEQ {
			return c10U
		}
		res := c10U
		a, b := cx.eval(x.X), cx.eval(x.Y)
		switch {
		case a == c10Nil && b == c10Nil:
			res = c10True
		case a == c10Nil && b == c10NonNil, a == c10NonNil && b == c10Nil:
			res = c10False
		case (a == c10True || a == c10False) && (b == c10True || b == c10False):
			if a == b {
				res = c10True
			} else {
				res = c10False
			}
		}
		if x.Op == token.NEQ {
			res = c10Not(res)
		}
		return res
	case *ssa.Phi:
		for _, p := range cx.phis {
			if p == x {
				return c10U
			}
		}
		cx.phis = append(cx.phis[:len(cx.phis):len(cx.phis)], x)
		if b, ok := cx.st.phis[x]; ok && b != ssa.Value(x) {
			return cx.eval(b)
		}
		res := c10U
		for i, e := range x.Edges {
			a := c10U
			if _, isPhi := c10Strip(e).(*ssa.Phi); !isPhi {
				a = cx.eval(e)
			}
			if a == c10U || (i > 0 && a != res) {
				return c10U
			}
			res = a
		}
		return res
	case *ssa.Call:
		if an.Static("app/errors.New", "app/errors.Wrap", "errors.New", "fmt.Errorf")(&x.Call) {
			return c10NonNil
		}
		if r, rcx, ok := cx.inline(x, 0); ok && x.Call.Signature().Results().Len() == 1 {
			return rcx.eval(r)
		}
	case *ssa.Alloc, *ssa.MakeMap, *ssa.MakeSlice, *ssa.MakeChan, *ssa.MakeClosure, *ssa.Function, *ssa.FieldAddr, *ssa.IndexAddr:
		return c10NonNil
	case *ssa.Parameter:
		fn := x.Parent()
		if len(cx.ch) > 0 && c10Callee(cx.ch[0]) == an.Orig(fn) {
			for i, p := range fn.Params {
				if p == x && i < len(cx.ch[0].Common().Args) {
					// evaluated in the caller's frame without its path state: only structural knowledge
					up := c10Cx{w: cx.w, ch: cx.ch[1:], st: cx.st, d: cx.d}
					return up.eval(cx.ch[0].Common().Args[i])
				}
			}
		}
	}
	return c10U
}

func c10Not(a c10Abs) c10Abs {
	switch a {
	case c10True:
		return c10False
	case c10False:
		return c10True
	}
	return c10U
}

func (cx c10Cx) lookupFact(t *c10T) c10Abs {
	neg := false
	for t.op == "not" {
		t = t.args[0]
		neg = !neg
	}
	a := c10U
	if cx.w != nil && cx.w.base != nil {
		a = cx.w.base(t)
	}
	if a == c10U {
		if f, ok := cx.st.facts[t.s]; ok {
			a = f.a
		}
	}
	if neg {
		return c10Not(a)
	}
	return a
}

// assume records that boolean value v has the given truth on this path.
func (cx c10Cx) assume(v ssa.Value, truth bool) {
	if cx.d > 24 {
		return
	}
	cx = cx.deeper()
	v = c10Strip(v)
	switch x := v.(type) {
	case *ssa.UnOp:
		if x.Op == token.NOT {
			cx.assume(x.X, !truth)
			return
		}
		if s := cx.cellOf(x); s != nil {
			cx.assume(s, truth)
			return
		}
	case *ssa.BinOp:
		if x.Op == token.EQL || x.Op == token.NEQ {
			eq := truth
			if x.Op == token.NEQ {
				eq = !truth
			}
			switch {
			case c10IsNilConst(c10Strip(x.Y)):
				cx.setNil(x.X, eq)
			case c10IsNilConst(c10Strip(x.X)):
				cx.setNil(x.Y, eq)
			default:
				if k, ok := c10BoolConst(x.Y); ok {
					cx.assume(x.X, eq == k)
				} else if k, ok := c10BoolConst(x.X); ok {
					cx.assume(x.Y, eq == k)
				} else if k, ok := c10Strip(x.Y).(*ssa.Const); ok && k.Value != nil {
					cx.importSummaryEq(x.X, k, eq)
				} else if k, ok := c10Strip(x.X).(*ssa.Const); ok && k.Value != nil {
					cx.importSummaryEq(x.Y, k, eq)
				}
			}
		}
	case *ssa.Phi:
		if b, ok := cx.st.phis[x]; ok && b != ssa.Value(x) {
			cx.assume(b, truth)
		}
	case *ssa.Const:
		return
	}
	a := c10False
	if truth {
		a = c10True
	}
	cx.put(cx.term(v), a)
	if truth {
		cx.importSummary(v, "true")
	} else {
		cx.importSummary(v, "false")
	}
}

// cellOf: ld loads a local variable whose content on this path is known: returns that value.
func (cx c10Cx) cellOf(ld *ssa.UnOp) ssa.Value {
	if ld.Op != token.MUL {
		return nil
	}
	al, ok := c10Strip(ld.X).(*ssa.Alloc)
	if !ok {
		return nil
	}
	if s := c10WholeStore(al); s != nil {
		return s
	}
	return cx.st.loads[ld]
}

func c10BoolConst(v ssa.Value) (bool, bool) {
	k, ok := c10Strip(v).(*ssa.Const)
	if !ok || k.Value == nil || k.Value.Kind() != constant.Bool {
		return false, false
	}
	return constant.BoolVal(k.Value), true
}

// put records a fact (subject to the walker's relevance filter).
func (cx c10Cx) put(t *c10T, a c10Abs) {
	if cx.w != nil && cx.w.keep != nil {
		u := t
		for u.op == "not" {
			u = u.args[0]
		}
		if !cx.w.keep(u) {
			return
		}
	}
	cx.st.set(t, a)
}

// setNil records the nilness of v.
func (cx c10Cx) setNil(v ssa.Value, isNil bool) {
	v = c10Strip(v)
	if _, isC := v.(*ssa.Const); isC {
		return
	}
	a := c10NonNil
	if isNil {
		a = c10Nil
	}
	if phi, ok := v.(*ssa.Phi); ok {
		if b, bound := cx.st.phis[phi]; bound && b != ssa.Value(phi) {
			cx.setNil(b, isNil)
		}
	}
	if ld, ok := v.(*ssa.UnOp); ok {
		if s := cx.cellOf(ld); s != nil {
			cx.setNil(s, isNil)
			return
		}
	}
	cx.put(cx.term(v), a)
	if isNil {
		cx.importSummary(v, "nil")
	}
}

// importSummary: v is the status (error result / boolean result) of a call to an in-package helper that
// has just been learned to be success: the facts common to all successful returns of the helper hold.
func (cx c10Cx) importSummary(v ssa.Value, kind string) {
	if cx.w == nil {
		return
	}
	var call *ssa.Call
	switch x := v.(type) {
	case *ssa.Call:
		call = x
	case *ssa.Extract:
		c, ok := x.Tuple.(*ssa.Call)
		if !ok || x.Index != c.Call.Signature().Results().Len()-1 {
			return
		}
		call = c
	default:
		return
	}
	for _, f := range cx.w.summaryK(call, cx.ch, kind, nil, cx.st) {
		cx.put(f.t, f.a)
	}
}

// importSummaryEq: v is the single result of an in-package helper (a mode / enum / classification of
// its inputs) and the path has just learned that it equals (eq) or differs from the constant k: the facts
// common to all returns of the helper that are consistent with that hold.
func (cx c10Cx) importSummaryEq(v ssa.Value, k *ssa.Const, eq bool) {
	if cx.w == nil {
		return
	}
	v = c10Strip(v)
	if phi, ok := v.(*ssa.Phi); ok {
		if b, bound := cx.st.phis[phi]; bound && b != ssa.Value(phi) {
			v = c10Strip(b)
		}
	}
	if ld, ok := v.(*ssa.UnOp); ok {
		if s := cx.cellOf(ld); s != nil {
			v = c10Strip(s)
		}
	}
	call, ok := v.(*ssa.Call)
	if !ok || call.Call.Signature().Results().Len() != 1 {
		return
	}
	kind := "ne:"
	if eq {
		kind = "eq:"
	}
	facts := cx.w.summaryK(call, cx.ch, kind+k.Value.ExactString(), k, cx.st)
	c10Debug("importSummaryEq %s %s%s -> %d facts", an.CalleeName(&call.Call), kind, k.Value.ExactString(), len(facts))
	for _, f := range facts {
		cx.put(f.t, f.a)
	}
}

func (w *c10W) summary(call *ssa.Call, ch c10Chain, kind string) []c10Fact {
	return w.summaryK(call, ch, kind, nil, nil)
}

// memory renders what the path knows about the content of local variables (the helper is explored with
// that knowledge, so that the values it is given are described as the caller describes them).
func (s *c10State) memory() (*c10State, string) {
	n := c10NewState()
	if s == nil || len(s.cells)+len(s.loads)+len(s.phis) == 0 {
		return n, ""
	}
	var keys []string
	for p, v := range s.phis {
		n.phis[p] = v
		keys = append(keys, fmt.Sprintf("p%p=%p", p, v))
	}
	n.cells = make(map[*ssa.Alloc]ssa.Value, len(s.cells))
	for a, v := range s.cells {
		n.cells[a] = v
		keys = append(keys, fmt.Sprintf("c%p=%p", a, v))
	}
	n.loads = make(map[*ssa.UnOp]ssa.Value, len(s.loads))
	for a, v := range s.loads {
		n.loads[a] = v
		keys = append(keys, fmt.Sprintf("l%p=%p", a, v))
	}
	sort.Strings(keys)
	return n, strings.Join(keys, ";")
}

// summary computes the facts that hold on every successful return (error result nil / boolean
// result true) of the in-package helper called by call.
func (w *c10W) summaryK(call *ssa.Call, ch c10Chain, kind string, konst *ssa.Const, from *c10State) []c10Fact {
	f := c10Callee(call)
	if f == nil || !c10SamePkg(f, w.fn) || len(ch) >= 3 || ch.has(f) || an.Orig(call.Parent()) == f {
		return nil
	}
	res := f.Signature.Results()
	if res.Len() == 0 {
		return nil
	}
	last := res.At(res.Len() - 1).Type()
	switch kind {
	case "nil":
		if !an.IsErrorType(last) {
			return nil
		}
	case "true", "false":
		if b, ok := last.Underlying().(*types.Basic); !ok || b.Kind() != types.Bool || res.Len() != 1 {
			return nil
		}
	default:
		if konst == nil || res.Len() != 1 {
			return nil
		}
	}
	nch := ch.push(call)
	st0, mem := from.memory()
	key := fmt.Sprintf("%p%s/%s/%t/%t/%t/%d/%s", f, nch.id(), kind, w.base != nil, w.keep != nil, w.noInline != nil, len(w.forall), mem)
	if w.sums == nil {
		w.sums = c10NewSums()
	}
	if got, ok := w.sums.m[key]; ok {
		return got
	}
	w.sums.m[key] = nil // recursion guard
	var common map[string]c10Fact
	n := 0
	sub := &c10W{fn: f, ch: nch, base: w.base, forall: w.forall, sums: w.sums, keep: w.keep, noInline: w.noInline}
	sub.visit = func(in ssa.Instruction, st *c10State) bool {
		r, ok := in.(*ssa.Return)
		if !ok {
			return false
		}
		rv := returnValues(r)
		if len(rv) == 0 {
			return true
		}
		status := rv[len(rv)-1]
		cx := sub.cx(st)
		if konst != nil {
			// returns of a constant other than (eq) / equal to (ne) the one compared with are excluded
			rk := c10ConstOf(cx, status)
			if rk != nil && rk.Value != nil && (constant.Compare(rk.Value, token.EQL, konst.Value) != strings.HasPrefix(kind, "eq:")) {
				return true
			}
		}
		a := cx.eval(status)
		if kind == "nil" && a == c10NonNil || kind == "true" && a == c10False || kind == "false" && a == c10True {
			return true
		}
		st = st.clone()
		cx = sub.cx(st)
		switch {
		case konst != nil:
		case kind == "nil":
			cx.setNil(status, true)
		case kind == "true":
			cx.assume(status, true)
		default:
			cx.assume(status, false)
		}
		n++
		if common == nil {
			common = map[string]c10Fact{}
			for k, v := range st.facts {
				common[k] = v
			}
		} else {
			for k, v := range common {
				if o, ok := st.facts[k]; !ok || o.a != v.a {
					delete(common, k)
				}
			}
		}
		return true
	}
	sub.run(st0)
	var out []c10Fact
	if !sub.overflow && n > 0 {
		keys := make([]string, 0, len(common))
		for k := range common {
			keys = append(keys, k)
		}
		sort.Strings(keys)
		for _, k := range keys {
			out = append(out, common[k])
		}
	}
	w.sums.m[key] = out
	return out
}

// ---------------------------------------------------------------------------------------------
// forall facts

// addForall: control leaves loop l at its header (the collection is exhausted). If every iteration
// that reaches a latch has passed a successful call matching w.forall on the element of that
// iteration, the fact forall:<callee>(collection, args with $k/$v for the element) holds.
func (w *c10W) addForall(l *an.Loop, st *c10State) {
	coll := l.RangeColl()
	var body *ssa.BasicBlock
	for _, s := range l.Header.Succs {
		if l.Body[s] {
			body = s
		}
	}
	if body == nil {
		return
	}
	cx := w.cx(st)
	collT, op := c10mk("unknowncoll", ""), "forall?"
	if coll != nil {
		collT, op = cx.term(coll), "forall"
	}
	// element placeholders
	repl := map[string]string{}
	for _, in := range l.Header.Instrs {
		if nx, ok := in.(*ssa.Next); ok {
			for _, ref := range *nx.Referrers() {
				if ex, ok := ref.(*ssa.Extract); ok {
					switch ex.Index {
					case 1:
						repl[cx.term(ex).s] = "$k"
					case 2:
						repl[cx.term(ex).s] = "$v"
					}
				}
			}
		}
	}
	var loopIDs []string
	for b := range l.Body {
		for _, in := range b.Instrs {
			if _, ok := in.(ssa.Value); ok {
				loopIDs = append(loopIDs, fmt.Sprintf("%p%s|", in, w.ch.id()))
			}
		}
	}
	var idxPhi *ssa.Phi
	for _, in := range l.Header.Instrs {
		if p, ok := in.(*ssa.Phi); ok {
			if _, isInt := p.Type().Underlying().(*types.Basic); isInt {
				idxPhi = p
			}
		}
	}
	norm := func(t *c10T) (*c10T, bool) {
		var rw func(t *c10T) *c10T
		rw = func(t *c10T) *c10T {
			if r, ok := repl[t.s]; ok {
				return c10mk("elem", r)
			}
			// coll[$k] is the element value; coll[i] for the index variable of a slice loop too
			if (t.op == "lookup" || t.op == "idx") && len(t.args) == 2 && t.args[0].s == collT.s {
				if k := rw(t.args[1]); k.is("elem", "$k") {
					return c10mk("elem", "$v")
				}
				if idxPhi != nil && (t.args[1].s == cx.term(idxPhi).s) {
					return c10mk("elem", "$v")
				}
			}
			if len(t.args) == 0 {
				return t
			}
			args := make([]*c10T, len(t.args))
			for i, a := range t.args {
				args[i] = rw(a)
			}
			if t.op == "lookup" || t.op == "len" {
				return c10mk(t.op, "", args...) // the read itself is per iteration; what it reads is described by its operands
			}
			return c10mk(t.op, t.name, args...)
		}
		out := rw(t)
		for _, id := range loopIDs {
			if strings.Contains(out.s, id) {
				return nil, false
			}
		}
		return out, true
	}
	// explore one iteration: from the first body block to any latch edge
	var common map[string]*c10T
	iterations := 0
	broken := false
	sub := &c10W{fn: w.fn, ch: w.ch, base: w.base, sums: w.sums, noInline: w.noInline}
	sub.prepare()
	var arrive func(st *c10State)
	arrive = func(st *c10State) {
		iterations++
		got := map[string]*c10T{}
		for _, f := range st.facts {
			if !(f.a == c10Nil || f.a == c10True) {
				continue
			}
			g := f.t
			if g.is("ext") && len(g.args) == 1 {
				g = g.args[0]
			}
			if !(g.op == "dyn" || g.op == "call" || g.op == "invoke") || !w.forallName(c10CallName(g)) {
				continue
			}
			args := make([]*c10T, 0, len(g.args)+1)
			args = append(args, collT)
			for _, a := range g.args {
				na, ok := norm(a)
				if !ok {
					na = c10mk("loopvar", "?") // recomputed in every iteration: not comparable outside the loop
				}
				args = append(args, na)
			}
			ft := c10mk(op, c10CallName(g), args...)
			got[ft.s] = ft
		}
		if common == nil {
			common = got
		} else {
			for k := range common {
				if got[k] == nil {
					delete(common, k)
				}
			}
		}
	}
	// walk the body; stop at the header (a completed iteration) and ignore paths that leave the loop
	sub.onEdge = func(from, to *ssa.BasicBlock, st *c10State) bool {
		if to == l.Header {
			arrive(st)
			return true
		}
		return !l.Body[to] // left the loop (return/break): handled by the outer walk
	}
	st0 := st.clone()
	sub.kill(l.Header, st0) // facts of the previous iteration do not count
	for b := range l.Body {
		sub.kill(b, st0)
	}
	// assume the header's continue condition
	if iff, ok := l.Header.Instrs[len(l.Header.Instrs)-1].(*ssa.If); ok {
		sub.cx(st0).assume(iff.Cond, l.Header.Succs[0] == body)
	}
	sub.block(body, l.Header, 0, st0)
	if sub.overflow {
		broken = true
	}
	if broken || iterations == 0 && len(l.Latches) > 0 {
		// no path completes an iteration (every iteration returns): nothing to learn
		return
	}
	for _, ft := range common {
		st.facts[ft.s] = c10Fact{ft, c10True}
	}
}

// c10ConstOf: the value is a constant on this path (directly, through a phi entered from a known edge
// or a local variable whose content is known).
func c10ConstOf(cx c10Cx, v ssa.Value) *ssa.Const {
	for i := 0; i < 6; i++ {
		v = c10Strip(v)
		switch x := v.(type) {
		case *ssa.Const:
			return x
		case *ssa.Phi:
			b, ok := cx.st.phis[x]
			if !ok || b == ssa.Value(x) {
				return nil
			}
			v = b
		case *ssa.UnOp:
			s := cx.cellOf(x)
			if s == nil {
				return nil
			}
			v = s
		default:
			return nil
		}
	}
	return nil
}

func (w *c10W) forallName(name string) bool { return w.forall[name] }
