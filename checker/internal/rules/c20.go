package rules

import (
	"fmt"
	"go/constant"
	"go/token"
	"go/types"
	"regexp"
	"sort"
	"strings"

	"golang.org/x/tools/go/ssa"

	"charonverif/internal/an"
	"charonverif/internal/rt"
)

func init() {
	Register(&Prop{
		ID: "C20",
		Decides: "app/eth2wrap.DutiesCache: (Z1) the proposer/attester/sync copies of the cache entry point and of fetch*, storeOrAmend*, trimBefore*, trimAfter* are the same function up to role renaming: " +
			"same canonical SSA, or - when written differently - the same effects (calls, map updates, deletions, stores, returns, each with structurally rendered operands) under equivalent conditions for every valuation of the condition atoms; " +
			"(Z2) requestedIdxs/duties/metadata of the three stores and ValIdxs.valIdxs are touched only under their embedded RWMutex, including writes made by handing the map to maps.DeleteFunc / an in-package helper that modifies its argument; " +
			"(Z3) no reference-typed part of a result aliases cache storage, and nothing written into cache storage is also handed to the caller or owned by the caller; " +
			"(Z4) every per-store trim function reached from Trim/InvalidateCache (directly or through a fully executed loop over a literal list of method values) removes from all three maps exactly the epochs k with k < / <= bound (Trim) or k > / >= bound (InvalidateCache), " +
			"decided by evaluating the deleting code (scan + delete, maps.DeleteFunc predicate, in-package helper) under the three orderings of k and the bound; the hit/miss decision is computed from the stored requestedIdxs: " +
			"the cache-only answer is unreachable unless the epoch is cached and the missing set is empty, the missing set is the request set minus the stored requestedIdxs (membership by set lookup or slices.Contains/Index, possibly inside an in-package helper), " +
			"after a partial hit the beacon node is asked for exactly the missing indices of the requested epoch and the same slice is recorded as requested; " +
			"(Z6) on the amend path of storeOrAmend*Duties (epoch already cached) a fetched duty is added only when its validator index is new, i.e. among (indices requested by this fetch) minus (indices already recorded) - " +
			"never the fetched batch as a whole, since a concurrent overlapping request may have recorded part of it in the meantime -, the scans over the fetched duties and over the new indices run to the end " +
			"(a validator may have several duties per epoch), and the indices recorded on that path are exactly the new ones; " +
			"(Z7) in each cache entry point no return with a nil error is reachable on the edge on which the beacon request for the indices that are not cached failed (a partial hit never degrades to the cached part), " +
			"and every duty of a successful answer is part of this call's beacon response or a cached duty whose append is confined, per element, to membership of its validator index in the set of indices this caller asked for " +
			"(lists returned by fetch*/storeOrAmend* hold every index ever requested for the epoch and are never handed on as a whole); " +
			"(Z5) production wiring subscribes InvalidateCache (method value or forwarding literal) to chain-reorg events and calls Trim from the slot subscriber.",
		NotDecided: "equality with the uncached beacon answer over request histories and interleavings (a value/schedule statement); values boxed in `any` inside the metadata map are assumed immutable " +
			"(a shallow map clone counts as a private copy).",
		Assumptions: []string{"values boxed in `any` inside the beacon response metadata are immutable scalars (roots, booleans): copying a map[string]any one level deep isolates it"},
		Run:         c20,
		Mutants:     append(append(append(c20Mutants(), c20PostFixMutants()...), c20N4Mutants()...), c20N5Mutants()...),
	})
}

const c20Pkg = "app/eth2wrap"

// the three roles: (entry point, Role in type/func names, state field of DutiesCache)
type c20Role struct{ entry, name, field, beacon string }

var c20Roles = []c20Role{
	{"ProposerDutiesCache", "Proposer", "proposerDuties", "ProposerDuties"},
	{"AttesterDutiesCache", "Attester", "attesterDuties", "AttesterDuties"},
	{"SyncCommDutiesCache", "Sync", "syncDuties", "SyncCommitteeDuties"},
}

var c20StateFields = []string{"duties", "metadata", "requestedIdxs"}

func c20Fn(c *rt.Ctx, method string) *ssa.Function {
	return c.Fn(c20Pkg + ".DutiesCache." + method)
}

// c20Helper resolves the per-role cache helper the entry point calls: kind "fetch" (reads the role's requestedIdxs
// map and writes none of the role's maps) or "storeOrAmend" (writes the role's requestedIdxs map). The conventional
// name is tried first; a renamed helper is found by what it does to the role's maps.
func c20Helper(c *rt.Ctx, role c20Role, kind string) *ssa.Function {
	if f := c.FnOpt(c20Pkg + ".DutiesCache." + kind + role.name + "Duties"); f != nil {
		return f
	}
	entry := c20Fn(c, role.entry)
	fkey := c20Pkg + "." + role.name + "Duties.requestedIdxs"
	var found []*ssa.Function
	seen := map[*ssa.Function]bool{}
	for _, ci := range an.Calls(entry, func(cc *ssa.CallCommon) bool { return !cc.IsInvoke() && cc.StaticCallee() != nil }, false) {
		f := an.Orig(ci.Common().StaticCallee())
		if f == nil || seen[f] || f.Pkg != entry.Pkg || len(f.Blocks) == 0 {
			continue
		}
		seen[f] = true
		writes := len(mapUpdates(f, isFieldMap(fkey))) > 0
		reads := false
		for _, in := range an.Instrs(f, true) {
			if lk, ok := in.(*ssa.Lookup); ok && isFieldMap(fkey)(lk.X) {
				reads = true
			}
		}
		if (kind == "storeOrAmend" && writes) || (kind == "fetch" && reads && !writes) {
			found = append(found, f)
		}
	}
	if len(found) != 1 {
		c.Bail("%s: cannot resolve the %s helper of the %s store (no function of that name, and %d functions called from the entry point fit its role)", role.entry, kind, role.field, len(found))
	}
	return found[0]
}

func c20(c *rt.Ctx) {
	c.Rule("Z1", 13, func() { c20Z1(c) })
	// Z2: 10 guarded fields, each read and written in at least one function, plus the read→write and entry-requirement
	// obligations; the count above that depends on how the accesses are spread over functions (checked per field in c20Z2)
	c.Rule("Z2", 24, func() { c20Z2(c) })
	c.Rule("Z3", 15, func() { c20Z3(c) })
	c.Rule("Z4", 42, func() { c20Z4(c) })
	c.Rule("Z5", 2, func() { c20Z5(c) })
	// Z6 (c20n4_amend.go): per role the first store, the scan over the fetched duties, the filter of the appended
	// duties and the recorded indices
	c.Rule("Z6", 9, func() { c20Z6(c) })
	// Z7 (c20n5_answer.go): per entry point the failed request and the provenance of the answer's elements
	c.Rule("Z7", 6, func() { c20Z7(c) })
}

// ---------------------------------------------------------------------------------------------
// Z1: sibling agreement on SSA form

var c20RoleRe = regexp.MustCompile(`(?i:proposer|attester|sync)(Committee|Comm)?`)

func c20Norm(s string) string { return c20RoleRe.ReplaceAllString(s, "X") }

// c20Canon renders fn (and its function literals) in a form that is independent of local names,
// string-literal contents, comments and of the role (Proposer/Attester/Sync) of every named entity.
func c20Canon(fn *ssa.Function) (lines []string, at []ssa.Instruction) {
	ids := map[ssa.Value]int{}
	next := 0
	for _, p := range fn.Params {
		ids[p] = next
		next++
	}
	for _, p := range fn.FreeVars {
		ids[p] = next
		next++
	}
	for _, b := range fn.Blocks {
		for _, in := range b.Instrs {
			if v, ok := in.(ssa.Value); ok {
				ids[v] = next
				next++
			}
		}
	}
	typ := func(t types.Type) string {
		if t == nil {
			return "-"
		}
		return c20Norm(types.TypeString(t, nil))
	}
	anon := map[*ssa.Function]int{}
	for i, a := range fn.AnonFuncs {
		anon[a] = i
	}
	ref := func(v ssa.Value) string {
		switch x := v.(type) {
		case nil:
			return "nil"
		case *ssa.Const:
			if x.Value != nil && x.Value.Kind() == constant.String {
				return "str"
			}
			if x.Value == nil {
				return "zero:" + typ(x.Type())
			}
			return x.Value.ExactString() + ":" + typ(x.Type())
		case *ssa.Function:
			if i, ok := anon[x]; ok {
				return fmt.Sprintf("anon#%d", i)
			}
			return "fn:" + c20Norm(an.FuncName(x))
		case *ssa.Global:
			return "global:" + c20Norm(x.Name())
		case *ssa.Builtin:
			return "builtin:" + x.Name()
		}
		if id, ok := ids[v]; ok {
			return fmt.Sprintf("v%d", id)
		}
		return "?"
	}
	fieldName := func(t types.Type, i int) string {
		k := an.FieldKey(t, i)
		return c20Norm(k[strings.LastIndex(k, ".")+1:])
	}
	for _, b := range fn.Blocks {
		for _, in := range b.Instrs {
			var sb strings.Builder
			fmt.Fprintf(&sb, "b%d %T", b.Index, in)
			switch x := in.(type) {
			case *ssa.BinOp:
				sb.WriteString(" " + x.Op.String())
			case *ssa.UnOp:
				fmt.Fprintf(&sb, " %s ok=%v", x.Op, x.CommaOk)
			case *ssa.FieldAddr:
				sb.WriteString(" ." + fieldName(x.X.Type(), x.Field))
			case *ssa.Field:
				sb.WriteString(" ." + fieldName(x.X.Type(), x.Field))
			case *ssa.Extract:
				fmt.Fprintf(&sb, " #%d", x.Index)
			case *ssa.Lookup:
				fmt.Fprintf(&sb, " ok=%v", x.CommaOk)
			case *ssa.TypeAssert:
				fmt.Fprintf(&sb, " %s ok=%v", typ(x.AssertedType), x.CommaOk)
			case *ssa.Alloc:
				fmt.Fprintf(&sb, " heap=%v", x.Heap)
			case *ssa.Next:
				fmt.Fprintf(&sb, " str=%v", x.IsString)
			case *ssa.Select:
				fmt.Fprintf(&sb, " blocking=%v n=%d", x.Blocking, len(x.States))
			case ssa.CallInstruction:
				if cc := x.Common(); cc.IsInvoke() {
					sb.WriteString(" invoke " + c20Norm(cc.Method.Name()))
				}
			}
			if len(b.Succs) > 0 {
				if _, isIf := in.(*ssa.If); isIf {
					fmt.Fprintf(&sb, " →b%d/b%d", b.Succs[0].Index, b.Succs[1].Index)
				} else if _, isJ := in.(*ssa.Jump); isJ {
					fmt.Fprintf(&sb, " →b%d", b.Succs[0].Index)
				}
			}
			if v, ok := in.(ssa.Value); ok {
				sb.WriteString(" : " + typ(v.Type()))
			}
			sb.WriteString(" (")
			for i, op := range in.Operands(nil) {
				if i > 0 {
					sb.WriteString(",")
				}
				if op == nil {
					sb.WriteString("nil")
				} else {
					sb.WriteString(ref(*op))
				}
			}
			sb.WriteString(")")
			lines = append(lines, sb.String())
			at = append(at, in)
		}
	}
	for i, a := range fn.AnonFuncs {
		ls, as := c20Canon(a)
		for j := range ls {
			lines = append(lines, fmt.Sprintf("anon#%d %s", i, ls[j]))
			at = append(at, as[j])
		}
	}
	return lines, at
}

func c20Z1(c *rt.Ctx) {
	// copies: the family copies duty values element by element. SyncCommitteeDuty carries a slice,
	// ProposerDuty/AttesterDuty are flat, so the sync sibling may legitimately need deep-copy code the
	// other two do not; it is then compared only as far as it is identical (Z3/Z4 check it on its own).
	type family struct {
		names  [3]string
		fns    [3]*ssa.Function
		copies bool
	}
	// flat[i]: the duty element type of role i holds no reference-typed member
	var flat [3]bool
	var elems [3]types.Type
	for i, r := range c20Roles {
		entry := c20Fn(c, r.entry)
		rst, ok := entry.Signature.Results().At(0).Type().Underlying().(*types.Struct)
		if !ok || rst.NumFields() == 0 {
			c.Bail("%s: unexpected result type", r.entry)
		}
		sl, ok := rst.Field(0).Type().Underlying().(*types.Slice)
		if !ok {
			c.Bail("%s: first result field is not a slice of duties", r.entry)
		}
		el := sl.Elem()
		if p, ok := el.Underlying().(*types.Pointer); ok {
			el = p.Elem()
		}
		flat[i] = c20Refless(el)
		elems[i] = el
	}
	// the families: every triple of functions reachable (in-package, through calls and function values) from the
	// API of DutiesCache whose names are equal up to the role word. Found by reachability, not by a list of names:
	// a renamed, split or merged helper family is compared like the original one.
	var roots []*ssa.Function
	for _, r := range c20Roles {
		roots = append(roots, c20Fn(c, r.entry))
	}
	roots = append(roots, c20Fn(c, "Trim"), c20Fn(c, "InvalidateCache"))
	byNorm := map[string]*family{}
	var order []string
	for _, fn := range c20Reachable(roots) {
		if fn.Parent() != nil || fn.Synthetic != "" {
			continue
		}
		short := fn.Name()
		ri := c20RoleOf(short)
		if ri < 0 {
			continue
		}
		key := c20Norm(an.FuncName(fn))
		fam := byNorm[key]
		if fam == nil {
			fam = &family{}
			byNorm[key] = fam
			order = append(order, key)
		}
		if fam.fns[ri] != nil {
			fam.names[ri] = "" // two functions of one role under the same normalised name: not a triple
			continue
		}
		fam.fns[ri], fam.names[ri] = fn, short
	}
	sort.Strings(order)
	var families []family
	for _, k := range order {
		fam := byNorm[k]
		if fam.fns[0] == nil || fam.fns[1] == nil || fam.fns[2] == nil || fam.names[0] == "" || fam.names[1] == "" || fam.names[2] == "" {
			continue
		}
		// copies: the family handles individual duty values (loads, copies, appends them), so the sibling whose
		// element type holds a slice may need deep-copy code the others do not
		for i := range fam.fns {
			if c20HandlesElem(fam.fns[i], elems[i]) {
				fam.copies = true
			}
		}
		families = append(families, *fam)
	}
	hasEntry := false
	for _, fam := range families {
		if fam.fns[0] == roots[0] && fam.fns[1] == roots[1] && fam.fns[2] == roots[2] {
			hasEntry = true
		}
	}
	if !hasEntry {
		c.Bail("the three cache entry points are not recognised as one family of siblings")
	}
	for _, fam := range families {
		var canon [3]string
		var lines [3][]string
		var at [3][]ssa.Instruction
		fns := fam.fns
		var full, skel [3][]string
		for i := range fam.names {
			lines[i], at[i] = c20Canon(fns[i])
			canon[i] = strings.Join(lines[i], "\n")
		}
		// second level (c20z.go): siblings whose SSA differs are still the same function when their effect
		// fingerprints agree; when only the skeletons agree (same effects and condition atoms, but how the
		// conditions are combined is not comparable) the verdict is undecided
		fingerprint := func(i int) {
			if full[i] == nil {
				full[i], skel[i] = c20Fingerprint(fns[i])
			}
		}
		var effs [3][]c20Effect
		same := func(i, j int) bool {
			if canon[i] == canon[j] {
				return true
			}
			fingerprint(i)
			fingerprint(j)
			if strings.Join(full[i], "\n") == strings.Join(full[j], "\n") {
				return true
			}
			// the same effects under the same conditions, however the conditions are nested or merged
			for _, k := range []int{i, j} {
				if effs[k] == nil {
					effs[k] = c20Effects(fns[k], "")
				}
			}
			eq, ok := c20SameEffects(effs[i], effs[j])
			return ok && eq
		}
		similar := func(i, j int) bool {
			fingerprint(i)
			fingerprint(j)
			return strings.Join(skel[i], "\n") == strings.Join(skel[j], "\n")
		}
		diff := func(i, j int) string { // first difference of sibling i against sibling j
			fingerprint(i)
			fingerprint(j)
			if d := c20FirstDiff(full[i], full[j]); d != "" {
				return fmt.Sprintf("effects differ from %s — %s", fam.names[j], d)
			}
			for k := 0; k < len(lines[i]) && k < len(lines[j]); k++ {
				if lines[i][k] != lines[j][k] {
					return fmt.Sprintf("first difference against %s at %s: `%s` vs `%s`", fam.names[j], c.P.Pos(posOf(at[i][k])), lines[i][k], lines[j][k])
				}
			}
			return fmt.Sprintf("differs in length from %s (%d vs %d SSA instructions)", fam.names[j], len(lines[i]), len(lines[j]))
		}
		for i := range fam.names {
			// the siblings i must agree with: all others, or (copying family) those of the same element flatness
			var peers []int
			for j := range fam.names {
				if j != i && (!fam.copies || flat[i] == flat[j]) {
					peers = append(peers, j)
				}
			}
			if len(peers) == 0 {
				allSame := true
				for j := range fam.names {
					if !same(i, j) {
						allSame = false
					}
				}
				if allSame {
					c.Good("sibling "+fam.names[i], fns[i].Pos(), "identical to the other roles")
				} else {
					c.Note("Z1: %s has no sibling with the same element copy semantics and differs from the other roles; not compared", fam.names[i])
				}
				continue
			}
			agree, close, first := 0, 0, -1
			for _, j := range peers {
				if same(i, j) {
					agree++
					continue
				}
				if similar(i, j) {
					close++
				}
				if first < 0 {
					first = j
				}
			}
			// with two peers, agreeing with one of them makes the other one the odd sibling
			switch {
			case agree == len(peers) || (len(peers) == 2 && agree == 1):
				c.Good("sibling "+fam.names[i], fns[i].Pos(), "")
			case agree+close == len(peers) || (len(peers) == 2 && agree+close >= 1):
				c.Unsure("sibling "+fam.names[i], fns[i].Pos(), "sibling differs in form from the other role(s) with the same effects and the same condition atoms; whether the conditions are combined the same way is not decided; "+diff(i, first))
			default:
				c.Bad("sibling "+fam.names[i], fns[i].Pos(), "sibling implementation diverges from the other role(s); "+diff(i, first))
			}
		}
	}
}

// c20RoleOf: index of the role word in a function name (-1: none, or more than one role).
func c20RoleOf(name string) int {
	idx := -1
	for _, m := range c20RoleRe.FindAllString(name, -1) {
		i := -1
		switch strings.ToLower(m)[:4] {
		case "prop":
			i = 0
		case "atte":
			i = 1
		case "sync":
			i = 2
		}
		if idx >= 0 && i != idx {
			return -1
		}
		idx = i
	}
	return idx
}

// c20Reachable: the functions of the roots' package reachable from the roots through static calls and through
// function values (method values, function literals are part of their parents), in a stable order.
func c20Reachable(roots []*ssa.Function) []*ssa.Function {
	seen := map[*ssa.Function]bool{}
	var out []*ssa.Function
	var visit func(f *ssa.Function)
	visit = func(f *ssa.Function) {
		f = an.Orig(f)
		if f == nil || seen[f] || len(roots) == 0 || (f.Pkg != roots[0].Pkg && !(f.Pkg == nil && f.Synthetic != "")) {
			return
		}
		seen[f] = true
		if f.Synthetic == "" {
			out = append(out, f)
		}
		for _, b := range f.Blocks {
			for _, in := range b.Instrs {
				for _, op := range in.Operands(nil) {
					if op == nil || *op == nil {
						continue
					}
					switch x := (*op).(type) {
					case *ssa.Function:
						visit(x)
					case *ssa.MakeClosure:
						if g, ok := x.Fn.(*ssa.Function); ok {
							visit(g)
						}
					}
				}
				if mc, ok := in.(*ssa.MakeClosure); ok {
					if g, ok := mc.Fn.(*ssa.Function); ok {
						visit(g)
					}
				}
			}
		}
		for _, a := range f.AnonFuncs {
			visit(a)
		}
	}
	for _, r := range roots {
		visit(r)
	}
	return out
}

// c20HandlesElem: fn (or one of its literals) has a value of the duty element type itself (not only slices of it).
func c20HandlesElem(fn *ssa.Function, elem types.Type) bool {
	// a function or literal that receives a duty (by value or by pointer) handles individual duties as well:
	// e.g. the per-element deep copy the sync sibling needs, written as a function literal of its own
	isElem := func(t types.Type) bool {
		if p, ok := t.Underlying().(*types.Pointer); ok {
			t = p.Elem()
		}
		return types.Identical(t, elem)
	}
	var lits func(f *ssa.Function) bool
	lits = func(f *ssa.Function) bool {
		for _, a := range f.AnonFuncs {
			for _, p := range a.Params {
				if isElem(p.Type()) {
					return true
				}
			}
			if lits(a) {
				return true
			}
		}
		return false
	}
	if lits(fn) {
		return true
	}
	for _, in := range an.Instrs(fn, true) {
		if v, ok := in.(ssa.Value); ok && v.Type() != nil && types.Identical(v.Type(), elem) {
			return true
		}
	}
	return false
}

// ---------------------------------------------------------------------------------------------
// Z2: lock discipline

func c20Z2(c *rt.Ctx) {
	table := an.LockTable{c20Pkg + ".ValIdxs.valIdxs": "RWMutex"} // replaced as a whole by UpdateActiveValIndices, read by the entry points
	for _, r := range c20Roles {
		for _, f := range c20StateFields {
			// every access is in fetch*/storeOrAmend*/trim* between Lock/RLock and the unlock of the embedded mutex
			table[c20Pkg+"."+r.name+"Duties."+f] = "RWMutex"
		}
	}
	n0 := len(c.Findings)
	lockRule(c, []string{c20Pkg}, table)
	// writes the core lockset sees only as reads: the guarded map handed to maps.DeleteFunc / maps.Copy / an
	// in-package helper that deletes from its parameter
	type agg struct {
		pos         token.Pos
		n           int
		bad, unsure string
	}
	groups := map[string]*agg{}
	var order []string
	for _, f := range an.H1920IndirectWrites(an.PkgFuncs(c.SSAPkg(c20Pkg)), table) {
		k := fmt.Sprintf("%s %s write (through a call)", an.FuncName(f.Fn), f.Field)
		g := groups[k]
		if g == nil {
			g = &agg{pos: f.Instr.Pos()}
			groups[k] = g
			order = append(order, k)
		}
		g.n++
		switch {
		case f.Unsure && g.unsure == "":
			g.unsure = f.Detail
		case !f.OK && !f.Unsure && g.bad == "":
			g.bad, g.pos = f.Detail, f.Instr.Pos()
		}
	}
	sort.Strings(order)
	for _, k := range order {
		g := groups[k]
		switch {
		case g.bad != "":
			c.Bad(k, g.pos, g.bad)
		case g.unsure != "":
			c.Unsure(k, g.pos, g.unsure)
		default:
			c.Good(k, g.pos, fmt.Sprintf("%d call(s) modifying the guarded map in place under the write lock", g.n))
		}
	}
	// vacuity per guarded field (the instance count depends on how the accesses are spread over functions):
	// every field of the table is read under its lock somewhere and written under its lock somewhere
	seen := map[string]bool{}
	for _, f := range c.Findings[n0:] {
		if f.Rule != "Z2" || f.Status != rt.OK {
			continue
		}
		for field := range table {
			if strings.Contains(f.Construct, " "+field+" read") {
				seen[field+" read"] = true
			}
			if strings.Contains(f.Construct, " "+field+" write") {
				seen[field+" write"] = true
			}
		}
	}
	var fields []string
	for field := range table {
		fields = append(fields, field)
	}
	sort.Strings(fields)
	for _, field := range fields {
		for _, mode := range []string{"read", "write"} {
			if !seen[field+" "+mode] {
				c.Unsure("table "+field+" "+mode, token.NoPos, "no "+mode+" of the guarded field under its mutex was found (renamed, or accessed in a form that is not followed)")
			}
		}
	}
}

// c20Seg is the part of the three entry points that is textually identical up to the duty type:
// locators inside it are made unique by starting at the line that names the type.
const c20Seg = `	dutiesResult := make([]*eth2v1.@DUTY@, 0, len(vidxs))

	if ok {
		// previouslyRequested is the set of indices already queried from the beacon for this epoch.
		// A validator with no duty for the epoch is absent from dutiesForEpoch.duties but present
		// in dutiesForEpoch.requestedIdxs, so this set (not the duties list) determines cache hits.
		previouslyRequested := make(map[eth2p0.ValidatorIndex]struct{}, len(dutiesForEpoch.requestedIdxs))
		for _, idx := range dutiesForEpoch.requestedIdxs {
			previouslyRequested[idx] = struct{}{}
		}

		requestedSet := make(map[eth2p0.ValidatorIndex]struct{}, len(requestVidxs))

		var missing []eth2p0.ValidatorIndex

		for _, idx := range requestVidxs {
			requestedSet[idx] = struct{}{}

			if _, hit := previouslyRequested[idx]; !hit {
				missing = append(missing, idx)
			}
		}
`

// c20SegTail follows c20Seg in the source (the assembly of the cached part of the answer).
const c20SegTail = `
		for _, d := range dutiesForEpoch.duties {
			if _, hit := requestedSet[d.ValidatorIndex]; hit {
				dutiesResult = append(dutiesResult, &d)
			}
		}
`

// c20Head is the identical prologue, made unique by the metrics label that precedes it.
const c20Head = `				missedCacheCount.WithLabelValues("@LABEL@").Inc()
		}
	}()

	c.activeValIdxs.RLock()
	allActive := c.activeValIdxs.valIdxs
	c.activeValIdxs.RUnlock()

	// Clone so requestVidxs is an independent working copy; it is narrowed to missing indices below
	// and must never alias either the caller's slice or the shared activeValIdxs slice.
	requestVidxs := slices.Clone(vidxs)
	if len(requestVidxs) == 0 {
		requestVidxs = slices.Clone(allActive)
	}
`

func c20SegMutant(id, expect, duty, old, new string) Mutant {
	seg := strings.ReplaceAll(c20Seg, "@DUTY@", duty)
	if !strings.Contains(seg, old) {
		seg += c20SegTail
	}
	if strings.Count(seg, old) != 1 {
		panic("c20 mutant " + id + ": locator not unique inside the segment")
	}
	return Mutant{ID: id, File: "app/eth2wrap/cache.go", Expect: expect, Old: seg, New: strings.Replace(seg, old, new, 1)}
}

func c20HeadMutant(id, expect, label, old, new string) Mutant {
	// the label line is indented one tab less in the source than in the constant's first line
	seg := strings.TrimPrefix(strings.ReplaceAll(c20Head, "@LABEL@", label), "\t")
	if strings.Count(seg, old) != 1 {
		panic("c20 mutant " + id + ": locator not unique inside the prologue")
	}
	return Mutant{ID: id, File: "app/eth2wrap/cache.go", Expect: expect, Old: seg, New: strings.Replace(seg, old, new, 1)}
}

// c20PostFixMutants become applicable once the two Z3 defects of the pinned tree are repaired with
// maps.Clone / slices.Clone as in fix-1.diff and fix-2.diff (their locators do not exist before);
// append them to c20Mutants() after the fix commits.
func c20PostFixMutants() []Mutant {
	const f = "app/eth2wrap/cache.go"
	return []Mutant{
		{ID: "C20-Z3-proposer-hit-returns-cached-metadata", File: f, Expect: "Z3|ProposerDutiesCache result.Metadata",
			Old: "return ProposerDutyWithMeta{Duties: dutiesResult, Metadata: maps.Clone(dutiesForEpoch.metadata)}", New: "return ProposerDutyWithMeta{Duties: dutiesResult, Metadata: dutiesForEpoch.metadata}"},
		{ID: "C20-Z3-attester-store-shares-metadata", File: f, Expect: "Z3|storeOrAmendAttesterDuties state.metadata",
			Old: "AttesterDutiesForEpoch{duties: dutiesDeref, metadata: maps.Clone(eth2Resp.Metadata),", New: "AttesterDutiesForEpoch{duties: dutiesDeref, metadata: eth2Resp.Metadata,"},
		{ID: "C20-Z3-sync-hit-shallow-copy", File: f, Expect: "Z3|SyncCommDutiesCache result.Duties",
			Old: "\t\t\t\td.ValidatorSyncCommitteeIndices = slices.Clone(d.ValidatorSyncCommitteeIndices)\n", New: ""},
		{ID: "C20-Z3-sync-store-shallow-copy", File: f, Expect: "Z3|storeOrAmendSyncDuties state.duties",
			Old: "\t\td.ValidatorSyncCommitteeIndices = slices.Clone(duty.ValidatorSyncCommitteeIndices)\n", New: ""},
	}
}

var _ = c20PostFixMutants

func c20Mutants() []Mutant {
	const f = "app/eth2wrap/cache.go"
	return []Mutant{
		// Z1
		c20SegMutant("C20-Z1-attester-hit-from-duties", "Z1|AttesterDutiesCache", "AttesterDuty",
			"for _, idx := range dutiesForEpoch.requestedIdxs {\n\t\t\tpreviouslyRequested[idx] = struct{}{}",
			"for _, d := range dutiesForEpoch.duties {\n\t\t\tpreviouslyRequested[d.ValidatorIndex] = struct{}{}"),
		{ID: "C20-Z1-fetch-sync-no-requested-check", File: f, Expect: "Z1|fetchSyncDuties",
			Old: "requestedIdxs, ok := c.syncDuties.requestedIdxs[epoch]\n\tif !ok {\n\t\treturn SyncDutiesForEpoch{}, false\n\t}",
			New: "requestedIdxs := c.syncDuties.requestedIdxs[epoch]"},
		{ID: "C20-Z1-amend-proposer-wrong-list", File: f, Expect: "Z1|storeOrAmendProposerDuties",
			Old: "alreadyRequestedIdxs := c.proposerDuties.requestedIdxs[epoch]\n\n\tfor _, idx := range dutiesForEpoch.requestedIdxs {\n\t\tif !slices.Contains(alreadyRequestedIdxs, idx) {",
			New: "alreadyRequestedIdxs := c.proposerDuties.requestedIdxs[epoch]\n\t_ = alreadyRequestedIdxs\n\n\tfor _, idx := range dutiesForEpoch.requestedIdxs {\n\t\tif !slices.Contains(newlyFetchedIdxs, idx) {"},
		{ID: "C20-Z1-trim-attester-one-map-inclusive", File: f, Expect: "Z1|trimBeforeAttesterDuties",
			Old: "\tfor k := range c.attesterDuties.metadata {\n\t\tif k < epoch {", New: "\tfor k := range c.attesterDuties.metadata {\n\t\tif k <= epoch {"},
		{ID: "C20-Z1-fetch-attester-no-metadata-check", File: f, Expect: "Z1|fetchAttesterDuties",
			Old: "\tmetadata, ok := c.attesterDuties.metadata[epoch]\n\tif !ok {\n\t\treturn AttesterDutiesForEpoch{}, false\n\t}\n",
			New: "\tmetadata := c.attesterDuties.metadata[epoch]\n"},
		{ID: "C20-Z1-amend-attester-never-reports-append", File: f, Expect: "Z1|storeOrAmendAttesterDuties",
			Old: "\talreadyRequestedIdxs := c.attesterDuties.requestedIdxs[epoch]\n\n\tfor _, idx := range dutiesForEpoch.requestedIdxs {\n\t\tif !slices.Contains(alreadyRequestedIdxs, idx) {\n\t\t\tappended = true\n\n",
			New: "\talreadyRequestedIdxs := c.attesterDuties.requestedIdxs[epoch]\n\n\tfor _, idx := range dutiesForEpoch.requestedIdxs {\n\t\tif !slices.Contains(alreadyRequestedIdxs, idx) {\n"},
		{ID: "C20-Z1-amend-proposer-inverted-match", File: f, Expect: "Z1|storeOrAmendProposerDuties",
			Old: "\tnewlyFetchedDuties := []eth2v1.ProposerDuty{}\n\n\tfor _, idx := range newlyFetchedIdxs {\n\t\tfor _, d := range dutiesForEpoch.duties {\n\t\t\tif d.ValidatorIndex == idx {",
			New: "\tnewlyFetchedDuties := []eth2v1.ProposerDuty{}\n\n\tfor _, idx := range newlyFetchedIdxs {\n\t\tfor _, d := range dutiesForEpoch.duties {\n\t\t\tif d.ValidatorIndex != idx {"},
		// Z2
		{ID: "C20-Z2-store-sync-no-lock", File: f, Expect: "Z2",
			Old: "\tc.syncDuties.Lock()\n\tdefer c.syncDuties.Unlock()\n\n\talreadySavedDuties", New: "\talreadySavedDuties"},
		{ID: "C20-Z2-fetch-attester-unlock-early", File: f, Expect: "Z2|entry-requirement app/eth2wrap.DutiesCache.AttesterDutiesCache",
			Old: "\tc.attesterDuties.RLock()\n\tdefer c.attesterDuties.RUnlock()\n\n\tduties, ok := c.attesterDuties.duties[epoch]\n",
			New: "\tc.attesterDuties.RLock()\n\tduties, ok := c.attesterDuties.duties[epoch]\n\tc.attesterDuties.RUnlock()\n"},
		{ID: "C20-Z2-trim-under-read-lock", File: f, Expect: "Z2|trimBeforeProposerDuties",
			Old: "func (c *DutiesCache) trimBeforeProposerDuties(epoch eth2p0.Epoch) bool {\n\tc.proposerDuties.Lock()\n\tdefer c.proposerDuties.Unlock()",
			New: "func (c *DutiesCache) trimBeforeProposerDuties(epoch eth2p0.Epoch) bool {\n\tc.proposerDuties.RLock()\n\tdefer c.proposerDuties.RUnlock()"},
		{ID: "C20-Z2-validxs-unlocked-write", File: f, Expect: "Z2|UpdateActiveValIndices",
			Old: "\tc.activeValIdxs.Lock()\n\tdefer c.activeValIdxs.Unlock()\n\n", New: ""},
		{ID: "C20-Z2-wrong-stores-lock", File: f, Expect: "Z2|entry-requirement app/eth2wrap.DutiesCache.InvalidateCache",
			Old: "func (c *DutiesCache) trimAfterSyncDuties(epoch eth2p0.Epoch) bool {\n\tc.syncDuties.Lock()\n\tdefer c.syncDuties.Unlock()",
			New: "func (c *DutiesCache) trimAfterSyncDuties(epoch eth2p0.Epoch) bool {\n\tc.attesterDuties.Lock()\n\tdefer c.attesterDuties.Unlock()"},
		// Z3
		c20SegMutant("C20-Z3-proposer-return-element-pointer", "Z3|ProposerDutiesCache result.Duties", "ProposerDuty",
			"for _, d := range dutiesForEpoch.duties {\n\t\t\tif _, hit := requestedSet[d.ValidatorIndex]; hit {\n\t\t\t\tdutiesResult = append(dutiesResult, &d)",
			"for i := range dutiesForEpoch.duties {\n\t\t\tif _, hit := requestedSet[dutiesForEpoch.duties[i].ValidatorIndex]; hit {\n\t\t\t\tdutiesResult = append(dutiesResult, &dutiesForEpoch.duties[i])"),
		c20HeadMutant("C20-Z3-attester-store-caller-slice", "Z3|storeOrAmendAttesterDuties state.requestedIdxs", "attester_duties",
			"requestVidxs := slices.Clone(vidxs)", "requestVidxs := vidxs"),
		c20HeadMutant("C20-Z3-sync-store-active-slice", "Z3|storeOrAmendSyncDuties state.requestedIdxs", "sync_committee_duties",
			"requestVidxs = slices.Clone(allActive)", "requestVidxs = allActive"),
		{ID: "C20-Z3-proposer-return-stored-slice", File: f, Expect: "Z3|storeOrAmendProposerDuties state.duties",
			Old: "\tdutiesResult = append(dutiesResult, eth2Resp.Data...)\n\n\treturn ProposerDutyWithMeta{Duties: dutiesResult,",
			New: "\tfor i := range dutiesDeref {\n\t\tdutiesResult = append(dutiesResult, &dutiesDeref[i])\n\t}\n\n\treturn ProposerDutyWithMeta{Duties: dutiesResult,"},
		// Z4
		{ID: "C20-Z4-trimafter-sync-skip-requested", File: f, Expect: "Z4|InvalidateCache→syncDuties.requestedIdxs",
			Old: "if k > epoch {\n\t\t\tdelete(c.syncDuties.requestedIdxs, k)", New: "if k > epoch {\n\t\t\tdelete(c.syncDuties.metadata, k)"},
		{ID: "C20-Z4-trimafter-attester-weakened", File: f, Expect: "Z4|InvalidateCache→attesterDuties.duties",
			Old: "for k := range c.attesterDuties.duties {\n\t\tif k > epoch {", New: "for k := range c.attesterDuties.duties {\n\t\tif k > epoch+1 {"},
		{ID: "C20-Z4-trimafter-proposer-flipped", File: f, Expect: "Z4|InvalidateCache→proposerDuties.metadata",
			Old: "for k := range c.proposerDuties.metadata {\n\t\tif k > epoch {", New: "for k := range c.proposerDuties.metadata {\n\t\tif k < epoch {"},
		{ID: "C20-Z4-invalidate-short-circuit", File: f, Expect: "Z4|InvalidateCache→attesterDuties",
			Old: "\tok = c.trimAfterAttesterDuties(epoch)\n", New: "\tok = ok && c.trimAfterAttesterDuties(epoch)\n"},
		{ID: "C20-Z4-trimbefore-proposer-break", File: f, Expect: "Z4|Trim→proposerDuties.metadata",
			Old: "\t\t\tdelete(c.proposerDuties.metadata, k)\n\n\t\t\tok = true\n\t\t}\n\t}\n\n\tfor k := range c.proposerDuties.requestedIdxs {\n\t\tif k < epoch {",
			New: "\t\t\tdelete(c.proposerDuties.metadata, k)\n\n\t\t\tok = true\n\n\t\t\tbreak\n\t\t}\n\t}\n\n\tfor k := range c.proposerDuties.requestedIdxs {\n\t\tif k < epoch {"},
		{ID: "C20-Z4-trim-skips-sync", File: f, Expect: "Z4|Trim→syncDuties",
			Old: "\tc.trimBeforeSyncDuties(epoch - dutiesCacheTrimThreshold)\n", New: "\tc.trimBeforeAttesterDuties(epoch - dutiesCacheTrimThreshold)\n"},
		c20SegMutant("C20-Z4-proposer-hit-from-duties", "Z4|ProposerDutiesCache already-requested", "ProposerDuty",
			"for _, idx := range dutiesForEpoch.requestedIdxs {\n\t\t\tpreviouslyRequested[idx] = struct{}{}",
			"for _, d := range dutiesForEpoch.duties {\n\t\t\tpreviouslyRequested[d.ValidatorIndex] = struct{}{}"),
		c20SegMutant("C20-Z4-proposer-inverted-hit", "Z4|ProposerDutiesCache missing", "ProposerDuty",
			"if _, hit := previouslyRequested[idx]; !hit {", "if _, hit := previouslyRequested[idx]; hit {"),
		c20SegMutant("C20-Z4-sync-missing-from-result-set", "Z4|SyncCommDutiesCache missing", "SyncCommitteeDuty",
			"if _, hit := previouslyRequested[idx]; !hit {", "if _, hit := requestedSet[idx+1]; !hit {"),
		{ID: "C20-Z4-proposer-no-narrowing", File: f, Expect: "Z4|ProposerDutiesCache beacon request indices",
			Old: "\t\trequestVidxs = missing\n\n\t\tlog.Debug(ctx, \"Cached proposer duties", New: "\t\tlog.Debug(ctx, \"Cached proposer duties"},
		{ID: "C20-Z4-sync-fast-path-weakened", File: f, Expect: "Z4|SyncCommDutiesCache cache-only answer requires an empty missing set",
			Old: "\t\tif len(missing) == 0 {\n\t\t\tcacheUsed = true\n\t\t\treturn SyncDutyWithMeta",
			New: "\t\tif len(missing) == 0 || len(dutiesResult) > 0 {\n\t\t\tcacheUsed = true\n\t\t\treturn SyncDutyWithMeta"},
		{ID: "C20-Z4-attester-record-all-requested", File: f, Expect: "Z4|AttesterDutiesCache recorded",
			Old: "requestedIdxs: requestVidxs})\n\tif !ok {\n\t\tlog.Debug(ctx, \"Failed to cache attester duties",
			New: "requestedIdxs: slices.Clone(vidxs)})\n\tif !ok {\n\t\tlog.Debug(ctx, \"Failed to cache attester duties"},
		{ID: "C20-Z4-attester-request-other-epoch", File: f, Expect: "Z4|AttesterDutiesCache one epoch",
			Old: "&eth2api.AttesterDutiesOpts{Epoch: epoch, Indices: requestVidxs}", New: "&eth2api.AttesterDutiesOpts{Epoch: epoch + 1, Indices: requestVidxs}"},
		{ID: "C20-Z4-sync-store-failed-response", File: f, Expect: "Z4|SyncCommDutiesCache store only",
			Old: "Indices: requestVidxs})\n\tif err != nil {\n\t\treturn SyncDutyWithMeta{}, err\n\t}",
			New: "Indices: requestVidxs})\n\tif err != nil {\n\t\tlog.Debug(ctx, \"Sync duties request failed\", z.Err(err))\n\t}"},
		// added with the shape-independent formulation of Z2/Z4 (c20x.go, c20y.go)
		{ID: "C20-Z4-deletefunc-wrong-direction", File: f, Expect: "Z4|InvalidateCache→syncDuties.requestedIdxs",
			Old: "\tfor k := range c.syncDuties.requestedIdxs {\n\t\tif k > epoch {\n\t\t\tdelete(c.syncDuties.requestedIdxs, k)\n\n\t\t\tok = true\n\t\t}\n\t}\n",
			New: "\tmaps.DeleteFunc(c.syncDuties.requestedIdxs, func(k eth2p0.Epoch, _ []eth2p0.ValidatorIndex) bool { return k < epoch })\n"},
		{ID: "C20-Z2-deletefunc-under-read-lock", File: f, Expect: "Z2|write (through a call)",
			Old: "func (c *DutiesCache) trimBeforeAttesterDuties(epoch eth2p0.Epoch) bool {\n\tc.attesterDuties.Lock()\n\tdefer c.attesterDuties.Unlock()",
			New: "func (c *DutiesCache) trimBeforeAttesterDuties(epoch eth2p0.Epoch) bool {\n\tc.attesterDuties.RLock()\n\tdefer c.attesterDuties.RUnlock()",
			More: [][2]string{{"\tfor k := range c.attesterDuties.metadata {\n\t\tif k < epoch {\n\t\t\tdelete(c.attesterDuties.metadata, k)\n\n\t\t\tok = true\n\t\t}\n\t}\n",
				"\tmaps.DeleteFunc(c.attesterDuties.metadata, func(k eth2p0.Epoch, _ map[string]any) bool { return k < epoch })\n"}}},
		c20SegMutant("C20-Z4-attester-membership-against-request", "Z4|AttesterDutiesCache already-requested", "AttesterDuty",
			"if _, hit := previouslyRequested[idx]; !hit {", "if !slices.Contains(vidxs, idx) {"),
		{ID: "C20-Z4-invalidate-loop-stops-early", File: f, Expect: "Z4|InvalidateCache→",
			Old: "\tok := c.trimAfterProposerDuties(epoch)\n\tif ok {\n\t\tinvalidated = true\n\t}\n\n\tok = c.trimAfterAttesterDuties(epoch)\n\tif ok {\n\t\tinvalidated = true\n\t}\n\n\tok = c.trimAfterSyncDuties(epoch)\n\tif ok {\n\t\tinvalidated = true\n\t}\n",
			New: "\tfor _, trim := range []func(eth2p0.Epoch) bool{c.trimAfterProposerDuties, c.trimAfterAttesterDuties, c.trimAfterSyncDuties} {\n\t\tif trim(epoch) {\n\t\t\tinvalidated = true\n\n\t\t\tbreak\n\t\t}\n\t}\n"},
		{ID: "C20-Z4-sync-fast-path-on-other-set", File: f, Expect: "Z4|SyncCommDutiesCache",
			Old: "\t\tif len(missing) == 0 {\n\t\t\tcacheUsed = true\n\t\t\treturn SyncDutyWithMeta",
			New: "\t\tif len(missing) == 0 || len(requestedSet) == len(dutiesResult) {\n\t\t\tcacheUsed = true\n\t\t\treturn SyncDutyWithMeta"},
		// Z5
		{ID: "C20-Z5-no-reorg-subscription", File: "app/app.go", Expect: "Z5|InvalidateCache",
			Old: "\t\tsseListener.SubscribeChainReorgEvent(dutiesCache.InvalidateCache)\n", New: ""},
		{ID: "C20-Z5-no-trim", File: "app/app.go", Expect: "Z5|slot subscriber",
			Old: "\t\t\tdutiesCache.Trim(eth2p0.Epoch(slot.Epoch()))\n", New: ""},
		{ID: "C20-Z5-trim-with-slot-number", File: "app/app.go", Expect: "Z5|slot subscriber",
			Old: "dutiesCache.Trim(eth2p0.Epoch(slot.Epoch()))", New: "dutiesCache.Trim(eth2p0.Epoch(slot.Slot))"},
	}
}

// ---------------------------------------------------------------------------------------------
// Z3: aliasing (E6, backward provenance of reference-typed values)

// c20Origin is an abstract memory owner a reference-typed value may point into.
type c20Origin struct {
	kind string        // "param" (memory reachable from a parameter), "ext" (result of a call leaving the package), "fresh" (memory allocated by instruction call), "unknown"
	fn   *ssa.Function // param: owner function
	idx  int           // param: index (0 = receiver of a method)
	call ssa.Value     // ext: the call
	path string        // field path below the owner (".proposerDuties.metadata", ".Data")
	why  string        // unknown: reason
	site string        // ext/fresh obtained inside followed callees: the chain of call sites leading to the allocation
}

func (o c20Origin) key() string {
	switch o.kind {
	case "param":
		return fmt.Sprintf("param %s #%d %s", an.FuncName(o.fn), o.idx, o.path)
	case "ext":
		return fmt.Sprintf("ext %p %s %s", o.call, o.site, o.path)
	case "fresh":
		return fmt.Sprintf("fresh %p %s %s", o.call, o.site, o.path)
	}
	return "unknown " + o.why
}

type c20Set map[string]c20Origin

func (s c20Set) add(o c20Origin) { s[o.key()] = o }
func (s c20Set) addAll(t c20Set) {
	for k, o := range t {
		s[k] = o
	}
}

// c20Refless: values of type t hold no mutable memory shared with their source when copied.
func c20Refless(t types.Type) bool { return c20refless(t, 0) }

func c20refless(t types.Type, d int) bool {
	if d > 8 {
		return false
	}
	switch u := t.Underlying().(type) {
	case *types.Basic:
		return u.Kind() != types.UnsafePointer
	case *types.Array:
		return c20refless(u.Elem(), d+1)
	case *types.Struct:
		for i := 0; i < u.NumFields(); i++ {
			if !c20refless(u.Field(i).Type(), d+1) {
				return false
			}
		}
		return true
	case *types.Tuple:
		for i := 0; i < u.Len(); i++ {
			if !c20refless(u.At(i).Type(), d+1) {
				return false
			}
		}
		return true
	}
	return false
}

// c20ShallowOK: copying elements of this type one level deep isolates them. Values boxed in an
// interface are assumed immutable (NotDecided clause).
func c20ShallowOK(t types.Type) bool {
	if _, isIface := t.Underlying().(*types.Interface); isIface {
		return true
	}
	return c20Refless(t)
}

type c20Alias struct {
	pkg  *ssa.Package
	busy map[string]bool
}

func c20FieldName(t types.Type, i int) string {
	k := an.FieldKey(t, i)
	return k[strings.LastIndex(k, ".")+1:]
}

func c20SelPath(sel []string) string {
	if len(sel) == 0 {
		return ""
	}
	return "." + strings.Join(sel, ".")
}

// typeAt follows field names through (pointers to) structs; nil if not resolvable.
func c20TypeAt(t types.Type, sel []string) types.Type {
	for _, f := range sel {
		if p, ok := t.Underlying().(*types.Pointer); ok {
			t = p.Elem()
		}
		st, ok := t.Underlying().(*types.Struct)
		if !ok {
			return nil
		}
		var ft types.Type
		for i := 0; i < st.NumFields(); i++ {
			if st.Field(i).Name() == f {
				ft = st.Field(i).Type()
			}
		}
		if ft == nil {
			return nil
		}
		t = ft
	}
	return t
}

// reach returns the owners of the memory reachable from (the part sel of) value v.
func (a *c20Alias) reach(v ssa.Value, sel []string) c20Set {
	out := c20Set{}
	if v == nil {
		return out
	}
	// look through conversions / boxing (not single-edge phis: handled below)
	for i := 0; i < 16; i++ {
		switch x := v.(type) {
		case *ssa.ChangeType:
			v = x.X
			continue
		case *ssa.MakeInterface:
			v = x.X
			continue
		case *ssa.ChangeInterface:
			v = x.X
			continue
		case *ssa.Convert:
			v = x.X
			continue
		case *ssa.TypeAssert:
			v = x.X
			continue
		}
		break
	}
	if t := c20TypeAt(v.Type(), sel); t != nil && c20Refless(t) {
		return out
	}
	key := fmt.Sprintf("%p|%s", v, strings.Join(sel, "."))
	if a.busy[key] {
		return out
	}
	a.busy[key] = true
	defer delete(a.busy, key)

	unknown := func(why string) c20Set {
		out.add(c20Origin{kind: "unknown", why: why})
		return out
	}
	switch x := v.(type) {
	case *ssa.Const:
		return out
	case *ssa.Parameter:
		idx := -1
		for i, p := range x.Parent().Params {
			if p == x {
				idx = i
			}
		}
		out.add(c20Origin{kind: "param", fn: x.Parent(), idx: idx, path: c20SelPath(sel)})
		return out
	case *ssa.Alloc:
		if x.Heap {
			out.add(c20Origin{kind: "fresh", call: x, path: c20SelPath(sel), why: "the local " + x.Comment})
		}
		out.addAll(a.contents(x, sel))
		return out
	case *ssa.Phi:
		for _, e := range x.Edges {
			out.addAll(a.reach(e, sel))
		}
		return out
	case *ssa.UnOp:
		if x.Op == token.MUL {
			if al, ok := x.X.(*ssa.Alloc); ok {
				return a.contents(al, sel) // a load copies the content, not the variable
			}
			return a.reach(x.X, sel)
		}
		if x.Op == token.ARROW {
			return unknown("value received from a channel")
		}
		return out
	case *ssa.FieldAddr:
		return a.reach(x.X, append([]string{c20FieldName(x.X.Type(), x.Field)}, sel...))
	case *ssa.Field:
		return a.reach(x.X, append([]string{c20FieldName(x.X.Type(), x.Field)}, sel...))
	case *ssa.IndexAddr:
		return a.reach(x.X, nil)
	case *ssa.Index:
		return a.reach(x.X, nil)
	case *ssa.Slice:
		return a.reach(x.X, nil)
	case *ssa.Lookup:
		return a.reach(x.X, nil)
	case *ssa.Extract:
		switch t := x.Tuple.(type) {
		case *ssa.Call:
			return a.callResult(t, x.Index, sel)
		case *ssa.Lookup:
			if x.Index == 0 {
				return a.reach(t.X, nil)
			}
			return out
		case *ssa.TypeAssert:
			if x.Index == 0 {
				return a.reach(t.X, sel)
			}
			return out
		case *ssa.Next:
			if r, ok := t.Iter.(*ssa.Range); ok {
				return a.reach(r.X, nil)
			}
		case *ssa.UnOp:
			if x.Index == 0 {
				return a.reach(t, sel)
			}
			return out
		}
		return unknown("tuple of unknown origin")
	case *ssa.Call:
		return a.callResult(x, 0, sel)
	case *ssa.MakeSlice, *ssa.MakeMap:
		// fresh container: itself, and the owners of whatever is stored into it directly
		out.add(c20Origin{kind: "fresh", call: v, why: "the " + strings.TrimPrefix(fmt.Sprintf("%T", v), "*ssa.Make") + " made in " + an.FuncName(x.(ssa.Instruction).Parent())})
		for _, ref := range *v.Referrers() {
			switch r := ref.(type) {
			case *ssa.MapUpdate:
				if r.Map == v {
					// element-wise copy: values boxed in an interface are taken as immutable (as for maps.Clone)
					if !c20ShallowOK(r.Key.Type()) {
						out.addAll(a.reach(r.Key, nil))
					}
					if !c20ShallowOK(r.Value.Type()) {
						out.addAll(a.reach(r.Value, nil))
					}
				}
			case *ssa.IndexAddr:
				out.addAll(a.storesTo(r, nil))
			}
		}
		return out
	case *ssa.MakeChan:
		return unknown("channel")
	case *ssa.FreeVar:
		return unknown("captured variable " + x.Name())
	case *ssa.Global:
		return unknown("package variable " + x.Name())
	case *ssa.Function, *ssa.MakeClosure, *ssa.Builtin:
		return out
	}
	return unknown(fmt.Sprintf("unhandled SSA value %T", v))
}

// storesTo: owners of the values stored through address addr (a FieldAddr/IndexAddr of a local).
func (a *c20Alias) storesTo(addr ssa.Value, sel []string) c20Set {
	out := c20Set{}
	for _, ref := range *addr.Referrers() {
		switch r := ref.(type) {
		case *ssa.Store:
			if r.Addr == addr {
				out.addAll(a.reach(r.Val, sel))
			}
		case *ssa.FieldAddr:
			name := c20FieldName(r.X.Type(), r.Field)
			if len(sel) == 0 {
				out.addAll(a.storesTo(r, nil))
			} else if sel[0] == name {
				out.addAll(a.storesTo(r, sel[1:]))
			}
		case *ssa.IndexAddr:
			out.addAll(a.storesTo(r, nil))
		case ssa.CallInstruction:
			for _, arg := range r.Common().Args {
				if arg == addr {
					if f := r.Common().StaticCallee(); f == nil || !strings.HasPrefix(an.FuncName(f), "sync.") {
						out.add(c20Origin{kind: "unknown", why: "address of a local passed to " + an.CalleeName(r.Common())})
					}
				}
			}
		}
	}
	return out
}

// contents: owners of the memory reachable from local al (its part sel), with a strong update for
// struct fields that are always overwritten between the whole-struct store and every point where
// the struct is observed as a whole.
func (a *c20Alias) contents(al *ssa.Alloc, sel []string) c20Set {
	out := c20Set{}
	elem := al.Type().Underlying().(*types.Pointer).Elem()
	st, isStruct := elem.Underlying().(*types.Struct)
	var whole []*ssa.Store
	var observers []ssa.Instruction
	fieldStores := map[string][]*ssa.Store{}
	for _, ref := range *al.Referrers() {
		switch r := ref.(type) {
		case *ssa.Store:
			if r.Addr == ssa.Value(al) {
				whole = append(whole, r)
			} else {
				observers = append(observers, r)
			}
		case *ssa.FieldAddr:
			name := c20FieldName(r.X.Type(), r.Field)
			for _, r2 := range *r.Referrers() {
				if s, ok := r2.(*ssa.Store); ok && s.Addr == ssa.Value(r) {
					fieldStores[name] = append(fieldStores[name], s)
				}
			}
		case *ssa.IndexAddr, *ssa.DebugRef:
		default:
			observers = append(observers, r)
		}
	}
	if !isStruct {
		out.addAll(a.storesTo(al, sel))
		return out
	}
	overwritten := func(w *ssa.Store, field string) bool {
		if len(fieldStores[field]) == 0 {
			return false
		}
		for _, e := range observers {
			if !an.Dominates(w, e) {
				continue // observed before this store: irrelevant to what w leaves behind
			}
			ok := false
			for _, s := range fieldStores[field] {
				if an.Dominates(w, s) && an.Dominates(s, e) {
					ok = true
				}
			}
			if !ok {
				return false
			}
		}
		return true
	}
	var fields []string
	if len(sel) > 0 {
		fields = []string{sel[0]}
	} else {
		for i := 0; i < st.NumFields(); i++ {
			if !c20Refless(st.Field(i).Type()) {
				fields = append(fields, st.Field(i).Name())
			}
		}
	}
	for _, f := range fields {
		var rest []string
		if len(sel) > 0 {
			rest = sel[1:]
		}
		for _, w := range whole {
			if !overwritten(w, f) {
				out.addAll(a.reach(w.Val, append([]string{f}, rest...)))
			}
		}
	}
	// field-level stores (and unknown escapes of field addresses)
	out.addAll(a.storesToFields(al, sel))
	return out
}

func (a *c20Alias) storesToFields(al *ssa.Alloc, sel []string) c20Set {
	out := c20Set{}
	for _, ref := range *al.Referrers() {
		if r, ok := ref.(*ssa.FieldAddr); ok {
			name := c20FieldName(r.X.Type(), r.Field)
			if len(sel) == 0 {
				out.addAll(a.storesTo(r, nil))
			} else if sel[0] == name {
				out.addAll(a.storesTo(r, sel[1:]))
			}
		}
	}
	return out
}

// callResult: owners of result idx of a call.
func (a *c20Alias) callResult(call *ssa.Call, idx int, sel []string) c20Set {
	out := c20Set{}
	cc := &call.Call
	if b, ok := cc.Value.(*ssa.Builtin); ok {
		switch b.Name() {
		case "append":
			out.add(c20Origin{kind: "fresh", call: call, why: "a slice grown by append in " + an.FuncName(call.Parent())})
			out.addAll(a.reach(cc.Args[0], nil))
			if len(cc.Args) > 1 {
				if sl, ok := cc.Args[1].Type().Underlying().(*types.Slice); ok && !c20Refless(sl.Elem()) {
					out.addAll(a.reach(cc.Args[1], nil))
				}
			}
		}
		return out
	}
	callee := cc.StaticCallee()
	if callee != nil {
		switch an.FuncName(callee) {
		case "slices.Clone":
			if sl, ok := cc.Args[0].Type().Underlying().(*types.Slice); ok && !c20ShallowOK(sl.Elem()) {
				out.addAll(a.reach(cc.Args[0], nil))
			}
			return out
		case "maps.Clone":
			if m, ok := cc.Args[0].Type().Underlying().(*types.Map); ok && !(c20ShallowOK(m.Elem()) && c20ShallowOK(m.Key())) {
				out.addAll(a.reach(cc.Args[0], nil))
			}
			return out
		}
		if callee.Pkg == a.pkg && len(callee.Blocks) > 0 && !cc.IsInvoke() {
			inner := c20Set{}
			for _, r := range an.Returns(callee) {
				if idx < len(r.Results) {
					inner.addAll(a.reach(r.Results[idx], sel))
				}
			}
			for _, o := range inner {
				if o.kind == "param" && o.fn == callee && o.idx >= 0 && o.idx < len(cc.Args) {
					var psel []string
					if o.path != "" {
						psel = strings.Split(strings.TrimPrefix(o.path, "."), ".")
					}
					out.addAll(a.reach(cc.Args[o.idx], psel))
				} else if o.kind == "fresh" || o.kind == "ext" {
					// memory obtained inside the callee is new for every execution of this call site; two
					// different allocations of the callee stay different (identity = allocation + call chain)
					o.site = fmt.Sprintf("%p/", call) + o.site
					out.add(o)
				} else {
					out.add(o)
				}
			}
			return out
		}
	}
	out.add(c20Origin{kind: "ext", call: call, path: c20SelPath(sel), why: an.CalleeName(cc)})
	return out
}

// c20MayAlias: two field paths below the same owner may denote overlapping memory.
func c20MayAlias(p, q string) bool {
	return p == q || strings.HasPrefix(p, q+".") || strings.HasPrefix(q, p+".") || p == "" || q == ""
}

func c20Z3(c *rt.Ctx) {
	pkg := c.SSAPkg(c20Pkg)
	al := &c20Alias{pkg: pkg, busy: map[string]bool{}}
	describe := func(o c20Origin) string {
		switch o.kind {
		case "param":
			if o.idx == 0 && o.fn.Signature.Recv() != nil {
				return "cache storage c" + o.path
			}
			return fmt.Sprintf("the caller's argument %s%s", o.fn.Params[o.idx].Name(), o.path)
		case "ext":
			return "the response of " + o.why + o.path
		case "fresh":
			return o.why + o.path
		}
		return o.why
	}
	isState := func(o c20Origin, entry *ssa.Function) bool {
		return o.kind == "param" && o.fn == entry && o.idx == 0
	}
	for _, role := range c20Roles {
		entry := c20Fn(c, role.entry)
		if entry.Signature.Results().Len() != 2 {
			c.Bail("%s: unexpected result list", role.entry)
		}
		rst, ok := entry.Signature.Results().At(0).Type().Underlying().(*types.Struct)
		if !ok {
			c.Bail("%s: first result is not a struct", role.entry)
		}
		// K2: result fields
		returned := map[string]c20Set{}
		for i := 0; i < rst.NumFields(); i++ {
			f := rst.Field(i)
			if c20Refless(f.Type()) {
				continue
			}
			set := c20Set{}
			for _, r := range an.Returns(entry) {
				set.addAll(al.reach(r.Results[0], []string{f.Name()}))
			}
			returned[f.Name()] = set
			var bad, unsure []string
			for _, o := range set {
				if isState(o, entry) {
					bad = append(bad, describe(o))
				} else if o.kind == "unknown" {
					unsure = append(unsure, describe(o))
				}
			}
			sort.Strings(bad)
			sort.Strings(unsure)
			construct := role.entry + " result." + f.Name()
			switch {
			case len(bad) > 0:
				c.Bad(construct, entry.Pos(), "the value handed to the caller shares memory with "+strings.Join(bad, ", ")+
					": a caller writing through it changes what later callers receive")
			case len(unsure) > 0:
				c.Unsure(construct, entry.Pos(), "cannot trace the origin of the result: "+strings.Join(unsure, ", "))
			default:
				c.Good(construct, entry.Pos(), fmt.Sprintf("%d origin(s), none in cache storage", len(set)))
			}
		}
		// K1: writes into the role's store
		store := c20Helper(c, role, "storeOrAmend")
		sites := an.Calls(entry, func(cc *ssa.CallCommon) bool { return cc.StaticCallee() == store }, false)
		if len(sites) == 0 {
			c.Bail("%s does not call %s", role.entry, store.Name())
		}
		for _, sf := range c20StateFields {
			fkey := c20Pkg + "." + role.name + "Duties." + sf
			ups := mapUpdates(store, isFieldMap(fkey))
			if len(ups) == 0 {
				c.Bail("no write to %s in %s", fkey, store.Name())
			}
			own := "." + role.field + "." + sf
			set := c20Set{}
			for _, up := range ups {
				for _, o := range al.reach(up.Value, nil) {
					if o.kind == "param" && o.fn == store && o.idx > 0 {
						var psel []string
						if o.path != "" {
							psel = strings.Split(strings.TrimPrefix(o.path, "."), ".")
						}
						for _, site := range sites {
							set.addAll(al.reach(site.Common().Args[o.idx], psel))
						}
					} else {
						set.add(o)
					}
				}
			}
			var bad, unsure []string
			for _, o := range set {
				switch {
				case o.kind == "param" && o.idx == 0 && (o.fn == store || o.fn == entry):
					if o.path != own && !strings.HasPrefix(o.path, own+".") {
						bad = append(bad, "aliases another part of the cache ("+describe(o)+")")
					}
				case o.kind == "param":
					bad = append(bad, "is "+describe(o)+", which the caller still owns")
				case o.kind == "ext" || o.kind == "fresh":
					for rf, rs := range returned {
						for _, ro := range rs {
							if ro.kind == o.kind && ro.call == o.call && ro.site == o.site && c20MayAlias(ro.path, o.path) {
								bad = append(bad, "is "+describe(o)+", which is also handed to the caller in result."+rf)
							}
						}
					}
				default:
					unsure = append(unsure, describe(o))
				}
			}
			sort.Strings(bad)
			sort.Strings(unsure)
			construct := store.Name() + " state." + sf
			switch {
			case len(bad) > 0:
				c.Bad(construct, posOf(ups[0]), "the value written into the cache "+strings.Join(bad, "; "))
			case len(unsure) > 0:
				c.Unsure(construct, posOf(ups[0]), "cannot trace the origin of the stored value: "+strings.Join(unsure, ", "))
			default:
				c.Good(construct, posOf(ups[0]), fmt.Sprintf("%d write(s), private to the cache", len(ups)))
			}
		}
	}
}

// ---------------------------------------------------------------------------------------------
// Z4: trims cover all three maps; hit/miss bookkeeping

// c20LoopClosed: the loop is left only through its header (no break/return inside the body).
func c20LoopClosed(l *an.Loop) bool {
	for b := range l.Body {
		if b == l.Header {
			continue
		}
		for _, s := range b.Succs {
			if !l.Body[s] {
				return false
			}
		}
	}
	return true
}

// c20OnEdge: block target is only reachable through the edge from -> from.Succs[i].
func c20OnEdge(succ *ssa.BasicBlock, target *ssa.BasicBlock) bool {
	return len(succ.Preds) == 1 && succ.Dominates(target)
}

// c20GuardedDelete looks in g for `delete(c.<role>.<field>, k)` inside a closed range loop over the same
// map, k the loop key, on the edge where `k <op> bound` holds for bound = parameter 1 of g. Returns the
// comparison operator, normalised to k on the left ("" and a reason if there is none).
func c20GuardedDelete(g *ssa.Function, fkey string) (token.Token, string) {
	why := "no deletion from this map"
	if len(g.Params) < 2 {
		return token.ILLEGAL, "unexpected signature"
	}
	for _, in := range an.Instrs(g, false) {
		call, ok := in.(*ssa.Call)
		if !ok {
			continue
		}
		b, ok := call.Call.Value.(*ssa.Builtin)
		if !ok || b.Name() != "delete" {
			continue
		}
		if k, _, ok := an.FieldOf(call.Call.Args[0]); !ok || k != fkey {
			continue
		}
		l := an.InnermostLoop(g, call.Block())
		if l == nil {
			why = "deletion is not inside a scan of the map"
			continue
		}
		if k, _, ok := an.FieldOf(l.RangeColl()); !ok || k != fkey || !an.IsMapType(l.RangeColl().Type()) {
			why = "deletion happens while scanning another collection"
			continue
		}
		key := an.Unwrap(call.Call.Args[1])
		if !l.ElemOf(key) {
			why = "deleted key is not the key of the scan"
			continue
		}
		if !c20LoopClosed(l) {
			why = "the scan can stop before having visited every epoch"
			continue
		}
		for _, cd := range an.CondsOn(g, key) {
			if cd.Other != ssa.Value(g.Params[1]) || !l.Body[cd.If.Block()] {
				continue
			}
			for _, base := range []bool{true, false} {
				if !c20OnEdge(cd.Succ(base), call.Block()) {
					continue
				}
				op := cd.Op
				if !base {
					switch op {
					case token.LSS:
						op = token.GEQ
					case token.GEQ:
						op = token.LSS
					case token.GTR:
						op = token.LEQ
					case token.LEQ:
						op = token.GTR
					case token.EQL:
						op = token.NEQ
					case token.NEQ:
						op = token.EQL
					}
				}
				return op, ""
			}
		}
		why = "deletion is not confined to a comparison of the scanned epoch with the epoch parameter"
	}
	return token.ILLEGAL, why
}

func c20Flip(op token.Token) token.Token {
	switch op {
	case token.LSS:
		return token.GTR
	case token.LEQ:
		return token.GEQ
	case token.GTR:
		return token.LSS
	case token.GEQ:
		return token.LEQ
	}
	return op
}

// c20RetVals resolves the results of a return through the spill slots `defer` introduces.
func c20RetVals(r *ssa.Return) []ssa.Value {
	out := make([]ssa.Value, len(r.Results))
	for i, v := range r.Results {
		out[i] = v
		ld, ok := v.(*ssa.UnOp)
		if !ok || ld.Op != token.MUL {
			continue
		}
		al, ok := ld.X.(*ssa.Alloc)
		if !ok {
			continue
		}
		for _, in := range r.Block().Instrs {
			if in == ssa.Instruction(ld) {
				break
			}
			if st, ok := in.(*ssa.Store); ok && st.Addr == ssa.Value(al) {
				out[i] = st.Val
			}
		}
	}
	return out
}

// c20FieldStore returns the value stored into field name of the composite literal whose loaded value is v.
func c20FieldStore(v ssa.Value, name string) ssa.Value {
	var al *ssa.Alloc
	switch x := v.(type) {
	case *ssa.Alloc:
		al = x
	case *ssa.UnOp:
		if x.Op == token.MUL {
			al, _ = x.X.(*ssa.Alloc)
		}
	}
	if al == nil {
		return nil
	}
	var out ssa.Value
	n := 0
	for _, ref := range *al.Referrers() {
		fa, ok := ref.(*ssa.FieldAddr)
		if !ok || c20FieldName(fa.X.Type(), fa.Field) != name {
			continue
		}
		for _, r2 := range *fa.Referrers() {
			if st, ok := r2.(*ssa.Store); ok && st.Addr == ssa.Value(fa) {
				out = st.Val
				n++
			}
		}
	}
	if n == 0 {
		if src := an.UniqueStore(al); src != nil {
			return c20FieldStore(src, name)
		}
	}
	if n != 1 {
		return nil
	}
	return out
}

// c20FromCallField: v is field `name` of result 0 of call (directly or through the local it is kept in).
func c20FromCallField(v ssa.Value, call ssa.Value, name string) bool {
	isRes := func(x ssa.Value) bool {
		ex, ok := x.(*ssa.Extract)
		return ok && ex.Tuple == call && ex.Index == 0
	}
	switch x := an.Unwrap(v).(type) {
	case *ssa.Field:
		return c20FieldName(x.X.Type(), x.Field) == name && isRes(x.X)
	case *ssa.UnOp:
		if fa, ok := x.X.(*ssa.FieldAddr); ok && x.Op == token.MUL && c20FieldName(fa.X.Type(), fa.Field) == name {
			if al, ok := fa.X.(*ssa.Alloc); ok {
				if src := an.UniqueStore(al); src != nil && isRes(src) {
					return true
				}
			}
		}
	}
	return false
}

func c20Z4(c *rt.Ctx) {
	// --- trims
	type trimSpec struct {
		api     string
		allowed []token.Token
		what    string
	}
	for _, ts := range []trimSpec{
		{"Trim", []token.Token{token.LSS, token.LEQ}, "older than"},
		{"InvalidateCache", []token.Token{token.GTR, token.GEQ}, "after"},
	} {
		api := c20Fn(c, ts.api)
		epochP := api.Params[len(api.Params)-1]
		callees, cu := c20TrimCallees(api)
		if len(callees) == 0 {
			if cu != "" {
				c.Bail("%s: %s", ts.api, cu)
			}
			c.Bail("%s calls no per-store trim function", ts.api)
		}
		// the value every deleting comparison must refer to: the epoch handed to the API (Trim: possibly minus a constant)
		isBound := func(w *c19Walker, v ssa.Value) bool {
			os := w.origins(v)
			if len(os) == 0 {
				return false
			}
			for _, o := range os {
				o = an.Unwrap(o)
				if o == ssa.Value(epochP) {
					continue
				}
				if bin, isBin := o.(*ssa.BinOp); isBin && ts.api == "Trim" && bin.Op == token.SUB && c19Only(bin.X, epochP) {
					if _, isC := bin.Y.(*ssa.Const); isC {
						continue
					}
				}
				return false
			}
			return true
		}
		type cell struct {
			res c20DelResult
			tc  c20TrimCallee
		}
		attributed := map[ssa.Instruction]bool{}
		results := map[string][]cell{}
		var keyT types.Type
		for _, role := range c20Roles {
			for _, sf := range c20StateFields {
				fkey := c20Pkg + "." + role.name + "Duties." + sf
				for _, tc := range callees {
					tr := &c20Trim{isBound: isBound, attributed: attributed}
					res := tr.analyse(tc.g, func(v ssa.Value) bool {
						k, _, ok := an.FieldOf(v)
						if !ok || k != fkey {
							return false
						}
						// the map itself, not one of its elements
						m, isMap := v.Type().Underlying().(*types.Map)
						if isMap && keyT == nil {
							keyT = m.Key()
						}
						return isMap
					}, tc.bind, 0)
					if res.found {
						results[fkey] = append(results[fkey], cell{res, tc})
					}
				}
			}
		}
		if keyT == nil {
			keyT = epochP.Type()
		}
		unfollowed := c20Unfollowed(callees, attributed, keyT)
		for _, role := range c20Roles {
			ops := map[token.Token]bool{}
			for _, sf := range c20StateFields {
				fkey := c20Pkg + "." + role.name + "Duties." + sf
				construct := ts.api + "→" + role.field + "." + sf
				found, why, unsure := false, "no function called from "+ts.api+" deletes from this map", ""
				if len(results[fkey]) == 0 && unfollowed != "" {
					unsure = unfollowed
				}
				for _, cl := range results[fkey] {
					res, tc := cl.res, cl.tc
					g := tc.g
					if res.bad != "" {
						why = g.Name() + ": " + res.bad
						continue
					}
					if res.unsure != "" {
						unsure = g.Name() + ": " + res.unsure
						continue
					}
					op, w := res.op()
					if op == token.ILLEGAL {
						why = g.Name() + ": " + w
						// a direct call with another epoch than the one handed to the API: say so
						if tc.bound != nil && !isBound(&c19Walker{}, tc.bound) {
							why = g.Name() + " is not called with the epoch handed to " + ts.api
						}
						continue
					}
					okOp := false
					for _, a := range ts.allowed {
						if a == op {
							okOp = true
						}
					}
					if !okOp {
						why = fmt.Sprintf("%s deletes the epochs k with `k %s bound`, which does not cover every epoch %s the bound", g.Name(), op, ts.what)
						continue
					}
					if !tc.certain {
						why = g.Name() + ": " + tc.whyNot
						continue
					}
					// unconditional: the call is reached on every path that does not leave before any trimming
					if ts.api == "InvalidateCache" && !tc.always {
						why = tc.whyNot
						continue
					}
					found = true
					ops[op] = true
				}
				switch {
				case found:
					c.Good(construct, api.Pos(), "")
				case unsure != "":
					c.Unsure(construct, api.Pos(), unsure)
				default:
					c.Bad(construct, api.Pos(), why)
				}
			}
			if len(ops) > 1 {
				c.Bad(ts.api+"→"+role.field+" same comparison", api.Pos(), "the three maps of one store are trimmed under different comparisons: an epoch can survive in one map and not in the others")
			}
		}
	}

	// --- hit / miss bookkeeping in the three entry points (c20y.go)
	for _, role := range c20Roles {
		c20HitMiss(c, role)
	}
}

// c20AllReturnsAfter: every path from the entry to a return passes through call ci.
func c20AllReturnsAfter(fn *ssa.Function, ci ssa.CallInstruction) bool {
	for _, r := range an.Returns(fn) {
		if !ci.Block().Dominates(r.Block()) {
			return false
		}
	}
	return true
}

// ---------------------------------------------------------------------------------------------
// Z5: wiring

func c20Z5(c *rt.Ctx) {
	wire := c.Fn("app.wireCoreWorkflow")
	const dc = c20Pkg + ".DutiesCache."
	// the variable a cache pointer is read from (a captured local), or the value itself; inside a literal a captured
	// variable is resolved to the variable of the enclosing function
	slot := func(v ssa.Value) ssa.Value {
		v = an.Unwrap(v)
		if ld, ok := v.(*ssa.UnOp); ok && ld.Op == token.MUL {
			return c19Cell(ld.X)
		}
		return v
	}
	// cacheOf resolves a function value to the duties cache whose method `method` it invokes: a method value
	// c.method, or a literal that calls c.method with its own parameters on every path
	cacheOf := func(v ssa.Value, method string) (recv ssa.Value, unknown bool) {
		mc, ok := an.Resolve(v).(*ssa.MakeClosure)
		if !ok {
			return nil, true
		}
		f, ok := mc.Fn.(*ssa.Function)
		if !ok {
			return nil, true
		}
		if f.Synthetic != "" {
			if m, r := c20BoundMethod(mc); m != nil && an.FuncName(m) == dc+method {
				return slot(r), false
			}
			return nil, false
		}
		// a literal wrapper
		calls := an.Calls(f, an.Static(dc+method), false)
		if len(calls) == 0 {
			return nil, len(an.Calls(f, an.Static(dc+method), true)) > 0
		}
		if len(calls) != 1 {
			return nil, true
		}
		call, isCall := calls[0].(*ssa.Call)
		if !isCall {
			return nil, true
		}
		for _, r := range an.Returns(f) {
			if !call.Block().Dominates(r.Block()) {
				return nil, true // conditional forwarding: not followed
			}
		}
		// the wrapper's parameters are handed on in order
		args := call.Call.Args[1:]
		if len(args) != len(f.Params) {
			return nil, true
		}
		for i, a := range args {
			if !c19Only(a, f.Params[i]) && an.Unwrap(a) != ssa.Value(f.Params[i]) {
				return nil, true
			}
		}
		return slot(call.Call.Args[0]), false
	}
	var installs []ssa.CallInstruction
	var caches []ssa.Value
	for _, ci := range an.Calls(wire, func(cc *ssa.CallCommon) bool { return cc.IsInvoke() && cc.Method.Name() == "SetDutiesCache" }, false) {
		for _, a := range ci.Common().Args {
			for _, r := range c20Roles {
				if recv, _ := cacheOf(a, r.entry); recv != nil {
					installs = append(installs, ci)
					caches = append(caches, recv)
				}
			}
		}
	}
	if len(installs) == 0 {
		c.Bail("wireCoreWorkflow does not install a DutiesCache through SetDutiesCache")
	}
	subs := an.Calls(wire, an.Invoke("app/sse.Listener.SubscribeChainReorgEvent"), false)
	good, why, unsure := true, "", ""
	for i := range installs {
		// every creation of the installed cache is inevitably followed by the subscription of its InvalidateCache
		var creations []ssa.Instruction
		for _, nc := range an.Calls(wire, an.Static(c20Pkg+".NewDutiesCache"), false) {
			if nc.Value() == caches[i] {
				creations = append(creations, nc)
				continue
			}
			for _, ref := range *nc.Value().Referrers() {
				if st, ok := ref.(*ssa.Store); ok && st.Val == nc.Value() && st.Addr == caches[i] {
					creations = append(creations, st)
				}
			}
		}
		if len(creations) == 0 {
			c.Unsure("wireCoreWorkflow InvalidateCache subscribed to chain reorgs", installs[i].Pos(), "cannot find where the installed duties cache is created")
			return
		}
		for _, cr := range creations {
			found := false
			for _, s := range subs {
				recv, unk := cacheOf(s.Common().Args[0], "InvalidateCache")
				if recv == nil {
					if unk {
						unsure = "a chain-reorg subscriber cannot be resolved to InvalidateCache of a duties cache"
					}
					continue
				}
				if recv != caches[i] {
					continue
				}
				if _, esc := an.EscapePath(cr, func(in ssa.Instruction) bool { return in == ssa.Instruction(s) }, an.PassOpt{PanicIsExit: true}); !esc {
					found = true
				}
			}
			if !found {
				good, why = false, "a duties cache is created and installed without its InvalidateCache being subscribed to chain-reorg events on every path: duties of reorged epochs keep being served"
			}
		}
	}
	switch {
	case good:
		c.Good("wireCoreWorkflow InvalidateCache subscribed to chain reorgs", installs[0].Pos(), "")
	case unsure != "":
		c.Unsure("wireCoreWorkflow InvalidateCache subscribed to chain reorgs", installs[0].Pos(), unsure)
	default:
		c.Bad("wireCoreWorkflow InvalidateCache subscribed to chain reorgs", installs[0].Pos(), why)
	}

	// Trim from a slot subscriber
	good, why, unsure = false, "no slot subscriber calls Trim on the installed duties cache with the epoch of the slot", ""
	var pos token.Pos = wire.Pos()
	for _, lit := range wire.AnonFuncs {
		// the literal is registered with the scheduler
		registered := false
		for _, in := range an.Instrs(wire, false) {
			mc, ok := in.(*ssa.MakeClosure)
			if !ok || mc.Fn != ssa.Value(lit) {
				continue
			}
			for _, ci := range an.Calls(wire, an.Static("core/scheduler.Scheduler.SubscribeSlots"), false) {
				for _, a := range ci.Common().Args {
					if an.Resolve(a) == ssa.Value(mc) {
						registered = true
					}
				}
			}
		}
		if !registered || len(lit.Params) != 2 {
			continue
		}
		for _, tc := range an.Calls(lit, an.Static(dc+"Trim"), true) {
			pos = tc.Pos()
			if tc.Parent() != lit {
				unsure = "Trim is called from a function nested in the slot subscriber, which is not followed"
				continue
			}
			// receiver: the installed cache variable
			recv := slot(tc.Common().Args[0])
			same := false
			for _, cv := range caches {
				if recv == cv {
					same = true
				}
			}
			// epoch: Slot.Epoch() of the subscriber's slot parameter
			fromSlot := false
			for _, o := range c19Origins(tc.Common().Args[1]) {
				if call, ok := an.Unwrap(o).(*ssa.Call); ok && an.Static("core.Slot.Epoch")(&call.Call) {
					fromSlot = rootedAt(call.Call.Args[0], lit.Params[1]) || c19Only(call.Call.Args[0], lit.Params[1])
				} else {
					fromSlot = false
					break
				}
			}
			switch {
			case !same:
				why = "Trim is called on something other than the installed duties cache"
			case !fromSlot:
				why = "Trim is not called with the epoch of the slot being announced"
			default:
				good = true
			}
		}
	}
	switch {
	case good:
		c.Good("wireCoreWorkflow slot subscriber trims the duties cache", pos, "")
	case unsure != "":
		c.Unsure("wireCoreWorkflow slot subscriber trims the duties cache", pos, unsure)
	default:
		c.Bad("wireCoreWorkflow slot subscriber trims the duties cache", pos, why)
	}
}
