package rules

import (
	"fmt"
	"go/constant"
	"go/token"
	"go/types"
	"regexp"
	"sort"
	"strings"

	"golang.org/x/tools/go/ssa"

	"charonverif/internal/an"
	"charonverif/internal/rt"
)

func init() {
	Register(&Prop{
		ID: "C20",
		Decides: "app/eth2wrap.DutiesCache: (Z1) the proposer/attester/sync copies of the cache entry point and of fetch*, storeOrAmend*, trimBefore*, trimAfter* are the same SSA up to role renaming; " +
			"(Z2) requestedIdxs/duties/metadata of the three stores and ValIdxs.valIdxs are touched only under their embedded RWMutex; " +
			"(Z3) no reference-typed part of a result aliases cache storage, and nothing written into cache storage is also handed to the caller or owned by the caller; " +
			"(Z4) every trim deletes from all three maps under the same key comparison against the epoch parameter, Trim/InvalidateCache reach all three stores, the hit/miss decision is computed from the " +
			"stored requestedIdxs, the fast-path return is confined to `no index missing`, the beacon request asks for exactly the missing indices of the requested epoch and the same slice is recorded as requested; " +
			"(Z5) production wiring subscribes InvalidateCache to chain-reorg events and calls Trim from the slot subscriber.",
		NotDecided: "equality with the uncached beacon answer over request histories and interleavings (a value/schedule statement); values boxed in `any` inside the metadata map are assumed immutable " +
			"(a shallow map clone counts as a private copy).",
		Assumptions: []string{"values boxed in `any` inside the beacon response metadata are immutable scalars (roots, booleans): copying a map[string]any one level deep isolates it"},
		Run:         c20,
		Mutants:     append(c20Mutants(), c20PostFixMutants()...),
	})
}

const c20Pkg = "app/eth2wrap"

// the three roles: (entry point, Role in type/func names, state field of DutiesCache)
type c20Role struct{ entry, name, field, beacon string }

var c20Roles = []c20Role{
	{"ProposerDutiesCache", "Proposer", "proposerDuties", "ProposerDuties"},
	{"AttesterDutiesCache", "Attester", "attesterDuties", "AttesterDuties"},
	{"SyncCommDutiesCache", "Sync", "syncDuties", "SyncCommitteeDuties"},
}

var c20StateFields = []string{"duties", "metadata", "requestedIdxs"}

func c20Fn(c *rt.Ctx, method string) *ssa.Function {
	return c.Fn(c20Pkg + ".DutiesCache." + method)
}

func c20(c *rt.Ctx) {
	c.Rule("Z1", 13, func() { c20Z1(c) })
	c.Rule("Z2", 67, func() { c20Z2(c) })
	c.Rule("Z3", 15, func() { c20Z3(c) })
	c.Rule("Z4", 42, func() { c20Z4(c) })
	c.Rule("Z5", 2, func() { c20Z5(c) })
}

// ---------------------------------------------------------------------------------------------
// Z1: sibling agreement on SSA form

var c20RoleRe = regexp.MustCompile(`(?i:proposer|attester|sync)(Committee|Comm)?`)

func c20Norm(s string) string { return c20RoleRe.ReplaceAllString(s, "X") }

// c20Canon renders fn (and its function literals) in a form that is independent of local names,
// string-literal contents, comments and of the role (Proposer/Attester/Sync) of every named entity.
func c20Canon(fn *ssa.Function) (lines []string, at []ssa.Instruction) {
	ids := map[ssa.Value]int{}
	next := 0
	for _, p := range fn.Params {
		ids[p] = next
		next++
	}
	for _, p := range fn.FreeVars {
		ids[p] = next
		next++
	}
	for _, b := range fn.Blocks {
		for _, in := range b.Instrs {
			if v, ok := in.(ssa.Value); ok {
				ids[v] = next
				next++
			}
		}
	}
	typ := func(t types.Type) string {
		if t == nil {
			return "-"
		}
		return c20Norm(types.TypeString(t, nil))
	}
	anon := map[*ssa.Function]int{}
	for i, a := range fn.AnonFuncs {
		anon[a] = i
	}
	ref := func(v ssa.Value) string {
		switch x := v.(type) {
		case nil:
			return "nil"
		case *ssa.Const:
			if x.Value != nil && x.Value.Kind() == constant.String {
				return "str"
			}
			if x.Value == nil {
				return "zero:" + typ(x.Type())
			}
			return x.Value.ExactString() + ":" + typ(x.Type())
		case *ssa.Function:
			if i, ok := anon[x]; ok {
				return fmt.Sprintf("anon#%d", i)
			}
			return "fn:" + c20Norm(an.FuncName(x))
		case *ssa.Global:
			return "global:" + c20Norm(x.Name())
		case *ssa.Builtin:
			return "builtin:" + x.Name()
		}
		if id, ok := ids[v]; ok {
			return fmt.Sprintf("v%d", id)
		}
		return "?"
	}
	fieldName := func(t types.Type, i int) string {
		k := an.FieldKey(t, i)
		return c20Norm(k[strings.LastIndex(k, ".")+1:])
	}
	for _, b := range fn.Blocks {
		for _, in := range b.Instrs {
			var sb strings.Builder
			fmt.Fprintf(&sb, "b%d %T", b.Index, in)
			switch x := in.(type) {
			case *ssa.BinOp:
				sb.WriteString(" " + x.Op.String())
			case *ssa.UnOp:
				fmt.Fprintf(&sb, " %s ok=%v", x.Op, x.CommaOk)
			case *ssa.FieldAddr:
				sb.WriteString(" ." + fieldName(x.X.Type(), x.Field))
			case *ssa.Field:
				sb.WriteString(" ." + fieldName(x.X.Type(), x.Field))
			case *ssa.Extract:
				fmt.Fprintf(&sb, " #%d", x.Index)
			case *ssa.Lookup:
				fmt.Fprintf(&sb, " ok=%v", x.CommaOk)
			case *ssa.TypeAssert:
				fmt.Fprintf(&sb, " %s ok=%v", typ(x.AssertedType), x.CommaOk)
			case *ssa.Alloc:
				fmt.Fprintf(&sb, " heap=%v", x.Heap)
			case *ssa.Next:
				fmt.Fprintf(&sb, " str=%v", x.IsString)
			case *ssa.Select:
				fmt.Fprintf(&sb, " blocking=%v n=%d", x.Blocking, len(x.States))
			case ssa.CallInstruction:
				if cc := x.Common(); cc.IsInvoke() {
					sb.WriteString(" invoke " + c20Norm(cc.Method.Name()))
				}
			}
			if len(b.Succs) > 0 {
				if _, isIf := in.(*ssa.If); isIf {
					fmt.Fprintf(&sb, " →b%d/b%d", b.Succs[0].Index, b.Succs[1].Index)
				} else if _, isJ := in.(*ssa.Jump); isJ {
					fmt.Fprintf(&sb, " →b%d", b.Succs[0].Index)
				}
			}
			if v, ok := in.(ssa.Value); ok {
				sb.WriteString(" : " + typ(v.Type()))
			}
			sb.WriteString(" (")
			for i, op := range in.Operands(nil) {
				if i > 0 {
					sb.WriteString(",")
				}
				if op == nil {
					sb.WriteString("nil")
				} else {
					sb.WriteString(ref(*op))
				}
			}
			sb.WriteString(")")
			lines = append(lines, sb.String())
			at = append(at, in)
		}
	}
	for i, a := range fn.AnonFuncs {
		ls, as := c20Canon(a)
		for j := range ls {
			lines = append(lines, fmt.Sprintf("anon#%d %s", i, ls[j]))
			at = append(at, as[j])
		}
	}
	return lines, at
}

func c20Z1(c *rt.Ctx) {
	// copies: the family copies duty values element by element. SyncCommitteeDuty carries a slice,
	// ProposerDuty/AttesterDuty are flat, so the sync sibling may legitimately need deep-copy code the
	// other two do not; it is then compared only as far as it is identical (Z3/Z4 check it on its own).
	type family struct {
		names  [3]string
		copies bool
	}
	families := []family{{[3]string{"ProposerDutiesCache", "AttesterDutiesCache", "SyncCommDutiesCache"}, true}}
	for _, pre := range []string{"fetch", "storeOrAmend", "trimBefore", "trimAfter"} {
		families = append(families, family{[3]string{pre + "ProposerDuties", pre + "AttesterDuties", pre + "SyncDuties"}, pre == "storeOrAmend"})
	}
	// flat[i]: the duty element type of role i holds no reference-typed member
	var flat [3]bool
	for i, r := range c20Roles {
		entry := c20Fn(c, r.entry)
		rst, ok := entry.Signature.Results().At(0).Type().Underlying().(*types.Struct)
		if !ok || rst.NumFields() == 0 {
			c.Bail("%s: unexpected result type", r.entry)
		}
		sl, ok := rst.Field(0).Type().Underlying().(*types.Slice)
		if !ok {
			c.Bail("%s: first result field is not a slice of duties", r.entry)
		}
		el := sl.Elem()
		if p, ok := el.Underlying().(*types.Pointer); ok {
			el = p.Elem()
		}
		flat[i] = c20Refless(el)
	}
	for _, fam := range families {
		var canon [3]string
		var lines [3][]string
		var at [3][]ssa.Instruction
		var fns [3]*ssa.Function
		for i, n := range fam.names {
			fns[i] = c20Fn(c, n)
			lines[i], at[i] = c20Canon(fns[i])
			canon[i] = strings.Join(lines[i], "\n")
		}
		diff := func(i, j int) string { // first difference of sibling i against sibling j
			for k := 0; k < len(lines[i]) && k < len(lines[j]); k++ {
				if lines[i][k] != lines[j][k] {
					return fmt.Sprintf("first difference against %s at %s: `%s` vs `%s`", fam.names[j], c.P.Pos(posOf(at[i][k])), lines[i][k], lines[j][k])
				}
			}
			return fmt.Sprintf("differs in length from %s (%d vs %d SSA instructions)", fam.names[j], len(lines[i]), len(lines[j]))
		}
		for i := range fam.names {
			// the siblings i must agree with: all others, or (copying family) those of the same element flatness
			var peers []int
			for j := range fam.names {
				if j != i && (!fam.copies || flat[i] == flat[j]) {
					peers = append(peers, j)
				}
			}
			if len(peers) == 0 {
				same := true
				for j := range fam.names {
					if canon[j] != canon[i] {
						same = false
					}
				}
				if same {
					c.Good("sibling "+fam.names[i], fns[i].Pos(), "identical to the other roles")
				} else {
					c.Note("Z1: %s has no sibling with the same element copy semantics and differs from the other roles; not compared", fam.names[i])
				}
				continue
			}
			agree, first := 0, -1
			for _, j := range peers {
				if canon[i] == canon[j] {
					agree++
				} else if first < 0 {
					first = j
				}
			}
			// with two peers, agreeing with one of them makes the other one the odd sibling
			ok := agree == len(peers) || (len(peers) == 2 && agree == 1)
			why := ""
			if !ok {
				why = "sibling implementation diverges from the other role(s); " + diff(i, first)
			}
			c.Check("sibling "+fam.names[i], fns[i].Pos(), ok, why)
		}
	}
}

// ---------------------------------------------------------------------------------------------
// Z2: lock discipline

func c20Z2(c *rt.Ctx) {
	table := an.LockTable{c20Pkg + ".ValIdxs.valIdxs": "RWMutex"} // replaced as a whole by UpdateActiveValIndices, read by the entry points
	for _, r := range c20Roles {
		for _, f := range c20StateFields {
			// every access is in fetch*/storeOrAmend*/trim* between Lock/RLock and the deferred unlock of the embedded mutex
			table[c20Pkg+"."+r.name+"Duties."+f] = "RWMutex"
		}
	}
	lockRule(c, []string{c20Pkg}, table)
}

// c20Seg is the part of the three entry points that is textually identical up to the duty type:
// locators inside it are made unique by starting at the line that names the type.
const c20Seg = `	dutiesResult := make([]*eth2v1.@DUTY@, 0, len(vidxs))

	if ok {
		// previouslyRequested is the set of indices already queried from the beacon for this epoch.
		// A validator with no duty for the epoch is absent from dutiesForEpoch.duties but present
		// in dutiesForEpoch.requestedIdxs, so this set (not the duties list) determines cache hits.
		previouslyRequested := make(map[eth2p0.ValidatorIndex]struct{}, len(dutiesForEpoch.requestedIdxs))
		for _, idx := range dutiesForEpoch.requestedIdxs {
			previouslyRequested[idx] = struct{}{}
		}

		requestedSet := make(map[eth2p0.ValidatorIndex]struct{}, len(requestVidxs))

		var missing []eth2p0.ValidatorIndex

		for _, idx := range requestVidxs {
			requestedSet[idx] = struct{}{}

			if _, hit := previouslyRequested[idx]; !hit {
				missing = append(missing, idx)
			}
		}
`

// c20SegTail follows c20Seg in the source (the assembly of the cached part of the answer).
const c20SegTail = `
		for _, d := range dutiesForEpoch.duties {
			if _, hit := requestedSet[d.ValidatorIndex]; hit {
				dutiesResult = append(dutiesResult, &d)
			}
		}
`

// c20Head is the identical prologue, made unique by the metrics label that precedes it.
const c20Head = `				missedCacheCount.WithLabelValues("@LABEL@").Inc()
		}
	}()

	c.activeValIdxs.RLock()
	allActive := c.activeValIdxs.valIdxs
	c.activeValIdxs.RUnlock()

	// Clone so requestVidxs is an independent working copy; it is narrowed to missing indices below
	// and must never alias either the caller's slice or the shared activeValIdxs slice.
	requestVidxs := slices.Clone(vidxs)
	if len(requestVidxs) == 0 {
		requestVidxs = slices.Clone(allActive)
	}
`

func c20SegMutant(id, expect, duty, old, new string) Mutant {
	seg := strings.ReplaceAll(c20Seg, "@DUTY@", duty)
	if !strings.Contains(seg, old) {
		seg += c20SegTail
	}
	if strings.Count(seg, old) != 1 {
		panic("c20 mutant " + id + ": locator not unique inside the segment")
	}
	return Mutant{ID: id, File: "app/eth2wrap/cache.go", Expect: expect, Old: seg, New: strings.Replace(seg, old, new, 1)}
}

func c20HeadMutant(id, expect, label, old, new string) Mutant {
	// the label line is indented one tab less in the source than in the constant's first line
	seg := strings.TrimPrefix(strings.ReplaceAll(c20Head, "@LABEL@", label), "\t")
	if strings.Count(seg, old) != 1 {
		panic("c20 mutant " + id + ": locator not unique inside the prologue")
	}
	return Mutant{ID: id, File: "app/eth2wrap/cache.go", Expect: expect, Old: seg, New: strings.Replace(seg, old, new, 1)}
}

// c20PostFixMutants become applicable once the two Z3 defects of the pinned tree are repaired with
// maps.Clone / slices.Clone as in fix-1.diff and fix-2.diff (their locators do not exist before);
// append them to c20Mutants() after the fix commits.
func c20PostFixMutants() []Mutant {
	const f = "app/eth2wrap/cache.go"
	return []Mutant{
		{ID: "C20-Z3-proposer-hit-returns-cached-metadata", File: f, Expect: "Z3|ProposerDutiesCache result.Metadata",
			Old: "return ProposerDutyWithMeta{Duties: dutiesResult, Metadata: maps.Clone(dutiesForEpoch.metadata)}", New: "return ProposerDutyWithMeta{Duties: dutiesResult, Metadata: dutiesForEpoch.metadata}"},
		{ID: "C20-Z3-attester-store-shares-metadata", File: f, Expect: "Z3|storeOrAmendAttesterDuties state.metadata",
			Old: "AttesterDutiesForEpoch{duties: dutiesDeref, metadata: maps.Clone(eth2Resp.Metadata),", New: "AttesterDutiesForEpoch{duties: dutiesDeref, metadata: eth2Resp.Metadata,"},
		{ID: "C20-Z3-sync-hit-shallow-copy", File: f, Expect: "Z3|SyncCommDutiesCache result.Duties",
			Old: "\t\t\t\td.ValidatorSyncCommitteeIndices = slices.Clone(d.ValidatorSyncCommitteeIndices)\n", New: ""},
		{ID: "C20-Z3-sync-store-shallow-copy", File: f, Expect: "Z3|storeOrAmendSyncDuties state.duties",
			Old: "\t\td.ValidatorSyncCommitteeIndices = slices.Clone(duty.ValidatorSyncCommitteeIndices)\n", New: ""},
	}
}

var _ = c20PostFixMutants

func c20Mutants() []Mutant {
	const f = "app/eth2wrap/cache.go"
	return []Mutant{
		// Z1
		c20SegMutant("C20-Z1-attester-hit-from-duties", "Z1|AttesterDutiesCache", "AttesterDuty",
			"for _, idx := range dutiesForEpoch.requestedIdxs {\n\t\t\tpreviouslyRequested[idx] = struct{}{}",
			"for _, d := range dutiesForEpoch.duties {\n\t\t\tpreviouslyRequested[d.ValidatorIndex] = struct{}{}"),
		{ID: "C20-Z1-fetch-sync-no-requested-check", File: f, Expect: "Z1|fetchSyncDuties",
			Old: "requestedIdxs, ok := c.syncDuties.requestedIdxs[epoch]\n\tif !ok {\n\t\treturn SyncDutiesForEpoch{}, false\n\t}",
			New: "requestedIdxs := c.syncDuties.requestedIdxs[epoch]"},
		{ID: "C20-Z1-amend-proposer-wrong-list", File: f, Expect: "Z1|storeOrAmendProposerDuties",
			Old: "alreadyRequestedIdxs := c.proposerDuties.requestedIdxs[epoch]\n\n\tfor _, idx := range dutiesForEpoch.requestedIdxs {\n\t\tif !slices.Contains(alreadyRequestedIdxs, idx) {",
			New: "alreadyRequestedIdxs := c.proposerDuties.requestedIdxs[epoch]\n\t_ = alreadyRequestedIdxs\n\n\tfor _, idx := range dutiesForEpoch.requestedIdxs {\n\t\tif !slices.Contains(newlyFetchedIdxs, idx) {"},
		// Z2
		{ID: "C20-Z2-store-sync-no-lock", File: f, Expect: "Z2",
			Old: "\tc.syncDuties.Lock()\n\tdefer c.syncDuties.Unlock()\n\n\talreadySavedDuties", New: "\talreadySavedDuties"},
		{ID: "C20-Z2-fetch-attester-unlock-early", File: f, Expect: "Z2|entry-requirement app/eth2wrap.DutiesCache.AttesterDutiesCache",
			Old: "\tc.attesterDuties.RLock()\n\tdefer c.attesterDuties.RUnlock()\n\n\tduties, ok := c.attesterDuties.duties[epoch]\n",
			New: "\tc.attesterDuties.RLock()\n\tduties, ok := c.attesterDuties.duties[epoch]\n\tc.attesterDuties.RUnlock()\n"},
		{ID: "C20-Z2-trim-under-read-lock", File: f, Expect: "Z2|trimBeforeProposerDuties",
			Old: "func (c *DutiesCache) trimBeforeProposerDuties(epoch eth2p0.Epoch) bool {\n\tc.proposerDuties.Lock()\n\tdefer c.proposerDuties.Unlock()",
			New: "func (c *DutiesCache) trimBeforeProposerDuties(epoch eth2p0.Epoch) bool {\n\tc.proposerDuties.RLock()\n\tdefer c.proposerDuties.RUnlock()"},
		{ID: "C20-Z2-validxs-unlocked-write", File: f, Expect: "Z2|UpdateActiveValIndices",
			Old: "\tc.activeValIdxs.Lock()\n\tdefer c.activeValIdxs.Unlock()\n\n", New: ""},
		{ID: "C20-Z2-wrong-stores-lock", File: f, Expect: "Z2|entry-requirement app/eth2wrap.DutiesCache.InvalidateCache",
			Old: "func (c *DutiesCache) trimAfterSyncDuties(epoch eth2p0.Epoch) bool {\n\tc.syncDuties.Lock()\n\tdefer c.syncDuties.Unlock()",
			New: "func (c *DutiesCache) trimAfterSyncDuties(epoch eth2p0.Epoch) bool {\n\tc.attesterDuties.Lock()\n\tdefer c.attesterDuties.Unlock()"},
		// Z3
		c20SegMutant("C20-Z3-proposer-return-element-pointer", "Z3|ProposerDutiesCache result.Duties", "ProposerDuty",
			"for _, d := range dutiesForEpoch.duties {\n\t\t\tif _, hit := requestedSet[d.ValidatorIndex]; hit {\n\t\t\t\tdutiesResult = append(dutiesResult, &d)",
			"for i := range dutiesForEpoch.duties {\n\t\t\tif _, hit := requestedSet[dutiesForEpoch.duties[i].ValidatorIndex]; hit {\n\t\t\t\tdutiesResult = append(dutiesResult, &dutiesForEpoch.duties[i])"),
		c20HeadMutant("C20-Z3-attester-store-caller-slice", "Z3|storeOrAmendAttesterDuties state.requestedIdxs", "attester_duties",
			"requestVidxs := slices.Clone(vidxs)", "requestVidxs := vidxs"),
		c20HeadMutant("C20-Z3-sync-store-active-slice", "Z3|storeOrAmendSyncDuties state.requestedIdxs", "sync_committee_duties",
			"requestVidxs = slices.Clone(allActive)", "requestVidxs = allActive"),
		{ID: "C20-Z3-proposer-return-stored-slice", File: f, Expect: "Z3|storeOrAmendProposerDuties state.duties",
			Old: "\tdutiesResult = append(dutiesResult, eth2Resp.Data...)\n\n\treturn ProposerDutyWithMeta{Duties: dutiesResult,",
			New: "\tfor i := range dutiesDeref {\n\t\tdutiesResult = append(dutiesResult, &dutiesDeref[i])\n\t}\n\n\treturn ProposerDutyWithMeta{Duties: dutiesResult,"},
		// Z4
		{ID: "C20-Z4-trimafter-sync-skip-requested", File: f, Expect: "Z4|InvalidateCache→syncDuties.requestedIdxs",
			Old: "if k > epoch {\n\t\t\tdelete(c.syncDuties.requestedIdxs, k)", New: "if k > epoch {\n\t\t\tdelete(c.syncDuties.metadata, k)"},
		{ID: "C20-Z4-trimafter-attester-weakened", File: f, Expect: "Z4|InvalidateCache→attesterDuties.duties",
			Old: "for k := range c.attesterDuties.duties {\n\t\tif k > epoch {", New: "for k := range c.attesterDuties.duties {\n\t\tif k > epoch+1 {"},
		{ID: "C20-Z4-trimafter-proposer-flipped", File: f, Expect: "Z4|InvalidateCache→proposerDuties.metadata",
			Old: "for k := range c.proposerDuties.metadata {\n\t\tif k > epoch {", New: "for k := range c.proposerDuties.metadata {\n\t\tif k < epoch {"},
		{ID: "C20-Z4-invalidate-short-circuit", File: f, Expect: "Z4|InvalidateCache→attesterDuties",
			Old: "\tok = c.trimAfterAttesterDuties(epoch)\n", New: "\tok = ok && c.trimAfterAttesterDuties(epoch)\n"},
		{ID: "C20-Z4-trimbefore-proposer-break", File: f, Expect: "Z4|Trim→proposerDuties.metadata",
			Old: "\t\t\tdelete(c.proposerDuties.metadata, k)\n\n\t\t\tok = true\n\t\t}\n\t}\n\n\tfor k := range c.proposerDuties.requestedIdxs {\n\t\tif k < epoch {",
			New: "\t\t\tdelete(c.proposerDuties.metadata, k)\n\n\t\t\tok = true\n\n\t\t\tbreak\n\t\t}\n\t}\n\n\tfor k := range c.proposerDuties.requestedIdxs {\n\t\tif k < epoch {"},
		{ID: "C20-Z4-trim-skips-sync", File: f, Expect: "Z4|Trim→syncDuties",
			Old: "\tc.trimBeforeSyncDuties(epoch - dutiesCacheTrimThreshold)\n", New: "\tc.trimBeforeAttesterDuties(epoch - dutiesCacheTrimThreshold)\n"},
		c20SegMutant("C20-Z4-proposer-hit-from-duties", "Z4|ProposerDutiesCache already-requested", "ProposerDuty",
			"for _, idx := range dutiesForEpoch.requestedIdxs {\n\t\t\tpreviouslyRequested[idx] = struct{}{}",
			"for _, d := range dutiesForEpoch.duties {\n\t\t\tpreviouslyRequested[d.ValidatorIndex] = struct{}{}"),
		c20SegMutant("C20-Z4-proposer-inverted-hit", "Z4|ProposerDutiesCache missing", "ProposerDuty",
			"if _, hit := previouslyRequested[idx]; !hit {", "if _, hit := previouslyRequested[idx]; hit {"),
		c20SegMutant("C20-Z4-sync-missing-from-result-set", "Z4|SyncCommDutiesCache missing", "SyncCommitteeDuty",
			"if _, hit := previouslyRequested[idx]; !hit {", "if _, hit := requestedSet[idx+1]; !hit {"),
		{ID: "C20-Z4-proposer-no-narrowing", File: f, Expect: "Z4|ProposerDutiesCache beacon request indices",
			Old: "\t\trequestVidxs = missing\n\n\t\tlog.Debug(ctx, \"Cached proposer duties", New: "\t\tlog.Debug(ctx, \"Cached proposer duties"},
		{ID: "C20-Z4-sync-fast-path-weakened", File: f, Expect: "Z4|SyncCommDutiesCache cache-only answer requires an empty missing set",
			Old: "\t\tif len(missing) == 0 {\n\t\t\tcacheUsed = true\n\t\t\treturn SyncDutyWithMeta",
			New: "\t\tif len(missing) == 0 || len(dutiesResult) > 0 {\n\t\t\tcacheUsed = true\n\t\t\treturn SyncDutyWithMeta"},
		{ID: "C20-Z4-attester-record-all-requested", File: f, Expect: "Z4|AttesterDutiesCache recorded",
			Old: "requestedIdxs: requestVidxs})\n\tif !ok {\n\t\tlog.Debug(ctx, \"Failed to cache attester duties",
			New: "requestedIdxs: slices.Clone(vidxs)})\n\tif !ok {\n\t\tlog.Debug(ctx, \"Failed to cache attester duties"},
		{ID: "C20-Z4-attester-request-other-epoch", File: f, Expect: "Z4|AttesterDutiesCache one epoch",
			Old: "&eth2api.AttesterDutiesOpts{Epoch: epoch, Indices: requestVidxs}", New: "&eth2api.AttesterDutiesOpts{Epoch: epoch + 1, Indices: requestVidxs}"},
		{ID: "C20-Z4-sync-store-failed-response", File: f, Expect: "Z4|SyncCommDutiesCache store only",
			Old: "Indices: requestVidxs})\n\tif err != nil {\n\t\treturn SyncDutyWithMeta{}, err\n\t}",
			New: "Indices: requestVidxs})\n\tif err != nil {\n\t\tlog.Debug(ctx, \"Sync duties request failed\", z.Err(err))\n\t}"},
		// Z5
		{ID: "C20-Z5-no-reorg-subscription", File: "app/app.go", Expect: "Z5|InvalidateCache",
			Old: "\t\tsseListener.SubscribeChainReorgEvent(dutiesCache.InvalidateCache)\n", New: ""},
		{ID: "C20-Z5-no-trim", File: "app/app.go", Expect: "Z5|slot subscriber",
			Old: "\t\t\tdutiesCache.Trim(eth2p0.Epoch(slot.Epoch()))\n", New: ""},
		{ID: "C20-Z5-trim-with-slot-number", File: "app/app.go", Expect: "Z5|slot subscriber",
			Old: "dutiesCache.Trim(eth2p0.Epoch(slot.Epoch()))", New: "dutiesCache.Trim(eth2p0.Epoch(slot.Slot))"},
	}
}

// ---------------------------------------------------------------------------------------------
// Z3: aliasing (E6, backward provenance of reference-typed values)

// c20Origin is an abstract memory owner a reference-typed value may point into.
type c20Origin struct {
	kind string        // "param" (memory reachable from a parameter), "ext" (result of a call leaving the package), "fresh" (memory allocated by instruction call), "unknown"
	fn   *ssa.Function // param: owner function
	idx  int           // param: index (0 = receiver of a method)
	call ssa.Value     // ext: the call
	path string        // field path below the owner (".proposerDuties.metadata", ".Data")
	why  string        // unknown: reason
}

func (o c20Origin) key() string {
	switch o.kind {
	case "param":
		return fmt.Sprintf("param %s #%d %s", an.FuncName(o.fn), o.idx, o.path)
	case "ext":
		return fmt.Sprintf("ext %p %s", o.call, o.path)
	case "fresh":
		return fmt.Sprintf("fresh %p %s", o.call, o.path)
	}
	return "unknown " + o.why
}

type c20Set map[string]c20Origin

func (s c20Set) add(o c20Origin) { s[o.key()] = o }
func (s c20Set) addAll(t c20Set) {
	for k, o := range t {
		s[k] = o
	}
}

// c20Refless: values of type t hold no mutable memory shared with their source when copied.
func c20Refless(t types.Type) bool { return c20refless(t, 0) }

func c20refless(t types.Type, d int) bool {
	if d > 8 {
		return false
	}
	switch u := t.Underlying().(type) {
	case *types.Basic:
		return u.Kind() != types.UnsafePointer
	case *types.Array:
		return c20refless(u.Elem(), d+1)
	case *types.Struct:
		for i := 0; i < u.NumFields(); i++ {
			if !c20refless(u.Field(i).Type(), d+1) {
				return false
			}
		}
		return true
	case *types.Tuple:
		for i := 0; i < u.Len(); i++ {
			if !c20refless(u.At(i).Type(), d+1) {
				return false
			}
		}
		return true
	}
	return false
}

// c20ShallowOK: copying elements of this type one level deep isolates them. Values boxed in an
// interface are assumed immutable (NotDecided clause).
func c20ShallowOK(t types.Type) bool {
	if _, isIface := t.Underlying().(*types.Interface); isIface {
		return true
	}
	return c20Refless(t)
}

type c20Alias struct {
	pkg  *ssa.Package
	busy map[string]bool
}

func c20FieldName(t types.Type, i int) string {
	k := an.FieldKey(t, i)
	return k[strings.LastIndex(k, ".")+1:]
}

func c20SelPath(sel []string) string {
	if len(sel) == 0 {
		return ""
	}
	return "." + strings.Join(sel, ".")
}

// typeAt follows field names through (pointers to) structs; nil if not resolvable.
func c20TypeAt(t types.Type, sel []string) types.Type {
	for _, f := range sel {
		if p, ok := t.Underlying().(*types.Pointer); ok {
			t = p.Elem()
		}
		st, ok := t.Underlying().(*types.Struct)
		if !ok {
			return nil
		}
		var ft types.Type
		for i := 0; i < st.NumFields(); i++ {
			if st.Field(i).Name() == f {
				ft = st.Field(i).Type()
			}
		}
		if ft == nil {
			return nil
		}
		t = ft
	}
	return t
}

// reach returns the owners of the memory reachable from (the part sel of) value v.
func (a *c20Alias) reach(v ssa.Value, sel []string) c20Set {
	out := c20Set{}
	if v == nil {
		return out
	}
	// look through conversions / boxing (not single-edge phis: handled below)
	for i := 0; i < 16; i++ {
		switch x := v.(type) {
		case *ssa.ChangeType:
			v = x.X
			continue
		case *ssa.MakeInterface:
			v = x.X
			continue
		case *ssa.ChangeInterface:
			v = x.X
			continue
		case *ssa.Convert:
			v = x.X
			continue
		case *ssa.TypeAssert:
			v = x.X
			continue
		}
		break
	}
	if t := c20TypeAt(v.Type(), sel); t != nil && c20Refless(t) {
		return out
	}
	key := fmt.Sprintf("%p|%s", v, strings.Join(sel, "."))
	if a.busy[key] {
		return out
	}
	a.busy[key] = true
	defer delete(a.busy, key)

	unknown := func(why string) c20Set {
		out.add(c20Origin{kind: "unknown", why: why})
		return out
	}
	switch x := v.(type) {
	case *ssa.Const:
		return out
	case *ssa.Parameter:
		idx := -1
		for i, p := range x.Parent().Params {
			if p == x {
				idx = i
			}
		}
		out.add(c20Origin{kind: "param", fn: x.Parent(), idx: idx, path: c20SelPath(sel)})
		return out
	case *ssa.Alloc:
		if x.Heap {
			out.add(c20Origin{kind: "fresh", call: x, path: c20SelPath(sel), why: "the local " + x.Comment})
		}
		out.addAll(a.contents(x, sel))
		return out
	case *ssa.Phi:
		for _, e := range x.Edges {
			out.addAll(a.reach(e, sel))
		}
		return out
	case *ssa.UnOp:
		if x.Op == token.MUL {
			if al, ok := x.X.(*ssa.Alloc); ok {
				return a.contents(al, sel) // a load copies the content, not the variable
			}
			return a.reach(x.X, sel)
		}
		if x.Op == token.ARROW {
			return unknown("value received from a channel")
		}
		return out
	case *ssa.FieldAddr:
		return a.reach(x.X, append([]string{c20FieldName(x.X.Type(), x.Field)}, sel...))
	case *ssa.Field:
		return a.reach(x.X, append([]string{c20FieldName(x.X.Type(), x.Field)}, sel...))
	case *ssa.IndexAddr:
		return a.reach(x.X, nil)
	case *ssa.Index:
		return a.reach(x.X, nil)
	case *ssa.Slice:
		return a.reach(x.X, nil)
	case *ssa.Lookup:
		return a.reach(x.X, nil)
	case *ssa.Extract:
		switch t := x.Tuple.(type) {
		case *ssa.Call:
			return a.callResult(t, x.Index, sel)
		case *ssa.Lookup:
			if x.Index == 0 {
				return a.reach(t.X, nil)
			}
			return out
		case *ssa.TypeAssert:
			if x.Index == 0 {
				return a.reach(t.X, sel)
			}
			return out
		case *ssa.Next:
			if r, ok := t.Iter.(*ssa.Range); ok {
				return a.reach(r.X, nil)
			}
		case *ssa.UnOp:
			if x.Index == 0 {
				return a.reach(t, sel)
			}
			return out
		}
		return unknown("tuple of unknown origin")
	case *ssa.Call:
		return a.callResult(x, 0, sel)
	case *ssa.MakeSlice, *ssa.MakeMap:
		// fresh container: itself, and the owners of whatever is stored into it directly
		out.add(c20Origin{kind: "fresh", call: v, why: "the " + strings.TrimPrefix(fmt.Sprintf("%T", v), "*ssa.Make") + " made in " + an.FuncName(x.(ssa.Instruction).Parent())})
		for _, ref := range *v.Referrers() {
			switch r := ref.(type) {
			case *ssa.MapUpdate:
				if r.Map == v {
					// element-wise copy: values boxed in an interface are taken as immutable (as for maps.Clone)
					if !c20ShallowOK(r.Key.Type()) {
						out.addAll(a.reach(r.Key, nil))
					}
					if !c20ShallowOK(r.Value.Type()) {
						out.addAll(a.reach(r.Value, nil))
					}
				}
			case *ssa.IndexAddr:
				out.addAll(a.storesTo(r, nil))
			}
		}
		return out
	case *ssa.MakeChan:
		return unknown("channel")
	case *ssa.FreeVar:
		return unknown("captured variable " + x.Name())
	case *ssa.Global:
		return unknown("package variable " + x.Name())
	case *ssa.Function, *ssa.MakeClosure, *ssa.Builtin:
		return out
	}
	return unknown(fmt.Sprintf("unhandled SSA value %T", v))
}

// storesTo: owners of the values stored through address addr (a FieldAddr/IndexAddr of a local).
func (a *c20Alias) storesTo(addr ssa.Value, sel []string) c20Set {
	out := c20Set{}
	for _, ref := range *addr.Referrers() {
		switch r := ref.(type) {
		case *ssa.Store:
			if r.Addr == addr {
				out.addAll(a.reach(r.Val, sel))
			}
		case *ssa.FieldAddr:
			name := c20FieldName(r.X.Type(), r.Field)
			if len(sel) == 0 {
				out.addAll(a.storesTo(r, nil))
			} else if sel[0] == name {
				out.addAll(a.storesTo(r, sel[1:]))
			}
		case *ssa.IndexAddr:
			out.addAll(a.storesTo(r, nil))
		case ssa.CallInstruction:
			for _, arg := range r.Common().Args {
				if arg == addr {
					if f := r.Common().StaticCallee(); f == nil || !strings.HasPrefix(an.FuncName(f), "sync.") {
						out.add(c20Origin{kind: "unknown", why: "address of a local passed to " + an.CalleeName(r.Common())})
					}
				}
			}
		}
	}
	return out
}

// contents: owners of the memory reachable from local al (its part sel), with a strong update for
// struct fields that are always overwritten between the whole-struct store and every point where
// the struct is observed as a whole.
func (a *c20Alias) contents(al *ssa.Alloc, sel []string) c20Set {
	out := c20Set{}
	elem := al.Type().Underlying().(*types.Pointer).Elem()
	st, isStruct := elem.Underlying().(*types.Struct)
	var whole []*ssa.Store
	var observers []ssa.Instruction
	fieldStores := map[string][]*ssa.Store{}
	for _, ref := range *al.Referrers() {
		switch r := ref.(type) {
		case *ssa.Store:
			if r.Addr == ssa.Value(al) {
				whole = append(whole, r)
			} else {
				observers = append(observers, r)
			}
		case *ssa.FieldAddr:
			name := c20FieldName(r.X.Type(), r.Field)
			for _, r2 := range *r.Referrers() {
				if s, ok := r2.(*ssa.Store); ok && s.Addr == ssa.Value(r) {
					fieldStores[name] = append(fieldStores[name], s)
				}
			}
		case *ssa.IndexAddr, *ssa.DebugRef:
		default:
			observers = append(observers, r)
		}
	}
	if !isStruct {
		out.addAll(a.storesTo(al, sel))
		return out
	}
	overwritten := func(w *ssa.Store, field string) bool {
		if len(fieldStores[field]) == 0 {
			return false
		}
		for _, e := range observers {
			if !an.Dominates(w, e) {
				continue // observed before this store: irrelevant to what w leaves behind
			}
			ok := false
			for _, s := range fieldStores[field] {
				if an.Dominates(w, s) && an.Dominates(s, e) {
					ok = true
				}
			}
			if !ok {
				return false
			}
		}
		return true
	}
	var fields []string
	if len(sel) > 0 {
		fields = []string{sel[0]}
	} else {
		for i := 0; i < st.NumFields(); i++ {
			if !c20Refless(st.Field(i).Type()) {
				fields = append(fields, st.Field(i).Name())
			}
		}
	}
	for _, f := range fields {
		var rest []string
		if len(sel) > 0 {
			rest = sel[1:]
		}
		for _, w := range whole {
			if !overwritten(w, f) {
				out.addAll(a.reach(w.Val, append([]string{f}, rest...)))
			}
		}
	}
	// field-level stores (and unknown escapes of field addresses)
	out.addAll(a.storesToFields(al, sel))
	return out
}

func (a *c20Alias) storesToFields(al *ssa.Alloc, sel []string) c20Set {
	out := c20Set{}
	for _, ref := range *al.Referrers() {
		if r, ok := ref.(*ssa.FieldAddr); ok {
			name := c20FieldName(r.X.Type(), r.Field)
			if len(sel) == 0 {
				out.addAll(a.storesTo(r, nil))
			} else if sel[0] == name {
				out.addAll(a.storesTo(r, sel[1:]))
			}
		}
	}
	return out
}

// callResult: owners of result idx of a call.
func (a *c20Alias) callResult(call *ssa.Call, idx int, sel []string) c20Set {
	out := c20Set{}
	cc := &call.Call
	if b, ok := cc.Value.(*ssa.Builtin); ok {
		switch b.Name() {
		case "append":
			out.add(c20Origin{kind: "fresh", call: call, why: "a slice grown by append in " + an.FuncName(call.Parent())})
			out.addAll(a.reach(cc.Args[0], nil))
			if len(cc.Args) > 1 {
				if sl, ok := cc.Args[1].Type().Underlying().(*types.Slice); ok && !c20Refless(sl.Elem()) {
					out.addAll(a.reach(cc.Args[1], nil))
				}
			}
		}
		return out
	}
	callee := cc.StaticCallee()
	if callee != nil {
		switch an.FuncName(callee) {
		case "slices.Clone":
			if sl, ok := cc.Args[0].Type().Underlying().(*types.Slice); ok && !c20ShallowOK(sl.Elem()) {
				out.addAll(a.reach(cc.Args[0], nil))
			}
			return out
		case "maps.Clone":
			if m, ok := cc.Args[0].Type().Underlying().(*types.Map); ok && !(c20ShallowOK(m.Elem()) && c20ShallowOK(m.Key())) {
				out.addAll(a.reach(cc.Args[0], nil))
			}
			return out
		}
		if callee.Pkg == a.pkg && len(callee.Blocks) > 0 && !cc.IsInvoke() {
			inner := c20Set{}
			for _, r := range an.Returns(callee) {
				if idx < len(r.Results) {
					inner.addAll(a.reach(r.Results[idx], sel))
				}
			}
			for _, o := range inner {
				if o.kind == "param" && o.fn == callee && o.idx >= 0 && o.idx < len(cc.Args) {
					var psel []string
					if o.path != "" {
						psel = strings.Split(strings.TrimPrefix(o.path, "."), ".")
					}
					out.addAll(a.reach(cc.Args[o.idx], psel))
				} else if o.kind == "fresh" || o.kind == "ext" {
					// memory obtained inside the callee is new for every execution of this call site
					o.call = call
					out.add(o)
				} else {
					out.add(o)
				}
			}
			return out
		}
	}
	out.add(c20Origin{kind: "ext", call: call, path: c20SelPath(sel), why: an.CalleeName(cc)})
	return out
}

// c20MayAlias: two field paths below the same owner may denote overlapping memory.
func c20MayAlias(p, q string) bool {
	return p == q || strings.HasPrefix(p, q+".") || strings.HasPrefix(q, p+".") || p == "" || q == ""
}

func c20Z3(c *rt.Ctx) {
	pkg := c.SSAPkg(c20Pkg)
	al := &c20Alias{pkg: pkg, busy: map[string]bool{}}
	describe := func(o c20Origin) string {
		switch o.kind {
		case "param":
			if o.idx == 0 && o.fn.Signature.Recv() != nil {
				return "cache storage c" + o.path
			}
			return fmt.Sprintf("the caller's argument %s%s", o.fn.Params[o.idx].Name(), o.path)
		case "ext":
			return "the response of " + o.why + o.path
		case "fresh":
			return o.why + o.path
		}
		return o.why
	}
	isState := func(o c20Origin, entry *ssa.Function) bool {
		return o.kind == "param" && o.fn == entry && o.idx == 0
	}
	for _, role := range c20Roles {
		entry := c20Fn(c, role.entry)
		if entry.Signature.Results().Len() != 2 {
			c.Bail("%s: unexpected result list", role.entry)
		}
		rst, ok := entry.Signature.Results().At(0).Type().Underlying().(*types.Struct)
		if !ok {
			c.Bail("%s: first result is not a struct", role.entry)
		}
		// K2: result fields
		returned := map[string]c20Set{}
		for i := 0; i < rst.NumFields(); i++ {
			f := rst.Field(i)
			if c20Refless(f.Type()) {
				continue
			}
			set := c20Set{}
			for _, r := range an.Returns(entry) {
				set.addAll(al.reach(r.Results[0], []string{f.Name()}))
			}
			returned[f.Name()] = set
			var bad, unsure []string
			for _, o := range set {
				if isState(o, entry) {
					bad = append(bad, describe(o))
				} else if o.kind == "unknown" {
					unsure = append(unsure, describe(o))
				}
			}
			sort.Strings(bad)
			sort.Strings(unsure)
			construct := role.entry + " result." + f.Name()
			switch {
			case len(bad) > 0:
				c.Bad(construct, entry.Pos(), "the value handed to the caller shares memory with "+strings.Join(bad, ", ")+
					": a caller writing through it changes what later callers receive")
			case len(unsure) > 0:
				c.Unsure(construct, entry.Pos(), "cannot trace the origin of the result: "+strings.Join(unsure, ", "))
			default:
				c.Good(construct, entry.Pos(), fmt.Sprintf("%d origin(s), none in cache storage", len(set)))
			}
		}
		// K1: writes into the role's store
		store := c20Fn(c, "storeOrAmend"+role.name+"Duties")
		sites := an.Calls(entry, func(cc *ssa.CallCommon) bool { return cc.StaticCallee() == store }, false)
		if len(sites) == 0 {
			c.Bail("%s does not call %s", role.entry, store.Name())
		}
		for _, sf := range c20StateFields {
			fkey := c20Pkg + "." + role.name + "Duties." + sf
			ups := mapUpdates(store, isFieldMap(fkey))
			if len(ups) == 0 {
				c.Bail("no write to %s in %s", fkey, store.Name())
			}
			own := "." + role.field + "." + sf
			set := c20Set{}
			for _, up := range ups {
				for _, o := range al.reach(up.Value, nil) {
					if o.kind == "param" && o.fn == store && o.idx > 0 {
						var psel []string
						if o.path != "" {
							psel = strings.Split(strings.TrimPrefix(o.path, "."), ".")
						}
						for _, site := range sites {
							set.addAll(al.reach(site.Common().Args[o.idx], psel))
						}
					} else {
						set.add(o)
					}
				}
			}
			var bad, unsure []string
			for _, o := range set {
				switch {
				case o.kind == "param" && o.idx == 0 && (o.fn == store || o.fn == entry):
					if o.path != own && !strings.HasPrefix(o.path, own+".") {
						bad = append(bad, "aliases another part of the cache ("+describe(o)+")")
					}
				case o.kind == "param":
					bad = append(bad, "is "+describe(o)+", which the caller still owns")
				case o.kind == "ext" || o.kind == "fresh":
					for rf, rs := range returned {
						for _, ro := range rs {
							if ro.kind == o.kind && ro.call == o.call && c20MayAlias(ro.path, o.path) {
								bad = append(bad, "is "+describe(o)+", which is also handed to the caller in result."+rf)
							}
						}
					}
				default:
					unsure = append(unsure, describe(o))
				}
			}
			sort.Strings(bad)
			sort.Strings(unsure)
			construct := store.Name() + " state." + sf
			switch {
			case len(bad) > 0:
				c.Bad(construct, posOf(ups[0]), "the value written into the cache "+strings.Join(bad, "; "))
			case len(unsure) > 0:
				c.Unsure(construct, posOf(ups[0]), "cannot trace the origin of the stored value: "+strings.Join(unsure, ", "))
			default:
				c.Good(construct, posOf(ups[0]), fmt.Sprintf("%d write(s), private to the cache", len(ups)))
			}
		}
	}
}

// ---------------------------------------------------------------------------------------------
// Z4: trims cover all three maps; hit/miss bookkeeping

// c20LoopClosed: the loop is left only through its header (no break/return inside the body).
func c20LoopClosed(l *an.Loop) bool {
	for b := range l.Body {
		if b == l.Header {
			continue
		}
		for _, s := range b.Succs {
			if !l.Body[s] {
				return false
			}
		}
	}
	return true
}

// c20OnEdge: block target is only reachable through the edge from -> from.Succs[i].
func c20OnEdge(succ *ssa.BasicBlock, target *ssa.BasicBlock) bool {
	return len(succ.Preds) == 1 && succ.Dominates(target)
}

// c20GuardedDelete looks in g for `delete(c.<role>.<field>, k)` inside a closed range loop over the same
// map, k the loop key, on the edge where `k <op> bound` holds for bound = parameter 1 of g. Returns the
// comparison operator, normalised to k on the left ("" and a reason if there is none).
func c20GuardedDelete(g *ssa.Function, fkey string) (token.Token, string) {
	why := "no deletion from this map"
	if len(g.Params) < 2 {
		return token.ILLEGAL, "unexpected signature"
	}
	for _, in := range an.Instrs(g, false) {
		call, ok := in.(*ssa.Call)
		if !ok {
			continue
		}
		b, ok := call.Call.Value.(*ssa.Builtin)
		if !ok || b.Name() != "delete" {
			continue
		}
		if k, _, ok := an.FieldOf(call.Call.Args[0]); !ok || k != fkey {
			continue
		}
		l := an.InnermostLoop(g, call.Block())
		if l == nil {
			why = "deletion is not inside a scan of the map"
			continue
		}
		if k, _, ok := an.FieldOf(l.RangeColl()); !ok || k != fkey || !an.IsMapType(l.RangeColl().Type()) {
			why = "deletion happens while scanning another collection"
			continue
		}
		key := an.Unwrap(call.Call.Args[1])
		if !l.ElemOf(key) {
			why = "deleted key is not the key of the scan"
			continue
		}
		if !c20LoopClosed(l) {
			why = "the scan can stop before having visited every epoch"
			continue
		}
		for _, cd := range an.CondsOn(g, key) {
			if cd.Other != ssa.Value(g.Params[1]) || !l.Body[cd.If.Block()] {
				continue
			}
			for _, base := range []bool{true, false} {
				if !c20OnEdge(cd.Succ(base), call.Block()) {
					continue
				}
				op := cd.Op
				if !base {
					switch op {
					case token.LSS:
						op = token.GEQ
					case token.GEQ:
						op = token.LSS
					case token.GTR:
						op = token.LEQ
					case token.LEQ:
						op = token.GTR
					case token.EQL:
						op = token.NEQ
					case token.NEQ:
						op = token.EQL
					}
				}
				return op, ""
			}
		}
		why = "deletion is not confined to a comparison of the scanned epoch with the epoch parameter"
	}
	return token.ILLEGAL, why
}

func c20Flip(op token.Token) token.Token {
	switch op {
	case token.LSS:
		return token.GTR
	case token.LEQ:
		return token.GEQ
	case token.GTR:
		return token.LSS
	case token.GEQ:
		return token.LEQ
	}
	return op
}

// c20RetVals resolves the results of a return through the spill slots `defer` introduces.
func c20RetVals(r *ssa.Return) []ssa.Value {
	out := make([]ssa.Value, len(r.Results))
	for i, v := range r.Results {
		out[i] = v
		ld, ok := v.(*ssa.UnOp)
		if !ok || ld.Op != token.MUL {
			continue
		}
		al, ok := ld.X.(*ssa.Alloc)
		if !ok {
			continue
		}
		for _, in := range r.Block().Instrs {
			if in == ssa.Instruction(ld) {
				break
			}
			if st, ok := in.(*ssa.Store); ok && st.Addr == ssa.Value(al) {
				out[i] = st.Val
			}
		}
	}
	return out
}

// c20FieldStore returns the value stored into field name of the composite literal whose loaded value is v.
func c20FieldStore(v ssa.Value, name string) ssa.Value {
	var al *ssa.Alloc
	switch x := v.(type) {
	case *ssa.Alloc:
		al = x
	case *ssa.UnOp:
		if x.Op == token.MUL {
			al, _ = x.X.(*ssa.Alloc)
		}
	}
	if al == nil {
		return nil
	}
	var out ssa.Value
	n := 0
	for _, ref := range *al.Referrers() {
		fa, ok := ref.(*ssa.FieldAddr)
		if !ok || c20FieldName(fa.X.Type(), fa.Field) != name {
			continue
		}
		for _, r2 := range *fa.Referrers() {
			if st, ok := r2.(*ssa.Store); ok && st.Addr == ssa.Value(fa) {
				out = st.Val
				n++
			}
		}
	}
	if n == 0 {
		if src := an.UniqueStore(al); src != nil {
			return c20FieldStore(src, name)
		}
	}
	if n != 1 {
		return nil
	}
	return out
}

// c20FromCallField: v is field `name` of result 0 of call (directly or through the local it is kept in).
func c20FromCallField(v ssa.Value, call ssa.Value, name string) bool {
	isRes := func(x ssa.Value) bool {
		ex, ok := x.(*ssa.Extract)
		return ok && ex.Tuple == call && ex.Index == 0
	}
	switch x := an.Unwrap(v).(type) {
	case *ssa.Field:
		return c20FieldName(x.X.Type(), x.Field) == name && isRes(x.X)
	case *ssa.UnOp:
		if fa, ok := x.X.(*ssa.FieldAddr); ok && x.Op == token.MUL && c20FieldName(fa.X.Type(), fa.Field) == name {
			if al, ok := fa.X.(*ssa.Alloc); ok {
				if src := an.UniqueStore(al); src != nil && isRes(src) {
					return true
				}
			}
		}
	}
	return false
}

func c20Z4(c *rt.Ctx) {
	// --- trims
	type trimSpec struct {
		api     string
		allowed []token.Token
		what    string
	}
	for _, ts := range []trimSpec{
		{"Trim", []token.Token{token.LSS, token.LEQ}, "older than"},
		{"InvalidateCache", []token.Token{token.GTR, token.GEQ}, "after"},
	} {
		api := c20Fn(c, ts.api)
		epochP := api.Params[len(api.Params)-1]
		var callees []ssa.CallInstruction
		for _, ci := range an.Calls(api, func(cc *ssa.CallCommon) bool {
			f := cc.StaticCallee()
			return f != nil && f.Pkg == api.Pkg && len(cc.Args) == 2 && cc.Args[0] == ssa.Value(api.Params[0])
		}, false) {
			callees = append(callees, ci)
		}
		if len(callees) == 0 {
			c.Bail("%s calls no per-store trim function", ts.api)
		}
		for _, role := range c20Roles {
			ops := map[token.Token]bool{}
			for _, sf := range c20StateFields {
				fkey := c20Pkg + "." + role.name + "Duties." + sf
				construct := ts.api + "→" + role.field + "." + sf
				found, why := false, "no function called from "+ts.api+" deletes from this map"
				for _, ci := range callees {
					g := ci.Common().StaticCallee()
					op, w := c20GuardedDelete(g, fkey)
					if op == token.ILLEGAL {
						if w != "no deletion from this map" {
							why = g.Name() + ": " + w
						}
						continue
					}
					okOp := false
					for _, a := range ts.allowed {
						if a == op {
							okOp = true
						}
					}
					if !okOp {
						why = fmt.Sprintf("%s deletes the epochs k with `k %s bound`, which does not cover every epoch %s the bound", g.Name(), op, ts.what)
						continue
					}
					// the bound handed over
					arg := an.Unwrap(ci.Common().Args[1])
					okArg := arg == ssa.Value(epochP)
					if bin, isBin := arg.(*ssa.BinOp); isBin && ts.api == "Trim" && bin.Op == token.SUB && bin.X == ssa.Value(epochP) {
						if _, isC := bin.Y.(*ssa.Const); isC {
							okArg = true
						}
					}
					if ts.api == "InvalidateCache" && arg != ssa.Value(epochP) {
						okArg = false
					}
					if !okArg {
						why = g.Name() + " is not called with the epoch handed to " + ts.api
						continue
					}
					// unconditional: the call is reached on every path that does not leave before any trimming
					if ts.api == "InvalidateCache" && !c20AllReturnsAfter(api, ci) {
						why = g.Name() + " is not called on every path through " + ts.api
						continue
					}
					found = true
					ops[op] = true
				}
				c.Check(construct, api.Pos(), found, why)
			}
			if len(ops) > 1 {
				c.Bad(ts.api+"→"+role.field+" same comparison", api.Pos(), "the three maps of one store are trimmed under different comparisons: an epoch can survive in one map and not in the others")
			}
		}
	}

	// --- hit / miss bookkeeping in the three entry points
	for _, role := range c20Roles {
		fn := c20Fn(c, role.entry)
		epochP, vidxsP := fn.Params[2], fn.Params[3]
		_ = vidxsP
		fetch := c20Fn(c, "fetch"+role.name+"Duties")
		store := c20Fn(c, "storeOrAmend"+role.name+"Duties")
		fetchCall := c.OneCall(fn, func(cc *ssa.CallCommon) bool { return cc.StaticCallee() == fetch }, fetch.Name(), false)
		storeCall := c.OneCall(fn, func(cc *ssa.CallCommon) bool { return cc.StaticCallee() == store }, store.Name(), false)
		beacon := c.OneCall(fn, an.Invoke(c20Pkg+".Client."+role.beacon), "eth2Cl."+role.beacon, false)
		var okFetch ssa.Value
		for _, ref := range *fetchCall.Value().Referrers() {
			if ex, ok := ref.(*ssa.Extract); ok && ex.Index == 1 {
				okFetch = ex
			}
		}
		if okFetch == nil {
			c.Bail("%s: availability result of %s is discarded", role.entry, fetch.Name())
		}
		var hitEdge *ssa.BasicBlock // block entered when the epoch is cached
		for _, cd := range an.CondsOn(fn, okFetch) {
			if cd.Other == nil && len(cd.Succ(true).Preds) == 1 {
				hitEdge = cd.Succ(true)
			}
		}
		if hitEdge == nil {
			c.Bail("%s: no branch on the availability result of %s", role.entry, fetch.Name())
		}
		// success returns
		var fast []*ssa.Return
		for _, r := range an.Returns(fn) {
			vals := c20RetVals(r)
			if len(vals) != 2 || !an.IsNilConst(vals[1]) {
				continue
			}
			if k, isC := vals[0].(*ssa.Const); isC && k.Value == nil {
				continue
			}
			if !beacon.Block().Dominates(r.Block()) {
				fast = append(fast, r)
			}
		}
		if len(fast) == 0 {
			c.Bail("%s: no return that answers from the cache alone", role.entry)
		}
		var missing ssa.Value
		for _, r := range fast {
			c.Check(role.entry+" cache-only answer requires a cached epoch", posOf(r), hitEdge.Dominates(r.Block()),
				"a return that does not ask the beacon node is reachable although the epoch is not cached")
			// len(M) == 0 on the edge to r
			var m ssa.Value
			for _, b := range fn.Blocks {
				iff, ok := b.Instrs[len(b.Instrs)-1].(*ssa.If)
				if !ok || !b.Dominates(r.Block()) {
					continue
				}
				bin, ok := iff.Cond.(*ssa.BinOp)
				if !ok {
					continue
				}
				lenArg := func(v ssa.Value) ssa.Value {
					if lc, ok := v.(*ssa.Call); ok {
						if bi, ok := lc.Call.Value.(*ssa.Builtin); ok && bi.Name() == "len" {
							return lc.Call.Args[0]
						}
					}
					return nil
				}
				op, lv, kv := bin.Op, bin.X, bin.Y
				if lenArg(lv) == nil {
					op, lv, kv = c20Flip(bin.Op), bin.Y, bin.X
				}
				arg := lenArg(lv)
				n, isConst := an.ConstInt(kv)
				if arg == nil || !isConst {
					continue
				}
				// which edge implies len(arg) == 0 (a length is never negative)
				var edge *ssa.BasicBlock
				switch {
				case (op == token.EQL && n == 0) || (op == token.LSS && n == 1) || (op == token.LEQ && n == 0):
					edge = b.Succs[0]
				case (op == token.NEQ && n == 0) || (op == token.GTR && n == 0) || (op == token.GEQ && n == 1):
					edge = b.Succs[1]
				default:
					continue
				}
				if c20OnEdge(edge, r.Block()) && hitEdge.Dominates(b) {
					m = arg
				}
			}
			c.Check(role.entry+" cache-only answer requires an empty missing set", posOf(r), m != nil,
				"the return that answers from the cache alone is not confined to the edge `len(missing) == 0`")
			if m != nil {
				missing = m
			}
		}
		if missing == nil {
			continue
		}
		// provenance of missing
		phis := map[ssa.Value]bool{}
		var appends []*ssa.Call
		shape := ""
		var walk func(v ssa.Value)
		walk = func(v ssa.Value) {
			if phis[v] {
				return
			}
			switch x := v.(type) {
			case *ssa.Phi:
				phis[v] = true
				for _, e := range x.Edges {
					walk(e)
				}
			case *ssa.Const:
				if x.Value != nil {
					shape = "missing set starts from a non-empty constant"
				}
			case *ssa.Call:
				if bi, ok := x.Call.Value.(*ssa.Builtin); ok && bi.Name() == "append" {
					appends = append(appends, x)
					walk(x.Call.Args[0])
					return
				}
				shape = "missing set is produced by a call that is not followed"
			case *ssa.MakeSlice:
			default:
				shape = fmt.Sprintf("missing set has an origin that is not followed (%T)", v)
			}
		}
		walk(missing)
		if shape != "" || len(appends) == 0 {
			if shape == "" {
				shape = "nothing is ever added to the missing set"
				c.Bad(role.entry+" missing = requested minus stored requestedIdxs", fn.Pos(), shape)
			} else {
				c.Unsure(role.entry+" missing = requested minus stored requestedIdxs", fn.Pos(), shape)
			}
			continue
		}
		var reqSet ssa.Value // the collection the miss loop ranges over
		good, why := true, ""
		fail := func(w string) {
			if good {
				good, why = false, w
			}
		}
		prevGood, prevWhy := true, ""
		prevFail := func(w string) {
			if prevGood {
				prevGood, prevWhy = false, w
			}
		}
		for _, ap := range appends {
			elems := appendedElems(ap)
			l := an.InnermostLoop(fn, ap.Block())
			if len(elems) != 1 || l == nil || !l.ElemOf(elems[0]) {
				fail("an index is added to the missing set that is not the index currently examined")
				continue
			}
			if !c20LoopClosed(l) {
				fail("the loop over the requested indices can stop early")
			}
			if reqSet != nil && reqSet != l.RangeColl() {
				fail("missing indices are collected from different request sets")
			}
			reqSet = l.RangeColl()
			// the append lies on the absent edge of a comma-ok lookup of the element in a set
			var set ssa.Value
			for _, in := range an.Instrs(fn, false) {
				lk, ok := in.(*ssa.Lookup)
				if !ok || !lk.CommaOk || !l.Body[lk.Block()] || !an.Equiv(lk.Index, elems[0]) {
					continue
				}
				for _, ref := range *lk.Referrers() {
					ex, ok := ref.(*ssa.Extract)
					if !ok || ex.Index != 1 {
						continue
					}
					for _, cd := range an.CondsOn(fn, ex) {
						if cd.Other != nil || !c20OnEdge(cd.Succ(false), ap.Block()) {
							continue
						}
						all := true
						for _, la := range l.Latches {
							if !cd.If.Block().Dominates(la) {
								all = false
							}
						}
						if all {
							set = lk.X
						}
					}
				}
			}
			if set == nil {
				fail("an index is added to the missing set without having been looked up (and found absent) in the set of stored requested indices")
				continue
			}
			mm, ok := set.(*ssa.MakeMap)
			if !ok {
				prevFail("the set the requested indices are looked up in is not a locally built map")
				continue
			}
			nUp := 0
			for _, ref := range *mm.Referrers() {
				switch r := ref.(type) {
				case *ssa.MapUpdate:
					nUp++
					l2 := an.InnermostLoop(fn, r.Block())
					switch {
					case l2 == nil || !l2.ElemOf(r.Key):
						prevFail("the set of already requested indices receives a key that is not an element of a scanned list")
					case !c20FromCallField(l2.RangeColl(), fetchCall.Value(), "requestedIdxs"):
						prevFail("the set of already requested indices is not filled from the requestedIdxs stored for the epoch (a validator without a duty would be asked for again, or a never-asked one taken as known)")
					case !c20LoopClosed(l2):
						prevFail("the scan of the stored requestedIdxs can stop early")
					case !l2.Header.Dominates(l.Header) || l2.Body[l.Header]:
						prevFail("the set of already requested indices is not complete before the requested indices are examined")
					default:
						for _, la := range l2.Latches {
							if !r.Block().Dominates(la) {
								prevFail("some stored requested index can be skipped when the set is built")
							}
						}
					}
				case *ssa.Lookup, *ssa.DebugRef:
				case *ssa.Call:
					if bi, ok := r.Call.Value.(*ssa.Builtin); !ok || bi.Name() != "len" {
						prevFail("the set of already requested indices is modified or handed out before use")
					}
				default:
					prevFail("the set of already requested indices is modified or handed out before use")
				}
			}
			if nUp == 0 {
				prevFail("the set of already requested indices is never filled")
			}
		}
		c.Check(role.entry+" missing = requested minus already-requested", fn.Pos(), good, why)
		c.Check(role.entry+" already-requested = stored requestedIdxs", fn.Pos(), prevGood, prevWhy)

		// the beacon request
		opts := beacon.Common().Args[1]
		idx := c20FieldStore(opts, "Indices")
		if idx == nil {
			c.Unsure(role.entry+" beacon request indices", beacon.Pos(), "cannot resolve the Indices of the request options")
		} else {
			good, why := true, ""
			if ph, ok := idx.(*ssa.Phi); ok && ph.Block().Dominates(beacon.Block()) {
				for i, e := range ph.Edges {
					pred := ph.Block().Preds[i]
					if hitEdge.Dominates(pred) {
						if !phis[e] {
							good, why = false, "after a partial hit the beacon node is not asked for exactly the missing indices"
						}
					} else if reqSet != nil && e != reqSet {
						good, why = false, "without a cached epoch the beacon node is not asked for the full requested set the hit/miss decision is computed from"
					}
				}
			} else if phis[idx] {
				// only reachable through the partial-hit branch
				if !hitEdge.Dominates(beacon.Block()) {
					good, why = false, "the missing set is requested although the epoch may not be cached"
				}
			} else {
				good, why = false, "after a partial hit the beacon node is not asked for exactly the missing indices"
			}
			c.Check(role.entry+" beacon request indices", beacon.Pos(), good, why)
			rec := c20FieldStore(storeCall.Common().Args[2], "requestedIdxs")
			if rec == nil {
				c.Unsure(role.entry+" recorded requestedIdxs = requested indices", storeCall.Pos(), "cannot resolve the requestedIdxs handed to the cache store")
			} else {
				c.Check(role.entry+" recorded requestedIdxs = requested indices", storeCall.Pos(), rec == idx,
					"the indices recorded as requested for the epoch are not the slice sent to the beacon node")
			}
		}
		ep := c20FieldStore(opts, "Epoch")
		okEp := ep == ssa.Value(epochP) && fetchCall.Common().Args[1] == ssa.Value(epochP) && storeCall.Common().Args[1] == ssa.Value(epochP)
		c.Check(role.entry+" one epoch for lookup, request and store", beacon.Pos(), okEp,
			"cache lookup, beacon request and cache store do not all use the epoch parameter")
		// the response is what gets stored: guarded by its error
		g, w := an.Guarded(beacon, storeCall, an.DefaultGuard)
		c.Check(role.entry+" store only a successful response", storeCall.Pos(), g, "cache store reachable although the beacon request failed: "+w)
	}
}

// c20AllReturnsAfter: every path from the entry to a return passes through call ci.
func c20AllReturnsAfter(fn *ssa.Function, ci ssa.CallInstruction) bool {
	for _, r := range an.Returns(fn) {
		if !ci.Block().Dominates(r.Block()) {
			return false
		}
	}
	return true
}

// ---------------------------------------------------------------------------------------------
// Z5: wiring

func c20Z5(c *rt.Ctx) {
	wire := c.Fn("app.wireCoreWorkflow")
	const dc = c20Pkg + ".DutiesCache."
	// the cache object(s) installed as the client's duties cache
	boundRecv := func(v ssa.Value, method string) ssa.Value {
		mc, ok := an.Unwrap(v).(*ssa.MakeClosure)
		if !ok || len(mc.Bindings) != 1 {
			return nil
		}
		f, ok := mc.Fn.(*ssa.Function)
		if !ok || an.FuncName(f) != dc+method && !strings.HasPrefix(f.Name(), method+"$bound") {
			return nil
		}
		if f.Synthetic == "" || !strings.Contains(f.String(), "DutiesCache") {
			return nil
		}
		return mc.Bindings[0]
	}
	slot := func(v ssa.Value) ssa.Value { // the variable a cache pointer is read from
		if ld, ok := an.Unwrap(v).(*ssa.UnOp); ok && ld.Op == token.MUL {
			return ld.X
		}
		return an.Unwrap(v)
	}
	var installs []ssa.CallInstruction
	var caches []ssa.Value
	for _, ci := range an.Calls(wire, func(cc *ssa.CallCommon) bool { return cc.IsInvoke() && cc.Method.Name() == "SetDutiesCache" }, false) {
		for _, a := range ci.Common().Args {
			for _, r := range c20Roles {
				if recv := boundRecv(a, r.entry); recv != nil {
					installs = append(installs, ci)
					caches = append(caches, slot(recv))
				}
			}
		}
	}
	if len(installs) == 0 {
		c.Bail("wireCoreWorkflow does not install a DutiesCache through SetDutiesCache")
	}
	subs := an.Calls(wire, an.Invoke("app/sse.Listener.SubscribeChainReorgEvent"), false)
	good, why := true, ""
	for i := range installs {
		// every creation of the installed cache is inevitably followed by the subscription of its InvalidateCache
		var creations []ssa.Instruction
		for _, nc := range an.Calls(wire, an.Static(c20Pkg+".NewDutiesCache"), false) {
			if nc.Value() == caches[i] {
				creations = append(creations, nc)
				continue
			}
			for _, ref := range *nc.Value().Referrers() {
				if st, ok := ref.(*ssa.Store); ok && st.Val == nc.Value() && st.Addr == caches[i] {
					creations = append(creations, st)
				}
			}
		}
		if len(creations) == 0 {
			c.Unsure("wireCoreWorkflow InvalidateCache subscribed to chain reorgs", installs[i].Pos(), "cannot find where the installed duties cache is created")
			return
		}
		for _, cr := range creations {
			found := false
			for _, s := range subs {
				recv := boundRecv(s.Common().Args[0], "InvalidateCache")
				if recv == nil || slot(recv) != caches[i] {
					continue
				}
				if _, esc := an.EscapePath(cr, func(in ssa.Instruction) bool { return in == ssa.Instruction(s) }, an.PassOpt{PanicIsExit: true}); !esc {
					found = true
				}
			}
			if !found {
				good, why = false, "a duties cache is created and installed without its InvalidateCache being subscribed to chain-reorg events on every path: duties of reorged epochs keep being served"
			}
		}
	}
	c.Check("wireCoreWorkflow InvalidateCache subscribed to chain reorgs", installs[0].Pos(), good, why)

	// Trim from a slot subscriber
	good, why = false, "no slot subscriber calls Trim on the installed duties cache with the epoch of the slot"
	var pos token.Pos = wire.Pos()
	for _, lit := range wire.AnonFuncs {
		// the literal is registered with the scheduler
		registered := false
		for _, in := range an.Instrs(wire, false) {
			mc, ok := in.(*ssa.MakeClosure)
			if !ok || mc.Fn != ssa.Value(lit) {
				continue
			}
			for _, ref := range *mc.Referrers() {
				if ci, ok := ref.(ssa.CallInstruction); ok && an.Static("core/scheduler.Scheduler.SubscribeSlots")(ci.Common()) {
					registered = true
				}
			}
			if !registered {
				continue
			}
			for _, tc := range an.Calls(lit, an.Static(dc+"Trim"), false) {
				pos = tc.Pos()
				// receiver: captured variable bound to the installed cache variable
				recv := slot(tc.Common().Args[0])
				fv, ok := recv.(*ssa.FreeVar)
				same := false
				if ok {
					for i, f := range lit.FreeVars {
						if f == fv && i < len(mc.Bindings) {
							for _, cv := range caches {
								if mc.Bindings[i] == cv {
									same = true
								}
							}
						}
					}
				}
				// epoch: Slot.Epoch() of the subscriber's slot parameter
				arg := an.Unwrap(tc.Common().Args[1])
				fromSlot := false
				if call, ok := arg.(*ssa.Call); ok && an.Static("core.Slot.Epoch")(&call.Call) && len(lit.Params) == 2 {
					fromSlot = rootedAt(call.Call.Args[0], lit.Params[1])
				}
				switch {
				case !same:
					why = "Trim is called on something other than the installed duties cache"
				case !fromSlot:
					why = "Trim is not called with the epoch of the slot being announced"
				default:
					good = true
				}
			}
		}
	}
	c.Check("wireCoreWorkflow slot subscriber trims the duties cache", pos, good, why)
}
