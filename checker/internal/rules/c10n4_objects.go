package rules

// c10n4_objects.go — helper objects (C10 hardening round 4).
//
// A constructor's closures over local tables are often turned into an unexported helper object (an index, a
// registry) built by a composite literal and used through its methods. heapObject follows a pointer value (through
// the parameters of the call chain, captured variables and the results of in-package constructors) to that
// literal and describes the object by its write-once members: fields stored exactly once, in the literal, and by
// no other instruction of the package (the type is the package's own, so nothing else can assign them).
// Enabled per walker (c10W.objects); c10Select looks a member of such an object up like a member of a literal,
// any other field stays a field of the object.

import (
	"go/types"
	"sort"

	"golang.org/x/tools/go/ssa"

	"charonverif/internal/an"
)

func (cx c10Cx) heapObject(p ssa.Value) *c10T {
	if cx.w == nil || !cx.w.objects {
		return nil
	}
	v := p
	var al *ssa.Alloc
	for i := 0; i < 8 && al == nil; i++ {
		v, cx = cx.source(v)
		switch x := c10Strip(v).(type) {
		case *ssa.Alloc:
			al = x
		case *ssa.Call:
			r, rcx, ok := cx.inline(x, 0)
			if !ok {
				return nil
			}
			v, cx = r, rcx
		case *ssa.Extract:
			call, isCall := x.Tuple.(*ssa.Call)
			if !isCall {
				return nil
			}
			r, rcx, ok := cx.inline(call, x.Index)
			if !ok {
				return nil
			}
			v, cx = r, rcx
		default:
			return nil
		}
	}
	if al == nil {
		return nil
	}
	ptr, ok := al.Type().Underlying().(*types.Pointer)
	if !ok {
		return nil
	}
	named, ok := types.Unalias(ptr.Elem()).(*types.Named)
	if !ok {
		return nil
	}
	st, ok := named.Underlying().(*types.Struct)
	pkg := c10PkgOf(al.Parent())
	if !ok || pkg == nil || named.Obj().Pkg() != pkg.Pkg {
		return nil
	}
	vals := map[int]ssa.Value{}
	dup := map[int]bool{}
	for _, ref := range *al.Referrers() {
		fa, ok := ref.(*ssa.FieldAddr)
		if !ok {
			continue
		}
		for _, r2 := range *fa.Referrers() {
			if s, ok := r2.(*ssa.Store); ok && s.Addr == ssa.Value(fa) {
				if _, seen := vals[fa.Field]; seen {
					dup[fa.Field] = true
				}
				vals[fa.Field] = s.Val
			}
		}
	}
	var names []string
	byName := map[string]ssa.Value{}
	for idx, val := range vals {
		if dup[idx] || idx >= st.NumFields() || c10FieldStores(pkg, named, idx) != 1 {
			continue
		}
		names = append(names, st.Field(idx).Name())
		byName[st.Field(idx).Name()] = val
	}
	if len(names) == 0 {
		return nil
	}
	sort.Strings(names)
	args := make([]*c10T, 0, len(names))
	for _, n := range names {
		args = append(args, c10mk("member", n, cx.term(byName[n])))
	}
	return c10mk("obj", an.TypeName(named)+cx.id(al), args...)
}

var c10FieldStoreCount = map[string]int{}

// c10FieldStores counts the stores, anywhere in the package, to field idx of the package's struct type named.
func c10FieldStores(pkg *ssa.Package, named *types.Named, idx int) int {
	key := an.FieldKey(named, idx) + "@" + pkg.Pkg.Path()
	if n, ok := c10FieldStoreCount[key]; ok {
		return n
	}
	n := 0
	for _, f := range an.PkgFuncsAll(pkg) {
		for _, in := range an.Instrs(f, false) {
			s, ok := in.(*ssa.Store)
			if !ok {
				continue
			}
			fa, ok := s.Addr.(*ssa.FieldAddr)
			if !ok || fa.Field != idx {
				continue
			}
			t := fa.X.Type()
			if p, isPtr := t.Underlying().(*types.Pointer); isPtr {
				t = p.Elem()
			}
			if types.Identical(types.Unalias(t), named) {
				n++
			}
		}
	}
	c10FieldStoreCount[key] = n
	return n
}
