package rules

import (
	"fmt"
	"go/token"
	"go/types"
	"sort"
	"strings"

	"golang.org/x/tools/go/ssa"

	"charonverif/internal/an"
)

// C20-Z4, trims: semantic formulation that does not depend on how the deletion is spelled.
//
// A trim function g(c, bound) removes from map field F the epochs k for which a condition on (k, bound) holds.
// The rule evaluates, for each of the three orderings k < bound, k == bound, k > bound, whether an entry k is
// removed: the code that decides the removal (the body of the scan over F, or the predicate handed to
// maps.DeleteFunc, or an in-package helper that receives the map) is walked under the ordering, with
// comparisons of the scanned key against the bound decided by the ordering and every other condition followed
// on both edges. The set of orderings under which the entry is always removed gives the comparison.

const (
	c20LT = iota
	c20EQ
	c20GT
)

var c20OrdName = [3]string{"k < bound", "k == bound", "k > bound"}

// c20DelResult is the verdict for one map field in one trim function.
type c20DelResult struct {
	found  bool    // some deletion from the field was found
	unsure string  // a deletion in a form that is not followed
	bad    string  // a deletion that is recognised and wrong regardless of the comparison
	del    [3]int8 // per ordering: 0 never removed, 1 always removed, 2 depends on something else
	pos    token.Pos
}

func (r c20DelResult) op() (token.Token, string) {
	for i, d := range r.del {
		if d == 2 {
			return token.ILLEGAL, "whether an epoch with " + c20OrdName[i] + " is deleted also depends on a condition other than the comparison of the scanned epoch with the epoch parameter"
		}
	}
	switch r.del {
	case [3]int8{1, 0, 0}:
		return token.LSS, ""
	case [3]int8{1, 1, 0}:
		return token.LEQ, ""
	case [3]int8{0, 0, 1}:
		return token.GTR, ""
	case [3]int8{0, 1, 1}:
		return token.GEQ, ""
	case [3]int8{0, 1, 0}:
		return token.EQL, ""
	case [3]int8{1, 0, 1}:
		return token.NEQ, ""
	case [3]int8{0, 0, 0}:
		return token.ILLEGAL, "no epoch is ever deleted"
	}
	return token.ILLEGAL, "every epoch is deleted whatever the epoch parameter"
}

// c20Trim analyses deletions from one target map inside a function (and, following the map, inside helpers).
type c20Trim struct {
	bound      ssa.Value                             // the epoch parameter of the trim function (origin level)
	isBound    func(w *c19Walker, v ssa.Value) bool  // optional: recognises the bound (seen through the walker's bindings)
	attributed map[ssa.Instruction]bool              // optional: deletion sites recognised as deleting from the target
}

func (t *c20Trim) boundIs(w *c19Walker, v ssa.Value) bool {
	if t.isBound != nil {
		return t.isBound(w, v)
	}
	return w.only(v, t.bound)
}

func (t *c20Trim) note(in ssa.Instruction) {
	if t.attributed != nil {
		t.attributed[in] = true
	}
}

// c20ConstOf: v resolves (through the walker's bindings) to one integer constant.
func c20ConstOf(w *c19Walker, v ssa.Value) (int64, bool) {
	os := w.origins(v)
	if len(os) == 0 {
		return 0, false
	}
	var k int64
	for i, o := range os {
		n, ok := an.ConstInt(o)
		if !ok || (i > 0 && n != k) {
			return 0, false
		}
		k = n
	}
	return k, true
}

func c20Cmp(ord int, op token.Token) bool {
	switch op {
	case token.LSS:
		return ord == c20LT
	case token.LEQ:
		return ord != c20GT
	case token.GTR:
		return ord == c20GT
	case token.GEQ:
		return ord != c20LT
	case token.EQL:
		return ord == c20EQ
	case token.NEQ:
		return ord != c20EQ
	}
	return false
}

// walker builds a path walker that decides comparisons key<->bound by the ordering; isKey recognises the key.
func (t *c20Trim) walker(ord int, isKey func(w *c19Walker, v ssa.Value) bool, bind map[*ssa.Parameter]ssa.Value) *c19Walker {
	w := &c19Walker{
		atom: func(*c19Walker, ssa.Value) (int, bool, bool) { return 0, false, false },
		bind: map[*ssa.Parameter]ssa.Value{},
	}
	for k, v := range bind {
		w.bind[k] = v
	}
	w.pre = func(w *c19Walker, v ssa.Value) (bool, bool) {
		bin, ok := v.(*ssa.BinOp)
		if !ok {
			return false, false
		}
		switch bin.Op {
		case token.LSS, token.LEQ, token.GTR, token.GEQ, token.EQL, token.NEQ:
		default:
			return false, false
		}
		switch {
		case isKey(w, bin.X) && t.boundIs(w, bin.Y):
			return c20Cmp(ord, bin.Op), true
		case isKey(w, bin.Y) && t.boundIs(w, bin.X):
			return c20Cmp(ord, c20Flip(bin.Op)), true
		}
		// a mode flag handed down as a constant (`dir == trimOlder`)
		if a, ok := c20ConstOf(w, bin.X); ok {
			if b, ok := c20ConstOf(w, bin.Y); ok {
				switch bin.Op {
				case token.LSS:
					return a < b, true
				case token.LEQ:
					return a <= b, true
				case token.GTR:
					return a > b, true
				case token.GEQ:
					return a >= b, true
				case token.EQL:
					return a == b, true
				case token.NEQ:
					return a != b, true
				}
			}
		}
		return false, false
	}
	return w
}

// merge folds the outcome set of one ordering into del: "del" only -> 1, "keep" only -> 0, else 2.
func c20Fold(out map[string]bool) (int8, string) {
	for k := range out {
		if strings.HasPrefix(k, "?") {
			return 2, k
		}
	}
	switch {
	case len(out) == 1 && out["del"]:
		return 1, ""
	case len(out) == 1 && out["keep"]:
		return 0, ""
	}
	return 2, ""
}

// analyse finds the deletions from the target map in fn. isTarget recognises the map value inside fn.
func (t *c20Trim) analyse(fn *ssa.Function, isTarget func(v ssa.Value) bool, bind map[*ssa.Parameter]ssa.Value, depth int) c20DelResult {
	var res c20DelResult
	combine := func(r c20DelResult) {
		if !r.found {
			return
		}
		if !res.found {
			res = r
			return
		}
		// several deletion sites: an epoch is removed if any of them removes it
		for i := range res.del {
			switch {
			case res.del[i] == 1 || r.del[i] == 1:
				res.del[i] = 1
			case res.del[i] == 2 || r.del[i] == 2:
				res.del[i] = 2
			}
		}
		if res.unsure == "" {
			res.unsure = r.unsure
		}
		if res.bad == "" {
			res.bad = r.bad
		}
	}
	for _, in := range an.Instrs(fn, false) {
		call, ok := in.(*ssa.Call)
		if !ok {
			continue
		}
		cc := &call.Call
		if b, isB := cc.Value.(*ssa.Builtin); isB {
			switch {
			case b.Name() == "delete" && len(cc.Args) == 2 && isTarget(cc.Args[0]):
				t.note(call)
				combine(t.deleteInScan(fn, call, isTarget, bind))
			case b.Name() == "clear" && len(cc.Args) == 1 && isTarget(cc.Args[0]):
				t.note(call)
				combine(c20DelResult{found: true, del: [3]int8{1, 1, 1}, pos: call.Pos()})
			}
			continue
		}
		if cc.IsInvoke() {
			continue
		}
		callee := an.Orig(cc.StaticCallee())
		if callee == nil {
			continue
		}
		ti := -1
		for i, a := range cc.Args {
			if isTarget(a) {
				ti = i
			}
		}
		if ti < 0 {
			continue
		}
		switch {
		case an.FuncName(callee) == "maps.DeleteFunc" && ti == 0 && len(cc.Args) == 2:
			t.note(call)
			combine(t.deleteFunc(call, cc.Args[1], bind))
		case callee.Pkg == fn.Pkg && len(callee.Blocks) > 0 && len(callee.Params) == len(cc.Args):
			if depth >= 2 {
				combine(c20DelResult{found: true, unsure: "the map is handed on through more than two helpers", pos: call.Pos()})
				continue
			}
			nb := map[*ssa.Parameter]ssa.Value{}
			for k, v := range bind {
				nb[k] = v
			}
			for i, p := range callee.Params {
				nb[p] = cc.Args[i]
			}
			target := callee.Params[ti]
			sub := t.analyse(callee, func(v ssa.Value) bool { return c19Only(v, target) }, nb, depth+1)
			if sub.found && !sub.pos.IsValid() {
				sub.pos = call.Pos()
			}
			combine(sub)
		}
	}
	return res
}

// c20ScanKey: v is the key of the map scan performed by loop l (the key component of the loop's Next).
func c20ScanKey(l *an.Loop, v ssa.Value) bool {
	ex, ok := an.Unwrap(v).(*ssa.Extract)
	if !ok || ex.Index != 1 {
		return false
	}
	nx, ok := ex.Tuple.(*ssa.Next)
	return ok && l.Body[nx.Block()] && nx.Block() == l.Header
}

// deleteInScan: `delete(M, k)` inside a scan `for k := range M`.
func (t *c20Trim) deleteInScan(fn *ssa.Function, del *ssa.Call, isTarget func(ssa.Value) bool, bind map[*ssa.Parameter]ssa.Value) c20DelResult {
	res := c20DelResult{found: true, pos: del.Pos()}
	l := an.InnermostLoop(fn, del.Block())
	if l == nil {
		// a deletion that leaves the scan (delete + break): the block is dominated by the header of a scan over
		// the map whose key it deletes, but control never returns to that header
		for _, l2 := range an.Loops(fn) {
			if coll := l2.RangeColl(); coll != nil && an.IsMapType(coll.Type()) && isTarget(coll) && l2.Header.Dominates(del.Block()) {
				for _, o := range c19Origins(del.Call.Args[1]) {
					if c20ScanKey(l2, o) {
						res.bad = "the scan can stop before having visited every epoch"
						return res
					}
				}
			}
		}
		res.unsure = "deletion is not inside a scan of the map"
		return res
	}
	coll := l.RangeColl()
	if coll == nil || !an.IsMapType(coll.Type()) {
		res.unsure = "deletion happens while scanning something that is not a map (collect-then-delete forms are not followed)"
		return res
	}
	if !isTarget(coll) {
		res.bad = "deletion happens while scanning another collection"
		return res
	}
	key := del.Call.Args[1]
	isKey := func(w *c19Walker, v ssa.Value) bool {
		os := w.origins(v)
		if len(os) == 0 {
			return false
		}
		for _, o := range os {
			if !c20ScanKey(l, o) {
				return false
			}
		}
		return true
	}
	if !isKey(&c19Walker{}, key) {
		res.bad = "deleted key is not the key of the scan"
		return res
	}
	if !c20LoopClosed(l) {
		res.bad = "the scan can stop before having visited every epoch"
		return res
	}
	// entry of the iteration: the successor of the header inside the loop
	var body *ssa.BasicBlock
	for _, s := range l.Header.Succs {
		if l.Body[s] && s != l.Header {
			body = s
		}
	}
	if body == nil {
		res.unsure = "cannot find the body of the scan"
		return res
	}
	for ord := 0; ord < 3; ord++ {
		w := t.walker(ord, isKey, bind)
		w.stop = func(b *ssa.BasicBlock, w *c19Walker) (string, bool) {
			if b == l.Header {
				for _, pb := range w.path {
					if pb == del.Block() {
						return "del", true
					}
				}
				return "keep", true
			}
			if !l.Body[b] {
				return "?leaves the scan", true
			}
			return "", false
		}
		w.ret = func(*ssa.Return, *c19Walker) string { return "?returns from the scan" }
		w.run(body, l.Header)
		d, u := c20Fold(w.out)
		res.del[ord] = d
		if u != "" && res.unsure == "" {
			res.unsure = "the body of the scan cannot be followed (" + strings.TrimPrefix(u, "?") + ")"
		}
	}
	return res
}

// deleteFunc: maps.DeleteFunc(M, pred): the entry k is removed iff pred(k, v) is true.
func (t *c20Trim) deleteFunc(call *ssa.Call, predv ssa.Value, bind map[*ssa.Parameter]ssa.Value) c20DelResult {
	res := c20DelResult{found: true, pos: call.Pos()}
	var pred *ssa.Function
	os := c19Subst(c19Origins(predv), bind, 0)
	if len(os) == 1 {
		switch f := os[0].(type) {
		case *ssa.Function:
			pred = f
		case *ssa.MakeClosure:
			pred, _ = f.Fn.(*ssa.Function)
		}
	}
	pred = an.Orig(pred)
	if pred == nil || len(pred.Blocks) == 0 || len(pred.Params) != 2 {
		res.unsure = "the predicate handed to maps.DeleteFunc cannot be resolved to a function of the package"
		return res
	}
	keyP := pred.Params[0]
	isKey := func(w *c19Walker, v ssa.Value) bool { return w.only(v, keyP) }
	for ord := 0; ord < 3; ord++ {
		w := t.walker(ord, isKey, bind)
		w.ret = func(r *ssa.Return, w *c19Walker) string {
			vals := c19RetVals(r)
			if len(vals) != 1 {
				return "?"
			}
			if b, ok := w.eval(vals[0], 0); ok {
				if b {
					return "del"
				}
				return "keep"
			}
			return "?undecided predicate result"
		}
		w.run(pred.Blocks[0], nil)
		out := w.out
		if len(out) == 2 && out["del"] && out["keep"] {
			res.del[ord] = 2
			continue
		}
		if out["?undecided predicate result"] && len(out) <= 3 {
			// the predicate's result depends on something other than the comparison
			res.del[ord] = 2
			continue
		}
		d, u := c20Fold(out)
		res.del[ord] = d
		if u != "" && res.unsure == "" {
			res.unsure = "the predicate handed to maps.DeleteFunc cannot be followed (" + strings.TrimPrefix(u, "?") + ")"
		}
	}
	return res
}

// c20TrimCallee is one in-package function reached from Trim / InvalidateCache (directly, or through at most two
// intermediate in-package functions that hand the epoch on).
type c20TrimCallee struct {
	g       *ssa.Function
	bound   ssa.Value                    // the epoch argument of a direct call, in the frame of the API function (nil below)
	bind    map[*ssa.Parameter]ssa.Value // parameters of g (and of the intermediate functions) -> arguments
	site    ssa.Instruction              // the call
	certain bool                         // once the call site (or the loop over the trim functions) is reached, g is certainly called
	always  bool                         // ... and that is the case on every path through the API function
	whyNot  string
}

// c20BoundMethod resolves a method value `c.m` (closure over the bound-method wrapper) to (method, receiver).
func c20BoundMethod(v ssa.Value) (*ssa.Function, ssa.Value) {
	mc, ok := an.Unwrap(v).(*ssa.MakeClosure)
	if !ok || len(mc.Bindings) != 1 {
		return nil, nil
	}
	wf, ok := mc.Fn.(*ssa.Function)
	if !ok || wf.Synthetic == "" || !strings.Contains(wf.Name(), "$bound") {
		return nil, nil
	}
	for _, in := range an.Instrs(wf, false) {
		if ci, isCall := in.(ssa.CallInstruction); isCall {
			if f := an.Orig(ci.Common().StaticCallee()); f != nil {
				return f, mc.Bindings[0]
			}
		}
	}
	return nil, nil
}

// c20TrimCallees lists the in-package functions api calls on its own receiver: direct method calls, calls through
// the elements of a literal slice of method values that a closed loop ranges over, and (two levels deep) the
// in-package functions those call. Which of them trims which map is decided by the caller.
func c20TrimCallees(api *ssa.Function) (out []c20TrimCallee, unsure string) {
	out, unsure = c20TrimCalleesIn(api, api, nil, 0, true, true, "")
	sort.SliceStable(out, func(i, j int) bool { return out[i].g.Name() < out[j].g.Name() })
	return out, unsure
}

func c20TrimCalleesIn(api, fn *ssa.Function, bind map[*ssa.Parameter]ssa.Value, depth int, pCertain, pAlways bool, pWhy string) (out []c20TrimCallee, unsure string) {
	var recv ssa.Value
	if depth == 0 {
		recv = api.Params[0]
	}
	returnsAfter := func(b *ssa.BasicBlock) bool {
		for _, r := range an.Returns(fn) {
			if !b.Dominates(r.Block()) {
				return false
			}
		}
		return true
	}
	extend := func(f *ssa.Function, args []ssa.Value) map[*ssa.Parameter]ssa.Value {
		nb := map[*ssa.Parameter]ssa.Value{}
		for k, v := range bind {
			nb[k] = v
		}
		if len(f.Params) == len(args) {
			for i, p := range f.Params {
				nb[p] = args[i]
			}
		}
		return nb
	}
	emit := func(tc c20TrimCallee) {
		if !pCertain {
			tc.certain = false
		}
		if !pAlways {
			tc.always = false
		}
		if (!pCertain || !pAlways) && pWhy != "" {
			tc.whyNot = pWhy
		}
		out = append(out, tc)
		if depth < 2 {
			sub, u := c20TrimCalleesIn(api, tc.g, tc.bind, depth+1, tc.certain, tc.always, tc.whyNot)
			out = append(out, sub...)
			if u != "" && unsure == "" {
				unsure = u
			}
		}
	}
	for _, in := range an.Instrs(fn, false) {
		ci, ok := in.(ssa.CallInstruction)
		if !ok || ci.Common().IsInvoke() {
			continue
		}
		cc := ci.Common()
		if f := an.Orig(cc.StaticCallee()); f != nil {
			if f.Pkg != api.Pkg || len(f.Blocks) == 0 || len(f.Params) != len(cc.Args) {
				continue
			}
			if depth == 0 {
				onRecv := false
				for _, a := range cc.Args {
					if a == recv || c19Only(a, recv) {
						onRecv = true
					}
				}
				if !onRecv {
					continue
				}
			}
			_, isCall := ci.(*ssa.Call)
			tc := c20TrimCallee{g: f, bind: extend(f, cc.Args), site: ci, certain: isCall, always: isCall && returnsAfter(ci.Block())}
			if depth == 0 && len(cc.Args) == 2 {
				tc.bound = cc.Args[1]
			}
			if !tc.always {
				tc.whyNot = f.Name() + " is not called on every path through " + fn.Name()
			}
			emit(tc)
			continue
		}
		if _, isB := cc.Value.(*ssa.Builtin); isB || len(cc.Args) != 1 || depth > 0 {
			continue
		}
		// a dynamic call f(epoch): f the element of a scan over a literal list of method values of the receiver
		l := an.InnermostLoop(api, ci.Block())
		if l == nil || !c19LoopElem(l, cc.Value) {
			continue
		}
		elems, isLit := c19SliceLit(an.Resolve(l.RangeColl()))
		if !isLit || len(elems) == 0 {
			unsure = "a function value is called in a loop over a list that is not a literal of method values"
			continue
		}
		var fns []*ssa.Function
		for _, e := range elems {
			f, r := c20BoundMethod(an.Resolve(e))
			if f == nil || !(r == recv || c19Only(r, recv)) || f.Pkg != api.Pkg {
				fns = nil
				break
			}
			fns = append(fns, f)
		}
		if fns == nil {
			unsure = "a function value is called in a loop over a list whose elements are not all method values of the receiver"
			continue
		}
		certain, why := true, ""
		_, isCall := ci.(*ssa.Call)
		switch {
		case !isCall:
			certain, why = false, "the trim functions are deferred or started as goroutines"
		case !c20LoopClosed(l) || !c19LoopFromStart(l):
			certain, why = false, "the loop over the trim functions can stop before all of them were called"
		default:
			for _, la := range l.Latches {
				if !ci.Block().Dominates(la) {
					certain, why = false, "an iteration of the loop over the trim functions can skip the call"
				}
			}
		}
		always := certain && returnsAfter(l.Header)
		if certain && !always {
			why = "the loop over the trim functions is not executed on every path through " + api.Name()
		}
		for _, f := range fns {
			nb := map[*ssa.Parameter]ssa.Value{}
			if len(f.Params) == 2 {
				nb[f.Params[0]] = recv
				nb[f.Params[1]] = cc.Args[0]
			}
			emit(c20TrimCallee{g: f, bound: cc.Args[0], bind: nb, site: ci, certain: certain, always: always, whyNot: why})
		}
	}
	return out, unsure
}

// c20Unfollowed reports why the absence of a deletion in the functions reached from the trim callees is not
// evidence: a deletion from a map keyed by epochs that was not attributed to one of the cache's maps (made
// through a view struct, a parameter that was not followed, ...), or a call of a function value that is not
// resolved. "" when everything reached is followed.
func c20Unfollowed(callees []c20TrimCallee, attributed map[ssa.Instruction]bool, keyT types.Type) string {
	seen := map[*ssa.Function]bool{}
	why := ""
	var visit func(f *ssa.Function, d int)
	visit = func(f *ssa.Function, d int) {
		f = an.Orig(f)
		if f == nil || seen[f] || len(f.Blocks) == 0 || d > 5 {
			return
		}
		seen[f] = true
		for _, in := range an.Instrs(f, true) {
			ci, ok := in.(ssa.CallInstruction)
			if !ok {
				continue
			}
			cc := ci.Common()
			if cc.IsInvoke() {
				continue
			}
			if b, isB := cc.Value.(*ssa.Builtin); isB {
				if (b.Name() == "delete" || b.Name() == "clear") && len(cc.Args) > 0 && !attributed[in] {
					if m, isMap := cc.Args[0].Type().Underlying().(*types.Map); isMap && types.Identical(m.Key(), keyT) && why == "" {
						why = "a deletion from a map keyed by epochs in " + f.Name() + " cannot be attributed to a map of the cache (the map is reached in a form that is not followed)"
					}
				}
				continue
			}
			callee := an.Orig(cc.StaticCallee())
			if callee == nil {
				if _, isLit := cc.Value.(*ssa.MakeClosure); !isLit && why == "" {
					why = "a function value is called in " + f.Name() + ", which is not followed"
				}
				continue
			}
			if an.FuncName(callee) == "maps.DeleteFunc" && !attributed[in] && len(cc.Args) > 0 && why == "" {
				if m, isMap := cc.Args[0].Type().Underlying().(*types.Map); isMap && types.Identical(m.Key(), keyT) {
					why = "a maps.DeleteFunc on a map keyed by epochs in " + f.Name() + " cannot be attributed to a map of the cache"
				}
			}
			if callee.Pkg == f.Pkg {
				visit(callee, d+1)
			}
		}
	}
	for _, tc := range callees {
		visit(tc.g, 0)
	}
	return why
}

var _ = fmt.Sprintf
