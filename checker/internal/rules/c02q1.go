package rules

import (
	"fmt"
	"go/token"
	"go/types"
	"sort"
	"strings"

	"golang.org/x/tools/go/ssa"

	"charonverif/internal/an"
	"charonverif/internal/rt"
)

// ---------------------------------------------------------------------------------------------
// Q1 — source-unique quorums
//
// Formulation (refactor-robust): a comparison is a *quorum comparison* when one operand resolves to
// Definition.Quorum() / Definition.Faulty()(+1) — through locals, single-assignment variables and parameters
// whose in-package call sites all pass the same threshold. The function it lies in (or, for an extracted
// helper, the protocol functions it is exclusively called from) fixes the threshold the protocol needs. The
// counted operand must denote a source-unique collection, established semantically:
//   (a) a value produced by a function all of whose results are source-unique (followed through calls,
//       tuple components, parameters of helpers, sub-slices);
//   (b) a map made locally (here or in the producing callee) all of whose insertions are keyed by Source()
//       of the stored message;
//   (c) an accumulator (slice or counter) that grows only where `uniq(elem)` answered true: decided by path
//       exploration (under "uniq(elem) == false" the growth is unreachable, and it is unreachable without
//       asking) — not by the shape of the branch;
//   (d) an unfiltered list that is completely scanned with every repeated source leading to rejection
//       before any accepting return that depends on the comparison: again by path exploration, through
//       helpers, with early exits and flag-accumulating styles treated alike.

type c02Q1 struct {
	c       *rt.Ctx
	memo    map[string]int // 1 yes, 2 no, 3 in progress
	memoWhy map[string]string
}

// c02Threshold classifies v as a quorum threshold: "quorum" (Quorum()), "f+1" (Faulty()+1),
// "f" (Faulty()), "derived" (other arithmetic over one of them); ok=false if unrelated.
func c02Threshold(v ssa.Value) (string, bool) { return c02ThresholdD(v, 0) }

func c02ThresholdD(v ssa.Value, depth int) (string, bool) {
	if depth > 6 {
		return "", false
	}
	// a threshold written as arithmetic over the cluster size / over Quorum()/Faulty() / in a pure helper is
	// classified by folding it over the finite domain of cluster sizes (c02n5_eval.go), not by its spelling
	if k, ok := c02FormulaKind(v); ok {
		return k, true
	}
	v = an.Resolve(v)
	switch x := v.(type) {
	case *ssa.Call:
		if !x.Call.IsInvoke() && x.Call.StaticCallee() != nil {
			switch c02Callee(&x.Call) {
			case c02P + ".Definition.Quorum":
				return "quorum", true
			case c02P + ".Definition.Faulty":
				return "f", true
			}
		}
		return "", false
	case *ssa.BinOp:
		if c02IsCmp(x.Op) {
			return "", false
		}
		kx, okx := c02ThresholdD(x.X, depth+1)
		ky, oky := c02ThresholdD(x.Y, depth+1)
		if !okx && !oky {
			return "", false
		}
		// arithmetic that mixes a threshold with something that is neither a threshold nor a constant (e.g.
		// `Quorum() - len(x)`) is another spelling of the comparison, not another threshold
		if okx != oky {
			o := x.Y
			if oky {
				o = x.X
			}
			if _, isC := an.Resolve(o).(*ssa.Const); !isC {
				return "mixed", true
			}
		}
		if kx == "mixed" || ky == "mixed" {
			return "mixed", true
		}
		if x.Op == token.ADD {
			if n, isC := an.ConstInt(x.Y); okx && kx == "f" && isC && n == 1 {
				return "f+1", true
			}
			if n, isC := an.ConstInt(x.X); oky && ky == "f" && isC && n == 1 {
				return "f+1", true
			}
		}
		return "derived", true
	case *ssa.Parameter:
		// a threshold handed to a helper: every in-package call site must pass the same kind
		fn := x.Parent()
		if fn == nil || fn.Parent() != nil {
			return "", false
		}
		idx := c02ParamIndex(fn, x)
		sites := c02InPkgCallers(fn)
		if idx < 0 || len(sites) == 0 || c02FnUsedAsValue(fn) {
			return "", false
		}
		kind := ""
		for _, s := range sites {
			if idx >= len(s.Common().Args) {
				return "", false
			}
			k, ok := c02ThresholdD(s.Common().Args[idx], depth+1)
			if !ok {
				return "", false
			}
			if kind != "" && kind != k {
				return "derived", true
			}
			kind = k
		}
		return kind, kind != ""
	}
	return "", false
}

// c02QuorumCmp reads a comparison as `count op T` with T a threshold: directly (`len(x) >= d.Quorum()`, either operand
// order) or through a difference compared with zero (`d.Quorum() - len(x) > 0`, `len(x) - d.Quorum() >= 0`).
func c02QuorumCmp(bin *ssa.BinOp) (count ssa.Value, kind string, op token.Token, ok bool) {
	if !c02IsCmp(bin.Op) {
		return nil, "", 0, false
	}
	count, op = bin.X, bin.Op
	kind, isT := c02Threshold(bin.Y)
	if !isT {
		if kind, isT = c02Threshold(bin.X); !isT {
			return nil, "", 0, false
		}
		count, op = bin.Y, c02Flip(bin.Op)
	}
	if kind != "mixed" {
		return count, kind, op, true
	}
	// difference against zero
	diffV, zero := bin.X, bin.Y
	dop := bin.Op
	n0, isC := an.ConstInt(an.Resolve(zero))
	if !isC {
		diffV, zero = bin.Y, bin.X
		dop = c02Flip(dop)
		if n0, isC = an.ConstInt(an.Resolve(zero)); !isC {
			return count, kind, op, true
		}
	}
	sub, isSub := an.Resolve(diffV).(*ssa.BinOp)
	if !isSub || sub.Op != token.SUB {
		return count, kind, op, true
	}
	if n0 != 0 {
		// `T - c <= 1` and the like: the count is compared with the threshold shifted by a constant
		if _, isT := c02Threshold(sub.X); isT {
			return sub.Y, "derived", c02Flip(dop), true
		}
		return sub.X, "derived", dop, true
	}
	if k, isT := c02Threshold(sub.X); isT && k != "mixed" {
		if _, alsoT := c02Threshold(sub.Y); !alsoT {
			// T - c  dop  0   <=>   c  flip(dop)  T
			return sub.Y, k, c02Flip(dop), true
		}
	}
	if k, isT := c02Threshold(sub.Y); isT && k != "mixed" {
		if _, alsoT := c02Threshold(sub.X); !alsoT {
			// c - T  dop  0   <=>   c  dop  T
			return sub.X, k, dop, true
		}
	}
	return count, kind, op, true
}

// c02FormulaOperand returns the operand of the comparison (or of the difference it compares with zero) that is the
// folded "formula" threshold the count is compared with.
func c02FormulaOperand(bin *ssa.BinOp, count ssa.Value) ssa.Value {
	cands := []ssa.Value{bin.X, bin.Y}
	for _, o := range []ssa.Value{bin.X, bin.Y} {
		if sub, ok := an.Resolve(o).(*ssa.BinOp); ok && sub.Op == token.SUB {
			cands = append(cands, sub.X, sub.Y)
		}
	}
	for _, o := range cands {
		if o == count {
			continue
		}
		if k, ok := c02FormulaKind(o); ok && k == "formula" {
			return o
		}
	}
	return nil
}

// phiWeb collects the phi web of v and its non-phi inputs.
func c02PhiWeb(v ssa.Value) (web map[*ssa.Phi]bool, inputs []ssa.Value) {
	web = map[*ssa.Phi]bool{}
	var walk func(x ssa.Value)
	walk = func(x ssa.Value) {
		if p, ok := x.(*ssa.Phi); ok {
			if web[p] {
				return
			}
			web[p] = true
			for _, e := range p.Edges {
				walk(e)
			}
			return
		}
		inputs = append(inputs, x)
	}
	walk(v)
	return
}

func c02WebLoops(fn *ssa.Function, web map[*ssa.Phi]bool) []*an.Loop {
	var out []*an.Loop
	for _, l := range an.Loops(fn) {
		for p := range web {
			if p.Block() == l.Header {
				out = append(out, l)
				break
			}
		}
	}
	return out
}

// sliceUnique: v (a value of fn) holds at most one message per source. The origin of v is followed through calls,
// helper parameters and function literals by an exploration of fn with everything inlined, so that it does not matter
// whether the list is filtered by filterMsgs, a generic filter helper given a predicate, or a loop written in place.
func (q *c02Q1) sliceUnique(fn *ssa.Function, v ssa.Value) (bool, string) {
	key := fmt.Sprintf("slice:%s:%p", an.FuncName(fn), v)
	switch q.memo[key] {
	case 1:
		return true, q.memoWhy[key]
	case 2:
		return false, q.memoWhy[key]
	case 3:
		return false, "?recursive origin"
	}
	q.memo[key] = 3
	s := c02NewDedupSim(fn)
	g, w := q.sliceUniqueF(s, s.root, v, 0)
	if g {
		q.memo[key] = 1
	} else {
		q.memo[key] = 2
	}
	if q.memoWhy == nil {
		q.memoWhy = map[string]string{}
	}
	q.memoWhy[key] = w
	return g, w
}

func (q *c02Q1) sliceUniqueF(s *c02Sim, f *c02Frame, v ssa.Value, depth int) (bool, string) {
	if depth > 8 {
		return false, "?origin of the collection too deep to follow"
	}
	r := s.rootOf(v, f, nil)
	// a callee with several returns: every one of them must yield a source-unique list
	multi := func(call *ssa.Call, idx int) (bool, string, bool) {
		fn, mc, cf := s.calleeOf(call, r.F, nil)
		if fn == nil {
			return false, "", false
		}
		nf := s.frameFor(r.F, call, fn, mc, cf)
		rets := an.Returns(fn)
		if len(rets) == 0 {
			return false, "", false
		}
		name := strings.TrimPrefix(an.FuncName(fn), c02P+".")
		for _, ret := range rets {
			if idx >= len(ret.Results) {
				return false, "", false
			}
			if an.IsNilConst(ret.Results[idx]) {
				continue
			}
			if g, w := q.sliceUniqueF(s, nf, ret.Results[idx], depth+1); !g {
				return false, name + " does not return a source-unique list: " + w, true
			}
		}
		return true, "result of source-unique " + name, true
	}
	switch x := r.V.(type) {
	case *ssa.Const:
		if x.IsNil() {
			return true, "empty list"
		}
	case *ssa.Call:
		if _, isJ := c02MsgCall(x, "Justification"); isJ {
			return false, "msg.Justification() is an unfiltered list"
		}
		if b, isB := x.Call.Value.(*ssa.Builtin); isB && b.Name() == "append" {
			return q.accUnique(s, r.F, x, depth)
		}
		if g, w, handled := multi(x, 0); handled {
			return g, w
		}
		if cal := x.Call.StaticCallee(); cal != nil && !x.Call.IsInvoke() && c02PkgOf(cal) == s.pkg && c02DedupOpaque(an.Orig(cal)) {
			return false, an.Orig(cal).Name() + " does not return a source-unique list"
		}
		return false, "?result of a call that is not summarised source-unique"
	case *ssa.Extract:
		if call, ok := x.Tuple.(*ssa.Call); ok {
			if g, w, handled := multi(call, x.Index); handled {
				return g, w
			}
		}
		return false, "?tuple component of unknown origin"
	case *ssa.Slice:
		if g, w := q.sliceUniqueF(s, r.F, x.X, depth+1); g {
			return true, "sub-slice of: " + w
		} else {
			return false, "sub-slice of a list that is not source-unique: " + w
		}
	case *ssa.Parameter:
		host := x.Parent()
		if r.F != s.root || host == nil || host.Parent() != nil {
			return false, "?parameter of a function literal"
		}
		idx := c02ParamIndex(host, x)
		sites := c02InPkgCallers(host)
		if idx < 0 || len(sites) == 0 || c02FnUsedAsValue(host) {
			return false, "?parameter whose call sites are not all known"
		}
		for _, site := range sites {
			if idx >= len(site.Common().Args) {
				return false, "?parameter whose call sites are not all known"
			}
			if g, w := q.sliceUnique(site.Parent(), site.Common().Args[idx]); !g {
				return false, "a caller (" + strings.TrimPrefix(an.FuncName(site.Parent()), c02P+".") + ") passes a list that is not source-unique: " + w
			}
		}
		return true, "parameter; every in-package caller passes a source-unique list"
	case *ssa.Phi:
		return q.accUnique(s, r.F, x, depth)
	case *ssa.UnOp:
		if x.Op == token.MUL {
			if g, w, handled := q.memAccUnique(s, r, x); handled {
				return g, w
			}
		}
	}
	return false, "?collection of unknown origin"
}

// memAccUnique: the list is kept in a field of a local struct and extended in place, possibly by a method of the
// struct (`c.qrc = append(c.qrc, rc)`): every store into the field must append one element to the field's own value,
// below the body of a loop of the struct's function, guarded like any other accumulation.
func (q *c02Q1) memAccUnique(s *c02Sim, r c02VF, ld *ssa.UnOp) (bool, string, bool) {
	base, path := s.fieldAddrOf(ld.X, r.F)
	al, ok := base.V.(*ssa.Alloc)
	if !ok || path == "" {
		return false, "", false
	}
	if !s.discovered {
		s.discover()
		s.discovered = true
		if s.exhausted {
			return false, c02Undecided, true
		}
	}
	id := c02MemID{al, base.F, path}
	F := base.F
	n := 0
	for _, ms := range s.memStores(id) {
		if an.IsNilConst(ms.st.Val) {
			continue
		}
		call, ok := ms.st.Val.(*ssa.Call)
		if !ok {
			return false, "?the list kept in a struct field receives a value that is not an append to itself", true
		}
		if b, isB := call.Call.Value.(*ssa.Builtin); !isB || b.Name() != "append" {
			return false, "?the list kept in a struct field receives a value that is not an append to itself", true
		}
		old, isLd := s.rootOf(call.Call.Args[0], ms.f, nil).V.(*ssa.UnOp)
		if !isLd || old.Op != token.MUL {
			return false, "?the list kept in a struct field receives a value that is not an append to itself", true
		}
		if ob, op := s.fieldAddrOf(old.X, ms.f); ob.V != id.v || ob.F != id.f || op != id.path {
			return false, "?the list kept in a struct field receives a value that is not an append to itself", true
		}
		elems := appendedElems(call)
		if len(elems) != 1 {
			return false, "append adds several messages at once (not one tested message)", true
		}
		if !ms.f.under(F) {
			return false, "?the list kept in a struct field is extended outside the activation that owns the struct", true
		}
		// where, in the struct's function, the extension happens
		blk := ms.st.Block()
		for x := ms.f; x != F; x = x.parent {
			if x.parent == F {
				blk = x.site.Block()
			}
		}
		inner := an.InnermostLoop(F.fn, blk)
		if inner == nil || inner.Body[al.Block()] {
			return false, "?the list kept in a struct field is not extended in a loop that outlives the struct", true
		}
		var scope []*an.Loop
		for _, l := range an.LoopsContaining(F.fn, blk) {
			if !l.Body[al.Block()] {
				scope = append(scope, l)
			}
		}
		e := s.rootOf(elems[0], ms.f, nil)
		isElem := func(a c02VF) bool { return a.V == e.V && a.F == e.F }
		if ok2, why := s.growthGuardedIn(F, inner, call, ms.f, isElem, scope); !ok2 {
			return false, why, true
		}
		n++
	}
	if n == 0 {
		return false, "?no extension of the list kept in a struct field found", true
	}
	return true, "list kept in a struct field; every extension happens only where the element's source was not seen before", true
}

// accUnique: the accumulator (a loop-carried list of frame F, given by one value of its phi web or an append to it)
// grows only by elements whose source was not seen before.
func (q *c02Q1) accUnique(s *c02Sim, F *c02Frame, v ssa.Value, depth int) (bool, string) {
	if call, ok := v.(*ssa.Call); ok {
		// an append returned directly: judge the web of its base
		base, ok := call.Call.Args[0].(*ssa.Phi)
		if !ok {
			return false, "?append to a list of unknown origin"
		}
		v = base
	}
	web, inputs := c02PhiWeb(v)
	loops := c02WebLoops(F.fn, web)
	appends := 0
	for _, in := range inputs {
		if an.IsNilConst(in) {
			continue
		}
		if call, ok := in.(*ssa.Call); ok {
			if b, isB := call.Call.Value.(*ssa.Builtin); isB && b.Name() == "append" {
				appends++
				if len(loops) == 0 {
					return false, "?accumulator is not loop-carried"
				}
				base, ok := call.Call.Args[0].(*ssa.Phi)
				if !ok || !web[base] {
					return false, "?append does not extend the accumulator itself"
				}
				elems := appendedElems(call)
				if len(elems) != 1 {
					return false, "append adds several messages at once (not one tested message)"
				}
				e := s.rootOf(elems[0], F, nil)
				isElem := func(a c02VF) bool {
					return (a.V == e.V && a.F == e.F) || (a.F == e.F && an.Equiv(a.V, e.V))
				}
				if ok2, why := s.growthGuarded(F, call, isElem, loops); !ok2 {
					return false, why
				}
				continue
			}
		}
		// another source-unique list merged in (e.g. an early result)
		if _, isPhi := in.(*ssa.Phi); !isPhi {
			if g, _ := q.sliceUniqueF(s, F, in, depth+1); g {
				continue
			}
		}
		return false, "?accumulator receives a value that is neither nil, a source-unique list nor an append"
	}
	if appends == 0 {
		return true, "merge of source-unique lists"
	}
	return true, "every append happens only where the element's source was not seen before"
}

// counterUnique: v is a loop-carried counter incremented by one only for elements whose source was not seen before.
func (q *c02Q1) counterUnique(fn *ssa.Function, v ssa.Value) (bool, string) {
	p, ok := an.Resolve(v).(*ssa.Phi)
	if !ok {
		return false, "?count of unknown origin (neither len() of a collection nor a loop-carried counter)"
	}
	web, inputs := c02PhiWeb(p)
	loops := c02WebLoops(fn, web)
	if len(loops) == 0 {
		return false, "?counter is not loop-carried"
	}
	s := c02NewDedupSim(fn)
	for _, in := range inputs {
		if n, ok := an.ConstInt(in); ok && n == 0 {
			continue
		}
		bin, ok := in.(*ssa.BinOp)
		if !ok || bin.Op != token.ADD {
			return false, "?counter receives a value that is neither 0 nor counter+1"
		}
		base, okb := bin.X.(*ssa.Phi)
		n, okn := an.ConstInt(bin.Y)
		if !okb {
			base, okb = bin.Y.(*ssa.Phi)
			n, okn = an.ConstInt(bin.X)
		}
		if !okb || !web[base] || !okn || n != 1 {
			return false, "?counter receives a value that is neither 0 nor counter+1"
		}
		l := an.InnermostLoop(fn, bin.Block())
		if l == nil {
			return false, "increment outside a loop"
		}
		isElem := func(a c02VF) bool { return a.F == s.root && c02ElemOf(l, a.V) }
		if ok2, why := s.growthGuarded(s.root, bin, isElem, loops); !ok2 {
			return false, why
		}
	}
	return true, "every increment happens only where the element's source was not seen before"
}

// mapUnique: v is a map built in fn (or in the in-package function that returns it) all of whose insertions
// are keyed by Source() of the stored message.
func (q *c02Q1) mapUnique(fn *ssa.Function, v ssa.Value) (bool, string) {
	return q.mapUniqueD(fn, v, 0)
}

func (q *c02Q1) mapUniqueD(fn *ssa.Function, v ssa.Value, depth int) (bool, string) {
	if depth > 4 {
		return false, "origin of the counted map too deep to follow"
	}
	rv := an.Resolve(v)
	// produced by an in-package function
	prod := func(call *ssa.Call, idx int) (bool, string, bool) {
		f := call.Call.StaticCallee()
		if f == nil || call.Call.IsInvoke() || an.Orig(f).Pkg != fn.Pkg || an.Orig(f).Blocks == nil {
			return false, "", false
		}
		g := an.Orig(f)
		key := fmt.Sprintf("map:%s#%d", an.FuncName(g), idx)
		switch q.memo[key] {
		case 1:
			return true, "map returned by " + g.Name() + ", made there and keyed by msg.Source()", true
		case 2, 3:
			return false, g.Name() + " does not return a map keyed by msg.Source()", true
		}
		q.memo[key] = 3
		rets := an.Returns(g)
		ok := len(rets) > 0
		why := ""
		for _, r := range rets {
			if idx >= len(r.Results) {
				ok = false
				break
			}
			if an.IsNilConst(r.Results[idx]) {
				continue
			}
			if u, w := q.mapUniqueD(g, r.Results[idx], depth+1); !u {
				ok, why = false, w
				break
			}
		}
		if ok {
			q.memo[key] = 1
			return true, "map returned by " + g.Name() + ", made there and keyed by msg.Source()", true
		}
		q.memo[key] = 2
		return false, g.Name() + " does not return a map keyed by msg.Source(): " + why, true
	}
	switch x := rv.(type) {
	case *ssa.Call:
		if g, w, handled := prod(x, 0); handled {
			return g, w
		}
	case *ssa.Extract:
		if call, ok := x.Tuple.(*ssa.Call); ok {
			if g, w, handled := prod(call, x.Index); handled {
				return g, w
			}
		}
	case *ssa.Parameter:
		host := x.Parent()
		if host != nil && host.Parent() == nil {
			idx := c02ParamIndex(host, x)
			sites := c02InPkgCallers(host)
			if idx >= 0 && len(sites) > 0 && !c02FnUsedAsValue(host) {
				for _, s := range sites {
					if idx >= len(s.Common().Args) {
						return false, "parameter whose call sites are not all known"
					}
					if g, w := q.mapUniqueD(s.Parent(), s.Common().Args[idx], depth+1); !g {
						return false, "a caller passes a map that is not keyed by msg.Source(): " + w
					}
				}
				return true, "parameter; every in-package caller passes a map keyed by msg.Source()"
			}
		}
	}
	// an element of a map of maps produced by an in-package helper (`for _, bySource := range groupBy(all)`): judged in
	// the helper, on every inner map it stores
	if outer := c02OuterMapOf(rv); outer != nil {
		if call, ok := an.Resolve(outer).(*ssa.Call); ok && !call.Call.IsInvoke() && call.Call.StaticCallee() != nil {
			g := an.Orig(call.Call.StaticCallee())
			if c02PkgOf(g) == fn.Pkg && g.Blocks != nil && g.Signature.Results().Len() == 1 {
				n := 0
				for _, r := range an.Returns(g) {
					mm, ok := an.Resolve(r.Results[0]).(*ssa.MakeMap)
					if !ok {
						if an.IsNilConst(r.Results[0]) {
							continue
						}
						return false, "?" + g.Name() + " does not return a map it made"
					}
					for _, in := range an.Instrs(g, true) {
						up, ok := in.(*ssa.MapUpdate)
						if !ok || an.Resolve(up.Map) != ssa.Value(mm) || an.IsNilConst(up.Value) {
							continue
						}
						n++
						if ok2, w := q.mapUniqueD(g, up.Value, depth+1); !ok2 {
							return false, "a map stored by " + g.Name() + ": " + w
						}
					}
				}
				if n > 0 {
					return true, "element of the map of maps made by " + g.Name() + "; every inner map is made there and keyed by msg.Source()"
				}
			}
		}
	}
	seen := map[ssa.Value]bool{}
	var local func(x ssa.Value) bool
	local = func(x ssa.Value) bool {
		x = an.Resolve(x)
		if seen[x] {
			return true
		}
		seen[x] = true
		switch y := x.(type) {
		case *ssa.MakeMap:
			return true
		case *ssa.Phi:
			for _, e := range y.Edges {
				if !local(e) {
					return false
				}
			}
			return true
		case *ssa.Lookup:
			return c02OuterOK(fn, y.X, local)
		case *ssa.Extract:
			switch t := y.Tuple.(type) {
			case *ssa.Lookup:
				return y.Index == 0 && c02OuterOK(fn, t.X, local)
			case *ssa.Next:
				if r, ok := t.Iter.(*ssa.Range); ok && y.Index == 2 {
					return c02OuterOK(fn, r.X, local)
				}
			}
		}
		return false
	}
	if !local(v) {
		return false, "?counted map is not built locally (make) in this function"
	}
	n := 0
	for _, in := range an.Instrs(fn, true) {
		up, ok := in.(*ssa.MapUpdate)
		if !ok || !types.Identical(up.Map.Type(), v.Type()) {
			continue
		}
		n++
		recv, ok := c02MsgCall(an.Resolve(up.Key), "Source")
		if !ok {
			return false, "an insertion into the counted map is not keyed by msg.Source()"
		}
		// a map of messages must hold, under each key, the message of that source; a set of sources
		// (map[int64]struct{} / bool) counts distinct keys whatever it stores
		if mt, isMap := up.Map.Type().Underlying().(*types.Map); isMap && c02Strip(an.TypeName(mt.Elem())) == c02P+".Msg" {
			if an.Resolve(up.Value) != an.Resolve(recv) {
				return false, "the message stored is not the one whose Source() is the key"
			}
		}
	}
	if n == 0 {
		return false, "no insertion into the counted map found"
	}
	return true, fmt.Sprintf("map made locally; all %d insertion(s) keyed by msg.Source() of the stored message", n)
}

// c02OuterMapOf: v is an element of a map (range value, lookup result); returns that map.
func c02OuterMapOf(v ssa.Value) ssa.Value {
	switch y := v.(type) {
	case *ssa.Lookup:
		return y.X
	case *ssa.Extract:
		switch t := y.Tuple.(type) {
		case *ssa.Lookup:
			if y.Index == 0 {
				return t.X
			}
		case *ssa.Next:
			if r, ok := t.Iter.(*ssa.Range); ok && y.Index == 2 {
				return r.X
			}
		}
	}
	return nil
}

// c02OuterOK: m is a map made in fn and everything stored in it satisfies pred.
func c02OuterOK(fn *ssa.Function, m ssa.Value, pred func(ssa.Value) bool) bool {
	mm, ok := an.Resolve(m).(*ssa.MakeMap)
	if !ok {
		return false
	}
	for _, in := range an.Instrs(fn, true) {
		if up, ok := in.(*ssa.MapUpdate); ok && an.Resolve(up.Map) == ssa.Value(mm) {
			if an.IsNilConst(up.Value) {
				continue
			}
			if !pred(up.Value) {
				return false
			}
		}
	}
	return true
}

// forallUnique (idiom d): every accepting return that depends on the comparison lies after a complete scan
// of the counted collection in which a repeated source leads to rejection. cmpTrueReached tells which
// outcome of cmp means "threshold reached".
func (q *c02Q1) forallUnique(fn *ssa.Function, coll ssa.Value, cmp ssa.Value, cmpTrueReached bool) (bool, string) {
	resIdx := -1
	res := fn.Signature.Results()
	for i := 0; i < res.Len(); i++ {
		if c02IsBool(res.At(i).Type()) {
			resIdx = i
		}
	}
	if resIdx < 0 {
		return false, "unfiltered collection counted in a function without a boolean verdict"
	}
	s := c02NewDedupSim(fn)
	s.discover()
	if s.exhausted {
		return false, c02Undecided
	}
	collR := s.rootOf(coll, s.root, nil)
	type cand struct {
		f *c02Frame
		l *an.Loop
	}
	var cands []cand
	for _, f := range s.allFrames() {
		for _, l := range an.Loops(f.fn) {
			rc := c02RangeColl(l)
			if rc == nil {
				continue
			}
			r := s.rootOf(rc, f, nil)
			if r.F == collR.F && (r.V == collR.V || (r.F == s.root && an.Equiv(r.V, collR.V))) {
				cands = append(cands, cand{f, l})
			}
		}
	}
	if len(cands) == 0 {
		return false, "no loop over the counted collection rejects repeated sources before accepting"
	}
	accepting := func(r *ssa.Return, st *c02State) bool {
		return resIdx < len(r.Results) && s.verdict(r, resIdx, st) != c02False
	}
	why := "no loop over the counted collection rejects repeated sources before accepting"
	for _, cd := range cands {
		f, l := cd.f, cd.l
		if ok, w := c02LoopFull(l); !ok {
			why = "?the scan of the counted collection is not recognised as complete: " + w
			continue
		}
		// the sets of seen sources consulted about this loop's element
		s.iterate(f, l)
		if s.exhausted {
			why = c02Undecided
			continue
		}
		isElem := func(a c02VF) bool { return a.F == f && c02ElemOf(l, a.V) }
		makers, w0, other := s.dedups(f, l, isElem)
		if len(makers) == 0 {
			if w0 != "" {
				why = w0
			} else if other {
				why = "?the scan of the counted collection inspects elem.Source() but not through a set of seen sources the rule recognises"
			}
			continue
		}
		// (A) acceptance that depends on the comparison passes through the scan
		const passedCmp, passedHeader, laterIter = 1, 2, 4
		sawAccept := false
		bad := ""
		s.atom = func(v ssa.Value, fr *c02Frame, st *c02State) (bool, bool) {
			if v == cmp && fr == s.root {
				return cmpTrueReached, true
			}
			return false, false
		}
		s.onInstr = func(in ssa.Instruction, fr *c02Frame, st *c02State) c02Act {
			if iv, isV := in.(ssa.Value); isV && iv == cmp && fr == s.root {
				st.flags |= passedCmp
			}
			return c02Go
		}
		s.onBlock = func(b *ssa.BasicBlock, fr *c02Frame, st *c02State) c02Act {
			if b == l.Header && fr == f {
				st.flags |= passedHeader
			}
			return c02Go
		}
		s.onRet = func(r *ssa.Return, st *c02State) {
			if !accepting(r, st) || st.flags&passedCmp == 0 {
				return
			}
			sawAccept = true
			if st.flags&passedHeader == 0 {
				bad = "an accepting return depends on the comparison but not on the scan of the counted collection"
			}
		}
		s.start()
		if s.exhausted {
			why = c02Undecided
			continue
		}
		if !sawAccept {
			why = "no accepting return depends on the comparison"
			continue
		}
		if bad != "" {
			why = bad
			continue
		}
		// (B) while elements remain the scan is not left towards acceptance (break / return true / another clause of the
		// loop condition)
		s.atom, s.onInstr, s.onBlock, s.onRet = nil, nil, nil, nil
		if ok, exh := c02ScanLeftOnlyToReject(s, f, l, accepting); exh {
			why = c02Undecided
			continue
		} else if !ok {
			why = "the scan can be left early towards an accepting return"
			continue
		}
		// (C) an element whose source was seen before leads to rejection, whatever the later elements are, and
		// (D) an element that passes has its source recorded
		const recordedF = 8
		for _, d := range makers {
			d := d
			bad = ""
			s.atom = func(v ssa.Value, fr *c02Frame, st *c02State) (bool, bool) {
				if st.flags&laterIter != 0 {
					return false, false
				}
				return d.seenAtom(v, fr)
			}
			s.onInstr = nil
			s.onBlock = func(b *ssa.BasicBlock, fr *c02Frame, st *c02State) c02Act {
				if b == l.Header && fr == f {
					st.flags |= laterIter
				}
				return c02Go
			}
			s.onRet = func(r *ssa.Return, st *c02State) {
				if accepting(r, st) {
					bad = "an element from a source already seen does not lead to rejection"
				}
			}
			for _, b := range c02LoopBodyEntries(l) {
				s.startAt(f, b, 0)
			}
			if s.exhausted {
				bad = c02Undecided
			}
			if bad == "" {
				// under "the source was not seen before" (the other answer is (C)'s)
				s.onRet = nil
				s.atom = func(v ssa.Value, fr *c02Frame, st *c02State) (bool, bool) {
					t, ok := d.seenAtom(v, fr)
					return !t, ok
				}
				s.onInstr = func(in ssa.Instruction, fr *c02Frame, st *c02State) c02Act {
					if d.isRec(in, fr) {
						st.flags |= recordedF
					}
					return c02Go
				}
				s.onBlock = func(b *ssa.BasicBlock, fr *c02Frame, st *c02State) c02Act {
					if b == l.Header && fr == f {
						if st.flags&recordedF == 0 {
							bad = "an element can pass the scan without its source being recorded as seen"
						}
						return c02Stop
					}
					return c02Go
				}
				for _, b := range c02LoopBodyEntries(l) {
					s.startAt(f, b, 0)
				}
				if s.exhausted {
					bad = c02Undecided
				}
			}
			s.atom, s.onInstr, s.onBlock, s.onRet = nil, nil, nil, nil
			if bad == "" {
				return true, "accepting returns lie after a full scan rejecting every element whose source was seen before"
			}
			why = bad
		}
	}
	return false, why
}

// paramCounted decides a comparison that counts a parameter of the helper fn: every in-package caller passes a
// source-unique list, or the helper's verdict is false unless the threshold is reached and the caller scans the
// list it passed, rejecting repeated sources, before accepting (idiom d at the call site).
func (q *c02Q1) paramCounted(fn *ssa.Function, p *ssa.Parameter, cmp *ssa.BinOp, trueReached bool) (bool, string) {
	idx := c02ParamIndex(fn, p)
	sites := c02InPkgCallers(fn)
	if idx < 0 || len(sites) == 0 || c02FnUsedAsValue(fn) {
		return false, "?the counted list is a parameter of a function whose call sites are not all known"
	}
	gates := false
	if fn.Signature.Results().Len() == 1 && c02IsBool(fn.Signature.Results().At(0).Type()) {
		s := c02NewSim(fn)
		s.opaque = c02BaseOpaque
		s.atom = func(v ssa.Value, f *c02Frame, st *c02State) (bool, bool) {
			if v == ssa.Value(cmp) && f == s.root {
				return !trueReached, true
			}
			return false, false
		}
		hit, exh := c02Accepts(s, 0, s.start)
		gates = hit == nil && !exh
	}
	for _, site := range sites {
		if idx >= len(site.Common().Args) {
			return false, "?the counted list is a parameter of a function whose call sites are not all known"
		}
		a := site.Common().Args[idx]
		caller := strings.TrimPrefix(an.FuncName(site.Parent()), c02P+".")
		g, w := q.sliceUnique(site.Parent(), a)
		if g {
			continue
		}
		call, isCall := site.(*ssa.Call)
		if gates && isCall {
			g2, w2 := q.forallUnique(site.Parent(), a, call, true)
			if g2 {
				continue
			}
			w = w + "; " + w2
		}
		return false, "the caller " + caller + " passes a list that is not source-unique: " + w
	}
	return true, "parameter; every in-package caller passes a source-unique list (or scans it rejecting repeated sources before accepting)"
}

func c02IsIntParam(v ssa.Value, fn *ssa.Function) bool {
	p, ok := v.(*ssa.Parameter)
	if !ok || fn.Parent() != nil || p.Parent() != fn {
		return false
	}
	b, ok := p.Type().Underlying().(*types.Basic)
	return ok && b.Info()&types.IsInteger != 0
}

// countParam decides a comparison whose count is an integer handed to the helper fn (`hasQuorum(d, len(commits))`):
// at every in-package call site the argument must be len() of a source-unique collection.
func (q *c02Q1) countParam(fn *ssa.Function, p *ssa.Parameter) (bool, string) {
	idx := c02ParamIndex(fn, p)
	sites := c02InPkgCallers(fn)
	if idx < 0 || len(sites) == 0 || c02FnUsedAsValue(fn) {
		return false, "?the count is a parameter of a function whose call sites are not all known"
	}
	for _, site := range sites {
		if idx >= len(site.Common().Args) {
			return false, "?the count is a parameter of a function whose call sites are not all known"
		}
		caller := site.Parent()
		cname := strings.TrimPrefix(an.FuncName(caller), c02P+".")
		a := an.Resolve(site.Common().Args[idx])
		la := c02LenArg(a)
		var g bool
		var w string
		switch {
		case la == nil && c02IsIntParam(a, caller):
			g, w = q.countParam(caller, a.(*ssa.Parameter))
		case la == nil:
			g, w = q.counterUnique(caller, a)
		case an.IsMapType(la.Type()):
			g, w = q.mapUnique(caller, la)
		default:
			g, w = q.sliceUnique(caller, la)
		}
		if !g {
			if !strings.Contains(w, "?") && !strings.Contains(w, c02Undecided) {
				// the helper only compares; whether the caller scans the list itself is not followed here
				w = "?" + w
			}
			return false, "the caller " + cname + " hands over a count that is not that of a source-unique collection: " + w
		}
	}
	return true, "count parameter; every in-package caller passes len() of a source-unique collection"
}

// c02Expect freezes which threshold each counting function uses (QBFT: every rule needs a
// quorum except the f+1 round-change jump, Algorithm 3:5).
var c02Expect = map[string]string{
	"classify":               "quorum", // quorum PREPARE / COMMIT / ROUND-CHANGE
	"containsJustifiedQrc":   "quorum", // Algorithm 4:1
	"isJustifiedDecided":     "quorum", // quorum COMMITs
	"isJustifiedRoundChange": "quorum", // quorum PREPAREs justify pr/pv
	"quorumNullPrepared":     "quorum", // J1
	"getPrepareQuorums":      "quorum", // J2
	"getJustifiedQrc":        "quorum", // J2
	"getSingleJustifiedPrPv": "quorum", // J2
	"getFPlus1RoundChanges":  "f+1",    // Algorithm 3:5
	"nextMinRound":           "f+1",    // sanity check of Frc
}

// c02ExpectFor returns the threshold the protocol needs in fn: the frozen entry of fn itself or, for a helper,
// the common entry of the protocol functions it is (transitively, exclusively) called from.
func c02ExpectFor(fn *ssa.Function) (string, string, bool) {
	seen := map[*ssa.Function]bool{}
	kinds := map[string]bool{}
	var owners []string
	open := false
	var walk func(f *ssa.Function, depth int)
	walk = func(f *ssa.Function, depth int) {
		for f.Parent() != nil {
			f = f.Parent()
		}
		f = an.Orig(f)
		if seen[f] {
			return
		}
		seen[f] = true
		name := strings.TrimPrefix(an.FuncName(f), c02P+".")
		if k, ok := c02Expect[name]; ok {
			kinds[k] = true
			owners = append(owners, name)
			return
		}
		sites := c02InPkgCallers(f)
		if depth > 5 || len(sites) == 0 || c02FnUsedAsValue(f) {
			open = true
			return
		}
		for _, s := range sites {
			walk(s.Parent(), depth+1)
		}
	}
	walk(fn, 0)
	if open || len(kinds) != 1 {
		return "", "", false
	}
	sort.Strings(owners)
	for k := range kinds {
		return k, strings.Join(owners, ","), true
	}
	return "", "", false
}

// c02Branches returns the branches decided by the boolean v (directly or through negations) as
// (block, successor index taken when v is true).
func c02Branches(fn *ssa.Function, v ssa.Value) [][2]*ssa.BasicBlock {
	var out [][2]*ssa.BasicBlock
	for _, cd := range an.CondsOn(fn, v) {
		if cd.Other != nil {
			continue
		}
		out = append(out, [2]*ssa.BasicBlock{cd.Succ(true), cd.Succ(false)})
	}
	return out
}

func c02Q1Rule(c *rt.Ctx) {
	q := &c02Q1{c: c, memo: map[string]int{}}
	covered := map[string]int{}
	nCmp := 0
	for _, fn := range c02PkgFuncs(c.SSAPkg(c02P)) {
		ord := map[string]int{}
		for _, in := range an.Instrs(fn, false) {
			bin, ok := in.(*ssa.BinOp)
			if !ok || !c02IsCmp(bin.Op) {
				continue
			}
			count, kind, op, isT := c02QuorumCmp(bin)
			if !isT {
				continue
			}
			name := strings.TrimPrefix(an.FuncName(fn), c02P+".")
			ord[name]++
			key := fmt.Sprintf("%s quorum-comparison #%d", name, ord[name])
			pos := bin.Pos()
			if !pos.IsValid() {
				pos = posOf(bin)
			}
			// normalise `> f` to `>= f+1`
			if kind == "f" {
				switch op {
				case token.GTR:
					kind, op = "f+1", token.GEQ
				case token.LEQ:
					kind, op = "f+1", token.LSS
				default:
					c.Bad(key, pos, "count is compared with Faulty() itself, not Faulty()+1")
					continue
				}
			}
			if kind == "mixed" {
				c.Unsure(key, pos, "the comparison mixes the threshold and the count in one arithmetic expression; form not recognised (expected count >= T, count < T or count == T)")
				continue
			}
			if kind == "formula" {
				thr := c02FormulaOperand(bin, count)
				if _, isC := an.Resolve(count).(*ssa.Const); isC || thr == nil {
					continue // arithmetic on the cluster size that counts nothing
				}
				want, owner, known := c02ExpectFor(fn)
				if !known {
					c.Unsure(key, pos, "a count is compared with arithmetic over the cluster size that is neither Quorum() nor Faulty()+1, in a function that is neither in the frozen threshold table nor a helper owned by one")
					continue
				}
				wit, differs, decided := c02FormulaVerdict(thr, want)
				switch {
				case differs:
					for _, o := range strings.Split(owner, ",") {
						covered[o]++ // the function does decide on a count: reported here, not as a hidden threshold
					}
					c.Bad(key, pos, fmt.Sprintf("count is compared with hand-written arithmetic over the cluster size that is not the threshold %s the protocol rule (%s) needs: %s (every site deciding on this quorum must use the same threshold for every cluster size)", want, owner, wit))
				case decided:
					// same table as the wanted threshold: c02FormulaKind would have named it; unreachable
					c.Unsure(key, pos, "threshold arithmetic folded inconsistently")
				default:
					c.Unsure(key, pos, fmt.Sprintf("count is compared with arithmetic over the cluster size that equals %s for n=%d..%d but not for every n up to %d, or could not be folded", want, c02EvPropLo, c02EvPropHi, c02EvHi))
				}
				continue
			}
			if kind == "derived" {
				c.Bad(key, pos, "count is compared with an expression derived from Quorum()/Faulty() that is neither Quorum() nor Faulty()+1")
				continue
			}
			want, owner, known := c02ExpectFor(fn)
			if !known {
				// a function the table does not know (renamed, split off, merged): counting against a full quorum is never
				// weaker than what any rule of the protocol needs for agreement, so only the source-uniqueness of what is
				// counted remains to be decided; a lower threshold cannot be placed
				if kind != "quorum" {
					c.Unsure(key, pos, fmt.Sprintf("threshold %s in a function that is neither in the frozen threshold table nor a helper called only from functions of the table with one threshold", kind))
					continue
				}
				want, owner = kind, ""
			}
			if want != kind {
				if _, own := c02Expect[name]; !own {
					// the expectation was inherited from the callers: this may as well be a renamed function of the table
					c.Unsure(key, pos, fmt.Sprintf("threshold is %s in a helper whose callers (%s) need %s; the function is not in the frozen threshold table (renamed?)", kind, owner, want))
					continue
				}
				c.Bad(key, pos, fmt.Sprintf("threshold is %s where the protocol rule (%s) needs %s", kind, owner, want))
				continue
			}
			for _, o := range strings.Split(owner, ",") {
				covered[o]++
			}
			nCmp++
			// which outcome of the comparison means "threshold reached"
			var trueReached bool
			switch op {
			case token.GEQ, token.EQL:
				trueReached = true
			case token.LSS:
				trueReached = false
			default:
				c.Unsure(key, pos, "comparison form not recognised (expected count >= T, count < T or count == T)")
				continue
			}
			// classify the counted operand
			var good bool
			var why string
			count = an.Resolve(count)
			arg := c02LenArg(count)
			switch {
			case arg == nil && c02IsIntParam(count, fn):
				good, why = q.countParam(fn, count.(*ssa.Parameter))
			case arg == nil:
				good, why = q.counterUnique(fn, count)
			case an.IsMapType(arg.Type()):
				good, why = q.mapUnique(fn, arg)
			default:
				if p, isP := an.Resolve(arg).(*ssa.Parameter); isP && fn.Parent() == nil {
					good, why = q.paramCounted(fn, p, bin, trueReached)
				} else {
					good, why = q.sliceUnique(fn, arg)
				}
			}
			if !good {
				// sanity checks that only panic are exempt
				brs := c02Branches(fn, bin)
				allPanic := len(brs) > 0
				for _, br := range brs {
					notReached := br[1]
					if !trueReached {
						notReached = br[0]
					}
					if !c02EndsInPanic(notReached) {
						allPanic = false
					}
				}
				if allPanic {
					c.Good(key, pos, "sanity check: the not-reached edge only panics")
					continue
				}
			}
			if !good && arg != nil && !an.IsMapType(arg.Type()) {
				if _, isP := an.Resolve(arg).(*ssa.Parameter); !isP {
					if g, w := q.forallUnique(fn, arg, bin, trueReached); g {
						good, why = g, w
					} else if _, isPhi := an.Resolve(arg).(*ssa.Phi); !isPhi || strings.Contains(why, "no `uniq(elem)` test") || strings.HasPrefix(w, "?") {
						why = why + "; " + w
					}
				}
			}
			if good {
				c.Good(key, pos, why)
			} else if i := strings.Index(why, "?"); i >= 0 {
				c.Unsure(key, pos, "counted collection could not be classified: "+strings.ReplaceAll(why, "?", ""))
			} else if strings.Contains(why, c02Undecided) {
				c.Unsure(key, pos, "counted collection could not be classified: "+why)
			} else {
				c.Bad(key, pos, "counted collection is not source-unique: "+why)
			}
		}
	}
	// vacuity, per protocol function: every function of the frozen table that still exists decides on at least
	// one quorum comparison (its own or one in a helper it exclusively owns)
	var names []string
	for n := range c02Expect {
		names = append(names, n)
	}
	sort.Strings(names)
	for _, n := range names {
		f := c.FnOpt(c02P + "." + n)
		if f == nil {
			continue // merged into its caller or renamed: its comparisons are attributed to the function they now lie in
		}
		if covered[n] > 0 {
			c.Good(n+" counts against its protocol threshold", f.Pos(), fmt.Sprintf("%d comparison(s) with %s", covered[n], c02Expect[n]))
		} else {
			c.Unsure(n+" counts against its protocol threshold", f.Pos(), "no comparison with Quorum()/Faulty()+1 found in the function or a helper it owns (threshold hidden from the rule?)")
		}
	}
	// vacuity: the protocol decides on quorums of PREPAREs, COMMITs and ROUND-CHANGEs, on the three justification
	// predicates and on the f+1 jump; fewer deciding comparisons than that means thresholds are hidden from the rule
	if nCmp < 6 {
		c.Unsure("threshold comparisons", c.SSAPkg(c02P).Pkg.Scope().Pos(), fmt.Sprintf("only %d comparisons with Quorum()/Faulty()+1 found in the package", nCmp))
	}
	c02Q1UniqSource(c)
}

// c02Q1UniqSource checks the filter itself: the closure returned by uniqSource answers true only for a source it
// has not answered true for before — it tests dedup[msg.Source()] and records it — on a map made per call.
func c02Q1UniqSource(c *rt.Ctx) {
	us := c.FnOpt(c02P + ".uniqSource")
	if us == nil {
		// no such helper (renamed, replaced by a set type, or written in place): every counted collection is judged on
		// the set of seen sources it actually consults, asked and recorded, wherever that lives
		return
	}
	var cl *ssa.Function
	var mcs []*ssa.MakeClosure
	for _, r := range an.Returns(us) {
		if len(r.Results) != 1 {
			c.Bail("uniqSource: unexpected results")
		}
		mc, ok := an.Resolve(returnValues(r)[0]).(*ssa.MakeClosure)
		if !ok {
			c.Bail("uniqSource does not return a function literal")
		}
		f, _ := mc.Fn.(*ssa.Function)
		if f == nil || (cl != nil && cl != f) {
			c.Bail("uniqSource returns several different function literals")
		}
		cl = f
		mcs = append(mcs, mc)
	}
	if cl == nil || len(cl.Params) != 1 {
		c.Bail("uniqSource closure: unexpected shape")
	}
	msgP := cl.Params[0]
	// the dedup map: the captured variable holding a map made in uniqSource
	dedupIdx := -1
	for i := range cl.FreeVars {
		isMap := true
		for _, mc := range mcs {
			al, ok := mc.Bindings[i].(*ssa.Alloc)
			if !ok {
				isMap = false
				break
			}
			if _, ok := an.UniqueStore(al).(*ssa.MakeMap); !ok {
				isMap = false
			}
		}
		if isMap {
			if dedupIdx >= 0 {
				c.Bail("uniqSource closure captures several maps")
			}
			dedupIdx = i
		}
	}
	fresh := dedupIdx >= 0
	if !fresh {
		// still find a captured map to report on
		for i, fv := range cl.FreeVars {
			if p, ok := fv.Type().(*types.Pointer); ok && an.IsMapType(p.Elem()) {
				dedupIdx = i
			}
		}
		if dedupIdx < 0 {
			c.Bail("uniqSource closure captures no map")
		}
	}
	dedupFV := cl.FreeVars[dedupIdx]
	s := c02NewSim(cl)
	s.inlineAll = true
	isDedup := func(v ssa.Value, f *c02Frame, st *c02State) bool {
		r := s.rootOf(v, f, st)
		ld, ok := r.V.(*ssa.UnOp)
		return ok && ld.Op == token.MUL && ld.X == ssa.Value(dedupFV) && r.F == s.root
	}
	isSrc := func(v ssa.Value, f *c02Frame, st *c02State) bool { return s.msgCallOn(v, f, st, "Source", msgP) }
	nAccept := 0
	accepting := func(r *ssa.Return, st *c02State) bool {
		if s.verdict(r, 0, st) == c02False {
			return false
		}
		nAccept++
		return true
	}
	// (T) a source already seen is never answered true
	tested := true
	s.atom = func(v ssa.Value, f *c02Frame, st *c02State) (bool, bool) {
		switch x := v.(type) {
		case *ssa.Lookup:
			if !x.CommaOk && c02IsBool(x.Type()) && isDedup(x.X, f, st) && isSrc(x.Index, f, st) {
				return true, true
			}
		case *ssa.Extract:
			if lk, ok := x.Tuple.(*ssa.Lookup); ok && lk.CommaOk && isDedup(lk.X, f, st) && isSrc(lk.Index, f, st) {
				// seen before: the entry is present and (for a map of booleans) it is the `true` that was recorded
				if x.Index == 1 || (x.Index == 0 && c02IsBool(x.Type())) {
					return true, true
				}
			}
		}
		return false, false
	}
	var badPos token.Pos = cl.Pos()
	s.onRet = func(r *ssa.Return, st *c02State) {
		if accepting(r, st) {
			tested = false
			badPos = posOf(r)
		}
	}
	s.start()
	if s.exhausted {
		c.Unsure("uniqSource closure tests dedup[msg.Source()] before accepting", cl.Pos(), c02Undecided)
	} else {
		c.Check("uniqSource closure tests dedup[msg.Source()] before accepting", badPos, tested, "the closure can return true for a source already seen")
	}
	// (R) every true answer has recorded the source
	recorded := true
	nAccept = 0
	badPos = cl.Pos()
	s.atom = nil
	s.onInstr = func(in ssa.Instruction, f *c02Frame, st *c02State) c02Act {
		up, ok := in.(*ssa.MapUpdate)
		if !ok || !isDedup(up.Map, f, st) || !isSrc(up.Key, f, st) {
			return c02Go
		}
		if mt, ok := up.Map.Type().Underlying().(*types.Map); ok && c02IsBool(mt.Elem()) {
			if b, isC := c02ConstBool(s.rootOf(up.Value, f, st).V); !isC || !b {
				return c02Go
			}
		}
		st.flags |= 1
		return c02Go
	}
	s.onRet = func(r *ssa.Return, st *c02State) {
		if accepting(r, st) && st.flags&1 == 0 {
			recorded = false
			badPos = posOf(r)
		}
	}
	s.start()
	if nAccept == 0 {
		c.Bail("uniqSource closure never accepts")
	}
	if s.exhausted {
		c.Unsure("uniqSource closure records dedup[msg.Source()] before accepting", cl.Pos(), c02Undecided)
	} else {
		c.Check("uniqSource closure records dedup[msg.Source()] before accepting", badPos, recorded, "the closure returns true without recording the source: the same source is accepted again")
	}
	c.Check("uniqSource dedup map is made per call", us.Pos(), fresh, "the dedup map is not a fresh map made in uniqSource")
}
