package rules

import (
	"fmt"
	"go/constant"
	"go/token"
	"go/types"
	"math"
	"strings"

	"golang.org/x/tools/go/ssa"

	"charonverif/internal/an"
	"charonverif/internal/rt"
)

// T11 — the receive-side cap on the number of justifications admits what an honest member attaches.
//
// Mechanism. core/qbft attaches to a PRE-PREPARE of a round > 1 every matching ROUND-CHANGE (one per source) plus
// every buffered PREPARE of the prepared round (one per source); nothing trims those lists to a quorum. The message
// handler of core/consensus/qbft rejects a message whose justification count exceeds a bound before the instance
// sees it. If the bound is smaller than a count an honest leader reaches, every honest receiver drops the honest
// re-proposal, nobody prepares in that round, and the same happens to every later leader: no termination, and an
// honest message is rejected by honest members.
//
// Rule. Every comparison of len(<justification list of the wire message>) with a bound in core/consensus/qbft is
// brought to the form "accepted iff count <= cap"; the cap is evaluated as a number for every cluster size n the
// property quantifies over (4..7), interpreting the code (constants, arithmetic, conversions, math.Ceil/Floor,
// min/max, len of a per-member collection = n, parameters through their call sites, calls such as
// Definition{Nodes: x}.Quorum() through their bodies). VIOLATION when cap(n) < n+q-1 for some n: that count is
// reached by an admissible schedule (k = n-f-q+1 members start early and leave round 1 without preparing, n-k
// members PREPARE, f of them crash right after so that fewer than q COMMITs exist, the n-f live members send
// ROUND-CHANGE: n-f + n-k = n+q-1 justifications). A cap that is at least that but below the structural maximum 2n, a bound that cannot be
// evaluated, a producer that is seen to truncate its lists, or no cap found at all: UNDECIDED.

func init() {
	Extend("C04", "(T11) every cap the message handler of core/consensus/qbft puts on the number of justifications of a received message is, for every cluster size 4..7, at least the number of justifications an honest leader attaches (one ROUND-CHANGE per live member plus one PREPARE per member that prepared; core/qbft does not trim them to a quorum).",
		c04Limits,
		// the bound through the quorum formula spelled with integers
		Mutant{ID: "C04-T11-cap-nodes-plus-faulty", File: "core/consensus/qbft/qbft.go", Expect: "T11",
			Old: "\tmaxJust := 2 * nodes\n", New: "\tmaxJust := nodes + (nodes-1)/3 + 1\n"},
		// a constant that is fine for small clusters only
		Mutant{ID: "C04-T11-cap-constant", File: "core/consensus/qbft/qbft.go", Expect: "T11",
			Old: "\tmaxJust := 2 * nodes\n", New: "\tconst maxJust = 10\n"},
		// the call site hands a quorum-sized node count to the limit check
		Mutant{ID: "C04-T11-callsite-quorum-as-nodes", File: "core/consensus/qbft/qbft.go", Expect: "T11",
			Old: "verifyMsgLimits(pbMsg, len(c.pubkeys))", New: "verifyMsgLimits(pbMsg, (2*len(c.pubkeys)+2)/3)"},
		// one list's worth only, with the comparison turned around
		Mutant{ID: "C04-T11-cap-one-list-swapped", File: "core/consensus/qbft/qbft.go", Expect: "T11",
			Old: "\tif n := len(pbMsg.GetJustification()); n > maxJust {", New: "\tif n := len(pbMsg.GetJustification()); nodes+1 <= n {"},
	)
}

const (
	n4Pkg     = "core/consensus/qbft"
	n4JustFld = "QBFTConsensusMsg.Justification"
)

type n4Env struct {
	fn   *ssa.Function
	args []ssa.Value
	up   *n4Env
}

type n4Eval struct {
	n   int
	fns []*ssa.Function
	why string
	// T12: values replaced by a number (the count of a comparison), Definition.Nodes read directly as n, and whether
	// the evaluation read the cluster size at all
	subst       map[ssa.Value]float64
	nodesDirect bool
	usedN       bool
}

func (e *n4Eval) fail(format string, a ...any) (float64, bool) {
	if e.why == "" {
		e.why = fmt.Sprintf(format, a...)
	}
	return 0, false
}

func n4IsInt(t types.Type) bool {
	b, ok := t.Underlying().(*types.Basic)
	return ok && b.Info()&types.IsInteger != 0
}

// n4PerMember: a collection with one entry per cluster member (peers, their public keys, their ids).
func n4PerMember(t types.Type) bool {
	var el types.Type
	switch u := t.Underlying().(type) {
	case *types.Slice:
		el = u.Elem()
	case *types.Array:
		el = u.Elem()
	case *types.Map:
		el = u.Elem()
	default:
		return false
	}
	if p, ok := el.Underlying().(*types.Pointer); ok {
		el = p.Elem()
	}
	s := types.TypeString(el, nil)
	return strings.HasSuffix(s, "/p2p.Peer") || strings.HasSuffix(s, "secp256k1/v4.PublicKey") || strings.HasSuffix(s, "/peer.ID")
}

func n4IsNodesField(structT types.Type, idx int) bool {
	if p, ok := structT.Underlying().(*types.Pointer); ok {
		structT = p.Elem()
	}
	st, ok := structT.Underlying().(*types.Struct)
	if !ok || idx >= st.NumFields() || st.Field(idx).Name() != "Nodes" {
		return false
	}
	return strings.HasPrefix(hxStrip(an.TypeName(structT)), "core/qbft.Definition")
}

func (e *n4Eval) num(v ssa.Value, env *n4Env, d int) (float64, bool) {
	if d > 24 {
		return e.fail("expression too deep")
	}
	if f, ok := e.subst[v]; ok {
		return f, true
	}
	switch x := v.(type) {
	case *ssa.Const:
		if x.Value == nil {
			return e.fail("non-numeric constant")
		}
		switch x.Value.Kind() {
		case constant.Int, constant.Float:
			f, _ := constant.Float64Val(constant.ToFloat(x.Value))
			return f, true
		}
		return e.fail("non-numeric constant")
	case *ssa.ChangeType:
		return e.num(x.X, env, d+1)
	case *ssa.Convert:
		f, ok := e.num(x.X, env, d+1)
		if ok && n4IsInt(x.Type()) {
			f = math.Trunc(f)
		}
		return f, ok
	case *ssa.BinOp:
		a, ok := e.num(x.X, env, d+1)
		if !ok {
			return 0, false
		}
		b, ok := e.num(x.Y, env, d+1)
		if !ok {
			return 0, false
		}
		switch x.Op {
		case token.ADD:
			return a + b, true
		case token.SUB:
			return a - b, true
		case token.MUL:
			return a * b, true
		case token.QUO:
			if b == 0 {
				return e.fail("division by zero")
			}
			if n4IsInt(x.Type()) {
				return math.Trunc(a / b), true
			}
			return a / b, true
		case token.REM:
			if b == 0 {
				return e.fail("division by zero")
			}
			return math.Mod(a, b), true
		case token.SHL:
			return a * math.Pow(2, b), true
		}
		return e.fail("operator %s", x.Op)
	case *ssa.UnOp:
		switch x.Op {
		case token.SUB:
			f, ok := e.num(x.X, env, d+1)
			return -f, ok
		case token.MUL:
			switch a := x.X.(type) {
			case *ssa.Alloc:
				if src := an.UniqueStore(a); src != nil {
					return e.num(src, env, d+1)
				}
			case *ssa.FieldAddr:
				if al, ok := a.X.(*ssa.Alloc); ok {
					return e.field(al, a.Field, env, d+1)
				}
				if n4IsNodesField(a.X.Type(), a.Field) {
					e.usedN = true
					return float64(e.n), true // the Nodes of the cluster's definition
				}
			}
		}
		return e.fail("a value read from memory (%s)", x)
	case *ssa.Field:
		return e.field(x.X, x.Field, env, d+1)
	case *ssa.Phi:
		var r float64
		for i, ed := range x.Edges {
			f, ok := e.num(ed, env, d+1)
			if !ok {
				return 0, false
			}
			if i > 0 && f != r {
				return e.fail("a bound that depends on the path taken")
			}
			r = f
		}
		return r, len(x.Edges) > 0
	case *ssa.Parameter:
		idx := an.ParamIndex(x)
		if env != nil && env.fn == x.Parent() {
			if idx >= len(env.args) {
				return e.fail("argument missing")
			}
			return e.num(env.args[idx], env.up, d+1)
		}
		// every in-package call site decides; the smallest value is the cap that binds
		best, found := 0.0, false
		for _, g := range e.fns {
			for _, ci := range an.Calls(g, func(cc *ssa.CallCommon) bool {
				f := cc.StaticCallee()
				return f != nil && an.Orig(f) == an.Orig(x.Parent())
			}, false) {
				if idx >= len(ci.Common().Args) {
					return e.fail("argument missing")
				}
				f, ok := e.num(ci.Common().Args[idx], nil, d+1)
				if !ok {
					return 0, false
				}
				if !found || f < best {
					best, found = f, true
				}
			}
		}
		if !found {
			return e.fail("parameter %s of %s has no static call site in the package", x.Name(), x.Parent().Name())
		}
		return best, true
	case *ssa.Call:
		cc := &x.Call
		if b, ok := cc.Value.(*ssa.Builtin); ok {
			switch b.Name() {
			case "len":
				if len(cc.Args) == 1 && n4PerMember(cc.Args[0].Type()) {
					e.usedN = true
					return float64(e.n), true
				}
				return e.fail("len of something that is not a per-member collection")
			case "min", "max":
				var r float64
				for i, a := range cc.Args {
					f, ok := e.num(a, env, d+1)
					if !ok {
						return 0, false
					}
					if i == 0 || (b.Name() == "min" && f < r) || (b.Name() == "max" && f > r) {
						r = f
					}
				}
				return r, len(cc.Args) > 0
			}
			return e.fail("builtin %s", b.Name())
		}
		f := cc.StaticCallee()
		if f == nil {
			return e.fail("a dynamic call")
		}
		if f.Pkg != nil && f.Pkg.Pkg.Path() == "math" && len(cc.Args) == 1 {
			a, ok := e.num(cc.Args[0], env, d+1)
			if !ok {
				return 0, false
			}
			switch f.Name() {
			case "Ceil":
				return math.Ceil(a), true
			case "Floor":
				return math.Floor(a), true
			case "Trunc":
				return math.Trunc(a), true
			case "Round":
				return math.Round(a), true
			}
		}
		body := an.Orig(f)
		if body == nil || len(body.Blocks) == 0 || body.Signature.Results().Len() != 1 {
			return e.fail("call of %s", f.Name())
		}
		for p := env; p != nil; p = p.up {
			if p.fn == body {
				return e.fail("recursion")
			}
		}
		sub := &n4Env{fn: body, args: cc.Args, up: env}
		var r float64
		cases := an.ReturnCases(body)
		for i, rc := range cases {
			g, ok := e.num(rc.Vals[0], sub, d+1)
			if !ok {
				return 0, false
			}
			if i > 0 && g != r {
				return e.fail("%s returns a value that depends on the path taken", f.Name())
			}
			r = g
		}
		return r, len(cases) > 0
	}
	return e.fail("a value of unknown shape (%T)", v)
}

// field: the numeric field idx of the struct value / struct cell s.
func (e *n4Eval) field(s ssa.Value, idx int, env *n4Env, d int) (float64, bool) {
	if d > 24 {
		return e.fail("expression too deep")
	}
	if e.nodesDirect && n4IsNodesField(s.Type(), idx) {
		e.usedN = true
		return float64(e.n), true
	}
	switch x := s.(type) {
	case *ssa.Parameter:
		if env != nil && env.fn == x.Parent() {
			if i := an.ParamIndex(x); i < len(env.args) {
				return e.field(env.args[i], idx, env.up, d+1)
			}
		}
		// every in-package call site decides; the smallest value is the cap that binds
		pi := an.ParamIndex(x)
		best, found := 0.0, false
		for _, g := range e.fns {
			for _, ci := range an.Calls(g, func(cc *ssa.CallCommon) bool {
				f := cc.StaticCallee()
				return f != nil && an.Orig(f) == an.Orig(x.Parent())
			}, false) {
				if pi >= len(ci.Common().Args) {
					return e.fail("argument missing")
				}
				f, ok := e.field(ci.Common().Args[pi], idx, nil, d+1)
				if !ok {
					return 0, false
				}
				if !found || f < best {
					best, found = f, true
				}
			}
		}
		if found {
			return best, true
		}
	case *ssa.UnOp:
		if x.Op == token.MUL {
			return e.field(x.X, idx, env, d+1)
		}
	case *ssa.Call:
		// a struct built by an in-package constructor
		if f := x.Call.StaticCallee(); f != nil {
			body := an.Orig(f)
			if body != nil && len(body.Blocks) > 0 && body.Signature.Results().Len() == 1 {
				for p := env; p != nil; p = p.up {
					if p.fn == body {
						return e.fail("recursion")
					}
				}
				sub := &n4Env{fn: body, args: x.Call.Args, up: env}
				var r float64
				cases := an.ReturnCases(body)
				for i, rc := range cases {
					g, ok := e.field(rc.Vals[0], idx, sub, d+1)
					if !ok {
						return 0, false
					}
					if i > 0 && g != r {
						return e.fail("%s returns a value that depends on the path taken", f.Name())
					}
					r = g
				}
				if len(cases) > 0 {
					return r, true
				}
			}
		}
	case *ssa.Alloc:
		// a composite literal: the one store into the field, or the zero value
		var vals []ssa.Value
		whole := false
		for _, r := range *x.Referrers() {
			switch u := r.(type) {
			case *ssa.FieldAddr:
				if u.Field != idx {
					continue
				}
				for _, r2 := range *u.Referrers() {
					if st, ok := r2.(*ssa.Store); ok && st.Addr == u {
						vals = append(vals, st.Val)
					}
				}
			case *ssa.Store:
				if u.Addr == x {
					whole = true
				}
			}
		}
		switch {
		case whole && len(vals) == 0 && an.UniqueStore(x) != nil:
			// a struct parameter / local copied into its cell once
			return e.field(an.UniqueStore(x), idx, env, d+1)
		case whole || len(vals) > 1:
		case len(vals) == 1:
			return e.num(vals[0], env, d+1)
		default:
			return 0, true
		}
	}
	if n4IsNodesField(s.Type(), idx) {
		e.usedN = true
		return float64(e.n), true // the Nodes of the cluster's definition
	}
	return e.fail("a struct field that is not resolved")
}

// n4IsJustList: v is the justification list of a received wire message.
func n4IsJustList(v ssa.Value) bool {
	v = an.Resolve(v)
	switch x := v.(type) {
	case *ssa.Call:
		if f := x.Call.StaticCallee(); f != nil && f.Name() == "GetJustification" && f.Signature.Recv() != nil {
			return strings.HasSuffix(an.TypeName(f.Signature.Recv().Type()), "QBFTConsensusMsg")
		}
	case *ssa.UnOp:
		if fa, ok := x.X.(*ssa.FieldAddr); ok && x.Op == token.MUL {
			return strings.HasSuffix(an.FieldKey(fa.X.Type(), fa.Field), n4JustFld)
		}
	}
	return false
}

type n4Site struct {
	bin   *ssa.BinOp
	count ssa.Value
}

// n4Uses follows a count value to the comparisons it takes part in (through conversions, spilled locals and
// parameters of in-package helpers).
func n4Uses(v ssa.Value, inPkg func(*ssa.Function) bool, d int, seen map[ssa.Value]bool, out *[]n4Site) {
	if d > 4 || seen[v] || v.Referrers() == nil {
		return
	}
	seen[v] = true
	for _, r := range *v.Referrers() {
		switch x := r.(type) {
		case *ssa.BinOp:
			if isCompare(x.Op) {
				*out = append(*out, n4Site{x, v})
			}
		case *ssa.Convert:
			n4Uses(x, inPkg, d, seen, out)
		case *ssa.ChangeType:
			n4Uses(x, inPkg, d, seen, out)
		case *ssa.Phi:
			if len(x.Edges) == 1 {
				n4Uses(x, inPkg, d, seen, out)
			}
		case *ssa.Store:
			if al, ok := x.Addr.(*ssa.Alloc); ok && x.Val == v && an.UniqueStore(al) != nil {
				for _, r2 := range *al.Referrers() {
					if ld, ok := r2.(*ssa.UnOp); ok && ld.Op == token.MUL {
						n4Uses(ld, inPkg, d, seen, out)
					}
				}
			}
		case *ssa.Call:
			f := x.Call.StaticCallee()
			if f == nil || !inPkg(an.Orig(f)) || len(an.Orig(f).Blocks) == 0 {
				continue
			}
			for i, a := range x.Call.Args {
				if a == v && i < len(an.Orig(f).Params) {
					n4Uses(an.Orig(f).Params[i], inPkg, d+1, seen, out)
				}
			}
		}
	}
}

// n4IsCounter: the value is a loop counter (an iteration `i < len(list)`, not a cap).
func n4IsCounter(v ssa.Value) bool {
	for i := 0; i < 4; i++ {
		switch x := v.(type) {
		case *ssa.Phi:
			return len(x.Edges) > 1
		case *ssa.BinOp:
			if _, isC := an.ConstInt(x.Y); isC {
				v = x.X
				continue
			}
			return false
		default:
			return false
		}
	}
	return false
}

// n4ProducerTrims: some function classify reaches cuts a message list to a computed length.
func n4ProducerTrims(c *rt.Ctx) (bool, token.Pos) {
	anch := c04Anchors(c)
	sp := c.SSAPkg(c02P)
	seen := map[*ssa.Function]bool{}
	var trim token.Pos
	var visit func(f *ssa.Function)
	visit = func(f *ssa.Function) {
		f = an.Orig(f)
		if f == nil || seen[f] || len(f.Blocks) == 0 || c04Outermost(f).Pkg != sp {
			return
		}
		seen[f] = true
		for _, in := range an.Instrs(f, true) {
			switch x := in.(type) {
			case *ssa.Slice:
				if x.High == nil {
					continue
				}
				if k, isC := an.ConstInt(x.High); isC && k == 0 {
					continue // `list[:0]`: the in-place filter idiom
				}
				if sl, ok := x.X.Type().Underlying().(*types.Slice); ok && strings.Contains(an.TypeName(sl.Elem()), "Msg") {
					trim = x.Pos()
				}
			case ssa.CallInstruction:
				if g := x.Common().StaticCallee(); g != nil {
					visit(g)
				}
			}
		}
	}
	visit(anch.classify)
	return trim != token.NoPos, trim
}

func c04Limits(c *rt.Ctx) {
	c.Rule("T11", 1, func() {
		sp := c.SSAPkg(n4Pkg)
		fns := an.PkgFuncsAll(sp)
		inPkg := func(f *ssa.Function) bool { return f != nil && c04Outermost(f).Pkg == sp }
		var sites []n4Site
		seen := map[ssa.Value]bool{}
		for _, fn := range fns {
			for _, in := range an.Instrs(fn, false) {
				call, ok := in.(*ssa.Call)
				if !ok {
					continue
				}
				if b, isB := call.Call.Value.(*ssa.Builtin); !isB || b.Name() != "len" || len(call.Call.Args) != 1 || !n4IsJustList(call.Call.Args[0]) {
					continue
				}
				n4Uses(call, inPkg, 0, seen, &sites)
			}
		}
		trims, trimPos := n4ProducerTrims(c)
		const key = "justification cap admits honest justifications"
		caps := 0
		for _, s := range sites {
			bound, op := s.bin.Y, s.bin.Op
			if s.bin.Y == s.count { // bound OP count: flip to count OP bound
				bound = s.bin.X
				switch op {
				case token.LSS:
					op = token.GTR
				case token.LEQ:
					op = token.GEQ
				case token.GTR:
					op = token.LSS
				case token.GEQ:
					op = token.LEQ
				}
			}
			// accepted iff count <= bound+adj
			adj := 0.0
			switch op {
			case token.GTR, token.LEQ:
			case token.GEQ, token.LSS:
				adj = -1
			default:
				continue // equality tests are not caps
			}
			if n4IsCounter(bound) || n4IsCounter(s.count) {
				continue
			}
			caps++
			verdict, detail := 0, ""
			for n := 4; n <= 7 && verdict < 2; n++ {
				e := &n4Eval{n: n, fns: fns}
				b, ok := e.num(bound, nil, 0)
				if !ok {
					verdict, detail = 1, "the bound the justification count is compared with could not be evaluated ("+e.why+")"
					break
				}
				cap := b + adj
				// an admissible schedule: k = n-f-q+1 members start early and leave round 1 before preparing, the other
				// n-k >= q members PREPARE, f of those crash right after (n-k-f < q COMMITs: nobody decides); the
				// next leader holds n-f ROUND-CHANGEs and n-k PREPAREs
				f, q := math.Floor(float64(n-1)/3), math.Ceil(float64(2*n)/3)
				k := float64(n) - f - q + 1
				honest, most := float64(2*n)-f-k, float64(2*n)
				switch {
				case cap < honest:
					verdict = 2
					detail = fmt.Sprintf("with %d members a message carrying more than %.0f justifications is rejected, but an honest leader's PRE-PREPARE for a round > 1 carries every matching ROUND-CHANGE and every PREPARE of the prepared round it knows (%.0f PREPAREs + %.0f ROUND-CHANGEs = %.0f when %.0f member(s) left round 1 before preparing and %.0f crash right after preparing): all honest receivers drop the honest proposal and no later round can decide", n, cap, float64(n)-k, float64(n)-f, honest, k, f)
				case cap < most && verdict == 0:
					verdict = 1
					detail = fmt.Sprintf("with %d members the cap is %.0f, below the one-per-member-per-kind maximum %d of the producer; no admissible schedule reaching it is known", n, cap, 2*n)
				}
			}
			if verdict == 2 && trims {
				verdict = 1
				detail = "the cap is below 2*nodes, but core/qbft truncates a message list (" + c.P.Fset.Position(trimPos).String() + "): what an honest producer attaches at most is not derived"
			}
			switch verdict {
			case 0:
				c.Good(key, posOf(s.bin), "cap >= 2*nodes for 4..7 members")
			case 1:
				c.Unsure(key, posOf(s.bin), detail)
			default:
				c.Bad(key, posOf(s.bin), detail)
			}
		}
		if caps == 0 {
			c.Unsure(key, token.NoPos, "no comparison of the justification count of a received message with a bound was found in "+n4Pkg+": whether honest proposals pass the receive-side limits is not decided")
		}
	})
}
