package rules

import (
	"go/constant"
	"go/token"
	"strings"

	"golang.org/x/tools/go/ssa"

	"charonverif/internal/an"
	"charonverif/internal/rt"
)

// V6 — a PRE-PREPARE is accepted only from the designated leader of its round ("only decides a value that was
// proposed by the designated leader of some round"). A justified PRE-PREPARE makes the receiver jump to the
// message's round, PREPARE and later COMMIT its value, so every accepting return of isJustified for a PRE-PREPARE
// must lie behind Definition.IsLeader(instance, msg.Round(), msg.Source()).
//
// Decided with the valuation-driven evaluator: walk isJustified (and the in-package helpers it enters) under the
// assumption "msg.Type() == MsgPrePrepare and every call IsLeader(instance, msg.Round(), msg.Source()) yields
// false"; every reachable return must yield false. The spelling of the guard (named boolean, merged or split
// conditions, order relative to the other rejections, helper or inlined into the routing switch, single exit) is
// irrelevant; only an exemption that accepts without consulting the leader predicate is reported.

var c03n5LeaderMutants = []Mutant{
	{ID: "C03-V6-leader-check-deleted", File: c03F, Expect: "V6|designated leader",
		Old: "\tif !d.IsLeader(instance, msg.Round(), msg.Source()) {\n\t\treturn false\n\t}\n\n\tif isZeroVal(msg.Value()) {", New: "\tif isZeroVal(msg.Value()) {"},
	{ID: "C03-V6-leader-check-skipped-after-compare-failure", File: c03F, Expect: "V6|designated leader",
		Old: "\tif !d.IsLeader(instance, msg.Round(), msg.Source()) {\n\t\treturn false\n\t}\n\n\tif isZeroVal(msg.Value()) {",
		New: "\tif !d.IsLeader(instance, msg.Round(), msg.Source()) && msg.Round() != compareFailureRound+1 {\n\t\treturn false\n\t}\n\n\tif isZeroVal(msg.Value()) {"},
	{ID: "C03-V6-leader-of-previous-round", File: c03F, Expect: "V6|designated leader",
		Old: "\tif !d.IsLeader(instance, msg.Round(), msg.Source()) {\n\t\treturn false\n\t}\n\n\tif isZeroVal(msg.Value()) {",
		New: "\tif !d.IsLeader(instance, msg.Round()-1, msg.Source()) {\n\t\treturn false\n\t}\n\n\tif isZeroVal(msg.Value()) {"},
	{ID: "C03-V6-routing-accepts-first-round", File: c03F, Expect: "V6|designated leader",
		Old: "\tcase MsgPrePrepare:\n\t\treturn isJustifiedPrePrepare(d, instance, msg, compareFailureRound)\n",
		New: "\tcase MsgPrePrepare:\n\t\tif msg.Round() == 1 && !isZeroVal(msg.Value()) {\n\t\t\treturn true\n\t\t}\n\n\t\treturn isJustifiedPrePrepare(d, instance, msg, compareFailureRound)\n"},
}

// c03n5LeaderCall is a call of the Definition.IsLeader function value.
type c03n5LeaderCall struct {
	call  *ssa.Call
	match c03Tri // c03Yes: the arguments are (instance, msg.Round(), msg.Source()); c03No: positively others; c03Maybe: untraced
}

func c03n5IsLeaderCall(call *ssa.Call) bool {
	cc := &call.Call
	if cc.IsInvoke() || cc.StaticCallee() != nil || len(cc.Args) != 3 {
		return false
	}
	k, _, ok := an.FieldOf(cc.Value)
	return ok && c03Strip(k) == c03P+".Definition.IsLeader"
}

func c03V6(c *rt.Ctx) {
	ij := c.Fn(c03P + ".isJustified")
	msg := c03ParamOfType(c, ij, c03P+".Msg")
	eng := c03NewEng(ij.Pkg)
	fr := eng.root(ij)
	mt := eng.term(fr, msg)
	ppT := c03ConstOf(c, c03P, "MsgPrePrepare")
	key := "isJustified accepts a PRE-PREPARE only from the designated leader of its round"
	if mt == "" {
		c.Unsure(key, ij.Pos(), "the message parameter of isJustified could not be named")
		return
	}
	rootPrefix := "p:" + c03Strip(an.FuncName(ij)) + "#"
	var calls []c03n5LeaderCall
	seen := map[*ssa.Function]bool{}
	var scan func(f *c03Frame, d int)
	scan = func(f *c03Frame, d int) {
		if seen[f.fn] || d > 4 {
			return
		}
		seen[f.fn] = true
		for _, in := range an.Instrs(f.fn, false) {
			call, ok := in.(*ssa.Call)
			if !ok {
				continue
			}
			if c03n5IsLeaderCall(call) {
				a := call.Call.Args
				inst, rnd, src := eng.term(f, a[0]), eng.term(f, a[1]), eng.term(f, a[2])
				lc := c03n5LeaderCall{call: call, match: c03Yes}
				switch {
				case inst == "" || rnd == "" || src == "":
					lc.match = c03Maybe
				case !strings.HasPrefix(inst, rootPrefix) || rnd != "m:Round("+mt+")" || src != "m:Source("+mt+")":
					lc.match = c03No
				}
				calls = append(calls, lc)
				continue
			}
			if nf := eng.enter(f, call); nf != nil {
				scan(nf, d+1)
			}
		}
	}
	scan(fr, 0)
	facts := c03NoFacts().term("m:Type("+mt+")", constant.MakeInt64(ppT))
	matched, untraced, others := 0, 0, 0
	for _, lc := range calls {
		switch lc.match {
		case c03Yes:
			facts.val(lc.call, c03Bool(false))
			matched++
		case c03Maybe:
			untraced++
		default:
			others++
		}
	}
	st, at, why := c03AllReturn(eng.under(facts), fr, false)
	if at == token.NoPos {
		at = ij.Pos()
	}
	switch {
	case st == c03Known:
		c.Good(key, ij.Pos(), "with IsLeader(instance, msg.Round(), msg.Source()) = false every return for a PRE-PREPARE yields false")
	case st == c03Opaque || untraced > 0:
		c.Unsure(key, at, "assuming the source is not the leader of msg.Round(), "+why)
	case matched == 0 && others == 0 && c03n5LeaderElsewhere(ij):
		// the predicate is not consulted on the way at all, but some other function applies it to a
		// message's source: the check may have moved out of isJustified
		c.Unsure(key, at, "isJustified does not consult IsLeader for a PRE-PREPARE; another function applies it to a message source")
	case matched == 0 && others > 0:
		c.Bad(key, at, "a PRE-PREPARE is accepted although IsLeader is not asked about (msg.Round(), msg.Source()): the leader predicate is applied to another round or process, so a value no designated leader proposed can be prepared, committed and decided")
	case matched == 0:
		c.Bad(key, at, "a PRE-PREPARE is accepted without any IsLeader(instance, msg.Round(), msg.Source()) check: any member's proposal can be prepared, committed and decided")
	default:
		c.Bad(key, at, "a PRE-PREPARE from a process that is not the leader of its round is accepted (an accepting return is not behind IsLeader(instance, msg.Round(), msg.Source())): assuming IsLeader yields false, "+why)
	}
}

// c03n5LeaderElsewhere: a function of the package outside isJustified's call tree applies IsLeader to the
// Source() of a message.
func c03n5LeaderElsewhere(ij *ssa.Function) bool {
	for _, fn := range an.PkgFuncs(ij.Pkg) {
		for _, in := range an.Instrs(fn, false) {
			call, ok := in.(*ssa.Call)
			if !ok || !c03n5IsLeaderCall(call) {
				continue
			}
			if src, ok := an.Resolve(call.Call.Args[2]).(*ssa.Call); ok && src.Call.IsInvoke() && src.Call.Method.Name() == "Source" {
				return true
			}
		}
	}
	return false
}
