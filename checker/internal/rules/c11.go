package rules

import (
	"fmt"
	"go/token"
	"go/types"
	"strings"

	"golang.org/x/tools/go/ssa"

	"charonverif/internal/an"
	"charonverif/internal/rt"
)

func init() {
	Register(&Prop{
		ID: "C11",
		Decides: "package dkg: (K1) makeShares builds every share.Share from one FROST participant (PubKey from VerificationKey, SecretShare from SkShare) and the " +
			"public-share map grouped by msgKey.ValIdx and keyed by msgKey.SourceID with the sender's VkShare; (K2) every partial signature put into an " +
			"aggregate (lock hash, deposit data, validator registration) is first verified with tbls.Verify under PublicShares[s.ShareIdx] of the same validator, " +
			"threshold aggregates are verified under the group key before they are used, and the lock-hash aggregate is checked with tbls.VerifyAggregate before it is set; " +
			"(K3) the four peer-index/share-index conversion sites use offset exactly 1; (K4) FROST cast/share messages are forwarded to the protocol only after the " +
			"source-id, target-id, validator-index checks on every element and the per-peer dedup.",
		NotDecided: "the algebraic relations of the statement (kryptology FROST: shares reconstruct the group key, partial signatures combine); what tbls.Verify means cryptographically.",
		Run:        c11,
		Mutants: []Mutant{
			// K1
			{ID: "C11-K1-key-by-target", File: "dkg/frost.go", Expect: "K1",
				Old: "m[int(key.SourceID)] = pubShare", New: "m[int(key.TargetID)] = pubShare"},
			{ID: "C11-K1-group-by-source", File: "dkg/frost.go", Expect: "K1",
				Old: "m, ok := pubShares[key.ValIdx]", New: "m, ok := pubShares[key.SourceID]"},
			{ID: "C11-K1-pubkey-from-vkshare", File: "dkg/frost.go", Expect: "K1",
				Old: "pointToPubKey(v.VerificationKey)", New: "pointToPubKey(v.VkShare)"},
			{ID: "C11-K1-pubshares-of-validator-0", File: "dkg/frost.go", Expect: "K1",
				Old: "PublicShares: pubShares[uint32(vIdx)],", New: "PublicShares: pubShares[0],"},
			{ID: "C11-K1-pubshare-from-verification-key", File: "dkg/frost.go", Expect: "K1",
				Old: "pointToPubKey(result.VkShare)", New: "pointToPubKey(result.VerificationKey)"},
			{ID: "C11-K1-secret-of-other-participant", File: "dkg/frost.go", Expect: "K1|SecretShare",
				Old: "scalarToSecretShare(v.SkShare)", New: "scalarToSecretShare(validators[0].SkShare)"},
			// K2
			{ID: "C11-K2-deposit-no-partial-verify", File: "dkg/dkg.go", Expect: "K2",
				Old: "err = tbls.Verify(pubshare, sigRoot[:], sig)\n\t\t\tif err != nil {\n\t\t\t\treturn nil, errors.New(\"invalid deposit data partial",
				New: "_ = pubshare\n\t\t\tif err != nil {\n\t\t\t\treturn nil, errors.New(\"invalid deposit data partial"},
			{ID: "C11-K2-lockhash-verify-group-key", File: "dkg/dkg.go", Expect: "K2",
				Old: "err = tbls.Verify(pubshare, hash, sig)", New: "err = tbls.Verify(sh.PubKey, hash, sig)"},
			{ID: "C11-K2-valreg-partial-check-weakened", File: "dkg/dkg.go", Expect: "K2",
				Old: "if err != nil {\n\t\t\t\treturn nil, errors.New(\"invalid validator registration partial",
				New: "if err != nil && len(psigs) > 0 {\n\t\t\t\treturn nil, errors.New(\"invalid validator registration partial"},
			{ID: "C11-K2-deposit-pubshares-of-first-validator", File: "dkg/dkg.go", Expect: "K2",
				Old: "pubkeyToPubShares[pk] = sh.PublicShares\n\t}\n\n\tvar resp []eth2p0.DepositData",
				New: "pubkeyToPubShares[pk] = shares[0].PublicShares\n\t}\n\n\tvar resp []eth2p0.DepositData"},
			{ID: "C11-K2-valreg-no-group-verify", File: "dkg/dkg.go", Expect: "K2",
				Old: "err = tbls.Verify(pubkey, sigRoot[:], asig)\n\t\tif err != nil {\n\t\t\treturn nil, errors.Wrap(err, \"invalid validator registration aggregated",
				New: "_ = pubkey\n\t\tif err != nil {\n\t\t\treturn nil, errors.Wrap(err, \"invalid validator registration aggregated"},
			{ID: "C11-K2-lock-verifyaggregate-logged", File: "dkg/dkg.go", Expect: "K2",
				Old: "\t\t\treturn cluster.Lock{}, errors.Wrap(err, \"verify multisignature\")",
				New: "\t\t\tlog.Warn(ctx, \"verify multisignature\", err)"},
			{ID: "C11-K2-lockhash-wrong-share-index", File: "dkg/dkg.go", Expect: "K2",
				Old: "pubshare, ok := sh.PublicShares[s.ShareIdx]", New: "pubshare, ok := sh.PublicShares[s.ShareIdx-1]"},
			{ID: "C11-K2-lock-map-keyed-by-index", File: "dkg/dkg.go", Expect: "K2",
				Old: "\t\t\tpubkeyToShares[pk] = sh", New: "\t\t\tpubkeyToShares[pk] = allShares[0]"},
			{ID: "C11-K2-lockhash-append-before-verify", File: "dkg/dkg.go", Expect: "K2|aggLockHashSig",
				Old: "\t\t\tsh, ok := shares[pk]\n", New: "\t\t\tsigs = append(sigs, sig)\n\t\t\tsh, ok := shares[pk]\n"},
			// K3
			{ID: "C11-K3-nodeidx-zero-based", File: "cluster/definition.go", Expect: "K3",
				Old: "ShareIdx: i + 1, // 1-indexed", New: "ShareIdx: i, // 1-indexed"},
			{ID: "C11-K3-wire-zero-based", File: "app/app.go", Expect: "K3",
				Old: "allPubShares[i+1] = pubshare", New: "allPubShares[i] = pubshare"},
			{ID: "C11-K3-combine-offset-two", File: "cmd/combine/combine.go", Expect: "K3",
				Old: "pubkMap[pubShare] = peerIdx + 1", New: "pubkMap[pubShare] = peerIdx + 2"},
			{ID: "C11-K3-tss-same-index", File: "cmd/createcluster.go", Expect: "K3",
				Old: "secretSet[i-1] = shares[i]", New: "secretSet[i-1] = shares[i-1]"},
			// K4
			{ID: "C11-K4-r2-no-source-check", File: "dkg/frostp2p.go", Expect: "K4",
				Old: "if int(cast.GetKey().GetSourceId()) != peerNode.ShareIdx {\n\t\t\t\t\treturn errors.New(\"invalid round 2 cast source ID\")\n\t\t\t\t} else if cast.GetKey().GetTargetId() != 0 {",
				New: "if peerNode.ShareIdx <= 0 {\n\t\t\t\t\treturn errors.New(\"invalid round 2 cast source ID\")\n\t\t\t\t} else if cast.GetKey().GetTargetId() != 0 {"},
			{ID: "C11-K4-r2-source-check-weakened", File: "dkg/frostp2p.go", Expect: "K4",
				Old: "!= peerNode.ShareIdx {\n\t\t\t\t\treturn errors.New(\"invalid round 2 cast source ID\")",
				New: "> peerNode.ShareIdx {\n\t\t\t\t\treturn errors.New(\"invalid round 2 cast source ID\")"},
			{ID: "C11-K4-r1-source-vs-peeridx", File: "dkg/frostp2p.go", Expect: "K4",
				Old: "!= peerNode.ShareIdx {\n\t\t\t\t\treturn errors.New(\"invalid round 1 cast source ID\")",
				New: "!= peerNode.PeerIdx {\n\t\t\t\t\treturn errors.New(\"invalid round 1 cast source ID\")"},
			{ID: "C11-K4-p2p-target-vs-peeridx", File: "dkg/frostp2p.go", Expect: "K4",
				Old: "int(share.GetKey().GetTargetId()) != targetPeer.ShareIdx", New: "int(share.GetKey().GetTargetId()) != targetPeer.PeerIdx"},
			{ID: "C11-K4-p2p-dedup-weakened", File: "dkg/frostp2p.go", Expect: "K4",
				Old: "if dedupRound1P2P[pID] {", New: "if dedupRound1P2P[pID] && len(msg.GetShares()) == 0 {"},
			{ID: "C11-K4-p2p-validx-off-by-one", File: "dkg/frostp2p.go", Expect: "K4",
				Old: "int(share.GetKey().GetValIdx()) >= numVals", New: "int(share.GetKey().GetValIdx()) > numVals"},
			{ID: "C11-K4-r2-target-logged", File: "dkg/frostp2p.go", Expect: "K4",
				Old: "return errors.New(\"invalid round 2 cast target ID\")", New: "log.Debug(ctx, \"invalid round 2 cast target ID\")"},
			{ID: "C11-K4-r1-send-before-checks", File: "dkg/frostp2p.go", Expect: "K4|FrostRound1Casts",
				Old: "\t\t\tfor _, cast := range msg.GetCasts() {\n\t\t\t\tif int(cast.GetKey().GetSourceId()) != peerNode.ShareIdx {\n\t\t\t\t\treturn errors.New(\"invalid round 1 cast source ID\")",
				New: "\t\t\tround1CastsRecv <- msg\n\n\t\t\tfor _, cast := range msg.GetCasts() {\n\t\t\t\tif int(cast.GetKey().GetSourceId()) != peerNode.ShareIdx {\n\t\t\t\t\treturn errors.New(\"invalid round 1 cast source ID\")"},
			{ID: "C11-K4-r1-dedup-never-marked", File: "dkg/frostp2p.go", Expect: "K4",
				Old: "dedupRound1Casts[pID] = true", New: "dedupRound2Casts[pID] = true"},
		},
	})
}

// ---------------------------------------------------------------------------------------------
// A small symbolic-expression view of SSA values (provenance terms). Conversions are transparent,
// address-taken locals with a single whole-value store are looked through, closure captures of
// never-reassigned variables resolve to the captured value.

type c11X struct {
	Op   string // param const field lookup lookupok elem rkey rval call extract assert slice binop unop make var global opaque
	Name string
	Args []*c11X
	V    ssa.Value // the SSA value this node was built from (rkey/rval: the *ssa.Next)
	s    string
}

func (x *c11X) String() string {
	if x == nil {
		return "<nil>"
	}
	if x.s != "" {
		return x.s
	}
	var sb strings.Builder
	sb.WriteString(x.Op)
	sb.WriteString("(")
	sb.WriteString(x.Name)
	switch x.Op {
	case "param", "rkey", "rval", "make", "var", "opaque":
		fmt.Fprintf(&sb, "#%p", x.V)
	}
	for _, a := range x.Args {
		sb.WriteString(";")
		sb.WriteString(a.String())
	}
	sb.WriteString(")")
	x.s = sb.String()
	return x.s
}

func c11Same(a, b *c11X) bool { return a != nil && b != nil && a.String() == b.String() }

// c11Contains: sub occurs in x.
func c11Contains(x, sub *c11X) bool {
	if x == nil || sub == nil {
		return false
	}
	if c11Same(x, sub) {
		return true
	}
	for _, a := range x.Args {
		if c11Contains(a, sub) {
			return true
		}
	}
	return false
}

type c11B struct {
	memo map[ssa.Value]*c11X
}

func c11NewB() *c11B { return &c11B{memo: map[ssa.Value]*c11X{}} }

// c11AddrOnlyRead: every use of the derived address a is a load, a slice, a debug ref or a further
// read-only field/element address.
func c11AddrOnlyRead(a ssa.Value, d int) bool {
	if d > 6 || a.Referrers() == nil {
		return false
	}
	for _, ref := range *a.Referrers() {
		switch r := ref.(type) {
		case *ssa.UnOp:
			if r.Op != token.MUL {
				return false
			}
		case *ssa.Slice, *ssa.DebugRef:
		case *ssa.FieldAddr:
			if !c11AddrOnlyRead(r, d+1) {
				return false
			}
		case *ssa.IndexAddr:
			if r.X != a || !c11AddrOnlyRead(r, d+1) {
				return false
			}
		default:
			return false
		}
	}
	return true
}

// c11SingleStore returns the value of the only (whole-variable) store into local al if al is
// otherwise only read; captured reports that closures reference it.
func c11SingleStore(al *ssa.Alloc) (val ssa.Value, captured bool, ok bool) {
	if al.Referrers() == nil {
		return nil, false, false
	}
	var st *ssa.Store
	for _, ref := range *al.Referrers() {
		switch r := ref.(type) {
		case *ssa.Store:
			if r.Addr != ssa.Value(al) || st != nil {
				return nil, false, false
			}
			st = r
		case *ssa.UnOp:
			if r.Op != token.MUL {
				return nil, false, false
			}
		case *ssa.Slice, *ssa.DebugRef:
		case *ssa.FieldAddr:
			if !c11AddrOnlyRead(r, 0) {
				return nil, false, false
			}
		case *ssa.IndexAddr:
			if r.X != ssa.Value(al) || !c11AddrOnlyRead(r, 0) {
				return nil, false, false
			}
		case *ssa.MakeClosure:
			captured = true
		default:
			return nil, false, false
		}
	}
	if st == nil {
		return nil, captured, false
	}
	return st.Val, captured, true
}

// c11FreeVarBinding resolves a free variable to the value bound by the enclosing function.
func c11FreeVarBinding(fv *ssa.FreeVar) ssa.Value {
	fn := fv.Parent()
	par := fn.Parent()
	if par == nil {
		return nil
	}
	idx := -1
	for i, f := range fn.FreeVars {
		if f == fv {
			idx = i
		}
	}
	if idx < 0 {
		return nil
	}
	var bind ssa.Value
	for _, in := range an.Instrs(par, false) {
		if mc, ok := in.(*ssa.MakeClosure); ok && mc.Fn == ssa.Value(fn) && idx < len(mc.Bindings) {
			if bind != nil && bind != mc.Bindings[idx] {
				return nil
			}
			bind = mc.Bindings[idx]
		}
	}
	return bind
}

// c11StoredViaFreeVar: some closure below root stores through a free variable bound to al.
func c11StoredViaFreeVar(root *ssa.Function, al ssa.Value) bool {
	for _, f := range an.Closure(root) {
		for _, in := range an.Instrs(f, false) {
			st, ok := in.(*ssa.Store)
			if !ok {
				continue
			}
			a := st.Addr
			for i := 0; i < 8; i++ {
				switch x := a.(type) {
				case *ssa.FieldAddr:
					a = x.X
					continue
				case *ssa.IndexAddr:
					a = x.X
					continue
				}
				break
			}
			for fv, ok := a.(*ssa.FreeVar); ok; fv, ok = a.(*ssa.FreeVar) {
				b := c11FreeVarBinding(fv)
				if b == nil {
					return true // cannot tell: be conservative
				}
				if b == al {
					return true
				}
				a = b
			}
		}
	}
	return false
}

func (b *c11B) mk(v ssa.Value, op, name string, args ...*c11X) *c11X {
	return &c11X{Op: op, Name: name, Args: args, V: v}
}

// addr: the value stored at address a.
func (b *c11B) addr(a ssa.Value, d int) *c11X {
	if d > 40 {
		return b.mk(a, "opaque", "")
	}
	switch x := a.(type) {
	case *ssa.Alloc:
		if v, captured, ok := c11SingleStore(x); ok && (!captured || !c11StoredViaFreeVar(x.Parent(), x)) {
			return b.val(v, d+1)
		}
		return b.mk(x, "var", "")
	case *ssa.FreeVar:
		bind := c11FreeVarBinding(x)
		if bind == nil {
			return b.mk(x, "var", x.Name())
		}
		return b.addr(bind, d+1)
	case *ssa.FieldAddr:
		return b.mk(a, "field", an.FieldKey(x.X.Type(), x.Field), b.ptr(x.X, d+1))
	case *ssa.IndexAddr:
		if _, isPtr := x.X.Type().Underlying().(*types.Pointer); isPtr {
			return b.mk(a, "elem", "", b.ptr(x.X, d+1), b.val(x.Index, d+1))
		}
		return b.mk(a, "elem", "", b.val(x.X, d+1), b.val(x.Index, d+1))
	case *ssa.Global:
		return b.mk(a, "global", an.Short(x.String()))
	}
	return b.mk(a, "deref", "", b.val(a, d+1))
}

// ptr: the value pointed to by pointer-typed p (address computation or pointer value).
func (b *c11B) ptr(p ssa.Value, d int) *c11X {
	switch p.(type) {
	case *ssa.Alloc, *ssa.FieldAddr, *ssa.IndexAddr, *ssa.FreeVar, *ssa.Global:
		return b.addr(p, d)
	}
	return b.val(p, d) // dereference of a pointer value is transparent
}

func (b *c11B) val(v ssa.Value, d int) *c11X {
	if x, ok := b.memo[v]; ok {
		return x
	}
	x := b.val0(v, d)
	b.memo[v] = x
	return x
}

func (b *c11B) val0(v0 ssa.Value, d int) *c11X {
	v := an.Unwrap(v0)
	if d > 40 {
		return b.mk(v, "opaque", "")
	}
	switch x := v.(type) {
	case *ssa.Parameter:
		return b.mk(x, "param", x.Name())
	case *ssa.Const:
		if x.Value == nil {
			return b.mk(x, "const", "nil")
		}
		return b.mk(x, "const", x.Value.ExactString())
	case *ssa.Field:
		return b.mk(x, "field", an.FieldKey(x.X.Type(), x.Field), b.val(x.X, d+1))
	case *ssa.UnOp:
		if x.Op == token.MUL {
			return b.addr(x.X, d+1) // a load of a reassigned variable keeps the variable's identity ("var")
		}
		if x.Op == token.ARROW {
			return b.mk(x, "opaque", "")
		}
		return b.mk(x, "unop", x.Op.String(), b.val(x.X, d+1))
	case *ssa.Extract:
		switch t := x.Tuple.(type) {
		case *ssa.Next:
			r, ok := t.Iter.(*ssa.Range)
			if !ok {
				return b.mk(x, "opaque", "")
			}
			switch x.Index {
			case 1:
				return b.mk(t, "rkey", "", b.val(r.X, d+1))
			case 2:
				return b.mk(t, "rval", "", b.val(r.X, d+1))
			}
			return b.mk(x, "opaque", "")
		case *ssa.Lookup:
			op := "lookup"
			if x.Index == 1 {
				op = "lookupok"
			}
			return b.mk(x, op, "", b.val(t.X, d+1), b.val(t.Index, d+1))
		case *ssa.TypeAssert:
			op := "assert"
			if x.Index == 1 {
				op = "assertok"
			}
			return b.mk(x, op, an.TypeName(t.AssertedType), b.val(t.X, d+1))
		case *ssa.Call:
			return b.mk(x, "extract", fmt.Sprint(x.Index), b.val(t, d+1))
		}
		return b.mk(x, "opaque", "")
	case *ssa.Lookup:
		return b.mk(x, "lookup", "", b.val(x.X, d+1), b.val(x.Index, d+1))
	case *ssa.TypeAssert:
		return b.mk(x, "assert", an.TypeName(x.AssertedType), b.val(x.X, d+1))
	case *ssa.Call:
		name := an.CalleeName(&x.Call)
		if name == "" {
			return b.mk(x, "opaque", "")
		}
		var args []*c11X
		if x.Call.IsInvoke() {
			args = append(args, b.val(x.Call.Value, d+1))
		}
		for _, a := range x.Call.Args {
			args = append(args, b.val(a, d+1))
		}
		return b.mk(x, "call", name, args...)
	case *ssa.Index:
		return b.mk(x, "elem", "", b.val(x.X, d+1), b.val(x.Index, d+1))
	case *ssa.Slice:
		if x.Low != nil || x.High != nil || x.Max != nil {
			return b.mk(x, "opaque", "")
		}
		if _, isPtr := x.X.Type().Underlying().(*types.Pointer); isPtr {
			return b.mk(x, "slice", "", b.ptr(x.X, d+1))
		}
		return b.mk(x, "slice", "", b.val(x.X, d+1))
	case *ssa.MakeMap, *ssa.MakeSlice, *ssa.MakeChan:
		return b.mk(x, "make", "")
	case *ssa.BinOp:
		return b.mk(x, "binop", x.Op.String(), b.val(x.X, d+1), b.val(x.Y, d+1))
	case *ssa.FieldAddr, *ssa.IndexAddr:
		return b.mk(x, "ptrto", "", b.addr(x, d+1))
	}
	return b.mk(v, "opaque", "")
}

// c11Res0 matches "first result of a call to callee" (tuple extract #0 or a single result) and
// returns the call node.
func c11Res0(x *c11X, callee string) *c11X {
	if x == nil {
		return nil
	}
	if x.Op == "extract" && x.Name == "0" && len(x.Args) == 1 {
		x = x.Args[0]
	}
	if x.Op == "call" && x.Name == callee {
		return x
	}
	return nil
}

func c11FieldOf(x *c11X, key string) *c11X {
	if x != nil && x.Op == "field" && x.Name == key && len(x.Args) == 1 {
		return x.Args[0]
	}
	return nil
}

// c11Affine decomposes v into base + off over integer +/- constants (conversions transparent).
func c11Affine(v ssa.Value) (ssa.Value, int64) {
	var off int64
	for i := 0; i < 16; i++ {
		v = an.Unwrap(v)
		bin, ok := v.(*ssa.BinOp)
		if !ok {
			break
		}
		if n, isC := an.ConstInt(bin.Y); isC && (bin.Op == token.ADD || bin.Op == token.SUB) {
			if bin.Op == token.ADD {
				off += n
			} else {
				off -= n
			}
			v = bin.X
			continue
		}
		if n, isC := an.ConstInt(bin.X); isC && bin.Op == token.ADD {
			off += n
			v = bin.Y
			continue
		}
		break
	}
	return v, off
}

// c11Inserts lists the instructions that put an element into the local aggregate input a (a map made
// in fn, or a slice grown by append from nil); ok=false if a has another origin.
type c11Insert struct {
	In   ssa.Instruction
	Elem ssa.Value
	Key  ssa.Value // maps only
}

func c11Inserts(fn *ssa.Function, a ssa.Value) ([]c11Insert, bool) {
	a = an.Unwrap(a)
	if mm, ok := a.(*ssa.MakeMap); ok {
		var out []c11Insert
		for _, up := range mapUpdates(fn, func(m ssa.Value) bool { return m == ssa.Value(mm) }) {
			out = append(out, c11Insert{In: up, Elem: up.Value, Key: up.Key})
		}
		return out, true
	}
	if _, ok := a.Type().Underlying().(*types.Slice); !ok {
		return nil, false
	}
	var out []c11Insert
	seen := map[ssa.Value]bool{}
	var walk func(v ssa.Value) bool
	walk = func(v ssa.Value) bool {
		if seen[v] {
			return true
		}
		seen[v] = true
		switch x := v.(type) {
		case *ssa.Const:
			return x.Value == nil
		case *ssa.MakeSlice:
			n, isC := an.ConstInt(x.Len)
			return isC && n == 0
		case *ssa.Phi:
			for _, e := range x.Edges {
				if !walk(e) {
					return false
				}
			}
			return true
		case *ssa.Call:
			bi, ok := x.Call.Value.(*ssa.Builtin)
			if !ok || bi.Name() != "append" {
				return false
			}
			elems := appendedElems(x)
			if len(elems) == 0 {
				return false
			}
			for _, e := range elems {
				out = append(out, c11Insert{In: x, Elem: e})
			}
			return walk(x.Call.Args[0])
		}
		return false
	}
	if !walk(a) {
		return nil, false
	}
	return out, true
}

// c11ValueUses returns the instructions consuming value v, looking through a spill of v into a local
// (loads and slices of that local) and type changes.
func c11ValueUses(v ssa.Value) []ssa.Instruction {
	var out []ssa.Instruction
	seen := map[ssa.Value]bool{}
	var walk func(x ssa.Value)
	walk = func(x ssa.Value) {
		if seen[x] || x.Referrers() == nil {
			return
		}
		seen[x] = true
		for _, ref := range *x.Referrers() {
			switch r := ref.(type) {
			case *ssa.DebugRef:
			case *ssa.Store:
				if al, ok := r.Addr.(*ssa.Alloc); ok && r.Val == x {
					walk(al)
				} else if r.Addr != x {
					out = append(out, r)
				}
			case *ssa.UnOp:
				if r.Op == token.MUL {
					walk(r)
				} else {
					out = append(out, r)
				}
			case *ssa.Slice:
				walk(r)
			case *ssa.ChangeType:
				walk(r)
			case *ssa.Convert:
				walk(r)
			case *ssa.MakeInterface:
				walk(r)
			default:
				out = append(out, ref)
			}
		}
	}
	walk(v)
	return out
}

const (
	c11ShareT    = "dkg/share.Share"
	c11ParSigIdx = "core.ParSignedData.ShareIdx"
	c11FrostPart = "github.com/coinbase/kryptology/pkg/dkg/frost.DkgParticipant"
	c11FrostR2   = "github.com/coinbase/kryptology/pkg/dkg/frost.Round2Bcast"
)

func c11(c *rt.Ctx) {
	c.Rule("K1", 5, func() { c11K1(c) })
	c.Rule("K2", 18, func() { c11K2(c) })
	c.Rule("K3", 4, func() { c11K3(c) })
	c.Rule("K4", 12, func() { c11K4(c) })
}

// ---------------------------------------------------------------------------------------------
// K1

func c11K1(c *rt.Ctx) {
	fn := c.Fn("dkg.makeShares")
	if len(fn.Params) != 2 {
		c.Bail("makeShares: unexpected signature")
	}
	b := c11NewB()
	validatorsP, r2P := b.val(fn.Params[0], 0), b.val(fn.Params[1], 0)

	// field stores of share.Share values built here, grouped by the struct being filled
	type shareLit struct {
		base   ssa.Value
		stores map[string]*ssa.Store
	}
	var lits []*shareLit
	for _, in := range an.Instrs(fn, false) {
		st, ok := in.(*ssa.Store)
		if !ok {
			continue
		}
		fa, ok := st.Addr.(*ssa.FieldAddr)
		if !ok || an.TypeName(fa.X.Type()) != c11ShareT {
			continue
		}
		var l *shareLit
		for _, x := range lits {
			if x.base == fa.X {
				l = x
			}
		}
		if l == nil {
			l = &shareLit{base: fa.X, stores: map[string]*ssa.Store{}}
			lits = append(lits, l)
		}
		key := an.FieldKey(fa.X.Type(), fa.Field)
		if l.stores[key] != nil {
			c.Unsure("makeShares "+key, posOf(st), "field of one share.Share value is assigned twice")
			return
		}
		l.stores[key] = st
	}
	if len(lits) == 0 {
		c.Bail("makeShares builds no share.Share value field by field")
	}
	var outer ssa.Value // the map[ValIdx]map[SourceID]pubshare
	for _, l := range lits {
		pk, sk, ps := l.stores[c11ShareT+".PubKey"], l.stores[c11ShareT+".SecretShare"], l.stores[c11ShareT+".PublicShares"]
		if pk == nil || sk == nil || ps == nil {
			c.Unsure("makeShares share.Share literal", l.base.Pos(), "not all of PubKey, SecretShare, PublicShares are set on this value")
			continue
		}
		// PubKey <- pointToPubKey(v.VerificationKey)
		var part *c11X
		if call := c11Res0(b.val(pk.Val, 0), "dkg.pointToPubKey"); call != nil && len(call.Args) == 1 {
			part = c11FieldOf(call.Args[0], c11FrostPart+".VerificationKey")
		}
		c.Check("makeShares Share.PubKey←participant.VerificationKey", posOf(pk), part != nil,
			"the group public key of a share is not pointToPubKey(v.VerificationKey) of a DKG participant")
		// SecretShare <- scalarToSecretShare(v.SkShare), same participant
		var part2 *c11X
		if call := c11Res0(b.val(sk.Val, 0), "dkg.scalarToSecretShare"); call != nil && len(call.Args) == 1 {
			part2 = c11FieldOf(call.Args[0], c11FrostPart+".SkShare")
		}
		c.Check("makeShares Share.SecretShare←participant.SkShare", posOf(sk), part2 != nil && (part == nil || c11Same(part, part2)),
			"the secret share is not scalarToSecretShare(v.SkShare) of the participant that supplies the group key")
		if part == nil {
			part = part2
		}
		// PublicShares <- pubShares[index of that participant]
		px := b.val(ps.Val, 0)
		good, why := false, "PublicShares is not a lookup in the per-validator public-share map"
		if px.Op == "lookup" && px.Args[0].Op == "make" && part != nil {
			switch {
			case part.Op == "lookup" && c11Same(part.Args[0], validatorsP):
				good = c11Same(part.Args[1], px.Args[1])
			case part.Op == "rval" && c11Same(part.Args[0], validatorsP):
				good = px.Args[1].Op == "rkey" && px.Args[1].V == part.V
			}
			why = "PublicShares is taken at another validator index than the participant that supplies the keys"
			if good {
				outer = px.Args[0].V
			}
		}
		c.Check("makeShares Share.PublicShares←pubShares[validator index of participant]", posOf(ps), good, why)
	}
	if outer == nil {
		return
	}
	innerT := outer.Type().Underlying().(*types.Map).Elem()
	if _, ok := innerT.Underlying().(*types.Map); !ok {
		c.Bail("makeShares: per-validator public-share map has no inner map")
	}
	outerUps := mapUpdates(fn, func(m ssa.Value) bool { return m == outer })
	// inserts of inner maps: fresh map, keyed by key.ValIdx of an r2Result entry
	valIdxOf := func(k *c11X) *c11X { // returns the Next node if k = key.ValIdx of range over r2Result
		r := c11FieldOf(k, "dkg.msgKey.ValIdx")
		if r != nil && r.Op == "rkey" && c11Same(r.Args[0], r2P) {
			return r
		}
		return nil
	}
	for _, up := range outerUps {
		_, fresh := an.Unwrap(up.Value).(*ssa.MakeMap)
		c.Check("makeShares pubShares[key.ValIdx]=new map", posOf(up), fresh && valIdxOf(b.val(up.Key, 0)) != nil,
			"the per-validator map is not a fresh map stored under the ValIdx of a round-2 message key")
	}
	n := 0
	for _, up := range mapUpdates(fn, func(m ssa.Value) bool { return types.Identical(m.Type(), innerT) }) {
		n++
		kx, vx := b.val(up.Key, 0), b.val(up.Value, 0)
		src := c11FieldOf(kx, "dkg.msgKey.SourceID")
		good, why := true, ""
		if src == nil || src.Op != "rkey" || !c11Same(src.Args[0], r2P) {
			good, why = false, "public share is not keyed by the SourceID of the round-2 message key"
		}
		if good {
			var res *c11X
			if call := c11Res0(vx, "dkg.pointToPubKey"); call != nil && len(call.Args) == 1 {
				res = c11FieldOf(call.Args[0], c11FrostR2+".VkShare")
			}
			if res == nil || res.Op != "rval" || res.V != src.V {
				good, why = false, "stored public share is not pointToPubKey(result.VkShare) of the same round-2 message"
			}
		}
		if good {
			// the inner map is pubShares[key.ValIdx] (existing or just inserted) of the same message
			edges := []ssa.Value{up.Map}
			if phi, ok := up.Map.(*ssa.Phi); ok {
				edges = phi.Edges
			}
			for _, e := range edges {
				ex := b.val(e, 0)
				okEdge := false
				switch ex.Op {
				case "lookup":
					r := valIdxOf(ex.Args[1])
					okEdge = ex.Args[0].V == outer && r != nil && r.V == src.V
				case "make":
					for _, ou := range outerUps {
						if an.Unwrap(ou.Value) == ex.V {
							r := valIdxOf(b.val(ou.Key, 0))
							okEdge = r != nil && r.V == src.V
						}
					}
				}
				if !okEdge {
					good, why = false, "public share is not grouped under the ValIdx of its own message key"
				}
			}
		}
		c.Check("makeShares pubShares[key.ValIdx][key.SourceID]←result.VkShare", posOf(up), good, why)
	}
	if n == 0 {
		c.Bail("makeShares: no insertion into a per-validator public-share map")
	}
}

// ---------------------------------------------------------------------------------------------
// K2

// c11OwnKeyMap: every insertion into the local map m is keyed by core.PubKeyFromBytes(sh.PubKey[:]) and
// stores proj(sh) of the same share sh ("" = the share itself, else the named field).
func c11OwnKeyMap(b *c11B, fn *ssa.Function, m ssa.Value, proj string) (bool, string) {
	ups := mapUpdates(fn, func(x ssa.Value) bool { return x == m })
	if len(ups) == 0 {
		return false, "map is never filled"
	}
	for _, up := range ups {
		call := c11Res0(b.val(up.Key, 0), "core.PubKeyFromBytes")
		if call == nil || len(call.Args) != 1 || call.Args[0].Op != "slice" {
			return false, "map key is not core.PubKeyFromBytes(share.PubKey[:])"
		}
		sh := c11FieldOf(call.Args[0].Args[0], c11ShareT+".PubKey")
		if sh == nil {
			return false, "map key is not derived from a share's PubKey"
		}
		vx := b.val(up.Value, 0)
		if proj != "" {
			vx = c11FieldOf(vx, c11ShareT+"."+proj)
		}
		if !c11Same(vx, sh) {
			return false, "value stored under a validator's public key does not belong to the share with that public key"
		}
	}
	return true, ""
}

func c11K2(c *rt.Ctx) {
	type spec struct {
		fn, agg string
		group   bool
	}
	for _, sp := range []spec{
		{"dkg.aggLockHashSig", "tbls.Aggregate", false},
		{"dkg.aggDepositData", "tbls.ThresholdAggregate", true},
		{"dkg.aggValidatorRegistrations", "tbls.ThresholdAggregate", true},
	} {
		fn := c.Fn(sp.fn)
		short := strings.TrimPrefix(sp.fn, "dkg.")
		b := c11NewB()
		if len(fn.Params) < 2 {
			c.Bail("%s: unexpected signature", sp.fn)
		}
		dataP, sharesP := b.val(fn.Params[0], 0), b.val(fn.Params[1], 0)
		agg := c.OneCall(fn, an.Static(sp.agg), sp.agg, false)
		ins, ok := c11Inserts(fn, agg.Common().Args[0])
		if !ok || len(ins) == 0 {
			c.Unsure(short+" input of "+sp.agg, agg.Pos(), "aggregate input is not a local map/slice filled element by element")
			continue
		}
		verifies := an.Calls(fn, an.Static("tbls.Verify"), false)
		var partialRoot *c11X
		partial := map[ssa.CallInstruction]bool{}
		for _, in := range ins {
			sx := b.val(in.Elem, 0)
			var g ssa.CallInstruction
			for _, v := range verifies {
				if a := v.Common().Args; len(a) == 3 && c11Same(b.val(a[2], 0), sx) && an.Dominates(v, in.In) {
					g = v
				}
			}
			cons := short + " partial→" + sp.agg
			if g == nil {
				c.Bad(cons+" verified", posOf(in.In), "a partial signature enters the aggregate without a dominating tbls.Verify of that signature")
				continue
			}
			partial[g] = true
			okG, why := an.Guarded(g, in.In, an.DefaultGuard)
			c.Check(cons+" verified", posOf(in.In), okG, "tbls.Verify of the partial signature is not a checked guard: "+why)
			partialRoot = b.val(g.Common().Args[1], 0)

			// binding: signature owner s, pubshare = PS[s.ShareIdx], PS = public shares of validator pk
			var owner *c11X
			if call := c11Res0(sx, "tbls/tblsconv.SignatureFromBytes"); call != nil && len(call.Args) == 1 {
				if sc := call.Args[0]; sc.Op == "call" && sc.Name == "iface:core.SignedData.Signature" && len(sc.Args) == 1 {
					owner = c11FieldOf(sc.Args[0], "core.ParSignedData.SignedData")
				}
			}
			var next ssa.Value
			if owner != nil && owner.Op == "elem" && owner.Args[0].Op == "rval" && c11Same(owner.Args[0].Args[0], dataP) {
				next = owner.Args[0].V
			}
			if next == nil {
				c.Unsure(cons+" binding", posOf(in.In), "cannot resolve the partial signature to an element of data[pk]")
				continue
			}
			px := b.val(g.Common().Args[0], 0)
			good, why2 := true, ""
			if px.Op != "lookup" || !c11Same(c11FieldOf(px.Args[1], c11ParSigIdx), owner) {
				good, why2 = false, "verification key is not <public shares>[s.ShareIdx] of the signature being verified"
			}
			if good {
				ps := px.Args[0]
				sameVal := func(k *c11X) bool { return k.Op == "rkey" && k.V == next }
				if sh := c11FieldOf(ps, c11ShareT+".PublicShares"); sh != nil {
					// shares[pk].PublicShares with shares the parameter map
					if !(sh.Op == "lookup" && c11Same(sh.Args[0], sharesP) && sameVal(sh.Args[1])) {
						good, why2 = false, "public shares are not those of the validator the signature was sent for"
					}
				} else if ps.Op == "lookup" && ps.Args[0].Op == "make" && sameVal(ps.Args[1]) {
					if ok, w := c11OwnKeyMap(b, fn, ps.Args[0].V, "PublicShares"); !ok {
						good, why2 = false, "public-share table: "+w
					}
				} else {
					good, why2 = false, "verification key does not come from the PublicShares of the validator the signature was sent for"
				}
			}
			c.Check(cons+" pubshare=PublicShares[s.ShareIdx] of same validator", posOf(in.In), good, why2)
			if in.Key != nil {
				c.Check(cons+" keyed by s.ShareIdx", posOf(in.In), c11Same(c11FieldOf(b.val(in.Key, 0), c11ParSigIdx), owner),
					"partial signature is put into the threshold-aggregate input under another index than its own share index")
			}
		}
		if !sp.group {
			// the public keys returned for VerifyAggregate are exactly the verified public shares
			for _, r := range an.Returns(fn) {
				if len(r.Results) != 3 {
					continue
				}
				if k, isC := r.Results[1].(*ssa.Const); isC && k.Value == nil {
					continue
				}
				pins, ok := c11Inserts(fn, r.Results[1])
				if !ok || len(pins) == 0 {
					c.Unsure(short+" returned public keys", posOf(r), "returned key list is not a local slice grown by append")
					continue
				}
				for _, pi := range pins {
					good := false
					for g := range partial {
						if g.Common().Args[0] == pi.Elem {
							if okG, _ := an.Guarded(g, pi.In, an.DefaultGuard); okG {
								good = true
							}
						}
					}
					c.Check(short+" returned public key = verified pubshare", posOf(pi.In), good,
						"a public key is returned for the multi-signature check that is not the one the partial signature was verified under")
				}
			}
			continue
		}
		// threshold aggregate verified under the group key before any other use
		var asig ssa.Value
		for _, ref := range *agg.Value().Referrers() {
			if ex, ok := ref.(*ssa.Extract); ok && ex.Index == 0 {
				asig = ex
			}
		}
		if asig == nil {
			c.Unsure(short+" aggregate signature", agg.Pos(), "result of "+sp.agg+" is not used")
			continue
		}
		ax := b.val(asig, 0)
		var gv ssa.CallInstruction
		for _, v := range verifies {
			if a := v.Common().Args; len(a) == 3 && !partial[v] && c11Same(b.val(a[2], 0), ax) {
				gv = v
			}
		}
		cons := short + " aggregate"
		if gv == nil {
			c.Bad(cons+" verified under group key", agg.Pos(), "the threshold-aggregated signature is never verified with tbls.Verify")
			continue
		}
		kx := c11Res0(b.val(gv.Common().Args[0], 0), "tbls/tblsconv.PubkeyFromCore")
		var next ssa.Value
		if l := an.InnermostLoop(fn, agg.Block()); l != nil {
			for _, in := range l.Header.Instrs {
				if nx, ok := in.(*ssa.Next); ok {
					next = nx
				}
			}
		}
		keyOK := kx != nil && len(kx.Args) == 1 && kx.Args[0].Op == "rkey" && kx.Args[0].V == next && c11Same(kx.Args[0].Args[0], dataP)
		c.Check(cons+" verified under group key", gv.Pos(), keyOK && c11Same(b.val(gv.Common().Args[1], 0), partialRoot),
			"aggregate is not verified under tblsconv.PubkeyFromCore(pk) of the validator being aggregated over the same signing root as the partial signatures")
		uses := 0
		good, why := true, ""
		var at token.Pos = gv.Pos()
		for _, u := range c11ValueUses(asig) {
			if u == ssa.Instruction(gv) {
				continue
			}
			uses++
			if okG, w := an.Guarded(gv, u, an.DefaultGuard); !okG {
				good, why, at = false, w, posOf(u)
			}
		}
		if uses == 0 {
			c.Unsure(cons+" used only after verification", gv.Pos(), "aggregate signature has no use besides its verification")
			continue
		}
		c.Check(cons+" used only after verification", at, good, "the aggregate signature is used on a path that did not pass its verification: "+why)
		resT := fn.Signature.Results().At(0).Type()
		n := 0
		for _, in := range an.Instrs(fn, false) {
			call, ok := in.(*ssa.Call)
			if !ok {
				continue
			}
			if bi, ok := call.Call.Value.(*ssa.Builtin); !ok || bi.Name() != "append" || !types.Identical(call.Type(), resT) {
				continue
			}
			n++
			okG, w := an.Guarded(gv, call, an.DefaultGuard)
			c.Check(cons+" result appended after verification", posOf(call), okG, "a result is appended without the checked group-key verification: "+w)
		}
		if n == 0 {
			c.Unsure(cons+" result appended after verification", fn.Pos(), "no append to the result slice found")
		}
	}

	// signAndAggLockHash: VerifyAggregate(pubshares, aggSig, lockHash) before SignatureAggregate is set
	fn := c.Fn("dkg.signAndAggLockHash")
	b := c11NewB()
	call := c.OneCall(fn, an.Static("dkg.aggLockHashSig"), "aggLockHashSig", false)
	va := c.OneCall(fn, an.Static("tbls.VerifyAggregate"), "tbls.VerifyAggregate", false)
	cx := b.val(call.Value(), 0)
	sigX := &c11X{Op: "extract", Name: "0", Args: []*c11X{cx}}
	pkX := &c11X{Op: "extract", Name: "1", Args: []*c11X{cx}}
	a := va.Common().Args
	bind := len(a) == 3 && c11Same(b.val(a[0], 0), pkX) && c11Same(b.val(a[1], 0), sigX) && c11Same(b.val(a[2], 0), b.val(call.Common().Args[2], 0))
	c.Check("signAndAggLockHash VerifyAggregate(aggLockHashSig results, lock hash)", va.Pos(), bind,
		"VerifyAggregate is not applied to the signature and public shares returned by aggLockHashSig over the hash that was aggregated")
	n := 0
	for _, in := range an.Instrs(fn, false) {
		st, ok := in.(*ssa.Store)
		if !ok {
			continue
		}
		fa, ok := st.Addr.(*ssa.FieldAddr)
		if !ok || an.FieldKey(fa.X.Type(), fa.Field) != "cluster.Lock.SignatureAggregate" {
			continue
		}
		n++
		okG, why := an.Guarded(va, st, an.DefaultGuard)
		if okG && !c11Contains(b.val(st.Val, 0), sigX) {
			okG, why = false, "stored value is not the verified aggregate"
		}
		c.Check("signAndAggLockHash SignatureAggregate set after VerifyAggregate", posOf(st), okG,
			"lock.SignatureAggregate is set without the checked tbls.VerifyAggregate: "+why)
	}
	if n == 0 {
		c.Unsure("signAndAggLockHash SignatureAggregate", fn.Pos(), "no assignment of lock.SignatureAggregate found")
	}
	// the share table handed to aggLockHashSig maps each validator key to its own share
	mv := an.Unwrap(call.Common().Args[1])
	if _, ok := mv.(*ssa.MakeMap); !ok {
		c.Unsure("signAndAggLockHash share table", call.Pos(), "share table passed to aggLockHashSig is not a local map")
	} else {
		ok, why := c11OwnKeyMap(b, fn, mv, "")
		c.Check("signAndAggLockHash share table keyed by own PubKey", call.Pos(), ok, why)
	}
}

// ---------------------------------------------------------------------------------------------
// K3

func c11OffsetOne(c *rt.Ctx, construct string, pos token.Pos, peer, share ssa.Value) {
	pb, po := c11Affine(peer)
	sb, so := c11Affine(share)
	if pb != sb {
		c.Unsure(construct, pos, "peer index and share index are not offsets of one variable")
		return
	}
	c.Check(construct, pos, so-po == 1, fmt.Sprintf("share index = peer index %+d (must be +1: share indices are 1-based everywhere else)", so-po))
}

func c11K3(c *rt.Ctx) {
	// 1. cluster.Definition.NodeIdx
	{
		fn := c.Fn("cluster.Definition.NodeIdx")
		byBase := map[ssa.Value]map[string]*ssa.Store{}
		var order []ssa.Value
		for _, in := range an.Instrs(fn, false) {
			st, ok := in.(*ssa.Store)
			if !ok {
				continue
			}
			fa, ok := st.Addr.(*ssa.FieldAddr)
			if !ok || an.TypeName(fa.X.Type()) != "cluster.NodeIdx" {
				continue
			}
			if byBase[fa.X] == nil {
				byBase[fa.X] = map[string]*ssa.Store{}
				order = append(order, fa.X)
			}
			byBase[fa.X][an.FieldKey(fa.X.Type(), fa.Field)] = st
		}
		n := 0
		for _, base := range order {
			p, s := byBase[base]["cluster.NodeIdx.PeerIdx"], byBase[base]["cluster.NodeIdx.ShareIdx"]
			if p == nil && s == nil {
				continue
			}
			n++
			if p == nil || s == nil {
				c.Unsure("cluster.Definition.NodeIdx ShareIdx=PeerIdx+1", base.Pos(), "only one of PeerIdx/ShareIdx is set")
				continue
			}
			c11OffsetOne(c, "cluster.Definition.NodeIdx ShareIdx=PeerIdx+1", posOf(s), p.Val, s.Val)
		}
		if n == 0 {
			c.Unsure("cluster.Definition.NodeIdx ShareIdx=PeerIdx+1", fn.Pos(), "no NodeIdx value with PeerIdx and ShareIdx built here")
		}
	}
	pubSharesElemIdx := func(x *c11X) ssa.Value { // x = PubkeyFromBytes(<DistValidator>.PubShares[i]) -> i
		call := c11Res0(x, "tbls/tblsconv.PubkeyFromBytes")
		if call == nil || len(call.Args) != 1 || call.Args[0].Op != "elem" {
			return nil
		}
		if e := call.Args[0]; e.Args[0].Op == "field" && e.Args[0].Name == "cluster.DistValidator.PubShares" {
			return e.Args[1].V
		}
		return nil
	}
	isMapOf := func(t types.Type, k, v string) bool {
		m, ok := t.Underlying().(*types.Map)
		return ok && an.TypeName(m.Key()) == k && an.TypeName(m.Elem()) == v
	}
	// 2. app.wireCoreWorkflow: allPubShares[i+1] = PubShares[i]
	{
		fn := c.Fn("app.wireCoreWorkflow")
		b := c11NewB()
		n := 0
		for _, up := range mapUpdates(fn, func(m ssa.Value) bool { return isMapOf(m.Type(), "int", "tbls.PublicKey") }) {
			if up.Parent() != fn {
				continue
			}
			n++
			idx := pubSharesElemIdx(b.val(up.Value, 0))
			if idx == nil {
				c.Unsure("app.wireCoreWorkflow pubshare map key=peer index+1", posOf(up), "stored public share is not tblsconv.PubkeyFromBytes(val.PubShares[i])")
				continue
			}
			c11OffsetOne(c, "app.wireCoreWorkflow pubshare map key=peer index+1", posOf(up), idx, up.Key)
		}
		if n == 0 {
			c.Unsure("app.wireCoreWorkflow pubshare map key=peer index+1", fn.Pos(), "no insertion into a map[int]tbls.PublicKey")
		}
	}
	// 3. cmd/combine.shareIdxByPubkeys: pubkMap[PubShares[peerIdx]] = peerIdx+1
	{
		fn := c.Fn("cmd/combine.shareIdxByPubkeys")
		b := c11NewB()
		n := 0
		for _, up := range mapUpdates(fn, func(m ssa.Value) bool { return isMapOf(m.Type(), "tbls.PublicKey", "int") }) {
			n++
			idx := pubSharesElemIdx(b.val(up.Key, 0))
			if idx == nil {
				c.Unsure("cmd/combine.shareIdxByPubkeys share index=peer index+1", posOf(up), "map key is not tblsconv.PubkeyFromBytes(PubShares[peerIdx])")
				continue
			}
			c11OffsetOne(c, "cmd/combine.shareIdxByPubkeys share index=peer index+1", posOf(up), idx, up.Value)
		}
		if n == 0 {
			c.Unsure("cmd/combine.shareIdxByPubkeys share index=peer index+1", fn.Pos(), "no insertion into a map[tbls.PublicKey]int")
		}
	}
	// 4. cmd.getTSSShares: secretSet[i-1] = shares[i], shares from tbls.ThresholdSplit
	{
		fn := c.Fn("cmd.getTSSShares")
		b := c11NewB()
		n := 0
		for _, in := range an.Instrs(fn, false) {
			st, ok := in.(*ssa.Store)
			if !ok {
				continue
			}
			ia, ok := st.Addr.(*ssa.IndexAddr)
			if !ok {
				continue
			}
			vx := b.val(st.Val, 0)
			if vx.Op != "lookup" || c11Res0(vx.Args[0], "tbls.ThresholdSplit") == nil {
				continue
			}
			n++
			c11OffsetOne(c, "cmd.getTSSShares slot=share index-1", posOf(st), ia.Index, vx.Args[1].V)
		}
		if n == 0 {
			c.Unsure("cmd.getTSSShares slot=share index-1", fn.Pos(), "no store of a tbls.ThresholdSplit share into an indexed slot")
		}
	}
}

// ---------------------------------------------------------------------------------------------
// K4

func c11K4(c *rt.Ctx) {
	type spec struct {
		fn        string
		ownTarget bool // target id must be this node's share index (else 0 = broadcast)
	}
	for _, sp := range []spec{{"dkg.newBcastCallback$1", false}, {"dkg.newP2PCallback$1", true}} {
		fn := c.Fn(sp.fn)
		b := c11NewB()
		var pid *c11X
		for _, p := range fn.Params {
			if an.TypeName(p.Type()) == "github.com/libp2p/go-libp2p/core/peer.ID" {
				if pid != nil {
					c.Bail("%s: two peer.ID parameters", sp.fn)
				}
				pid = b.val(p, 0)
			}
		}
		if pid == nil {
			c.Bail("%s: no peer.ID parameter", sp.fn)
		}
		var numVals *c11X
		for _, p := range fn.Parent().Params {
			if p.Name() == "numVals" {
				numVals = b.val(p, 0)
			}
		}
		if numVals == nil {
			c.Bail("%s: enclosing function has no numVals parameter", sp.fn)
		}
		isPeers := func(x *c11X) bool {
			if x.Op != "param" {
				return false
			}
			m, ok := x.V.Type().Underlying().(*types.Map)
			return ok && an.TypeName(m.Elem()) == "cluster.NodeIdx" && an.TypeName(m.Key()) == "github.com/libp2p/go-libp2p/core/peer.ID"
		}
		// share index of peers[k]
		shareIdxOfPeer := func(x *c11X) *c11X {
			n := c11FieldOf(x, "cluster.NodeIdx.ShareIdx")
			if n != nil && n.Op == "lookup" && isPeers(n.Args[0]) {
				return n.Args[1]
			}
			return nil
		}
		var sends []*ssa.Send
		for _, in := range an.Instrs(fn, false) {
			if s, ok := in.(*ssa.Send); ok {
				sends = append(sends, s)
			}
		}
		if len(sends) == 0 {
			c.Bail("%s: no channel send", sp.fn)
		}
		for _, send := range sends {
			cons := strings.TrimPrefix(sp.fn, "dkg.") + " send " + an.TypeName(send.X.Type())[strings.LastIndex(an.TypeName(send.X.Type()), ".")+1:]
			msgX := b.val(send.X, 0)
			// the loop over the message's elements
			var loop *an.Loop
			var collX *c11X
			for _, l := range an.Loops(fn) {
				coll := l.RangeColl()
				if coll == nil {
					continue
				}
				cx := b.val(coll, 0)
				if cx.Op == "call" && len(cx.Args) == 1 && c11Same(cx.Args[0], msgX) {
					if loop != nil {
						loop = nil
						break
					}
					loop, collX = l, cx
				}
			}
			if loop == nil {
				c.Unsure(cons+": element checks", posOf(send), "cannot find the single loop over the elements of the forwarded message")
				continue
			}
			keyGet := func(x *c11X, getter string) bool {
				if x.Op != "call" || !strings.HasSuffix(x.Name, "dkg/dkgpb/v1.FrostMsgKey."+getter) || len(x.Args) != 1 {
					return false
				}
				k := x.Args[0]
				if k.Op != "call" || !strings.HasSuffix(k.Name, ".GetKey") || len(k.Args) != 1 {
					return false
				}
				e := k.Args[0]
				return e.Op == "elem" && c11Same(e.Args[0], collX)
			}
			// forall: some branch in the loop on a comparison accepted by pred (returning the failing
			// successor index) is a forall-guard of the send
			forall := func(pred func(op token.Token, x, y *c11X) (int, bool)) (bool, string) {
				why := "no such comparison on every element of the message"
				for _, blk := range fn.Blocks {
					if !loop.Body[blk] || len(blk.Instrs) == 0 {
						continue
					}
					iff, ok := blk.Instrs[len(blk.Instrs)-1].(*ssa.If)
					if !ok {
						continue
					}
					bin, ok := iff.Cond.(*ssa.BinOp)
					if !ok {
						continue
					}
					x, y := b.val(bin.X, 0), b.val(bin.Y, 0)
					fail, ok := pred(bin.Op, x, y)
					if !ok {
						fail, ok = pred(c11Flip(bin.Op), y, x)
					}
					if !ok {
						continue
					}
					if g, w := an.ForallGuard(loop, iff, blk.Succs[fail], send); g {
						return true, ""
					} else {
						why = w
					}
				}
				return false, why
			}
			eqFail := func(op token.Token) (int, bool) {
				switch op {
				case token.NEQ:
					return 0, true
				case token.EQL:
					return 1, true
				}
				return 0, false
			}
			ok, why := forall(func(op token.Token, x, y *c11X) (int, bool) {
				if !keyGet(x, "GetSourceId") {
					return 0, false
				}
				if k := shareIdxOfPeer(y); k == nil || !c11Same(k, pid) {
					return 0, false
				}
				return eqFail(op)
			})
			c.Check(cons+": source id = sender's share index", posOf(send), ok, "message is forwarded although an element's source id was not compared with peers[sender].ShareIdx: "+why)
			ok, why = forall(func(op token.Token, x, y *c11X) (int, bool) {
				if !keyGet(x, "GetTargetId") {
					return 0, false
				}
				if sp.ownTarget {
					k := shareIdxOfPeer(y)
					if k == nil || k.Op != "call" || k.Name != "iface:github.com/libp2p/go-libp2p/core/host.Host.ID" {
						return 0, false
					}
				} else if y.Op != "const" || y.Name != "0" {
					return 0, false
				}
				return eqFail(op)
			})
			want := "0 (broadcast)"
			if sp.ownTarget {
				want = "this node's share index"
			}
			c.Check(cons+": target id", posOf(send), ok, "message is forwarded although an element's target id was not compared with "+want+": "+why)
			ok, why = forall(func(op token.Token, x, y *c11X) (int, bool) {
				if !keyGet(x, "GetValIdx") || !c11Same(y, numVals) {
					return 0, false
				}
				switch op {
				case token.GEQ:
					return 0, true
				case token.LSS:
					return 1, true
				}
				return 0, false
			})
			c.Check(cons+": validator index < numVals", posOf(send), ok, "message is forwarded although an element's validator index may be >= numVals: "+why)

			// per-peer dedup: seen test cuts the send off, and the mark dominates the send
			good, whyD := false, "no per-peer dedup map is consulted before the send"
			for _, in := range an.Instrs(fn, false) {
				lk, isLk := in.(*ssa.Lookup)
				if !isLk {
					continue
				}
				m, isMap := lk.X.Type().Underlying().(*types.Map)
				if !isMap || !types.Identical(m.Elem(), types.Typ[types.Bool]) || !c11Same(b.val(lk.Index, 0), pid) || !an.Dominates(lk, send) {
					continue
				}
				mx := b.val(lk.X, 0)
				if mx.Op != "make" {
					continue
				}
				var status []ssa.Value
				if lk.CommaOk {
					for _, ref := range *lk.Referrers() {
						if ex, ok := ref.(*ssa.Extract); ok {
							status = append(status, ex)
						}
					}
				} else {
					status = append(status, lk)
				}
				cut := false
				for _, sv := range status {
					for _, cd := range an.CondsOn(fn, sv) {
						if cd.Other == nil && an.Dominates(cd.If, send) && an.EdgeCuts(cd.Succ(true), send, nil) && !an.EdgeCuts(cd.Succ(false), send, nil) {
							cut = true
						}
					}
				}
				if !cut {
					whyD = "the branch on the dedup lookup does not keep an already-seen peer from reaching the send"
					continue
				}
				marked := false
				for _, up := range mapUpdates(fn, func(x ssa.Value) bool { return c11Same(b.val(x, 0), mx) }) {
					if k, isC := an.Unwrap(up.Value).(*ssa.Const); isC && k.Value != nil && k.Value.ExactString() == "true" &&
						c11Same(b.val(up.Key, 0), pid) && an.Dominates(up, send) && up.Parent() == fn {
						marked = true
					}
				}
				if !marked {
					whyD = "the peer is not marked as seen in the consulted dedup map before the send"
					continue
				}
				good = true
			}
			c.Check(cons+": per-peer dedup", posOf(send), good, whyD)
		}
	}
}

func c11Flip(op token.Token) token.Token {
	switch op {
	case token.LSS:
		return token.GTR
	case token.LEQ:
		return token.GEQ
	case token.GTR:
		return token.LSS
	case token.GEQ:
		return token.LEQ
	}
	return op
}
