package rules

import (
	"fmt"
	"go/token"
	"go/types"
	"strings"
	"sync"

	"golang.org/x/tools/go/ssa"

	"charonverif/internal/an"
	"charonverif/internal/rt"
)

func init() {
	Register(&Prop{
		ID: "C11",
		Decides: "package dkg, decided on the explored paths of each anchor function with in-package helpers, function literals and deferred calls stepped into: " +
			"(K1) makeShares builds every share.Share from one FROST participant (PubKey from VerificationKey, SecretShare from SkShare) and the " +
			"public-share map grouped by msgKey.ValIdx and keyed by msgKey.SourceID with the sender's VkShare; (K2) every partial signature put into an " +
			"aggregate (lock hash, deposit data, validator registration) was verified before with tbls.Verify under PublicShares[s.ShareIdx] of the same validator, " +
			"threshold aggregates are verified under the group key over the partials' root before they are used, and the lock-hash aggregate is checked with tbls.VerifyAggregate before it is set; " +
			"(K3) the four peer-index/share-index conversion sites (and the helpers they call) use offset exactly 1; (K4) FROST cast/share messages are forwarded to the protocol only on paths " +
			"that found, for every element, source id = sender's share index, the right target id, a validator index below the validator count and (round-1 casts) a number of Feldman commitments equal to the configured threshold, and that consulted and marked the per-peer dedup set.",
		NotDecided: "the algebraic relations of the statement (kryptology FROST: shares reconstruct the group key, partial signatures combine); what tbls.Verify means cryptographically.",
		Run:        c11,
		Mutants: []Mutant{
			// K1
			{ID: "C11-K1-key-by-target", File: "dkg/frost.go", Expect: "K1",
				Old: "m[int(key.SourceID)] = pubShare", New: "m[int(key.TargetID)] = pubShare"},
			{ID: "C11-K1-group-by-source", File: "dkg/frost.go", Expect: "K1",
				Old: "m, ok := pubShares[key.ValIdx]", New: "m, ok := pubShares[key.SourceID]"},
			{ID: "C11-K1-pubkey-from-vkshare", File: "dkg/frost.go", Expect: "K1",
				Old: "pointToPubKey(v.VerificationKey)", New: "pointToPubKey(v.VkShare)"},
			{ID: "C11-K1-pubshares-of-validator-0", File: "dkg/frost.go", Expect: "K1",
				Old: "PublicShares: pubShares[uint32(vIdx)],", New: "PublicShares: pubShares[0],"},
			{ID: "C11-K1-pubshare-from-verification-key", File: "dkg/frost.go", Expect: "K1",
				Old: "pointToPubKey(result.VkShare)", New: "pointToPubKey(result.VerificationKey)"},
			{ID: "C11-K1-secret-of-other-participant", File: "dkg/frost.go", Expect: "K1|SecretShare",
				Old: "scalarToSecretShare(v.SkShare)", New: "scalarToSecretShare(validators[0].SkShare)"},
			// K2
			{ID: "C11-K2-deposit-no-partial-verify", File: "dkg/dkg.go", Expect: "K2",
				Old: "err = tbls.Verify(pubshare, sigRoot[:], sig)\n\t\t\tif err != nil {\n\t\t\t\treturn nil, errors.New(\"invalid deposit data partial",
				New: "_ = pubshare\n\t\t\tif err != nil {\n\t\t\t\treturn nil, errors.New(\"invalid deposit data partial"},
			{ID: "C11-K2-lockhash-verify-group-key", File: "dkg/dkg.go", Expect: "K2",
				Old: "err = tbls.Verify(pubshare, hash, sig)", New: "err = tbls.Verify(sh.PubKey, hash, sig)"},
			{ID: "C11-K2-valreg-partial-check-weakened", File: "dkg/dkg.go", Expect: "K2",
				Old: "if err != nil {\n\t\t\t\treturn nil, errors.New(\"invalid validator registration partial",
				New: "if err != nil && len(psigs) > 0 {\n\t\t\t\treturn nil, errors.New(\"invalid validator registration partial"},
			{ID: "C11-K2-deposit-pubshares-of-first-validator", File: "dkg/dkg.go", Expect: "K2",
				Old: "pubkeyToPubShares[pk] = sh.PublicShares\n\t}\n\n\tvar resp []eth2p0.DepositData",
				New: "pubkeyToPubShares[pk] = shares[0].PublicShares\n\t}\n\n\tvar resp []eth2p0.DepositData"},
			{ID: "C11-K2-valreg-no-group-verify", File: "dkg/dkg.go", Expect: "K2",
				Old: "err = tbls.Verify(pubkey, sigRoot[:], asig)\n\t\tif err != nil {\n\t\t\treturn nil, errors.Wrap(err, \"invalid validator registration aggregated",
				New: "_ = pubkey\n\t\tif err != nil {\n\t\t\treturn nil, errors.Wrap(err, \"invalid validator registration aggregated"},
			{ID: "C11-K2-lock-verifyaggregate-logged", File: "dkg/dkg.go", Expect: "K2",
				Old: "\t\t\treturn cluster.Lock{}, errors.Wrap(err, \"verify multisignature\")",
				New: "\t\t\tlog.Warn(ctx, \"verify multisignature\", err)"},
			{ID: "C11-K2-lockhash-wrong-share-index", File: "dkg/dkg.go", Expect: "K2",
				Old: "pubshare, ok := sh.PublicShares[s.ShareIdx]", New: "pubshare, ok := sh.PublicShares[s.ShareIdx-1]"},
			{ID: "C11-K2-lock-map-keyed-by-index", File: "dkg/dkg.go", Expect: "K2",
				Old: "\t\t\tpubkeyToShares[pk] = sh", New: "\t\t\tpubkeyToShares[pk] = allShares[0]"},
			{ID: "C11-K2-lockhash-append-before-verify", File: "dkg/dkg.go", Expect: "K2|aggLockHashSig",
				Old: "\t\t\tsh, ok := shares[pk]\n", New: "\t\t\tsigs = append(sigs, sig)\n\t\t\tsh, ok := shares[pk]\n"},
			// K3
			{ID: "C11-K3-nodeidx-zero-based", File: "cluster/definition.go", Expect: "K3",
				Old: "ShareIdx: i + 1, // 1-indexed", New: "ShareIdx: i, // 1-indexed"},
			{ID: "C11-K3-wire-zero-based", File: "app/app.go", Expect: "K3",
				Old: "allPubShares[i+1] = pubshare", New: "allPubShares[i] = pubshare"},
			{ID: "C11-K3-combine-offset-two", File: "cmd/combine/combine.go", Expect: "K3",
				Old: "pubkMap[pubShare] = peerIdx + 1", New: "pubkMap[pubShare] = peerIdx + 2"},
			{ID: "C11-K3-tss-same-index", File: "cmd/createcluster.go", Expect: "K3",
				Old: "secretSet[i-1] = shares[i]", New: "secretSet[i-1] = shares[i-1]"},
			// K4
			{ID: "C11-K4-r2-no-source-check", File: "dkg/frostp2p.go", Expect: "K4",
				Old: "if int(cast.GetKey().GetSourceId()) != peerNode.ShareIdx {\n\t\t\t\t\treturn errors.New(\"invalid round 2 cast source ID\")\n\t\t\t\t} else if cast.GetKey().GetTargetId() != 0 {",
				New: "if peerNode.ShareIdx <= 0 {\n\t\t\t\t\treturn errors.New(\"invalid round 2 cast source ID\")\n\t\t\t\t} else if cast.GetKey().GetTargetId() != 0 {"},
			{ID: "C11-K4-r2-source-check-weakened", File: "dkg/frostp2p.go", Expect: "K4",
				Old: "!= peerNode.ShareIdx {\n\t\t\t\t\treturn errors.New(\"invalid round 2 cast source ID\")",
				New: "> peerNode.ShareIdx {\n\t\t\t\t\treturn errors.New(\"invalid round 2 cast source ID\")"},
			{ID: "C11-K4-r1-source-vs-peeridx", File: "dkg/frostp2p.go", Expect: "K4",
				Old: "!= peerNode.ShareIdx {\n\t\t\t\t\treturn errors.New(\"invalid round 1 cast source ID\")",
				New: "!= peerNode.PeerIdx {\n\t\t\t\t\treturn errors.New(\"invalid round 1 cast source ID\")"},
			{ID: "C11-K4-p2p-target-vs-peeridx", File: "dkg/frostp2p.go", Expect: "K4",
				Old: "int(share.GetKey().GetTargetId()) != targetPeer.ShareIdx", New: "int(share.GetKey().GetTargetId()) != targetPeer.PeerIdx"},
			{ID: "C11-K4-p2p-dedup-weakened", File: "dkg/frostp2p.go", Expect: "K4",
				Old: "if dedupRound1P2P[pID] {", New: "if dedupRound1P2P[pID] && len(msg.GetShares()) == 0 {"},
			{ID: "C11-K4-p2p-validx-off-by-one", File: "dkg/frostp2p.go", Expect: "K4",
				Old: "int(share.GetKey().GetValIdx()) >= numVals", New: "int(share.GetKey().GetValIdx()) > numVals"},
			{ID: "C11-K4-r2-target-logged", File: "dkg/frostp2p.go", Expect: "K4",
				Old: "return errors.New(\"invalid round 2 cast target ID\")", New: "log.Debug(ctx, \"invalid round 2 cast target ID\")"},
			{ID: "C11-K4-r1-send-before-checks", File: "dkg/frostp2p.go", Expect: "K4|FrostRound1Casts",
				Old: "\t\t\tfor _, cast := range msg.GetCasts() {\n\t\t\t\tif int(cast.GetKey().GetSourceId()) != peerNode.ShareIdx {\n\t\t\t\t\treturn errors.New(\"invalid round 1 cast source ID\")",
				New: "\t\t\tround1CastsRecv <- msg\n\n\t\t\tfor _, cast := range msg.GetCasts() {\n\t\t\t\tif int(cast.GetKey().GetSourceId()) != peerNode.ShareIdx {\n\t\t\t\t\treturn errors.New(\"invalid round 1 cast source ID\")"},
			{ID: "C11-K4-r1-dedup-never-marked", File: "dkg/frostp2p.go", Expect: "K4",
				Old: "dedupRound1Casts[pID] = true", New: "dedupRound2Casts[pID] = true"},
			// --- added with the path-based (refactor-robust) formulation
			// K1
			{ID: "C11-K1-store-inner-map-under-source", File: "dkg/frost.go", Expect: "K1|new map",
				Old: "\t\t\tpubShares[key.ValIdx] = m", New: "\t\t\tpubShares[key.SourceID] = m"},
			{ID: "C11-K1-pubshares-of-first-sorted-validator", File: "dkg/frost.go", Expect: "K1|PublicShares",
				Old: "PublicShares: pubShares[uint32(vIdx)],", New: "PublicShares: pubShares[uint32(vIdxs[0])],"},
			{ID: "C11-K1-inner-key-is-validx", File: "dkg/frost.go", Expect: "K1|SourceID",
				Old: "m[int(key.SourceID)] = pubShare", New: "m[int(key.ValIdx)] = pubShare"},
			// K2
			{ID: "C11-K2-deposit-insert-before-verify", File: "dkg/dkg.go", Expect: "K2|aggDepositData partial",
				Old: "\t\t\terr = tbls.Verify(pubshare, sigRoot[:], sig)\n\t\t\tif err != nil {\n\t\t\t\treturn nil, errors.New(\"invalid deposit data partial",
				New: "\t\t\tpsigs[s.ShareIdx] = sig\n\t\t\terr = tbls.Verify(pubshare, sigRoot[:], sig)\n\t\t\tif err != nil {\n\t\t\t\treturn nil, errors.New(\"invalid deposit data partial"},
			{ID: "C11-K2-deposit-only-first-partial-verified", File: "dkg/dkg.go", Expect: "K2|aggDepositData partial",
				Old: "\t\t\terr = tbls.Verify(pubshare, sigRoot[:], sig)\n\t\t\tif err != nil {\n\t\t\t\treturn nil, errors.New(\"invalid deposit data partial",
				New: "\t\t\tif len(psigs) == 0 {\n\t\t\t\terr = tbls.Verify(pubshare, sigRoot[:], sig)\n\t\t\t}\n\t\t\tif err != nil {\n\t\t\t\treturn nil, errors.New(\"invalid deposit data partial"},
			{ID: "C11-K2-valreg-group-verify-other-root", File: "dkg/dkg.go", Expect: "K2|aggValidatorRegistrations aggregate",
				Old: "err = tbls.Verify(pubkey, sigRoot[:], asig)\n\t\tif err != nil {\n\t\t\treturn nil, errors.Wrap(err, \"invalid validator registration aggregated",
				New: "err = tbls.Verify(pubkey, forkVersion, asig)\n\t\tif err != nil {\n\t\t\treturn nil, errors.Wrap(err, \"invalid validator registration aggregated"},
			{ID: "C11-K2-valreg-group-verdict-discarded", File: "dkg/dkg.go", Expect: "K2|aggValidatorRegistrations aggregate",
				Old: "err = tbls.Verify(pubkey, sigRoot[:], asig)\n\t\tif err != nil {\n\t\t\treturn nil, errors.Wrap(err, \"invalid validator registration aggregated",
				New: "_ = tbls.Verify(pubkey, sigRoot[:], asig)\n\t\tif err != nil {\n\t\t\treturn nil, errors.Wrap(err, \"invalid validator registration aggregated"},
			{ID: "C11-K2-lockhash-returns-group-keys", File: "dkg/dkg.go", Expect: "K2|returned public key",
				Old: "pubkeys = append(pubkeys, pubshare)", New: "pubkeys = append(pubkeys, sh.PubKey)"},
			{ID: "C11-K2-lock-verifyaggregate-other-hash", File: "dkg/dkg.go", Expect: "K2|signAndAggLockHash",
				Old: "err = tbls.VerifyAggregate(aggPkLockHash, aggSigLockHash, lock.LockHash)", New: "err = tbls.VerifyAggregate(aggPkLockHash, aggSigLockHash, def.DefinitionHash)"},
			// K3
			{ID: "C11-K3-tss-offset-two", File: "cmd/createcluster.go", Expect: "K3",
				Old: "secretSet[i-1] = shares[i]", New: "secretSet[i-1] = shares[i+1]"},
			{ID: "C11-K3-nodeidx-peeridx-one-based", File: "cluster/definition.go", Expect: "K3",
				Old: "PeerIdx:  i,     // 0-indexed", New: "PeerIdx:  i + 1, // 0-indexed"},
			{ID: "C11-K3-combine-zero-based", File: "cmd/combine/combine.go", Expect: "K3",
				Old: "pubkMap[pubShare] = peerIdx + 1", New: "pubkMap[pubShare] = peerIdx"},
			// K4
			{ID: "C11-K4-r2-validates-first-cast-only", File: "dkg/frostp2p.go", Expect: "K4|FrostRound2Casts",
				Old: "\t\t\t\t\treturn errors.New(\"invalid round 2 cast validator index\")\n\t\t\t\t}\n\t\t\t}",
				New: "\t\t\t\t\treturn errors.New(\"invalid round 2 cast validator index\")\n\t\t\t\t}\n\n\t\t\t\tbreak\n\t\t\t}"},
			{ID: "C11-K4-p2p-skips-first-share", File: "dkg/frostp2p.go", Expect: "K4|FrostRound1P2P",
				Old: "for _, share := range msg.GetShares() {", New: "for _, share := range msg.GetShares()[1:] {"},
			{ID: "C11-K4-p2p-send-before-dedup", File: "dkg/frostp2p.go", Expect: "K4|per-peer dedup",
				Old: "\t\tif dedupRound1P2P[pID] {", New: "\t\tround1P2PRecv <- msg\n\n\t\tif dedupRound1P2P[pID] {"},
			{ID: "C11-K4-r1-continue-around-key-checks", File: "dkg/frostp2p.go", Expect: "K4|FrostRound1Casts",
				Old: "\t\t\tfor _, cast := range msg.GetCasts() {\n\t\t\t\tif int(cast.GetKey().GetSourceId()) != peerNode.ShareIdx {\n\t\t\t\t\treturn errors.New(\"invalid round 1 cast source ID\")",
				New: "\t\t\tfor _, cast := range msg.GetCasts() {\n\t\t\t\tif len(cast.GetCommitments()) == threshold {\n\t\t\t\t\tcontinue\n\t\t\t\t}\n\n\t\t\t\tif int(cast.GetKey().GetSourceId()) != peerNode.ShareIdx {\n\t\t\t\t\treturn errors.New(\"invalid round 1 cast source ID\")"},
			{ID: "C11-K4-r2-validx-bounded-by-threshold", File: "dkg/frostp2p.go", Expect: "K4",
				Old: "int(cast.GetKey().GetValIdx()) >= numVals {\n\t\t\t\t\treturn errors.New(\"invalid round 2 cast validator index\")",
				New: "int(cast.GetKey().GetValIdx()) >= threshold {\n\t\t\t\t\treturn errors.New(\"invalid round 2 cast validator index\")"},
			{ID: "C11-K4-p2p-ctor-gets-threshold-as-validator-count", File: "dkg/frostp2p.go", Expect: "K4|validator-index bound",
				Old: "newP2PCallback(p2pNode, peers, round1P2PRecv, numVals),", New: "newP2PCallback(p2pNode, peers, round1P2PRecv, threshold),"},
			{ID: "C11-K4-p2p-validx-bounded-by-share-count", File: "dkg/frostp2p.go", Expect: "K4",
				Old: "int(share.GetKey().GetValIdx()) >= numVals", New: "int(share.GetKey().GetValIdx()) >= len(msg.GetShares())"},
			// K4 commitment count (degree of the dealt polynomial) — class of seeded C11-r2A
			{ID: "C11-K4-r1-commitments-at-most-threshold", File: "dkg/frostp2p.go", Expect: "K4|commitment count",
				Old: "if len(cast.GetCommitments()) != threshold {", New: "if len(cast.GetCommitments()) > threshold {"},
			{ID: "C11-K4-r1-commitments-vs-validator-count", File: "dkg/frostp2p.go", Expect: "K4|commitment-count bound",
				Old: "if len(cast.GetCommitments()) != threshold {", New: "if len(cast.GetCommitments()) != numVals {"},
			{ID: "C11-K4-r1-commitments-empty-accepted", File: "dkg/frostp2p.go", Expect: "K4|commitment count",
				Old: "if len(cast.GetCommitments()) != threshold {", New: "if n := len(cast.GetCommitments()); n != threshold && n > 0 {"},
			{ID: "C11-K4-r1-commitments-ctor-gets-validator-count", File: "dkg/frostp2p.go", Expect: "K4|commitment-count bound",
				Old: "newBcastCallback(peers, round1CastsRecv, round2CastsRecv, threshold, numVals)", New: "newBcastCallback(peers, round1CastsRecv, round2CastsRecv, numVals, numVals)"},
			{ID: "C11-K4-r1-commitments-threshold-plus-one", File: "dkg/dkg.go", Expect: "K4|commitment-count bound",
				Old: "newFrostP2P(p2pNode, peerMap, caster, def.Threshold, newValidators)", New: "newFrostP2P(p2pNode, peerMap, caster, def.Threshold+1, newValidators)"},
		},
	})
}

// ---------------------------------------------------------------------------------------------
// A small symbolic-expression view of SSA values (provenance terms). Conversions are transparent,
// address-taken locals with a single whole-value store are looked through, closure captures of
// never-reassigned variables resolve to the captured value.

type c11X struct {
	Op   string // param const field lookup lookupok elem rkey rval call extract assert slice binop unop make var global opaque
	Name string
	Args []*c11X
	V    ssa.Value  // the SSA value this node was built from (rkey/rval: the *ssa.Next)
	T    types.Type // static type of the value, where known (path terms only)
	s    string
}

func (x *c11X) String() string {
	if x == nil {
		return "<nil>"
	}
	if x.s != "" {
		return x.s
	}
	var sb strings.Builder
	sb.WriteString(x.Op)
	sb.WriteString("(")
	sb.WriteString(x.Name)
	switch x.Op {
	case "param", "rkey", "rval", "make", "var", "opaque":
		fmt.Fprintf(&sb, "#%p", x.V)
	}
	for _, a := range x.Args {
		sb.WriteString(";")
		sb.WriteString(a.String())
	}
	sb.WriteString(")")
	x.s = sb.String()
	return x.s
}

func c11Same(a, b *c11X) bool { return a != nil && b != nil && a.String() == b.String() }

// c11Contains: sub occurs in x.
func c11Contains(x, sub *c11X) bool {
	if x == nil || sub == nil {
		return false
	}
	if c11Same(x, sub) {
		return true
	}
	for _, a := range x.Args {
		if c11Contains(a, sub) {
			return true
		}
	}
	return false
}

type c11B struct {
	memo map[ssa.Value]*c11X
}

func c11NewB() *c11B { return &c11B{memo: map[ssa.Value]*c11X{}} }

// c11AddrOnlyRead: every use of the derived address a is a load, a slice, a debug ref or a further
// read-only field/element address.
func c11AddrOnlyRead(a ssa.Value, d int) bool {
	if d > 6 || a.Referrers() == nil {
		return false
	}
	for _, ref := range *a.Referrers() {
		switch r := ref.(type) {
		case *ssa.UnOp:
			if r.Op != token.MUL {
				return false
			}
		case *ssa.Slice, *ssa.DebugRef:
		case *ssa.FieldAddr:
			if !c11AddrOnlyRead(r, d+1) {
				return false
			}
		case *ssa.IndexAddr:
			if r.X != a || !c11AddrOnlyRead(r, d+1) {
				return false
			}
		default:
			return false
		}
	}
	return true
}

// c11SingleStore returns the value of the only (whole-variable) store into local al if al is
// otherwise only read; captured reports that closures reference it.
func c11SingleStore(al *ssa.Alloc) (val ssa.Value, captured bool, ok bool) {
	if al.Referrers() == nil {
		return nil, false, false
	}
	var st *ssa.Store
	for _, ref := range *al.Referrers() {
		switch r := ref.(type) {
		case *ssa.Store:
			if r.Addr != ssa.Value(al) || st != nil {
				return nil, false, false
			}
			st = r
		case *ssa.UnOp:
			if r.Op != token.MUL {
				return nil, false, false
			}
		case *ssa.Slice, *ssa.DebugRef:
		case *ssa.FieldAddr:
			if !c11AddrOnlyRead(r, 0) {
				return nil, false, false
			}
		case *ssa.IndexAddr:
			if r.X != ssa.Value(al) || !c11AddrOnlyRead(r, 0) {
				return nil, false, false
			}
		case *ssa.MakeClosure:
			captured = true
		default:
			return nil, false, false
		}
	}
	if st == nil {
		return nil, captured, false
	}
	return st.Val, captured, true
}

// c11FreeVarBinding resolves a free variable to the value bound by the enclosing function.
func c11FreeVarBinding(fv *ssa.FreeVar) ssa.Value {
	fn := fv.Parent()
	par := fn.Parent()
	if par == nil {
		return nil
	}
	idx := -1
	for i, f := range fn.FreeVars {
		if f == fv {
			idx = i
		}
	}
	if idx < 0 {
		return nil
	}
	var bind ssa.Value
	for _, in := range an.Instrs(par, false) {
		if mc, ok := in.(*ssa.MakeClosure); ok && mc.Fn == ssa.Value(fn) && idx < len(mc.Bindings) {
			if bind != nil && bind != mc.Bindings[idx] {
				return nil
			}
			bind = mc.Bindings[idx]
		}
	}
	return bind
}

// c11StoredViaFreeVar: some closure below root stores through a free variable bound to al.
func c11StoredViaFreeVar(root *ssa.Function, al ssa.Value) bool {
	for _, f := range an.Closure(root) {
		for _, in := range an.Instrs(f, false) {
			st, ok := in.(*ssa.Store)
			if !ok {
				continue
			}
			a := st.Addr
			for i := 0; i < 8; i++ {
				switch x := a.(type) {
				case *ssa.FieldAddr:
					a = x.X
					continue
				case *ssa.IndexAddr:
					a = x.X
					continue
				}
				break
			}
			for fv, ok := a.(*ssa.FreeVar); ok; fv, ok = a.(*ssa.FreeVar) {
				b := c11FreeVarBinding(fv)
				if b == nil {
					return true // cannot tell: be conservative
				}
				if b == al {
					return true
				}
				a = b
			}
		}
	}
	return false
}

func (b *c11B) mk(v ssa.Value, op, name string, args ...*c11X) *c11X {
	return &c11X{Op: op, Name: name, Args: args, V: v}
}

// addr: the value stored at address a.
func (b *c11B) addr(a ssa.Value, d int) *c11X {
	if d > 40 {
		return b.mk(a, "opaque", "")
	}
	switch x := a.(type) {
	case *ssa.Alloc:
		if v, captured, ok := c11SingleStore(x); ok && (!captured || !c11StoredViaFreeVar(x.Parent(), x)) {
			return b.val(v, d+1)
		}
		return b.mk(x, "var", "")
	case *ssa.FreeVar:
		bind := c11FreeVarBinding(x)
		if bind == nil {
			return b.mk(x, "var", x.Name())
		}
		return b.addr(bind, d+1)
	case *ssa.FieldAddr:
		return b.mk(a, "field", an.FieldKey(x.X.Type(), x.Field), b.ptr(x.X, d+1))
	case *ssa.IndexAddr:
		if _, isPtr := x.X.Type().Underlying().(*types.Pointer); isPtr {
			return b.mk(a, "elem", "", b.ptr(x.X, d+1), b.val(x.Index, d+1))
		}
		return b.mk(a, "elem", "", b.val(x.X, d+1), b.val(x.Index, d+1))
	case *ssa.Global:
		return b.mk(a, "global", an.Short(x.String()))
	}
	return b.mk(a, "deref", "", b.val(a, d+1))
}

// ptr: the value pointed to by pointer-typed p (address computation or pointer value).
func (b *c11B) ptr(p ssa.Value, d int) *c11X {
	switch p.(type) {
	case *ssa.Alloc, *ssa.FieldAddr, *ssa.IndexAddr, *ssa.FreeVar, *ssa.Global:
		return b.addr(p, d)
	}
	return b.val(p, d) // dereference of a pointer value is transparent
}

func (b *c11B) val(v ssa.Value, d int) *c11X {
	if x, ok := b.memo[v]; ok {
		return x
	}
	x := b.val0(v, d)
	b.memo[v] = x
	return x
}

func (b *c11B) val0(v0 ssa.Value, d int) *c11X {
	v := an.Unwrap(v0)
	if d > 40 {
		return b.mk(v, "opaque", "")
	}
	switch x := v.(type) {
	case *ssa.Parameter:
		// a parameter of an unexported helper with a single static call site is the argument passed there
		if arg := c11UniqueArg(x); arg != nil {
			return b.val(arg, d+1)
		}
		return b.mk(x, "param", x.Name())
	case *ssa.Const:
		if x.Value == nil {
			return b.mk(x, "const", "nil")
		}
		return b.mk(x, "const", x.Value.ExactString())
	case *ssa.Field:
		return b.mk(x, "field", an.FieldKey(x.X.Type(), x.Field), b.val(x.X, d+1))
	case *ssa.UnOp:
		if x.Op == token.MUL {
			return b.addr(x.X, d+1) // a load of a reassigned variable keeps the variable's identity ("var")
		}
		if x.Op == token.ARROW {
			return b.mk(x, "opaque", "")
		}
		return b.mk(x, "unop", x.Op.String(), b.val(x.X, d+1))
	case *ssa.Extract:
		switch t := x.Tuple.(type) {
		case *ssa.Next:
			r, ok := t.Iter.(*ssa.Range)
			if !ok {
				return b.mk(x, "opaque", "")
			}
			switch x.Index {
			case 1:
				return b.mk(t, "rkey", "", b.val(r.X, d+1))
			case 2:
				return b.mk(t, "rval", "", b.val(r.X, d+1))
			}
			return b.mk(x, "opaque", "")
		case *ssa.Lookup:
			op := "lookup"
			if x.Index == 1 {
				op = "lookupok"
			}
			return b.mk(x, op, "", b.val(t.X, d+1), b.val(t.Index, d+1))
		case *ssa.TypeAssert:
			op := "assert"
			if x.Index == 1 {
				op = "assertok"
			}
			return b.mk(x, op, an.TypeName(t.AssertedType), b.val(t.X, d+1))
		case *ssa.Call:
			return b.mk(x, "extract", fmt.Sprint(x.Index), b.val(t, d+1))
		}
		return b.mk(x, "opaque", "")
	case *ssa.Lookup:
		return b.mk(x, "lookup", "", b.val(x.X, d+1), b.val(x.Index, d+1))
	case *ssa.TypeAssert:
		return b.mk(x, "assert", an.TypeName(x.AssertedType), b.val(x.X, d+1))
	case *ssa.Call:
		name := an.CalleeName(&x.Call)
		if name == "" {
			return b.mk(x, "opaque", "")
		}
		var args []*c11X
		if x.Call.IsInvoke() {
			args = append(args, b.val(x.Call.Value, d+1))
		}
		for _, a := range x.Call.Args {
			args = append(args, b.val(a, d+1))
		}
		return b.mk(x, "call", name, args...)
	case *ssa.Index:
		return b.mk(x, "elem", "", b.val(x.X, d+1), b.val(x.Index, d+1))
	case *ssa.Slice:
		if x.Low != nil || x.High != nil || x.Max != nil {
			return b.mk(x, "opaque", "")
		}
		if _, isPtr := x.X.Type().Underlying().(*types.Pointer); isPtr {
			return b.mk(x, "slice", "", b.ptr(x.X, d+1))
		}
		return b.mk(x, "slice", "", b.val(x.X, d+1))
	case *ssa.MakeMap, *ssa.MakeSlice, *ssa.MakeChan:
		return b.mk(x, "make", "")
	case *ssa.BinOp:
		return b.mk(x, "binop", x.Op.String(), b.val(x.X, d+1), b.val(x.Y, d+1))
	case *ssa.FieldAddr, *ssa.IndexAddr:
		return b.mk(x, "ptrto", "", b.addr(x, d+1))
	}
	return b.mk(v, "opaque", "")
}

// c11Res0 matches "first result of a call to callee" (tuple extract #0 or a single result) and
// returns the call node.
func c11Res0(x *c11X, callee string) *c11X {
	if x == nil {
		return nil
	}
	if x.Op == "extract" && x.Name == "0" && len(x.Args) == 1 {
		x = x.Args[0]
	}
	if x.Op == "call" && x.Name == callee {
		return x
	}
	return nil
}

func c11FieldOf(x *c11X, key string) *c11X {
	if x != nil && x.Op == "field" && x.Name == key && len(x.Args) == 1 {
		return x.Args[0]
	}
	return nil
}

// c11CallSites lists the static call sites of the top-level function fn inside its package; closed reports that fn
// is unexported and every mention of it in the package is such a call (its address is never taken).
var c11SitesMemo = map[*ssa.Function]struct {
	sites  []ssa.CallInstruction
	closed bool
}{}

var c11SitesMu sync.Mutex

func c11CallSites(fn *ssa.Function) ([]ssa.CallInstruction, bool) {
	c11SitesMu.Lock()
	defer c11SitesMu.Unlock()
	if m, ok := c11SitesMemo[fn]; ok {
		return m.sites, m.closed
	}
	var sites []ssa.CallInstruction
	closed := fn != nil && fn.Parent() == nil && fn.Pkg != nil && fn.Object() != nil && !fn.Object().Exported()
	if fn != nil && fn.Pkg != nil {
		for _, g := range an.PkgFuncs(fn.Pkg) {
			for _, in := range an.Instrs(g, false) {
				for _, op := range an.Operands(in) {
					if f, ok := op.(*ssa.Function); !ok || f != fn {
						continue
					}
					if ci, ok := in.(ssa.CallInstruction); ok && ci.Common().Value == op && !ci.Common().IsInvoke() {
						if _, isGo := in.(*ssa.Go); !isGo {
							sites = append(sites, ci)
							continue
						}
					}
					closed = false
				}
			}
		}
	}
	c11SitesMemo[fn] = struct {
		sites  []ssa.CallInstruction
		closed bool
	}{sites, closed}
	return sites, closed
}

// c11UniqueArg returns the argument bound to parameter p when p's function is an unexported helper with exactly
// one static call site (and is used in no other way); nil otherwise.
func c11UniqueArg(p *ssa.Parameter) ssa.Value {
	fn := p.Parent()
	sites, closed := c11CallSites(fn)
	if !closed || len(sites) != 1 {
		return nil
	}
	for i, q := range fn.Params {
		if q == p && i < len(sites[0].Common().Args) {
			return sites[0].Common().Args[i]
		}
	}
	return nil
}

// c11Affine decomposes v into base + off over integer +/- constants. Conversions and single-assignment locals are
// transparent; a call of an in-package function whose only return is affine in one of its parameters
// (`func shareIdx(peerIdx int) int { return peerIdx + 1 }`) is looked through; a parameter of a helper with a single
// call site is replaced by the argument.
func c11Affine(v ssa.Value) (ssa.Value, int64) {
	var off int64
	for i := 0; i < 24; i++ {
		v = an.Resolve(v)
		switch x := v.(type) {
		case *ssa.UnOp:
			// a field of a local struct value that is assigned exactly once: `idx.ShareIdx = idx.PeerIdx + 1`
			if src := c11FieldLoadSource(x); src != nil {
				v = src
				continue
			}
		case *ssa.BinOp:
			if n, isC := an.ConstInt(x.Y); isC && (x.Op == token.ADD || x.Op == token.SUB) {
				if x.Op == token.ADD {
					off += n
				} else {
					off -= n
				}
				v = x.X
				continue
			}
			if n, isC := an.ConstInt(x.X); isC && x.Op == token.ADD {
				off += n
				v = x.Y
				continue
			}
		case *ssa.Call:
			callee := x.Call.StaticCallee()
			if x.Call.IsInvoke() || callee == nil || len(callee.Blocks) == 0 || callee.Signature.Results().Len() != 1 {
				return v, off
			}
			rets := an.Returns(callee)
			if len(rets) != 1 {
				return v, off
			}
			rb, ro := c11AffineLocal(returnValues(rets[0])[0])
			p, isP := rb.(*ssa.Parameter)
			if !isP || p.Parent() != callee {
				return v, off
			}
			found := false
			for k, q := range callee.Params {
				if q == p && k < len(x.Call.Args) {
					v, found = x.Call.Args[k], true
				}
			}
			if !found {
				return v, off
			}
			off += ro
			continue
		case *ssa.Parameter:
			if arg := c11UniqueArg(x); arg != nil {
				v = arg
				continue
			}
		}
		return v, off
	}
	return v, off
}

// c11FieldLoadSource: ld loads field f of a local struct variable whose field f is stored exactly once in the
// function (directly, or in the single composite literal the variable was initialised from): the stored value.
func c11FieldLoadSource(ld *ssa.UnOp) ssa.Value {
	if ld.Op != token.MUL {
		return nil
	}
	fa, ok := ld.X.(*ssa.FieldAddr)
	if !ok {
		return nil
	}
	al, ok := fa.X.(*ssa.Alloc)
	if !ok {
		return nil
	}
	return c11FieldSource(al, fa.Field, 0)
}

// c11WholeSource: the local struct variable al is initialised by exactly one whole-value store of the content of
// another local variable (a composite literal): that variable; nil if al is never or differently stored as a whole.
func c11WholeSource(al *ssa.Alloc) (src *ssa.Alloc, stores int) {
	if al.Referrers() == nil {
		return nil, 0
	}
	for _, ref := range *al.Referrers() {
		st, ok := ref.(*ssa.Store)
		if !ok || st.Addr != ssa.Value(al) {
			continue
		}
		stores++
		if ld, isLd := st.Val.(*ssa.UnOp); isLd && ld.Op == token.MUL {
			if o, isAl := ld.X.(*ssa.Alloc); isAl {
				src = o
				continue
			}
		}
		src = nil
	}
	if stores != 1 {
		return nil, stores
	}
	return src, stores
}

func c11FieldSource(al *ssa.Alloc, field int, d int) ssa.Value {
	if al.Referrers() == nil || d > 3 {
		return nil
	}
	var src ssa.Value
	n := 0
	for _, ref := range *al.Referrers() {
		if r, ok := ref.(*ssa.FieldAddr); ok && r.Field == field && r.Referrers() != nil {
			for _, rr := range *r.Referrers() {
				if st, isSt := rr.(*ssa.Store); isSt && st.Addr == ssa.Value(r) {
					n++
					src = st.Val
				}
			}
		}
	}
	whole, stores := c11WholeSource(al)
	switch {
	case n == 1 && stores == 0:
		return src
	case n == 0 && stores == 1 && whole != nil:
		return c11FieldSource(whole, field, d+1)
	}
	return nil
}

// c11AffineLocal is c11Affine without leaving the function (no parameter substitution).
func c11AffineLocal(v ssa.Value) (ssa.Value, int64) {
	var off int64
	for i := 0; i < 16; i++ {
		v = an.Resolve(v)
		bin, ok := v.(*ssa.BinOp)
		if !ok {
			break
		}
		if n, isC := an.ConstInt(bin.Y); isC && (bin.Op == token.ADD || bin.Op == token.SUB) {
			if bin.Op == token.ADD {
				off += n
			} else {
				off -= n
			}
			v = bin.X
			continue
		}
		if n, isC := an.ConstInt(bin.X); isC && bin.Op == token.ADD {
			off += n
			v = bin.Y
			continue
		}
		break
	}
	return v, off
}

const (
	c11ShareT    = "dkg/share.Share"
	c11ParSigIdx = "core.ParSignedData.ShareIdx"
	c11FrostPart = "github.com/coinbase/kryptology/pkg/dkg/frost.DkgParticipant"
	c11FrostR2   = "github.com/coinbase/kryptology/pkg/dkg/frost.Round2Bcast"
)

func c11(c *rt.Ctx) {
	c.Rule("K1", 5, func() { c11K1(c) })
	c.Rule("K2", 18, func() { c11K2(c) })
	c.Rule("K3", 4, func() { c11K3(c) })
	c.Rule("K4", 15, func() { c11K4(c) })
}
