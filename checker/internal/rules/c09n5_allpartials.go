package rules

// C09-G3 (round 5): every partial of the entry enters the interpolation.
//
// "The partials contain an invalid share / disagree on the content → nothing is published" rests on the aggregate of
// ALL supplied partials failing verification: Lagrange interpolation over a subset that happens to be valid yields the
// valid group signature, so a partial that is left out is never looked at. Necessary condition, decided on every path
// that reaches tbls.ThresholdAggregate(m): the loop that fills m from the partials of the entry is left only because
// the partials are exhausted (or by a return), and every iteration it starts inserts that iteration's partial.
//
// The loop is recognised by its mechanism, not its shape: the insertions into m (on any path) take element `entry[X]`;
// the tests `X ⋚ len(entry)` on a path (range loops, index loops, a hoisted length) are the exhaustion tests of that
// loop. The verdict is computed after the walk, because a path that skips every partial it meets has no insertion to
// recognise the loop by.

import (
	"go/token"

	"golang.org/x/tools/go/ssa"

	"charonverif/internal/an"
)

type c09FillTest struct {
	cond ssa.Value // the comparison
	idx  an.H09SV  // the index instance compared with len(entry)
	more bool      // the path continues with "another partial follows"
}

type c09FillPath struct {
	ta    ssa.Instruction
	tests []c09FillTest
	added map[an.H09SV]bool // index instances of the partials whose checked signature was inserted
}

type c09FillRec struct {
	idxVals map[ssa.Value]bool // SSA values that index the partials inserted (the induction values of the filling loop)
	paths   []c09FillPath
}

func newC09FillRec() *c09FillRec { return &c09FillRec{idxVals: map[ssa.Value]bool{}} }

// record is called at a tbls.ThresholdAggregate(m) event with the index instances inserted into m on the path.
func (r *c09FillRec) record(st *an.H09State, ta *an.H09Event, added map[an.H09SV]bool, idxVals map[ssa.Value]bool,
	isThr func(*an.H09State, an.H09SV) bool, isEntry func(*an.H09State, an.H09SV) bool) {
	for v := range idxVals {
		r.idxVals[v] = true
	}
	isLen := func(sv an.H09SV) bool {
		cv, ok := sv.V.(*ssa.Call)
		if !ok {
			return false
		}
		b, ok := cv.Call.Value.(*ssa.Builtin)
		ops := st.Ops(sv)
		return ok && b.Name() == "len" && len(ops) == 1 && isEntry(st, ops[0])
	}
	p := c09FillPath{ta: ta.In, added: added}
	for i := range st.Trace {
		e := &st.Trace[i]
		if e.Kind != "assume" || e.NilTest {
			continue
		}
		bin, ok := e.Atom.V.(*ssa.BinOp)
		ops := st.Ops(e.Atom)
		if !ok || len(ops) != 2 {
			continue
		}
		var idx an.H09SV
		op := bin.Op
		switch {
		case isLen(ops[1]):
			idx = ops[0]
		case isLen(ops[0]):
			idx = ops[1]
			switch op { // len ⋚ idx  ≡  idx (mirrored) len
			case token.LSS:
				op = token.GTR
			case token.GTR:
				op = token.LSS
			case token.LEQ:
				op = token.GEQ
			case token.GEQ:
				op = token.LEQ
			}
		default:
			continue
		}
		if isThr(st, idx) {
			continue
		}
		var more bool
		switch op {
		case token.LSS, token.NEQ: // idx < len, idx != len: another partial follows
			more = e.Truth
		case token.GEQ, token.EQL: // idx >= len, idx == len: exhausted
			more = !e.Truth
		default:
			continue
		}
		p.tests = append(p.tests, c09FillTest{e.Atom.V, idx, more})
	}
	r.paths = append(r.paths, p)
}

func (r *c09FillRec) flush(acc *c09Acc, construct string) {
	for _, p := range r.paths {
		// the tests of the filling loop; the trace also holds the activations for the entries aggregated before this
		// one: the loop that filled this map is the last one executed before the aggregation
		var ts []c09FillTest
		for _, t := range p.tests {
			if r.idxVals[t.idx.V] {
				ts = append(ts, t)
			}
		}
		if len(ts) == 0 {
			if len(p.added) > 0 {
				acc.unsure(construct, p.ta, "cannot find the test that ends the loop which adds the partials to the share map: whether every partial is added is not decided")
			}
			continue
		}
		act := ts[len(ts)-1].idx.F
		byCond := map[ssa.Value][]c09FillTest{}
		var order []ssa.Value
		for _, t := range ts {
			if t.idx.F != act {
				continue
			}
			if _, seen := byCond[t.cond]; !seen {
				order = append(order, t.cond)
			}
			byCond[t.cond] = append(byCond[t.cond], t)
		}
		for _, cv := range order {
			cts := byCond[cv]
			okAll := true
			for _, t := range cts {
				if t.more && !p.added[t.idx] {
					okAll = false
					acc.bad(construct, p.ta, "tbls.ThresholdAggregate is reached on a path on which a partial of the entry was not added to the share map (skipped, or the loop was left before it): a surplus invalid or disagreeing partial is never looked at and the call still publishes")
				}
			}
			if cts[len(cts)-1].more {
				okAll = false
				acc.bad(construct, p.ta, "the loop that adds the partials to the share map is left before the partials are exhausted: the remaining partials (possibly invalid or over other content) are ignored and the call still publishes")
			}
			if okAll {
				acc.good(construct, p.ta, "")
			}
		}
	}
}
