package rules

// M10 — the SSZ encode side of every decode-nullable version payload allocates / validates before it dereferences.
//
// "in no case does receiving, verifying, storing or re-encoding it crash the process": a versioned wrapper decoded
// from a peer's JSON may hold a nil version payload (M3: UnmarshalJSON stores a JSON null unchecked). The first thing
// the store path does with a decided unsigned value is Clone() = SSZ encode + decode (M5), from the consensus decide
// callback that re-panics (M4 facts); UnsignedDataSetToProto and ParSignedData re-encoding do the same. The SSZ
// encoder of the wrapper hands the payload pointer, boxed into an interface, to the generated MarshalSSZTo/SizeSSZ of
// the library type, which dereferences its receiver. Necessary condition: on every path of every method of the
// wrapper that belongs to the fastssz Marshaler method set, a payload pointer that UnmarshalJSON can leave nil is
// known non-nil (nil-tested on that path, or replaced by a fresh allocation) where it is dereferenced or where a
// method is invoked on it (directly or through an interface it was boxed into).
//
// Decided with the path explorer from each encode method, stepping into every in-package callee, bound method value
// and closure (so the accessor may be inlined, extracted, split into allocate + select, or wrapped in a literal).
// VIOLATION needs positive evidence: the receiver of the dereference resolves to the payload field of the method's
// own receiver, that field is decode-nullable, and the path has not established it non-nil. A method in which no
// payload-typed dereference can be resolved at all ends UNDECIDED (the encoding is dispatched in a way the explorer
// cannot follow), never VIOLATION.

import (
	"fmt"
	"go/token"
	"go/types"
	"sort"
	"strings"

	"golang.org/x/tools/go/ssa"

	"charonverif/internal/an"
	"charonverif/internal/rt"
)

func init() {
	Extend("C14", "(M10) in every method of a versioned wrapper that belongs to the fastssz Marshaler method set (MarshalSSZTo, SizeSSZ, ...), a version payload that UnmarshalJSON can leave nil is known non-nil (nil-tested or freshly allocated on that path) wherever it is dereferenced or a method is invoked on it, directly or through the interface it is boxed into, following in-package helpers, bound method values and closures.",
		func(c *rt.Ctx) { c.Rule("M10", 8, func() { c14M10(c) }) },
		Mutant{ID: "C14-M10-aggproof-electra-allocation-deleted", File: "core/ssz.go", Expect: "M10|core.VersionedSignedAggregateAndProof.MarshalSSZTo",
			Old: "\t\tif ap.Electra == nil {\n\t\t\tap.Electra = new(electra.SignedAggregateAndProof)\n\t\t}\n\n",
			New: ""},
		Mutant{ID: "C14-M10-signedproposal-phase0-test-inverted", File: "core/ssz.go", Expect: "M10|core.VersionedSignedProposal.SizeSSZ",
			Old: "\t\tif p.Phase0 == nil {\n\t\t\tp.Phase0 = new(eth2p0.SignedBeaconBlock)",
			New: "\t\tif p.Phase0 != nil {\n\t\t\tp.Phase0 = new(eth2p0.SignedBeaconBlock)"},
		Mutant{ID: "C14-M10-aggatt-altair-allocation-not-stored", File: "core/ssz.go", Expect: "M10|core.VersionedAggregatedAttestation.MarshalSSZTo",
			Old: "func (a *VersionedAggregatedAttestation) sszValFromVersion(version eth2util.DataVersion) (sszType, error) {\n\tswitch version {\n\tcase eth2util.DataVersionPhase0:\n\t\tif a.Phase0 == nil {\n\t\t\ta.Phase0 = new(eth2p0.Attestation)\n\t\t}\n\n\t\treturn a.Phase0, nil\n\tcase eth2util.DataVersionAltair:\n\t\tif a.Altair == nil {\n\t\t\ta.Altair = new(eth2p0.Attestation)",
			New: "func (a *VersionedAggregatedAttestation) sszValFromVersion(version eth2util.DataVersion) (sszType, error) {\n\tswitch version {\n\tcase eth2util.DataVersionPhase0:\n\t\tif a.Phase0 == nil {\n\t\t\ta.Phase0 = new(eth2p0.Attestation)\n\t\t}\n\n\t\treturn a.Phase0, nil\n\tcase eth2util.DataVersionAltair:\n\t\tif a.Altair == nil {\n\t\t\t_ = new(eth2p0.Attestation)"},
		Mutant{ID: "C14-M10-proposal-size-fast-path-reads-field", File: "core/ssz.go", Expect: "M10|core.VersionedProposal.SizeSSZ",
			Old: "func (p VersionedProposal) SizeSSZ() int {\n\tversion, err := eth2util.DataVersionFromETH2(p.Version)\n\tif err != nil {\n\t\t// SSZMarshaller interface doesn't return an error, so we can't either.\n\t\treturn 0\n\t}\n",
			New: "func (p VersionedProposal) SizeSSZ() int {\n\tversion, err := eth2util.DataVersionFromETH2(p.Version)\n\tif err != nil {\n\t\t// SSZMarshaller interface doesn't return an error, so we can't either.\n\t\treturn 0\n\t}\n\n\tif version == eth2util.DataVersionPhase0 {\n\t\treturn versionedBlindedOffset + p.Phase0.SizeSSZ()\n\t}\n"},
	)
}

// c14m10EncodeMethods: the method names of the fastssz Marshaler interface as imported by package core.
func c14m10EncodeMethods(c *rt.Ctx) []string {
	for _, imp := range c.Pkg("core").Types.Imports() {
		if !strings.HasSuffix(imp.Path(), "fastssz") {
			continue
		}
		obj := imp.Scope().Lookup("Marshaler")
		if obj == nil {
			continue
		}
		it, ok := obj.Type().Underlying().(*types.Interface)
		if !ok {
			continue
		}
		var out []string
		for i := 0; i < it.NumMethods(); i++ {
			out = append(out, it.Method(i).Name())
		}
		sort.Strings(out)
		return out
	}
	return nil
}

type c14m10Res struct {
	complete bool
	seen     int                  // dereferences / invocations whose receiver is payload-typed and could be resolved
	bad      map[string]token.Pos // nullable field -> position of an unguarded dereference
	badKnown map[string]bool      // ... on a path on which the field is known nil
	unsure   map[string]token.Pos // field whose decode-nullability is unknown -> position
	uncorr   map[string]token.Pos // field dereferenced unguarded on a path that prepared the payload of another version
}

// c14m10Explore walks encode method fn of wrapper w.
func c14m10Explore(fn *ssa.Function, w c14Wrap, nullable, unknown map[string]bool) c14m10Res {
	res := c14m10Res{bad: map[string]token.Pos{}, badKnown: map[string]bool{}, unsure: map[string]token.Pos{}, uncorr: map[string]token.Pos{}}
	if len(fn.Params) == 0 {
		return res
	}
	recvP := fn.Params[0]
	var recv symCV
	spills := map[ssa.Value]bool{}
	for _, in := range an.Instrs(fn, false) {
		if al, ok := in.(*ssa.Alloc); ok && an.UniqueStore(al) == ssa.Value(recvP) {
			spills[al] = true
		}
	}
	payloadType := func(t types.Type) bool {
		ls, ok := w.L.Underlying().(*types.Struct)
		if !ok {
			return false
		}
		for i := 0; i < ls.NumFields(); i++ {
			if _, isP := w.Payload[ls.Field(i).Name()]; isP && types.Identical(ls.Field(i).Type(), t) {
				return true
			}
		}
		return false
	}
	check := func(x *symX, pc symCV, in ssa.Instruction) {
		field, ok := w.payloadOfCV(pc, recv, spills)
		if !ok {
			// a fresh allocation (or any other resolved pointer) of a payload type: the encoding was seen
			if pc.v != nil && pc.p == "" && payloadType(pc.v.Type()) {
				if _, isAlloc := pc.v.(*ssa.Alloc); isAlloc {
					res.seen++
				}
			}
			return
		}
		res.seen++
		nv := x.NilCV(pc)
		if nv == 1 {
			return
		}
		if nv == 0 {
			// The path nil-tested or (re)allocated the payload of another version and not this one: either the
			// wrong field is prepared (M6 reports a positive mismatch) or the two selections are correlated by
			// something the explorer does not model (two representations of the version) and the path is
			// infeasible. Not positive evidence.
			for g, ver := range w.Payload {
				if ver != w.Payload[field] && x.Flag("m10:"+g) {
					if _, has := res.uncorr[field]; !has && (nullable[field] || unknown[field]) {
						res.uncorr[field] = posOf(in)
					}
					return
				}
			}
		}
		switch {
		case nullable[field]:
			if _, has := res.bad[field]; !has || (nv == -1 && !res.badKnown[field]) {
				res.bad[field] = posOf(in)
			}
			if nv == -1 {
				res.badKnown[field] = true
			}
		case unknown[field]:
			if _, has := res.unsure[field]; !has {
				res.unsure[field] = posOf(in)
			}
		}
	}
	res.complete = symExplore(fn, symHooks{
		MaxDepth: 7,
		Init:     func(x *symX) { recv = x.R(recvP) },
		Inline: func(x *symX, site ssa.CallInstruction, callee *ssa.Function) bool {
			return c14SamePkg(callee, fn)
		},
		Before: func(x *symX, in ssa.Instruction) {
			switch y := in.(type) {
			case *ssa.Store:
				if g, ok := w.payloadOfCV(c14m10AddrCV(x, y.Addr), recv, spills); ok {
					x.SetFlag("m10:" + g)
				}
			case *ssa.BinOp:
				if y.Op == token.EQL || y.Op == token.NEQ {
					for _, pair := range [][2]ssa.Value{{y.X, y.Y}, {y.Y, y.X}} {
						if symIsNilConst(pair[1]) {
							if g, ok := w.payloadOfCV(x.R(pair[0]), recv, spills); ok {
								x.SetFlag("m10:" + g)
							}
						}
					}
				}
			case *ssa.FieldAddr:
				check(x, x.R(y.X), in)
			case *ssa.IndexAddr:
				if _, isPtr := y.X.Type().Underlying().(*types.Pointer); isPtr {
					check(x, x.R(y.X), in)
				}
			case *ssa.UnOp:
				if y.Op == token.MUL {
					check(x, x.R(y.X), in)
				}
			case *ssa.Call:
				cc := &y.Call
				if cc.IsInvoke() {
					pc := x.UnboxCV(x.R(cc.Value))
					if pc.v != nil {
						if _, isPtr := c14m10TypeOfCV(pc, w).(*types.Pointer); isPtr {
							check(x, pc, in)
						}
					}
					return
				}
				if len(cc.Args) > 0 {
					if f := cc.StaticCallee(); f != nil && f.Signature.Recv() != nil && !c14SamePkg(f, fn) {
						if _, isPtr := cc.Args[0].Type().Underlying().(*types.Pointer); isPtr {
							check(x, x.R(cc.Args[0]), in)
						}
					}
				}
			}
		},
	})
	return res
}

// c14m10AddrCV names the memory cell an address designates in the same vocabulary as a load from it.
func c14m10AddrCV(x *symX, addr ssa.Value) symCV {
	base, path, ok := x.st.addr(addr, x.fr.id)
	if !ok {
		return symCV{}
	}
	if _, isPtr := base.v.Type().Underlying().(*types.Pointer); isPtr && !strings.HasPrefix(base.p, "@") {
		// content of the memory base points to: loads spell it "@<epoch><path>"
		return symCV{v: base.v, f: base.f, p: base.p + "@0" + path}
	}
	return symCV{v: base.v, f: base.f, p: base.p + path}
}

// c14m10TypeOfCV: the static type of a resolved value as far as it is needed here: a projection that names a payload
// field of the wrapper's library struct has that field's (pointer) type; an unprojected value has its SSA type.
func c14m10TypeOfCV(c symCV, w c14Wrap) types.Type {
	if c.p == "" {
		return c.v.Type().Underlying()
	}
	// projections are only interesting when they are payload fields; payloadOfCV decides that — answer "pointer"
	// for every projection that ends in a field of the library struct
	if ls, ok := w.L.Underlying().(*types.Struct); ok {
		for i := 0; i < ls.NumFields(); i++ {
			if strings.HasSuffix(c.p, fmt.Sprintf(".0.%d", i)) {
				return ls.Field(i).Type().Underlying()
			}
		}
	}
	return nil
}

func c14M10(c *rt.Ctx) {
	methods := c14m10EncodeMethods(c)
	if len(methods) == 0 {
		c.Bail("M10: the fastssz Marshaler interface is not imported by package core")
	}
	n := 0
	for _, w := range c14Wrappers(c) {
		tn := "core." + w.Name
		var entries []*ssa.Function
		for _, m := range methods {
			if fn := c.FnOpt(tn + "." + m); fn != nil && len(fn.Blocks) > 0 {
				entries = append(entries, fn)
			}
		}
		if len(entries) == 0 {
			continue // no SSZ encoding of this wrapper
		}
		nullPos, unkPos, found := c14Nullable(c, w)
		if !found {
			c.Unsure(tn+" SSZ encode side of decode-nullable payloads", w.T.Obj().Pos(), "UnmarshalJSON not found")
			continue
		}
		nullable, unknown := map[string]bool{}, map[string]bool{}
		for f := range nullPos {
			nullable[f] = true
		}
		for f := range unkPos {
			unknown[f] = true
		}
		if len(nullable)+len(unknown) == 0 {
			c.Good(tn+" SSZ encode side of decode-nullable payloads", w.T.Obj().Pos(), "UnmarshalJSON leaves no payload nil")
			n++
			continue
		}
		resolved := 0
		type pending struct {
			fn  *ssa.Function
			res c14m10Res
		}
		var results []pending
		for _, fn := range entries {
			r := c14m10Explore(fn, w, nullable, unknown)
			resolved += r.seen
			results = append(results, pending{fn, r})
		}
		for _, pr := range results {
			fn, r := pr.fn, pr.res
			construct := an.FuncName(fn) + " allocates or validates decode-nullable payloads before encoding them"
			n++
			switch {
			case len(r.bad) > 0:
				fs := c14SortedKeys(r.bad)
				c.Bad(construct, r.bad[fs[0]], fmt.Sprintf("payload %s can be nil after decoding JSON null (UnmarshalJSON stores it unchecked) and the SSZ encoder dereferences it (method call on the nil pointer, directly or boxed in an interface) on a path that neither nil-tests nor allocates it: Clone()/re-encoding of a peer-supplied value panics in the store/decide path",
					strings.Join(fs, ",")))
			case !r.complete:
				c.Unsure(construct, fn.Pos(), "path exploration exceeded its budget")
			case len(r.unsure) > 0:
				fs := c14SortedKeys(r.unsure)
				c.Unsure(construct, r.unsure[fs[0]], fmt.Sprintf("cannot tell whether UnmarshalJSON can leave payload %s nil; the SSZ encoder dereferences it unchecked", strings.Join(fs, ",")))
			case len(r.uncorr) > 0:
				fs := c14SortedKeys(r.uncorr)
				c.Unsure(construct, r.uncorr[fs[0]], fmt.Sprintf("payload %s is dereferenced unchecked on a path that nil-tested / allocated the payload of another version: cannot tell whether that path is feasible", strings.Join(fs, ",")))
			case r.seen == 0 && resolved == 0:
				c.Unsure(construct, fn.Pos(), "no dereference of a version payload could be resolved in the SSZ encode methods of this wrapper (the encoding is dispatched in a way the explorer cannot follow)")
			default:
				c.Good(construct, fn.Pos(), fmt.Sprintf("%d payload dereferences, all on allocated / nil-tested pointers", r.seen))
			}
		}
	}
	if n == 0 {
		c.Bail("M10: no versioned wrapper with SSZ encode methods found")
	}
}
