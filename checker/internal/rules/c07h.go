package rules

// Interprocedural helpers of the C07 rules. Every rule of C07 is formulated on resolved entities
// (fields of parsigdb.MemDB, the functions store / getThresholdMatching / StoreExternal /
// trackExemptUnsafe, the callee reached through threshSubs) and follows static in-package calls with
// parameter/argument substitution, so that extracting a helper, splitting a function into a locking
// wrapper and an *Unsafe body, or moving a loop into a function does not blind it.

import (
	"go/constant"
	"go/token"
	"go/types"
	"strings"

	"golang.org/x/tools/go/ssa"

	"charonverif/internal/an"
	"charonverif/internal/rt"
)

// verdicts of a sub-check
const (
	c07ok = iota
	c07bad
	c07unsure
)

type c07v struct {
	st  int
	why string
}

func c07Ok() c07v               { return c07v{c07ok, ""} }
func c07Bad(why string) c07v    { return c07v{c07bad, why} }
func c07Unsure(why string) c07v { return c07v{c07unsure, why} }

// worst combines verdicts of obligations that must all hold: bad > unsure > ok.
func (a c07v) and(b c07v) c07v {
	if a.st == c07bad {
		return a
	}
	if b.st == c07bad {
		return b
	}
	if a.st == c07unsure {
		return a
	}
	return b
}

// report records a verdict as obligation of the current rule.
func (k *c07k) report(construct string, pos token.Pos, v c07v) {
	switch v.st {
	case c07ok:
		k.c.Good(construct, pos, "")
	case c07bad:
		k.c.Bad(construct, pos, v.why)
	default:
		k.c.Unsure(construct, pos, v.why)
	}
}

type c07k struct {
	c   *rt.Ctx
	pkg *ssa.Package
	ix  *an.H07Index

	mustFan  map[string]int // memo: fn|param -> 0 running, 1 yes, 2 no
	mustCall map[string]int

	out  *c07flow // aliases of the maps handed to the threshold subscribers
	nOut int

	capDone bool
	capRems []c07capRemoval // removals from entries reached from the function that maintains exemptEntries
}

func newC07k(c *rt.Ctx) *c07k {
	pkg := c.SSAPkg("core/parsigdb")
	c07resolveFields(c)
	return &c07k{c: c, pkg: pkg, ix: an.H07NewIndex(pkg), mustFan: map[string]int{}, mustCall: map[string]int{}}
}

// predicates over the state maps of MemDB (the fields are resolved by type, see c07resolveFields)
func c07entries(v ssa.Value) bool    { return isFieldMap(c07f("entries"))(v) }
func c07keysByDuty(v ssa.Value) bool { return isFieldMap(c07f("keysByDuty"))(v) }
func c07exempt(v ssa.Value) bool     { return isFieldMap(c07f("exemptEntries"))(v) }

func c07isBuiltin(v ssa.Value, name string) (*ssa.Call, bool) {
	call, ok := an.Resolve(v).(*ssa.Call)
	if !ok {
		return nil, false
	}
	b, ok := call.Call.Value.(*ssa.Builtin)
	return call, ok && b.Name() == name
}

func c07isUnlock(in ssa.Instruction) bool {
	call, ok := in.(*ssa.Call)
	return ok && an.Static("sync.Mutex.Unlock", "sync.RWMutex.Unlock")(&call.Call)
}

// boolResults / errResult: positions in the result tuple of a signature.
func c07boolResults(sig *types.Signature) []int {
	var out []int
	for i := 0; i < sig.Results().Len(); i++ {
		if b, ok := sig.Results().At(i).Type().Underlying().(*types.Basic); ok && b.Kind() == types.Bool {
			out = append(out, i)
		}
	}
	return out
}

func c07errResult(sig *types.Signature) int {
	for i := 0; i < sig.Results().Len(); i++ {
		if an.IsErrorType(sig.Results().At(i).Type()) {
			return i
		}
	}
	return -1
}

// resultOf decodes v as result idx of a call (single-result calls: idx 0).
func c07resultOf(v ssa.Value) (*ssa.Call, int, bool) {
	switch x := an.Resolve(v).(type) {
	case *ssa.Extract:
		if call, ok := x.Tuple.(*ssa.Call); ok {
			return call, x.Index, true
		}
	case *ssa.Call:
		if x.Call.Signature().Results().Len() == 1 {
			return x, 0, true
		}
	}
	return nil, 0, false
}

// constBool returns the value of a boolean constant.
func c07constBool(v ssa.Value) (val, ok bool) {
	k, isC := an.Resolve(v).(*ssa.Const)
	if !isC || k.Value == nil || k.Value.Kind() != constant.Bool {
		return false, false
	}
	return constant.BoolVal(k.Value), true
}

// lookupOf: v is m[k] (plain, or the value of a comma-ok lookup).
func c07lookupOf(v ssa.Value) *ssa.Lookup {
	switch x := an.Resolve(v).(type) {
	case *ssa.Lookup:
		if !x.CommaOk {
			return x
		}
	case *ssa.Extract:
		if lk, ok := x.Tuple.(*ssa.Lookup); ok && lk.CommaOk && x.Index == 0 {
			return lk
		}
	}
	return nil
}

// pathHasFlagBranch: the path runs over a branch on a boolean flag variable (a phi): the search is
// not path-sensitive for those, so an escape over such a branch is no proof of a violation.
func c07pathHasFlagBranch(path []*ssa.BasicBlock, understood ...ssa.Value) bool {
	for _, b := range path {
		if len(b.Instrs) == 0 {
			continue
		}
		iff, ok := b.Instrs[len(b.Instrs)-1].(*ssa.If)
		if !ok {
			continue
		}
		cond := an.Resolve(iff.Cond)
		for i := 0; i < 4; i++ {
			if u, ok := cond.(*ssa.UnOp); ok && u.Op == token.NOT {
				cond = an.Resolve(u.X)
			}
		}
		if phi, ok := cond.(*ssa.Phi); ok && len(phi.Edges) > 1 {
			skip := false
			for _, u := range understood {
				if u == ssa.Value(phi) {
					skip = true
				}
			}
			if !skip {
				return true
			}
		}
	}
	return false
}

// growAppend decodes `m[k] = append(m[k], e...)` in every spelling (direct, or through a local that
// holds the looked-up list): the lookup that is the base of the append and the appended elements.
func c07growAppend(up *ssa.MapUpdate, isMap func(ssa.Value) bool) (*ssa.Lookup, []ssa.Value, bool) {
	call, ok := c07isBuiltin(up.Value, "append")
	if !ok || len(call.Call.Args) != 2 {
		return nil, nil, false
	}
	lk := c07lookupOf(call.Call.Args[0])
	if lk == nil || !isMap(lk.X) || !(lk.Index == up.Key || an.Equiv(lk.Index, up.Key)) {
		return nil, nil, false
	}
	return lk, appendedElems(call), true
}

// valueRootParam: the parameter a stored/compared value derives from, looking through `.Clone()`
// (the stored element is a clone of the received value), loads, field selections and spills.
func c07valueRootParam(v ssa.Value) *ssa.Parameter {
	for i := 0; i < 6; i++ {
		v = an.H07Root(v)
		if p, ok := v.(*ssa.Parameter); ok {
			return p
		}
		call, _, ok := c07resultOf(v)
		if !ok {
			return nil
		}
		switch {
		case call.Call.IsInvoke() && call.Call.Method.Name() == "Clone":
			v = call.Call.Value
		case call.Call.StaticCallee() != nil && call.Call.StaticCallee().Name() == "Clone" && len(call.Call.Args) > 0:
			v = call.Call.Args[0]
		default:
			return nil
		}
	}
	return nil
}

// wholeParam: v is (a load of the spill slot of) a parameter itself, not a part of it.
func c07wholeParam(v ssa.Value) *ssa.Parameter {
	p, _ := an.Resolve(v).(*ssa.Parameter)
	return p
}

// ---------------------------------------------------------------------------------------------
// P2: the threshold fan-out (see c07n_flow.go: outputs, fanEffect2, fanAfter)

// capturedValue: v is (a load of) a free variable of a function literal; returns the single value the
// captured variable is assigned in the enclosing function.
func c07capturedValue(v ssa.Value) (ssa.Value, bool) {
	if ld, ok := v.(*ssa.UnOp); ok && ld.Op == token.MUL {
		v = ld.X
	}
	fv, ok := v.(*ssa.FreeVar)
	if !ok || fv.Parent() == nil || fv.Parent().Parent() == nil {
		return nil, false
	}
	g := fv.Parent()
	idx := -1
	for i, x := range g.FreeVars {
		if x == fv {
			idx = i
		}
	}
	for _, in := range an.Instrs(g.Parent(), false) {
		mc, ok := in.(*ssa.MakeClosure)
		if !ok || mc.Fn != ssa.Value(g) || idx < 0 || idx >= len(mc.Bindings) {
			continue
		}
		if al, ok := mc.Bindings[idx].(*ssa.Alloc); ok {
			if src := an.UniqueStore(al); src != nil {
				return src, true
			}
			return nil, false
		}
		return mc.Bindings[idx], true
	}
	return nil, false
}

// ---------------------------------------------------------------------------------------------
// must-call summaries (P8)

// mustCallFn: every path from the entry of g to a return passes a call of target (directly or through
// an in-package callee that must call it).
func (k *c07k) mustCallFn(g, target *ssa.Function) bool {
	key := an.FuncName(g) + "→" + an.FuncName(target)
	switch k.mustCall[key] {
	case 1:
		return true
	case 2:
		return false
	}
	if _, running := k.mustCall[key]; running {
		return false
	}
	k.mustCall[key] = 0
	_, esc := an.H07Path(g, nil, nil, k.callEffect(target), nil, nil)
	if esc {
		k.mustCall[key] = 2
	} else {
		k.mustCall[key] = 1
	}
	return !esc
}

func (k *c07k) callEffect(target *ssa.Function) func(ssa.Instruction) bool {
	return func(in ssa.Instruction) bool {
		ci, ok := in.(*ssa.Call)
		if !ok {
			return false
		}
		g := k.ix.Callee(&ci.Call)
		return g != nil && (g == an.Orig(target) || k.matcherLike(g) || k.mustCallFn(g, target))
	}
}

// matcherLike: an in-package function that is handed a list of partial signatures and an int and reports a
// list and a bool without inserting into entries - a variant of the threshold matcher (e.g. one that is given
// precomputed roots), which evaluates an accepted insertion against the threshold just as well.
func (k *c07k) matcherLike(g *ssa.Function) bool {
	if g == nil || g.Parent() != nil || g.Signature == nil {
		return false
	}
	hasList, hasInt := false, false
	for _, p := range g.Params {
		if an.TypeName(p.Type()) == "[]core.ParSignedData" {
			hasList = true
		}
		if b, ok := p.Type().Underlying().(*types.Basic); ok && b.Kind() == types.Int {
			hasInt = true
		}
	}
	res := g.Signature.Results()
	resList := false
	for i := 0; i < res.Len(); i++ {
		if an.TypeName(res.At(i).Type()) == "[]core.ParSignedData" {
			resList = true
		}
	}
	return hasList && hasInt && resList && len(c07boolResults(g.Signature)) == 1 && !k.growsEntries(g)
}

// callsOf returns every static call of target among the package functions.
func (k *c07k) callsOf(target *ssa.Function) []ssa.CallInstruction {
	sites, _ := k.ix.Callers(target)
	return sites
}

// mayCall: g is target or transitively calls it.
func (k *c07k) mayCall(g, target *ssa.Function) bool {
	if an.Orig(g) == an.Orig(target) {
		return true
	}
	return k.ix.MayReach(g, func(in ssa.Instruction) bool {
		ci, ok := in.(ssa.CallInstruction)
		return ok && k.ix.Callee(ci.Common()) == an.Orig(target)
	})
}

// ---------------------------------------------------------------------------------------------
// P4: the same-share scan

// shareOperand decodes one side of a share-index comparison: the value whose ShareIdx field it is
// (isField), or a plain integer value.
func c07shareOperand(v ssa.Value) (base ssa.Value, isField bool) {
	switch x := an.Resolve(v).(type) {
	case *ssa.Field:
		if an.FieldKey(x.X.Type(), x.Field) == "core.ParSignedData.ShareIdx" {
			return x.X, true
		}
	case *ssa.UnOp:
		if fa, ok := x.X.(*ssa.FieldAddr); ok && x.Op == token.MUL && an.FieldKey(fa.X.Type(), fa.Field) == "core.ParSignedData.ShareIdx" {
			return fa.X, true
		}
	}
	return v, false
}

// c07cmp is a decoded branch `elem.ShareIdx ==/!= other`.
type c07cmp struct {
	iff   *ssa.If
	eq    *ssa.BasicBlock // successor taken when the share indices are equal
	other ssa.Value       // the non-element side: base of a ShareIdx field, or an int value
	field bool            // other is the base of a ShareIdx field
}

// shareCompare decodes the branch ending block b as a comparison of the ShareIdx of an element of
// loop l with another share index.
func c07shareCompare(l *an.Loop, b *ssa.BasicBlock) (c07cmp, bool) {
	if len(b.Instrs) == 0 {
		return c07cmp{}, false
	}
	iff, ok := b.Instrs[len(b.Instrs)-1].(*ssa.If)
	if !ok {
		return c07cmp{}, false
	}
	cond, neg := an.Resolve(iff.Cond), false
	for i := 0; i < 4; i++ {
		u, ok := cond.(*ssa.UnOp)
		if !ok || u.Op != token.NOT {
			break
		}
		cond, neg = an.Resolve(u.X), !neg
	}
	bin, ok := cond.(*ssa.BinOp)
	if !ok || (bin.Op != token.EQL && bin.Op != token.NEQ) {
		return c07cmp{}, false
	}
	if bin.Op == token.NEQ {
		neg = !neg
	}
	xb, xf := c07shareOperand(bin.X)
	yb, yf := c07shareOperand(bin.Y)
	isElem := func(base ssa.Value, f bool) bool { return f && (an.H07ElemOf(l, base) || l.ElemOf(base)) }
	out := c07cmp{iff: iff}
	switch {
	case isElem(xb, xf) && !isElem(yb, yf):
		out.other, out.field = yb, yf
	case isElem(yb, yf) && !isElem(xb, xf):
		out.other, out.field = xb, xf
	default:
		return c07cmp{}, false
	}
	if !out.field {
		if bt, ok := out.other.Type().Underlying().(*types.Basic); !ok || bt.Info()&types.IsInteger == 0 {
			return c07cmp{}, false
		}
	}
	if neg {
		out.eq = b.Succs[1]
	} else {
		out.eq = b.Succs[0]
	}
	return out, true
}

// otherParam: the parameter the non-element side of the comparison derives from.
func (m c07cmp) otherParam() *ssa.Parameter {
	if m.field {
		p, _ := an.H07Root(m.other).(*ssa.Parameter)
		return p
	}
	return c07wholeParam(m.other)
}

// entryScans lists, for function fn, the comparisons of a loop over entries[key] with key satisfying
// keyOK. loops reports whether such a loop exists at all.
func c07entryScans(fn *ssa.Function, keyOK func(idx ssa.Value) bool) (cmps []c07cmp, ls []*an.Loop, loops int) {
	for _, l := range an.Loops(fn) {
		coll := an.H07LoopColl(l)
		if coll == nil {
			continue
		}
		lk, ok := an.Resolve(coll).(*ssa.Lookup)
		if !ok || !c07entries(lk.X) || !keyOK(lk.Index) {
			continue
		}
		loops++
		for _, b := range fn.Blocks {
			if !l.Body[b] {
				continue
			}
			if in := an.InnermostLoop(fn, b); in == nil || in.Header != l.Header {
				continue
			}
			if m, ok := c07shareCompare(l, b); ok {
				cmps = append(cmps, m)
				ls = append(ls, l)
			}
		}
	}
	return
}

// errMayBeNil: the error value returned by r may be nil (a nil constant, or a value that no dominating
// `!= nil` branch and no error constructor vouches for).
func c07errMayBeNil(v ssa.Value, r *ssa.Return) bool {
	v = an.Resolve(v)
	if an.IsNilConst(v) {
		return true
	}
	if call, _, ok := c07resultOf(v); ok {
		if f := call.Call.StaticCallee(); f != nil {
			n := an.FuncName(f)
			if strings.HasSuffix(n, "errors.New") || strings.HasSuffix(n, "errors.Wrap") || n == "fmt.Errorf" {
				return false
			}
		}
	}
	for _, cd := range an.CondsOn(r.Parent(), v) {
		if cd.Other == nil || !an.IsNilConst(cd.Other) {
			continue
		}
		if (cd.Op == token.NEQ && an.H07CondEdgeDominates(cd, true, r.Block())) || (cd.Op == token.EQL && an.H07CondEdgeDominates(cd, false, r.Block())) {
			return false
		}
	}
	return true
}

// scanBefore decides whether every path of fn to sink has compared every element of entries[key] with
// the share index of the value being stored and found it different. vp (may be nil) is the parameter
// of fn the stored value derives from.
func (k *c07k) scanBefore(fn *ssa.Function, sink ssa.Instruction, key ssa.Value, vp *ssa.Parameter, depth int) c07v {
	keyOK := func(idx ssa.Value) bool { return idx == key || an.Equiv(idx, key) }
	res := c07v{st: -1}
	note := func(v c07v) { // best candidate wins: ok > unsure > bad (an unrecognised scan is never a violation)
		switch {
		case res.st == -1 || v.st == c07ok:
			if res.st != c07ok {
				res = v
			}
		case v.st == c07unsure && res.st == c07bad:
			res = v
		}
	}
	// (1) the scan is a loop of fn itself
	cmps, ls, loops := c07entryScans(fn, keyOK)
	for i, m := range cmps {
		if p := m.otherParam(); p == nil || (vp != nil && p != vp) {
			note(c07Unsure("the same-share scan compares with a value that is not recognisably the one being stored"))
			continue
		}
		note(c07scanVerdict(ls[i], m, sink))
	}
	if loops > 0 && len(cmps) == 0 {
		note(c07Unsure("a loop over entries[k] precedes the append but no comparison of share indices is recognised in it"))
	}
	// (2) the scan is an in-package helper whose verdict guards the sink
	if res.st != c07ok {
		for _, in := range an.Instrs(fn, false) {
			call, ok := in.(*ssa.Call)
			if !ok || !an.Dominates(call, sink) {
				continue
			}
			h := k.ix.Callee(&call.Call)
			if h == nil {
				continue
			}
			if v, found := k.scanHelper(call, h, sink, key, vp); found {
				note(v)
			}
		}
	}
	if res.st == c07ok {
		return res
	}
	// (3) fn is itself a helper (the append was extracted): the scan must precede every call of it
	if kp := c07wholeParam(key); kp != nil && kp.Parent() == fn && depth < 2 {
		sites, closed := k.ix.Callers(fn)
		if len(sites) > 0 && closed {
			all := c07Ok()
			for _, s := range sites {
				arg := an.H07ArgFor(s, an.H07ParamIndex(kp))
				if arg == nil {
					all = all.and(c07Unsure("call of " + an.FuncName(fn) + " does not pass the key"))
					continue
				}
				var vp2 *ssa.Parameter
				if vp != nil {
					if a := an.H07ArgFor(s, an.H07ParamIndex(vp)); a != nil {
						vp2 = c07valueRootParam(a)
					}
				}
				all = all.and(k.scanBefore(s.Parent(), s, arg, vp2, depth+1))
				all = all.and(k.oneCriticalSection(s.Parent(), s))
			}
			if all.st == c07ok || res.st == -1 {
				return all
			}
		} else if res.st == -1 && !closed {
			return c07Unsure(an.FuncName(fn) + " appends to entries without a scan and is not only called statically")
		}
	}
	if res.st == -1 {
		for _, in := range an.Instrs(fn, false) {
			if call, ok := in.(*ssa.Call); ok && k.ix.Callee(&call.Call) != nil && an.Dominates(call, sink) && k.readsEntries(call) {
				return c07Unsure("a callee that reads entries precedes the append but is not recognised as the same-share scan")
			}
		}
		return c07Bad("no same-share scan over the existing entries precedes the append")
	}
	return res
}

// scanVerdict classifies the protection a recognised same-share comparison gives to sink: ok; bad when an
// equal share is treated like a different one (the scan continues, or an iteration can bypass the
// comparison); unsure for shapes the CFG argument cannot decide (a found-flag tested after the loop).
func c07scanVerdict(l *an.Loop, m c07cmp, sink ssa.Instruction) c07v {
	ok, why := an.H07ForallGuard(l, m.iff, m.eq, sink)
	if ok {
		return c07Ok()
	}
	gb := m.iff.Block()
	for _, la := range l.Latches {
		if !gb.Dominates(la) {
			return c07Bad("same-share scan does not protect the append: " + why)
		}
	}
	if l.Body[sink.Block()] || !l.Header.Dominates(sink.Block()) {
		return c07Unsure("same-share scan has a shape that is not decided: " + why)
	}
	// a feasible path from "an entry of the same share exists" to the append: a violation when no undecided flag
	// variable lies on it
	if fi := an.H07SuccIndex(gb, m.eq); fi >= 0 {
		if path, reach := an.H07PathFromEdge(gb, fi, sink, nil, nil); reach && (!c07pathHasFlagBranch(path) || c07flagsDecided(path)) {
			return c07Bad("same-share scan does not protect the append: an entry of the same share does not prevent it (" + why + ")")
		}
	}
	return c07Unsure("same-share scan has a shape that is not decided: " + why)
}

// scanHelper: call (of in-package h, dominating sink) is a duplicate scan whose verdict guards sink.
func (k *c07k) scanHelper(call *ssa.Call, h *ssa.Function, sink ssa.Instruction, key ssa.Value, vp *ssa.Parameter) (c07v, bool) {
	var kp *ssa.Parameter
	cmps, ls, loops := c07entryScans(h, func(idx ssa.Value) bool {
		if p := c07wholeParam(idx); p != nil && p.Parent() == h {
			kp = p
			return true
		}
		return false
	})
	if loops == 0 {
		return c07v{}, false
	}
	if a := an.H07ArgFor(call, an.H07ParamIndex(kp)); a == nil || !(a == key || an.Equiv(a, key)) {
		return c07Unsure(an.FuncName(h) + " scans entries under another key than the one appended to"), true
	}
	if len(cmps) == 0 {
		return c07Unsure(an.FuncName(h) + " loops over entries[k] but no comparison of share indices is recognised in it"), true
	}
	sig := h.Signature
	ei := c07errResult(sig)
	type pol struct {
		bi   int
		want bool
	}
	var pols []pol
	for _, bi := range c07boolResults(sig) {
		pols = append(pols, pol{bi, false}, pol{bi, true})
	}
	if ei >= 0 {
		pols = append(pols, pol{-1, false})
	}
	out := c07Unsure("the verdict of " + an.FuncName(h) + " does not guard the append in a recognised way")
	for _, p := range pols {
		opt := an.GuardOpt{BoolIdx: p.bi, BoolWant: p.want, NoErr: ei < 0}
		if g, _ := an.Guarded(call, sink, opt); !g {
			continue
		}
		// returns of h that the caller takes as "share not present yet"
		var clear []*ssa.Return
		for _, r := range an.Returns(h) {
			rv := returnValues(r)
			if len(rv) != sig.Results().Len() {
				continue
			}
			if p.bi >= 0 {
				if b, isC := c07constBool(rv[p.bi]); isC && b != p.want {
					continue
				}
			}
			if ei >= 0 && !c07errMayBeNil(rv[ei], r) {
				continue
			}
			clear = append(clear, r)
		}
		if len(clear) == 0 {
			continue
		}
		for i, m := range cmps {
			op := m.otherParam()
			if op == nil || op.Parent() != h {
				continue
			}
			if vp != nil {
				a := an.H07ArgFor(call, an.H07ParamIndex(op))
				var ap *ssa.Parameter
				if a != nil {
					if base, isF := c07shareOperand(a); isF || m.field {
						ap = c07valueRootParam(base)
					}
				}
				if ap != vp {
					out = c07Unsure("the value handed to " + an.FuncName(h) + " is not recognisably the one being stored")
					continue
				}
			}
			all := c07Ok()
			for _, r := range clear {
				v := c07scanVerdict(ls[i], m, r)
				if v.st != c07ok {
					// a single-exit helper reaches its return from the "same share found" edge too: decide what it returns there
					v = c07scanVerdictRet(ls[i], m, r, p.bi, p.want, ei)
				}
				all = all.and(v)
			}
			if all.st == c07ok {
				return c07Ok(), true
			}
			all.why = "the scan in " + an.FuncName(h) + " can report a share as new without having compared every stored entry: " + all.why
			if out.st != c07bad || all.st == c07bad {
				out = all
			}
		}
	}
	return out, true
}

// readsEntries: instruction in reads the entries map (directly, or by calling an in-package function
// that does).
func (k *c07k) readsEntries(in ssa.Instruction) bool {
	direct := func(x ssa.Instruction) bool {
		lk, ok := x.(*ssa.Lookup)
		return ok && c07entries(lk.X)
	}
	if direct(in) {
		return true
	}
	if call, ok := in.(*ssa.Call); ok {
		if g := k.ix.Callee(&call.Call); g != nil {
			return k.ix.MayReach(g, direct)
		}
	}
	return false
}

// oneCriticalSection: no unlock of a mutex lies on a path from a read of entries to sink.
func (k *c07k) oneCriticalSection(fn *ssa.Function, sink ssa.Instruction) c07v {
	unlocks := func(x ssa.Instruction) bool {
		if c07isUnlock(x) {
			return true
		}
		if call, ok := x.(*ssa.Call); ok && x != sink {
			if g := k.ix.Callee(&call.Call); g != nil {
				return k.ix.MayReach(g, c07isUnlock)
			}
		}
		return false
	}
	for _, in := range an.Instrs(fn, false) {
		if in == sink || !k.readsEntries(in) || !an.InstrReaches(in, sink) {
			continue
		}
		if u := an.PathThrough(in, sink, unlocks); u != nil {
			return c07v{c07bad, "the lock is released (" + k.c.P.Pos(u.Pos()) + ") between reading entries[k] for the duplicate scan and appending: two concurrent stores of the same share both pass the scan and both append"}
		}
	}
	return c07Ok()
}

// ---------------------------------------------------------------------------------------------
// P3: grouping by message root

// messageRootOf: v is result 0 of X.MessageRoot(); returns the receiver X.
func c07messageRootOf(v ssa.Value) (ssa.Value, bool) {
	call, idx, ok := c07resultOf(v)
	if !ok || idx != 0 {
		return nil, false
	}
	if call.Call.IsInvoke() {
		if call.Call.Method.Name() == "MessageRoot" {
			return call.Call.Value, true
		}
		return nil, false
	}
	if f := call.Call.StaticCallee(); f != nil && f.Name() == "MessageRoot" && len(call.Call.Args) > 0 {
		return call.Call.Args[0], true
	}
	return nil, false
}

// grouping decides whether map value mv (in function fn) is the grouping of list by message root:
// every element of list is appended, unconditionally, to the group keyed by its own MessageRoot().
func (k *c07k) grouping(fn *ssa.Function, mv ssa.Value, isList func(ssa.Value) bool, depth int) c07v {
	mv = an.Resolve(mv)
	if mk, ok := mv.(*ssa.MakeMap); ok {
		return k.groupingLocal(fn, mk, isList)
	}
	call, ri, ok := c07resultOf(mv)
	if !ok || depth > 2 {
		return c07Unsure("origin of the grouping map is not recognised")
	}
	g := k.ix.Callee(&call.Call)
	if g == nil {
		return c07Unsure("the grouping map is built outside the package")
	}
	j := -1
	for i, a := range call.Call.Args {
		if isList(a) {
			j = i
		}
	}
	if j < 0 || j >= len(g.Params) {
		return c07Unsure("the grouping map is built by " + an.FuncName(g) + " from something that is not recognisably the stored list")
	}
	var made ssa.Value
	for _, r := range an.Returns(g) {
		rv := returnValues(r)
		if ri >= len(rv) {
			return c07Unsure("unexpected result arity of " + an.FuncName(g))
		}
		v := an.Resolve(rv[ri])
		if an.IsNilConst(v) {
			continue
		}
		if made != nil && made != v {
			return c07Unsure(an.FuncName(g) + " returns different maps")
		}
		made = v
	}
	if made == nil {
		return c07Unsure(an.FuncName(g) + " never returns a map made by itself")
	}
	lp := g.Params[j]
	return k.grouping(g, made, func(v ssa.Value) bool { return an.Resolve(v) == ssa.Value(lp) }, depth+1)
}

func (k *c07k) groupingLocal(fn *ssa.Function, mk *ssa.MakeMap, isList func(ssa.Value) bool) c07v {
	var ups []*ssa.MapUpdate
	for _, in := range an.Instrs(fn, false) {
		if up, ok := in.(*ssa.MapUpdate); ok && an.Resolve(up.Map) == ssa.Value(mk) {
			ups = append(ups, up)
		}
	}
	if len(ups) == 0 {
		for _, ref := range *mk.Referrers() {
			if ci, ok := ref.(ssa.CallInstruction); ok && k.ix.Callee(ci.Common()) != nil {
				return c07Unsure("the grouping map is filled by a callee")
			}
			if st, ok := ref.(*ssa.Store); ok && st.Val == ssa.Value(mk) {
				return c07Unsure("the grouping map is captured by a closure or has its address taken")
			}
		}
		return c07Bad("no insertion into the grouping map")
	}
	perLoop := map[*ssa.BasicBlock]int{}
	for _, up := range ups {
		if l := an.InnermostLoop(fn, up.Block()); l != nil {
			perLoop[l.Header]++
		}
	}
	out := c07Ok()
	for _, up := range ups {
		key := an.Resolve(up.Key)
		recv, isRoot := c07messageRootOf(key)
		if !isRoot {
			if _, isC := key.(*ssa.Const); isC {
				out = out.and(c07Bad("grouping key is a constant, not the MessageRoot() of the element"))
			} else {
				out = out.and(c07Unsure("grouping key is not recognisably the MessageRoot() of the element"))
			}
			continue
		}
		call, ok := c07isBuiltin(up.Value, "append")
		if !ok || len(call.Call.Args) != 2 {
			out = out.and(c07Unsure("a group is assigned something that is not recognisably append(group, element)"))
			continue
		}
		lk := c07lookupOf(call.Call.Args[0])
		switch {
		case lk == nil && an.IsNilConst(an.Resolve(call.Call.Args[0])):
			out = out.and(c07Bad("a group is restarted from nil instead of extended"))
			continue
		case lk == nil:
			out = out.and(c07Unsure("the list a group is extended from is not recognised"))
			continue
		case an.Resolve(lk.X) != ssa.Value(mk) || !(an.Resolve(lk.Index) == key || an.Equiv(lk.Index, key)):
			out = out.and(c07Bad("a group is not extended from the group of the same root"))
			continue
		}
		elems := appendedElems(call)
		if len(elems) != 1 {
			out = out.and(c07Unsure("element appended to a group is not recognised"))
			continue
		}
		if !c07sameSigElem(elems[0], recv) {
			ce, ie, ok1 := an.H07ElemRef(elems[0])
			cr, ir, ok2 := an.H07ElemRef(recv)
			_, isParam := an.Resolve(elems[0]).(*ssa.Parameter)
			if isParam || (ok1 && ok2 && (ce == cr || an.Equiv(ce, cr)) && ie != ir) {
				out = out.and(c07Bad("element appended to a group is not the one whose MessageRoot() is the key"))
			} else {
				out = out.and(c07Unsure("cannot tell whether the element appended to a group is the one whose MessageRoot() is the key"))
			}
			continue
		}
		l := an.InnermostLoop(fn, up.Block())
		if l == nil {
			out = out.and(c07Unsure("grouping is not written as a loop over the stored list"))
			continue
		}
		coll := an.H07LoopColl(l)
		if coll == nil {
			out = out.and(c07Unsure("collection of the grouping loop is not recognised"))
			continue
		}
		if !isList(coll) || !(an.H07ElemOf(l, elems[0]) || l.ElemOf(elems[0])) {
			switch an.Resolve(coll).(type) {
			case *ssa.Parameter, *ssa.Slice:
				out = out.and(c07Bad("grouping loop does not range over the (whole) stored list parameter"))
			default:
				out = out.and(c07Unsure("grouping loop does not recognisably range over the stored list parameter"))
			}
			continue
		}
		for _, la := range l.Latches {
			if !up.Block().Dominates(la) {
				if perLoop[l.Header] > 1 {
					out = out.and(c07Unsure("the grouping loop inserts on several branches"))
				} else {
					out = out.and(c07Bad("an element of the stored list can be skipped by the grouping loop"))
				}
				break
			}
		}
	}
	return out
}

// sameSigElem: elem is the ParSignedData whose embedded SignedData is recv (sig vs sig.SignedData).
func c07sameSigElem(elem, recv ssa.Value) bool {
	if sameSigElem(elem, recv) {
		return true
	}
	return an.H07SameElem(elem, recv)
}

// ---------------------------------------------------------------------------------------------
// provenance of the status returned by deadliner.Add

// statusIs: v is `status == <want>` with status the result of deadliner.Add, possibly handed down
// through boolean parameters of in-package functions that are only called statically.
func (k *c07k) statusIs(v ssa.Value, want int64, depth int) c07v {
	v = an.Resolve(v)
	switch x := v.(type) {
	case *ssa.BinOp:
		if x.Op != token.EQL {
			return c07Bad("flag is not `status == DeadlineExempt`")
		}
		s, cst := x.X, x.Y
		if _, ok := an.ConstInt(cst); !ok {
			s, cst = x.Y, x.X
		}
		n, ok := an.ConstInt(cst)
		call, isCall := an.Resolve(s).(*ssa.Call)
		if !ok || !isCall || !an.Invoke("core.Deadliner.Add")(&call.Call) {
			return c07Unsure("flag is a comparison that is not recognisably on the status returned by deadliner.Add")
		}
		if n != want {
			return c07Bad("flag compares the deadliner status with another constant than DeadlineExempt")
		}
		return c07Ok()
	case *ssa.Parameter:
		sites, closed := k.ix.Callers(x.Parent())
		if !closed || len(sites) == 0 || depth > 3 {
			return c07Unsure("flag is a parameter of a function that is not only called statically")
		}
		out := c07Ok()
		for _, s := range sites {
			a := an.H07ArgFor(s, an.H07ParamIndex(x))
			if a == nil {
				return c07Unsure("cannot map the flag parameter to an argument")
			}
			out = out.and(k.statusIs(a, want, depth+1))
		}
		return out
	case *ssa.Const:
		return c07Bad("flag is a constant")
	case *ssa.Phi:
		// `exempt := false; switch status { case Exempt: exempt = true }`: a variable that is true exactly on the exempt edge
		return k.statusIsEnum(x, constant.MakeBool(true), want, depth)
	}
	if src, ok := c07capturedValue(v); ok && depth <= 3 {
		return k.statusIs(src, want, depth+1)
	}
	// the result of an in-package helper that asks the deadliner (`exempt, ok := db.admitDuty(…)`)
	if call, idx, ok := c07resultOf(v); ok && depth <= 3 {
		if g := k.ix.Callee(&call.Call); g != nil {
			return k.statusIsResult(g, idx, want, depth)
		}
	}
	// a field of a parameter object (`req.exempt`, `b.exempt`): every value stored into that field in the package
	if key, ok := c07fieldRead(v); ok && depth <= 3 {
		out, n := c07Ok(), 0
		for _, fn := range k.ix.Funcs {
			for _, in := range an.Instrs(fn, false) {
				st, isSt := in.(*ssa.Store)
				if !isSt {
					continue
				}
				if fa, isFA := st.Addr.(*ssa.FieldAddr); isFA && an.FieldKey(fa.X.Type(), fa.Field) == key {
					n++
					out = out.and(k.statusIs(st.Val, want, depth+1))
				}
			}
		}
		if n > 0 {
			return out
		}
		return c07Unsure("flag is a struct field that is never assigned in the package")
	}
	return c07Unsure("origin of the exempt flag is not recognised")
}

// statusIsResult: result idx of in-package function g is `status == want` of the status g obtains from
// deadliner.Add: every return hands out that comparison, or the constant false on a return that cannot be
// reached when the status is `want`.
func (k *c07k) statusIsResult(g *ssa.Function, idx int, want int64, depth int) c07v {
	var add *ssa.Call
	for _, ci := range an.Calls(g, an.Invoke("core.Deadliner.Add"), false) {
		call, ok := ci.(*ssa.Call)
		if !ok || add != nil {
			return c07Unsure("origin of the exempt flag is not recognised")
		}
		add = call
	}
	if add == nil {
		return c07Unsure("origin of the exempt flag is not recognised")
	}
	env := func(v ssa.Value) (constant.Value, bool) {
		if v == ssa.Value(add) {
			return constant.MakeInt64(want), true
		}
		return nil, false
	}
	out, n := c07Ok(), 0
	for _, r := range an.Returns(g) {
		rv := returnValues(r)
		if idx >= len(rv) {
			return c07Unsure("origin of the exempt flag is not recognised")
		}
		n++
		if b, isConst := c07constBool(rv[idx]); isConst {
			if !b && an.Dominates(add, r) && !an.C05ReachUnder(add, r, env) {
				continue // false on a return that an exempt duty cannot take
			}
			out = out.and(c07Unsure("the exempt flag is a constant on a return of " + an.FuncName(g) + " that is not recognisably excluded for an exempt duty"))
			continue
		}
		out = out.and(k.statusIs(rv[idx], want, depth+1))
	}
	if n == 0 {
		return c07Unsure("origin of the exempt flag is not recognised")
	}
	return out
}

// fieldRead: v reads a struct field (x.f or *(&x.f)); returns the field's key.
func c07fieldRead(v ssa.Value) (string, bool) {
	switch x := v.(type) {
	case *ssa.Field:
		return an.FieldKey(x.X.Type(), x.Field), true
	case *ssa.UnOp:
		if fa, ok := x.X.(*ssa.FieldAddr); ok && x.Op == token.MUL {
			return an.FieldKey(fa.X.Type(), fa.Field), true
		}
	}
	return "", false
}

// fromDeadlinerC: the duty whose keys are deleted (used at instruction at) was received from
// deadliner.C() — in this function, in a helper that returns it with a comma-ok result the use is
// guarded by, or in the callers of a helper that is only called statically.
func (k *c07k) fromDeadlinerC(v ssa.Value, at ssa.Instruction, depth int) c07v {
	if valueFromRecvOf(v, "iface:core.Deadliner.C") || valueFromRecvOf(an.Resolve(v), "iface:core.Deadliner.C") {
		return c07Ok()
	}
	if depth > 4 {
		return c07Unsure("origin of the trimmed duty is too deep to follow")
	}
	switch x := an.Resolve(v).(type) {
	case *ssa.Parameter:
		sites, closed := k.ix.Callers(x.Parent())
		if !closed || len(sites) == 0 {
			return c07Unsure("the trimmed duty is a parameter of a function that is not only called statically")
		}
		out := c07Ok()
		for _, s := range sites {
			if _, isGo := s.(*ssa.Go); isGo {
				return c07Unsure("trimming helper started as a goroutine")
			}
			a := an.H07ArgFor(s, an.H07ParamIndex(x))
			if a == nil {
				return c07Unsure("cannot map the duty parameter to an argument")
			}
			out = out.and(k.fromDeadlinerC(a, s, depth+1))
		}
		return out
	case *ssa.Phi:
		out := c07Ok()
		for _, e := range x.Edges {
			out = out.and(k.fromDeadlinerC(e, at, depth+1))
		}
		return out
	case *ssa.Alloc, *ssa.UnOp:
		// a local assigned in several places (`var duty; select { case duty = <-C: }`): every store must qualify
		var al *ssa.Alloc
		if a, ok := x.(*ssa.Alloc); ok {
			al = a
		} else if u := x.(*ssa.UnOp); u.Op == token.MUL {
			al, _ = u.X.(*ssa.Alloc)
		}
		if al == nil {
			break
		}
		out, n := c07Ok(), 0
		for _, ref := range *al.Referrers() {
			if st, ok := ref.(*ssa.Store); ok && st.Addr == ssa.Value(al) {
				if cst, isC := st.Val.(*ssa.Const); isC && cst.Value == nil {
					continue // zero value of the declaration
				}
				n++
				out = out.and(k.fromDeadlinerC(st.Val, at, depth+1))
			}
		}
		if n > 0 {
			return out
		}
	}
	// result of an in-package helper (`duty, ok := db.nextExpired(ctx)`): every return that reports ok yields a duty
	// received from deadliner.C(), and the use is on the ok edge
	if call, idx, ok := c07resultOf(v); ok {
		h := k.ix.Callee(&call.Call)
		if h == nil {
			return c07Unsure("the trimmed duty is the result of a call that is not followed")
		}
		bis := c07boolResults(h.Signature)
		if len(bis) > 1 {
			return c07Unsure("cannot tell which result of " + an.FuncName(h) + " reports that a duty expired")
		}
		bi := -1
		if len(bis) == 1 {
			bi = bis[0]
			if g, _ := an.Guarded(call, at, an.GuardOpt{BoolIdx: bi, BoolWant: true, NoErr: c07errResult(h.Signature) < 0}); !g {
				bi = -1 // the use does not depend on the ok result: every returned duty must qualify
			}
		}
		out, n := c07Ok(), 0
		for _, r := range an.Returns(h) {
			rv := returnValues(r)
			if idx >= len(rv) {
				continue
			}
			if bi >= 0 {
				if b, isC := c07constBool(rv[bi]); isC && !b {
					continue
				}
			}
			n++
			out = out.and(k.fromDeadlinerC(rv[idx], r, depth+1))
		}
		if n == 0 {
			return c07Unsure(an.FuncName(h) + " never returns an expired duty")
		}
		return out
	}
	return c07Bad("the key is deleted for a duty that was not received from deadliner.C()")
}

// aliasesAfter returns v and the phis that hold v on every path from instruction st (without passing
// block stop, the header of the enclosing loop): phis with v as one edge whose other predecessors
// cannot be reached from st. This is what `a, b, err = f()` into variables declared earlier compiles to.
func c07aliasesAfter(st ssa.Instruction, v ssa.Value, stop *ssa.BasicBlock) []ssa.Value {
	out := []ssa.Value{v}
	avoid := map[*ssa.BasicBlock]bool{}
	if stop != nil {
		avoid[stop] = true
	}
	reach := map[*ssa.BasicBlock]bool{}
	for _, s := range st.Block().Succs {
		for b := range an.ReachBlocks(s, avoid) {
			reach[b] = true
		}
	}
	for i := 0; i < len(out) && i < 8; i++ {
		cur := out[i]
		if cur.Referrers() == nil {
			continue
		}
		for _, ref := range *cur.Referrers() {
			phi, ok := ref.(*ssa.Phi)
			if !ok || !reach[phi.Block()] {
				continue
			}
			good := true
			for j, e := range phi.Edges {
				if e == cur {
					continue
				}
				if p := phi.Block().Preds[j]; reach[p] || p == st.Block() {
					good = false
				}
			}
			dup := false
			for _, o := range out {
				if o == ssa.Value(phi) {
					dup = true
				}
			}
			if good && !dup {
				out = append(out, phi)
			}
		}
	}
	return out
}

// flagsDecided: every branch over a flag variable on the path tests a flag that was assigned on that very
// path (a constant, which the search has followed, or a computed value, which makes the branch an
// ordinary data-dependent one). Only a flag assigned before the start of the path is an imprecision.
func c07flagsDecided(path []*ssa.BasicBlock) bool {
	known := map[*ssa.Phi]bool{}
	for i, b := range path {
		if i > 0 {
			pred := path[i-1]
			for _, in := range b.Instrs {
				p, ok := in.(*ssa.Phi)
				if !ok {
					break
				}
				for j, q := range b.Preds {
					if q != pred || j >= len(p.Edges) {
						continue
					}
					switch e := p.Edges[j].(type) {
					case *ssa.Const:
						known[p] = true
					case *ssa.Phi:
						known[p] = known[e]
					default:
						known[p] = true
					}
					break
				}
			}
		}
		if len(b.Instrs) == 0 || i == len(path)-1 {
			continue
		}
		iff, ok := b.Instrs[len(b.Instrs)-1].(*ssa.If)
		if !ok {
			continue
		}
		cond := an.Resolve(iff.Cond)
		for n := 0; n < 4; n++ {
			if u, ok := cond.(*ssa.UnOp); ok && u.Op == token.NOT {
				cond = an.Resolve(u.X)
			}
		}
		if phi, ok := cond.(*ssa.Phi); ok && len(phi.Edges) > 1 && !known[phi] {
			return false
		}
	}
	return true
}
