package rules

import (
	"go/constant"
	"go/token"
	"go/types"

	"golang.org/x/tools/go/ssa"

	"charonverif/internal/an"
	"charonverif/internal/rt"
)

// N8 (round 5): never early.
//
// The timer case of the event select reports the duty selected by getCurrDuty. That is only "at or after its
// deadline" if the firing of the timer implies that the deadline has passed, i.e. the timer was armed with exactly
// (deadline - now) (or longer), or the timer case compares the selected deadline with the clock before it reports.
// Positive evidence of a break: some timer of the run goroutine is armed with a duration that can be shorter than
// (deadline - now) (a min()/cap with another value, a constant, a shortened or negated difference) and a path
// through the timer case reports without a decided `deadline <= now` comparison.

type c16Dur int

const (
	durUnknown c16Dur = iota
	durExact          // (deadline - now), or something not shorter
	durShort          // can be shorter than (deadline - now)
	durConst          // a constant (judged by the context it is used in)
)

type c16DurCls struct {
	pkgFuncs []*ssa.Function
	seen     map[ssa.Value]bool
	why      string
}

func (k *c16DurCls) short(why string) c16Dur {
	if k.why == "" {
		k.why = why
	}
	return durShort
}

func c16IsNow(v ssa.Value, d int) bool {
	v = an.Resolve(v)
	if isInvokeOf(v, clockT, "Now") {
		return true
	}
	if call, ok := v.(*ssa.Call); ok {
		if f := call.Call.StaticCallee(); f != nil && f.Pkg != nil && f.Pkg.Pkg.Path() == "time" && f.Name() == "Now" {
			return true
		}
	}
	if ld, ok := v.(*ssa.UnOp); ok && ld.Op == token.MUL && d < 3 {
		if al, ok := ld.X.(*ssa.Alloc); ok && !an.AddrEscapes(al) {
			stores := an.AllStores(al)
			for _, st := range stores {
				if !c16IsNow(st.Val, d+1) {
					return false
				}
			}
			return len(stores) > 0
		}
	}
	return false
}

func c16TimeMethod(call *ssa.Call, name string) bool {
	f := call.Call.StaticCallee()
	if f == nil || f.Name() != name || f.Signature.Recv() == nil {
		return false
	}
	return an.TypeName(f.Signature.Recv().Type()) == "time.Time"
}

// guardOf finds the conditional that decides whether control reaches block b (walking up single-predecessor
// chains): the If and whether b lies on its true edge. from is the successor the edge leads to when b itself ends
// with the If (phi edges straight out of the deciding block).
func c16GuardOf(b *ssa.BasicBlock, succ *ssa.BasicBlock) (*ssa.If, bool) {
	if succ != nil && len(b.Instrs) > 0 {
		if ifi, ok := b.Instrs[len(b.Instrs)-1].(*ssa.If); ok && len(b.Succs) == 2 && b.Succs[0] != b.Succs[1] {
			return ifi, b.Succs[0] == succ
		}
	}
	for i := 0; i < 6 && len(b.Preds) == 1; i++ {
		p := b.Preds[0]
		if ifi, ok := p.Instrs[len(p.Instrs)-1].(*ssa.If); ok && len(p.Succs) == 2 && p.Succs[0] != p.Succs[1] {
			return ifi, p.Succs[0] == b
		}
		b = p
	}
	return nil, false
}

// constRole decides what a constant duration chosen in block b (leading to succ) is: a cap (chosen when the
// computed duration exceeds it: the result can be shorter than the computed one), a floor (chosen when the computed
// duration is below it: the result is never shorter), or unknown.
func (k *c16DurCls) constRole(cv *ssa.Const, b, succ *ssa.BasicBlock, d int) c16Dur {
	ifi, onTrue := c16GuardOf(b, succ)
	if ifi == nil {
		return durUnknown
	}
	cmp, ok := ifi.Cond.(*ssa.BinOp)
	if !ok {
		return durUnknown
	}
	op := cmp.Op
	x, y := cmp.X, cmp.Y
	if _, isC := an.Unwrap(x).(*ssa.Const); isC {
		x, y = y, x
		switch op {
		case token.LSS:
			op = token.GTR
		case token.LEQ:
			op = token.GEQ
		case token.GTR:
			op = token.LSS
		case token.GEQ:
			op = token.LEQ
		}
	}
	yc, isC := an.Unwrap(y).(*ssa.Const)
	if !isC || yc.Value == nil || cv.Value == nil {
		return durUnknown
	}
	if !onTrue {
		switch op {
		case token.LSS:
			op = token.GEQ
		case token.LEQ:
			op = token.GTR
		case token.GTR:
			op = token.LEQ
		case token.GEQ:
			op = token.LSS
		default:
			return durUnknown
		}
	}
	// the constant is chosen when (x op yc)
	xk := k.classify(x, d+1)
	if xk != durExact && xk != durShort {
		return durUnknown
	}
	switch op {
	case token.GTR, token.GEQ:
		// chosen when the computed duration is above yc: a cap if the chosen constant is not above the bound
		if constant.Compare(cv.Value, token.LEQ, yc.Value) {
			return k.short("the duration is capped by a constant (the constant replaces a longer wait)")
		}
	case token.LSS, token.LEQ:
		// chosen when the computed duration is below yc: a floor if the constant is not below the bound
		if constant.Compare(cv.Value, token.GEQ, yc.Value) {
			return durExact
		}
		return k.short("a shorter constant replaces the computed wait")
	}
	return durUnknown
}

// combine classifies a value that is one of several alternatives (phi edges, stores into a cell, results of a
// helper); consts are judged by the branch that selects them.
type c16Alt struct {
	v    ssa.Value
	b    *ssa.BasicBlock // block in which the alternative is chosen
	succ *ssa.BasicBlock // for phi edges: the phi's block
}

func (k *c16DurCls) combine(alts []c16Alt, d int) c16Dur {
	if len(alts) == 0 {
		return durUnknown
	}
	out := durExact
	nonConst := 0
	for _, a := range alts {
		kind := durUnknown
		if cv, ok := an.Unwrap(a.v).(*ssa.Const); ok {
			if len(alts) == 1 {
				return durConst
			}
			kind = k.constRole(cv, a.b, a.succ, d)
		} else {
			nonConst++
			kind = k.classify(a.v, d+1)
		}
		switch kind {
		case durShort:
			return durShort
		case durUnknown, durConst:
			out = durUnknown
		}
	}
	if nonConst == 0 {
		return k.short("the timer is armed with constants only (not derived from the selected deadline)")
	}
	return out
}

func (k *c16DurCls) results(fn *ssa.Function, idx int, d int) c16Dur {
	var alts []c16Alt
	for _, r := range an.Returns(fn) {
		rv := returnValues(r)
		if idx >= len(rv) {
			return durUnknown
		}
		alts = append(alts, c16Alt{v: rv[idx], b: r.Block()})
	}
	return k.combine(alts, d)
}

func (k *c16DurCls) classify(v ssa.Value, d int) c16Dur {
	if d > 12 {
		return durUnknown
	}
	v = an.Unwrap(v)
	if k.seen[v] {
		return durUnknown
	}
	k.seen[v] = true
	defer delete(k.seen, v)
	switch x := v.(type) {
	case *ssa.Const:
		return durConst
	case *ssa.Call:
		if b, ok := x.Call.Value.(*ssa.Builtin); ok {
			if b.Name() != "min" && b.Name() != "max" {
				return durUnknown
			}
			derived, all := false, true
			for _, a := range x.Call.Args {
				switch k.classify(a, d+1) {
				case durExact:
					derived = true
				case durShort:
					return durShort
				case durConst:
				default:
					all = false
				}
			}
			if !derived {
				return durUnknown
			}
			if b.Name() == "min" && len(x.Call.Args) > 1 {
				return k.short("the duration is min(deadline - now, ...): bounded by another value")
			}
			if all {
				return durExact // max(deadline - now, c): never shorter
			}
			return durUnknown
		}
		if x.Call.IsInvoke() {
			return durUnknown
		}
		f := x.Call.StaticCallee()
		if f == nil {
			return durUnknown
		}
		if c16TimeMethod(x, "Sub") && len(x.Call.Args) == 2 {
			if c16IsNow(x.Call.Args[0], 0) && !c16IsNow(x.Call.Args[1], 0) {
				return k.short("the duration is (now - deadline) instead of (deadline - now): not positive while the deadline lies ahead")
			}
			return durExact
		}
		if f.Pkg != nil && f.Pkg.Pkg.Path() == "time" && f.Name() == "Until" {
			return durExact
		}
		if len(f.Blocks) > 0 && f.Signature.Results().Len() == 1 {
			return k.results(f, 0, d+1)
		}
		return durUnknown
	case *ssa.Extract:
		if call, ok := x.Tuple.(*ssa.Call); ok {
			if f := call.Call.StaticCallee(); f != nil && len(f.Blocks) > 0 {
				return k.results(f, x.Index, d+1)
			}
		}
		return durUnknown
	case *ssa.Phi:
		var alts []c16Alt
		for i, e := range x.Edges {
			if e == ssa.Value(x) {
				continue
			}
			alts = append(alts, c16Alt{v: e, b: x.Block().Preds[i], succ: x.Block()})
		}
		return k.combine(alts, d)
	case *ssa.BinOp:
		xk := k.classify(x.X, d+1)
		yc, yIsC := an.Unwrap(x.Y).(*ssa.Const)
		if xk == durShort {
			return durShort
		}
		if xk != durExact || !yIsC || yc.Value == nil || yc.Value.Kind() != constant.Int {
			return durUnknown
		}
		sign := constant.Sign(yc.Value)
		switch x.Op {
		case token.ADD:
			if sign >= 0 {
				return durExact
			}
			return k.short("the duration is shortened by a constant")
		case token.SUB:
			if sign <= 0 {
				return durExact
			}
			return k.short("the duration is shortened by a constant")
		case token.QUO:
			if constant.Compare(yc.Value, token.GTR, constant.MakeInt64(1)) {
				return k.short("the duration is a fraction of (deadline - now)")
			}
			if constant.Compare(yc.Value, token.EQL, constant.MakeInt64(1)) {
				return durExact
			}
		}
		return durUnknown
	case *ssa.UnOp:
		if x.Op == token.SUB {
			if k.classify(x.X, d+1) == durExact {
				return k.short("the duration is negated")
			}
			return durUnknown
		}
		if x.Op != token.MUL {
			return durUnknown
		}
		var stores []*ssa.Store
		switch a := x.X.(type) {
		case *ssa.Alloc, *ssa.FreeVar:
			al := c16CellOfValue(a)
			if al == nil || an.AddrEscapes(al) {
				return durUnknown
			}
			stores = an.AllStores(al)
		case *ssa.FieldAddr:
			key := an.FieldKey(a.X.Type(), a.Field)
			for _, fn := range k.pkgFuncs {
				for _, in := range an.Instrs(fn, false) {
					if st, ok := in.(*ssa.Store); ok {
						if fa, ok := st.Addr.(*ssa.FieldAddr); ok && an.FieldKey(fa.X.Type(), fa.Field) == key {
							stores = append(stores, st)
						}
					}
				}
			}
		default:
			return durUnknown
		}
		var alts []c16Alt
		for _, st := range stores {
			alts = append(alts, c16Alt{v: st.Val, b: st.Block()})
		}
		return k.combine(alts, d)
	case *ssa.Parameter:
		fn := x.Parent()
		idx := -1
		for i, p := range fn.Params {
			if p == x {
				idx = i
			}
		}
		if idx < 0 {
			return durUnknown
		}
		if fn.Parent() != nil && an.ClosureStaysLocal(fn) != "" {
			return durUnknown // a function literal that is not only called directly
		}
		var alts []c16Alt
		for _, g := range k.pkgFuncs {
			for _, in := range an.Instrs(g, false) {
				ci, ok := in.(ssa.CallInstruction)
				if !ok || ci.Common().IsInvoke() || idx >= len(ci.Common().Args) {
					continue
				}
				callee := ci.Common().StaticCallee()
				if callee == nil {
					// a call of a function literal held in a local variable
					if mc, isMC := c16ClosureOf(ci.Common().Value); isMC {
						callee = mc
					}
				}
				if callee != fn {
					continue
				}
				alts = append(alts, c16Alt{v: ci.Common().Args[idx], b: in.Block()})
			}
		}
		if len(alts) == 1 {
			return k.classify(alts[0].v, d+1)
		}
		return k.combine(alts, d)
	}
	return durUnknown
}

// c16CellOfValue resolves a local variable's address (Alloc, or the free variable of a function literal bound to
// it) to its Alloc.
func c16CellOfValue(v ssa.Value) *ssa.Alloc {
	return c16VarCell(&an.Sym{Kind: an.KAddr, V: v})
}

func c16TimerNeverEarly(c *rt.Ctx, agg *h1617Agg, pkgFuncs []*ssa.Function, actor map[*ssa.Function]bool, iters []c16Iter, tmIdx int,
	isDeadlineChan func(*an.Sym) bool, isSelectedDeadline func(*an.Sym) bool) {
	// (B) the timer case: does every reporting path decide `selected deadline <= now` first?
	reports, rechecked, tests := 0, 0, 0
	var firstSend ssa.Instruction
	for _, it := range iters {
		if it.sel.Chosen != tmIdx {
			continue
		}
		evs := it.p.Evs
		sendAt := -1
		for i := it.selPos + 1; i < len(evs) && sendAt < 0; i++ {
			e := evs[i]
			switch e.Kind {
			case "send":
				if isDeadlineChan(e.Args[0]) {
					sendAt = i
				}
			case "select":
				for _, st := range e.States {
					if st.Dir == types.SendOnly && isDeadlineChan(st.Chan) {
						sendAt = i
					}
				}
			}
		}
		if sendAt < 0 {
			continue
		}
		reports++
		if firstSend == nil {
			firstSend = evs[sendAt].In
		}
		idx := h1617Index(it.p)
		isFreshNow := func(s *an.Sym) bool {
			if s == nil || s.Kind != an.KOpaque || s.ID == 0 || !isInvokeOf(s.V, clockT, "Now") {
				return false
			}
			at, ok := idx[s]
			return ok && at > it.selPos
		}
		ok, tested := false, false
		for _, f := range append(lessFacts(it.p), equalFacts(it.p)...) {
			if f.pos <= it.selPos || f.pos >= sendAt {
				continue
			}
			switch {
			case isSelectedDeadline(f.x) && isFreshNow(f.y):
				tested = true
				ok = ok || f.truth // deadline before (or equal to) now
			case isFreshNow(f.x) && isSelectedDeadline(f.y):
				tested = true
				ok = ok || !f.truth // now not before the deadline
			}
		}
		if ok {
			rechecked++
		}
		if tested {
			tests++
		}
	}
	// (A) every arming of a timer by the run goroutine
	n := 0
	for _, fn := range pkgFuncs {
		top := fn
		for top.Parent() != nil {
			top = top.Parent()
		}
		if !actor[fn] && !actor[top] {
			continue
		}
		for _, in := range an.Instrs(fn, false) {
			call, ok := in.(*ssa.Call)
			if !ok {
				continue
			}
			var dur ssa.Value
			switch {
			case isInvokeOf(call, clockT, "NewTimer"), isInvokeOf(call, clockT, "After"), isInvokeOf(call, timerT, "Reset"):
				dur = call.Call.Args[0]
			case isInvokeOf(call, clockT, "AfterFunc"):
				dur = call.Call.Args[0]
			default:
				continue
			}
			n++
			what := an.FuncName(fn) + " timer armed with (deadline - now) or re-checked on firing"
			k := &c16DurCls{pkgFuncs: pkgFuncs, seen: map[ssa.Value]bool{}}
			kind := k.classify(dur, 0)
			if kind == durConst {
				kind = k.short("the timer is armed with a constant duration (not derived from the selected deadline)")
			}
			switch {
			case kind == durExact:
				agg.ok(what, call.Pos())
			case reports == 0:
				agg.unsure(what, call.Pos(), "no path through the timer case reporting on the expiry channel was found")
			case rechecked == reports:
				agg.ok(what, call.Pos()) // the firing branch decides deadline <= now itself
			case kind == durShort && tests == 0:
				agg.bad(what, call.Pos(), "the timer can fire before the selected duty's deadline ("+k.why+") and the timer case reports the selected duty without comparing its deadline with the clock: "+
					"a duty whose deadline lies further ahead than the bounded wait is reported before its deadline (and removed, so it is not reported at its deadline)")
			case kind == durShort:
				agg.unsure(what, call.Pos(), "the timer can fire before the selected duty's deadline ("+k.why+"); the timer case tests the deadline against the clock but not on every reporting path in a recognised form")
			default:
				agg.unsure(what, call.Pos(), "cannot determine the duration the timer is armed with and the timer case does not re-check the selected deadline against the clock")
			}
		}
	}
	if n == 0 {
		c.Bail("run: no timer is armed (clock.NewTimer / Timer.Reset) in the run goroutine")
	}
	_ = firstSend
}

// c16ClosureOf resolves a called value to the function literal it holds (directly, or through a local variable
// every assignment of which is that literal).
func c16ClosureOf(v ssa.Value) (*ssa.Function, bool) {
	v = an.Resolve(v)
	if mc, ok := v.(*ssa.MakeClosure); ok {
		f, ok := mc.Fn.(*ssa.Function)
		return f, ok
	}
	if f, ok := v.(*ssa.Function); ok {
		return f, true
	}
	if ld, ok := v.(*ssa.UnOp); ok && ld.Op == token.MUL {
		if al := c16CellOfValue(ld.X); al != nil && !an.AddrEscapes(al) {
			var out *ssa.Function
			for _, st := range an.AllStores(al) {
				f, ok := c16ClosureOf(st.Val)
				if !ok || (out != nil && out != f) {
					return nil, false
				}
				out = f
			}
			return out, out != nil
		}
	}
	return nil, false
}
