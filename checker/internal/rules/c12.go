package rules

import (
	"go/ast"
	"go/constant"
	"go/token"
	"go/types"
	"reflect"
	"sort"
	"strings"

	"golang.org/x/tools/go/packages"
	"golang.org/x/tools/go/ssa"

	"charonverif/internal/an"
	"charonverif/internal/rt"
)

func init() {
	Register(&Prop{
		ID: "C12",
		Decides: "package cluster / cmd/combine: (L1) every field of Definition/Operator/Creator/ValidatorAddresses/Lock/DistValidator/DepositData/BuilderRegistration/Registration " +
			"carries a hash tag, and every field whose tag is not `-` flows into an SSZ hasher call in the current-version hash functions, on the configOnly edge its config_hash tag states; " +
			"(L2) per format version the fields written by marshal*V* are covered by the hash function dispatched for that version (or verified by comparison/signature) and are exactly the fields restored by unmarshal*V*; " +
			"(L3) VerifyHashes/VerifySignatures return nil only after every hash comparison and signature/share check succeeded, with the frozen early exits, and every version switch covers supportedVersions; " +
			"(L4) Combine stores a recombined secret only after comparing its public key with the lock's validator key; (L5) the loaders ignore a verification error only under the no-verify flag; " +
			"(L6) each EIP-712 digest verified in Definition.VerifySignatures is built from the type and the operator it is checked for, and each ValueFunc reads the field it names.",
		NotDecided: "that a freshly created cluster passes verification; recombination for every cluster shape; value-level tamper evidence (every representative alteration changes the hash); " +
			"byte-level stability of decode∘encode; all BLS/secp256k1 algebra.",
		Run:     c12,
		Mutants: c12Mutants,
	})
}

const (
	c12P      = "cluster."
	c12HashWk = "github.com/ferranbt/fastssz"
)

func c12(c *rt.Ctx) {
	c12L1(c)
	c12L2(c)
	c12L3(c)
	c12L4(c)
	c12L5(c)
	c12L6(c)
}

// ---------------------------------------------------------------------------------------------
// Generic helpers

func c12FieldName(t types.Type, idx int) string {
	if p, ok := t.Underlying().(*types.Pointer); ok {
		t = p.Elem()
	}
	st, ok := t.Underlying().(*types.Struct)
	if !ok || idx >= st.NumFields() {
		return "?"
	}
	return st.Field(idx).Name()
}

// c12Path resolves a value to (root, field path): loads, field selections, element selections and
// single-assignment spilled locals are looked through. ".Definition.Version", ".Validators[].PubKey".
func c12Path(v ssa.Value) (ssa.Value, string) {
	path := ""
	for i := 0; i < 48; i++ {
		v = an.Unwrap(v)
		switch x := v.(type) {
		case *ssa.UnOp:
			if x.Op != token.MUL {
				return v, path
			}
			v = x.X
		case *ssa.FieldAddr:
			path = "." + c12FieldName(x.X.Type(), x.Field) + path
			v = x.X
		case *ssa.Field:
			path = "." + c12FieldName(x.X.Type(), x.Field) + path
			v = x.X
		case *ssa.IndexAddr:
			path = "[]" + path
			v = x.X
		case *ssa.Index:
			path = "[]" + path
			v = x.X
		case *ssa.Alloc:
			src := an.UniqueStore(x)
			if src == nil {
				return v, path
			}
			v = src
		default:
			return v, path
		}
	}
	return v, path
}

// c12From reports whether v is the value at the field path below root.
func c12From(v, root ssa.Value, path string) bool {
	r, p := c12Path(v)
	return r == root && p == path
}

// c12IndexOf returns the index operand of the (single) element selection on v's path.
func c12IndexOf(v ssa.Value) ssa.Value {
	for i := 0; i < 48; i++ {
		v = an.Unwrap(v)
		switch x := v.(type) {
		case *ssa.UnOp:
			if x.Op != token.MUL {
				return nil
			}
			v = x.X
		case *ssa.FieldAddr:
			v = x.X
		case *ssa.Field:
			v = x.X
		case *ssa.IndexAddr:
			return x.Index
		case *ssa.Index:
			return x.Index
		case *ssa.Alloc:
			src := an.UniqueStore(x)
			if src == nil {
				return nil
			}
			v = src
		default:
			return nil
		}
	}
	return nil
}

// c12Result0 returns the call whose result #idx v is (through spilled locals).
func c12ResultOf(v ssa.Value, idx int) *ssa.Call {
	v = an.Resolve(v)
	if ex, ok := v.(*ssa.Extract); ok && ex.Index == idx {
		call, _ := ex.Tuple.(*ssa.Call)
		return call
	}
	if call, ok := v.(*ssa.Call); ok && idx == 0 && call.Call.Signature().Results().Len() == 1 {
		return call
	}
	return nil
}

// c12SliceOfResult: v is `x[:]` of a local array holding result #0 of call.
func c12SliceOfResult(v ssa.Value, call ssa.CallInstruction) bool {
	sl, ok := an.Unwrap(v).(*ssa.Slice)
	if !ok || sl.Low != nil || sl.High != nil {
		return false
	}
	al, ok := sl.X.(*ssa.Alloc)
	if !ok {
		return false
	}
	src := an.UniqueStore(al)
	if src == nil {
		return false
	}
	got := c12ResultOf(src, 0)
	return got != nil && ssa.Instruction(got) == call.(ssa.Instruction)
}

func c12LenOf(v ssa.Value) ssa.Value {
	if call, ok := an.Unwrap(v).(*ssa.Call); ok {
		if b, ok := call.Call.Value.(*ssa.Builtin); ok && b.Name() == "len" && len(call.Call.Args) == 1 {
			return call.Call.Args[0]
		}
	}
	return nil
}

func c12ConstStr(v ssa.Value) (string, bool) {
	k, ok := an.Unwrap(v).(*ssa.Const)
	if !ok || k.Value == nil || k.Value.Kind() != constant.String {
		return "", false
	}
	return constant.StringVal(k.Value), true
}

func c12ConstBool(v ssa.Value) (bool, bool) {
	k, ok := an.Unwrap(v).(*ssa.Const)
	if !ok || k.Value == nil || k.Value.Kind() != constant.Bool {
		return false, false
	}
	return constant.BoolVal(k.Value), true
}

// c12Br is one decided branch: blk ends in the If, fail is the successor taken when the check fails.
type c12Br struct {
	blk  *ssa.BasicBlock
	fail *ssa.BasicBlock
	pass *ssa.BasicBlock
}

// c12Status returns, per status value of call (error result and, if boolIdx >= 0, the boolean
// result that must equal want), the branches on it that are dominated by the call.
func c12Status(call ssa.CallInstruction, boolIdx int, want bool) ([][]c12Br, string) {
	fn := call.Parent()
	errs, boolv := an.StatusOf(call, boolIdx)
	res := call.Common().Signature().Results()
	hasErr := false
	for i := 0; i < res.Len(); i++ {
		if an.IsErrorType(res.At(i).Type()) {
			hasErr = true
		}
	}
	if hasErr && len(errs) == 0 {
		return nil, "error result is discarded"
	}
	if boolIdx >= 0 && boolv == nil {
		return nil, "boolean result is discarded"
	}
	var out [][]c12Br
	for _, e := range errs {
		var brs []c12Br
		for _, cd := range an.CondsOn(fn, e) {
			if cd.Other == nil || !an.IsNilConst(cd.Other) || !an.Dominates(call, cd.If) {
				continue
			}
			switch cd.Op {
			case token.NEQ:
				brs = append(brs, c12Br{cd.If.Block(), cd.Succ(true), cd.Succ(false)})
			case token.EQL:
				brs = append(brs, c12Br{cd.If.Block(), cd.Succ(false), cd.Succ(true)})
			}
		}
		if len(brs) == 0 {
			return nil, "error result is never compared with nil"
		}
		out = append(out, brs)
	}
	if boolIdx >= 0 {
		var brs []c12Br
		for _, cd := range an.CondsOn(fn, boolv) {
			if cd.Other != nil || !an.Dominates(call, cd.If) {
				continue
			}
			brs = append(brs, c12Br{cd.If.Block(), cd.Succ(!want), cd.Succ(want)})
		}
		if len(brs) == 0 {
			return nil, "boolean result is never branched on"
		}
		out = append(out, brs)
	}
	return out, ""
}

func c12Avoid(base map[*ssa.BasicBlock]bool, more ...*ssa.BasicBlock) map[*ssa.BasicBlock]bool {
	out := map[*ssa.BasicBlock]bool{}
	for b := range base {
		out[b] = true
	}
	for _, b := range more {
		out[b] = true
	}
	return out
}

// c12Reach: is `to` reachable from the top of `from` without entering avoid (from itself exempt from
// the avoid test only when it is not in avoid).
func c12Reach(from, to *ssa.BasicBlock, avoid map[*ssa.BasicBlock]bool) bool {
	if avoid[from] {
		return false
	}
	if from == to {
		return true
	}
	return an.CanReach(from, to, avoid)
}

// c12SuccReach: can control leaving block b reach `to` (b itself may be `to`: a real cycle is needed).
func c12SuccReach(b, to *ssa.BasicBlock, avoid map[*ssa.BasicBlock]bool) bool {
	for _, s := range b.Succs {
		if c12Reach(s, to, avoid) {
			return true
		}
	}
	return false
}

// c12MustBr: every path from `from` to `to` (avoiding the exempt blocks) passes the branch and its
// failing edge never reaches `to`.
func c12MustBr(from, to *ssa.BasicBlock, br c12Br, exempt map[*ssa.BasicBlock]bool) (bool, string) {
	if c12Reach(from, to, c12Avoid(exempt, br.blk)) && from != br.blk {
		return false, "a path reaches the successful return without passing the check"
	}
	if c12Reach(br.fail, to, c12Avoid(nil, br.blk)) {
		return false, "the failing edge of the check still reaches the successful return"
	}
	return true, ""
}

// c12MustCall: the call's status branches are mandatory on every path from `from` to `to`.
func c12MustCall(from, to *ssa.BasicBlock, call ssa.CallInstruction, boolIdx int, want bool, exempt map[*ssa.BasicBlock]bool) (bool, string) {
	sts, why := c12Status(call, boolIdx, want)
	if why != "" {
		return false, why
	}
	for _, brs := range sts {
		ok, last := false, ""
		for _, br := range brs {
			if g, w := c12MustBr(from, to, br, exempt); g {
				ok = true
			} else {
				last = w
			}
		}
		if !ok {
			return false, last
		}
	}
	return true, ""
}

// c12IterMust: in loop l every iteration that reaches the next iteration (or the loop exit towards
// `after`) passes the call's status branches, except through the exempt blocks.
func c12IterMustBr(l *an.Loop, br c12Br, exempt map[*ssa.BasicBlock]bool, after *ssa.BasicBlock) (bool, string) {
	if !l.Body[br.blk] {
		return false, "check is outside the loop"
	}
	av := c12Avoid(exempt, br.blk)
	// start of an iteration: the in-loop successors of the header (or the header itself for rotated loops)
	starts := c12IterStarts(l)
	for _, s := range starts {
		if s == br.blk {
			continue
		}
		for _, la := range l.Latches {
			if la == br.blk {
				continue
			}
			if c12ReachIn(l, s, la, av) {
				return false, "an iteration can complete without passing the check"
			}
		}
	}
	if l.Body[br.fail] {
		return false, "the failing edge of the check stays in the loop"
	}
	if after != nil {
		if c12Reach(br.fail, after, c12Avoid(nil, br.blk)) {
			return false, "the failing edge of the check still reaches the successful continuation"
		}
		for _, s := range starts {
			if s != br.blk && c12Reach(s, after, av) {
				return false, "an iteration can leave the loop towards the successful continuation without passing the check"
			}
		}
	}
	return true, ""
}

// c12IterStarts returns the blocks at which an iteration's body starts.
func c12IterStarts(l *an.Loop) []*ssa.BasicBlock {
	// classic form: header ends in the loop condition and has one in-loop successor
	if iff, ok := l.Header.Instrs[len(l.Header.Instrs)-1].(*ssa.If); ok {
		_ = iff
		in, out := 0, 0
		var first *ssa.BasicBlock
		for _, s := range l.Header.Succs {
			if l.Body[s] {
				in++
				first = s
			} else {
				out++
			}
		}
		if in == 1 && out == 1 && first != l.Header {
			// header is the pure condition block only if it holds nothing but phis, index arithmetic and the test
			return []*ssa.BasicBlock{first}
		}
	}
	return []*ssa.BasicBlock{l.Header}
}

func c12ReachIn(l *an.Loop, from, to *ssa.BasicBlock, avoid map[*ssa.BasicBlock]bool) bool {
	seen := map[*ssa.BasicBlock]bool{}
	var walk func(b *ssa.BasicBlock) bool
	walk = func(b *ssa.BasicBlock) bool {
		if seen[b] || avoid[b] || !l.Body[b] {
			return false
		}
		if b == to {
			return true
		}
		seen[b] = true
		for _, s := range b.Succs {
			if s == l.Header {
				continue // next iteration
			}
			if walk(s) {
				return true
			}
		}
		return false
	}
	return walk(from)
}

func c12IterMustCall(l *an.Loop, call ssa.CallInstruction, boolIdx int, want bool, exempt map[*ssa.BasicBlock]bool, after *ssa.BasicBlock) (bool, string) {
	sts, why := c12Status(call, boolIdx, want)
	if why != "" {
		return false, why
	}
	for _, brs := range sts {
		ok, last := false, ""
		for _, br := range brs {
			if g, w := c12IterMustBr(l, br, exempt, after); g {
				ok = true
			} else {
				last = w
			}
		}
		if !ok {
			return false, last
		}
	}
	return true, ""
}

// c12SuccessReturns lists the returns of fn whose error result can be nil: constant nil, or a value
// that is neither freshly constructed by errors.New/Wrap nor known non-nil from a dominating test.
func c12SuccessReturns(fn *ssa.Function) []*ssa.Return {
	var out []*ssa.Return
	for _, r := range an.Returns(fn) {
		if len(r.Results) == 0 {
			continue
		}
		v := r.Results[len(r.Results)-1]
		if !an.IsErrorType(v.Type()) {
			continue
		}
		if !c12NonNil(fn, v, r.Block(), 0) {
			out = append(out, r)
		}
	}
	return out
}

func c12NonNil(fn *ssa.Function, v ssa.Value, at *ssa.BasicBlock, d int) bool {
	if d > 4 {
		return false
	}
	if an.IsNilConst(v) {
		return false
	}
	if call, ok := v.(*ssa.Call); ok {
		n := an.CalleeName(&call.Call)
		if n == "app/errors.New" || n == "app/errors.Wrap" {
			return true
		}
	}
	for _, cd := range an.CondsOn(fn, v) {
		if cd.Other == nil || !an.IsNilConst(cd.Other) {
			continue
		}
		var nn *ssa.BasicBlock
		switch cd.Op {
		case token.NEQ:
			nn = cd.Succ(true)
		case token.EQL:
			nn = cd.Succ(false)
		default:
			continue
		}
		if (nn == at || nn.Dominates(at)) && len(nn.Preds) == 1 {
			return true
		}
	}
	if phi, ok := v.(*ssa.Phi); ok {
		for _, e := range phi.Edges {
			if !c12NonNil(fn, e, at, d+1) {
				return false
			}
		}
		return true
	}
	return false
}

// c12DomBy: b is the block s or dominated by it, and s is entered only through that edge.
func c12DomBy(s, b *ssa.BasicBlock) bool {
	return (s == b || s.Dominates(b)) && len(s.Preds) == 1
}

func c12OneCall(c *rt.Ctx, fn *ssa.Function, m an.Matcher, pred func(ssa.CallInstruction) bool) ssa.CallInstruction {
	var got []ssa.CallInstruction
	for _, ci := range an.Calls(fn, m, false) {
		if pred == nil || pred(ci) {
			got = append(got, ci)
		}
	}
	if len(got) != 1 {
		return nil
	}
	return got[0]
}

func c12Sorted(m map[string]bool) []string {
	var out []string
	for k := range m {
		out = append(out, k)
	}
	sort.Strings(out)
	return out
}

var _ = strings.Join

// ---------------------------------------------------------------------------------------------
// L3 — verification functions return nil only after every check

func c12Recv(fn *ssa.Function) ssa.Value { return fn.Params[0] }

// c12VersionCall: call is isAnyVersion(<version at path below root>, exactly the given constants).
func c12IsAnyVersion(call *ssa.Call, root ssa.Value, path string, want ...string) bool {
	if !an.Static("cluster.isAnyVersion")(&call.Call) || len(call.Call.Args) != 2 || !c12From(call.Call.Args[0], root, path) {
		return false
	}
	vs, ok := c12VersionsOf(call)
	if !ok || len(vs) != len(want) {
		return false
	}
	set := map[string]bool{}
	for _, v := range vs {
		set[v] = true
	}
	for _, w := range want {
		if !set[w] {
			return false
		}
	}
	return true
}

// c12VersionsOf decodes the constant variadic version list of an isAnyVersion call.
func c12VersionsOf(call *ssa.Call) ([]string, bool) {
	if len(call.Call.Args) != 2 {
		return nil, false
	}
	sl, ok := call.Call.Args[1].(*ssa.Slice)
	if !ok {
		return nil, false
	}
	al, ok := sl.X.(*ssa.Alloc)
	if !ok {
		return nil, false
	}
	arr, ok := al.Type().Underlying().(*types.Pointer).Elem().Underlying().(*types.Array)
	if !ok {
		return nil, false
	}
	var out []string
	for _, ref := range *al.Referrers() {
		ia, ok := ref.(*ssa.IndexAddr)
		if !ok {
			continue
		}
		for _, r2 := range *ia.Referrers() {
			st, ok := r2.(*ssa.Store)
			if !ok || st.Addr != ssa.Value(ia) {
				continue
			}
			s, ok := c12ConstStr(st.Val)
			if !ok {
				return nil, false
			}
			out = append(out, s)
		}
	}
	if int64(len(out)) != arr.Len() {
		return nil, false
	}
	sort.Strings(out)
	return out, true
}

// c12CondTrueDom: v is branched on and the edge on which `v` has truth `want` dominates block b.
func c12BoolEdgeDom(fn *ssa.Function, v ssa.Value, want bool, b *ssa.BasicBlock) bool {
	for _, cd := range an.CondsOn(fn, v) {
		if cd.Other == nil && c12DomBy(cd.Succ(want), b) {
			return true
		}
	}
	return false
}

// c12CmpConds returns the branches comparing x (selected by isX) with a constant/other operand (selected by isY)
// as (If block, successor when equal, successor when unequal).
type c12Cmp struct {
	blk, eq, ne *ssa.BasicBlock
	op          token.Token
	x, y        ssa.Value
}

func c12Cmps(fn *ssa.Function, isX, isY func(ssa.Value) bool) []c12Cmp {
	var out []c12Cmp
	for _, b := range fn.Blocks {
		iff, ok := b.Instrs[len(b.Instrs)-1].(*ssa.If)
		if !ok {
			continue
		}
		neg := false
		cond := iff.Cond
		for {
			u, ok := cond.(*ssa.UnOp)
			if !ok || u.Op != token.NOT {
				break
			}
			neg = !neg
			cond = u.X
		}
		bin, ok := cond.(*ssa.BinOp)
		if !ok {
			continue
		}
		x, y := bin.X, bin.Y
		op := bin.Op
		if !(isX(x) && isY(y)) {
			if isX(y) && isY(x) {
				x, y = y, x
				switch op {
				case token.LSS:
					op = token.GTR
				case token.GTR:
					op = token.LSS
				case token.LEQ:
					op = token.GEQ
				case token.GEQ:
					op = token.LEQ
				}
			} else {
				continue
			}
		}
		t, f := b.Succs[0], b.Succs[1]
		if neg {
			t, f = f, t
		}
		cm := c12Cmp{blk: b, op: op, x: x, y: y}
		switch op {
		case token.EQL:
			cm.eq, cm.ne = t, f
		case token.NEQ:
			cm.eq, cm.ne = f, t
		default:
			cm.eq, cm.ne = t, f // for ordered comparisons: eq = condition true, ne = condition false
		}
		out = append(out, cm)
	}
	return out
}

func c12IsZero(v ssa.Value) bool { n, ok := an.ConstInt(v); return ok && n == 0 }
func c12IsEmptyStr(v ssa.Value) bool {
	s, ok := c12ConstStr(v)
	return ok && s == ""
}

// c12EmptyEdge: blocks in which the value at root+path is known empty (== "" or len == 0): returns a
// predicate "block b is dominated by the `empty` edge of such a test".
func c12EmptyDom(fn *ssa.Function, root ssa.Value, path string, isLen bool) func(b *ssa.BasicBlock) bool {
	var cms []c12Cmp
	if isLen {
		cms = c12Cmps(fn, func(v ssa.Value) bool { x := c12LenOf(v); return x != nil && c12From(x, root, path) }, c12IsZero)
	} else {
		cms = c12Cmps(fn, func(v ssa.Value) bool { return c12From(v, root, path) }, c12IsEmptyStr)
	}
	return func(b *ssa.BasicBlock) bool {
		for _, cm := range cms {
			if (cm.op == token.EQL || cm.op == token.NEQ) && c12DomBy(cm.eq, b) {
				return true
			}
		}
		return false
	}
}

func c12L3(c *rt.Ctx) {
	c.Rule("L3", 37, func() {
		c12DefVerifyHashes(c)
		c12LockVerifyHashes(c)
		c12LockVerifySigs(c)
		c12DefVerifySigs(c)
		c12VersionCoverage(c)
	})
}

func c12HashCompare(c *rt.Ctx, fn *ssa.Function, r *ssa.Return, what string, hashCall ssa.CallInstruction, field string) {
	name := an.FuncName(fn)
	entry := fn.Blocks[0]
	if hashCall == nil {
		c.Bad(name+" recompute "+what, posOf(r), "no (unique) recomputation of the "+what+" from the receiver")
		return
	}
	ok, why := c12MustCall(entry, r.Block(), hashCall, -1, false, nil)
	c.Check(name+" recompute "+what, hashCall.Pos(), ok, "recomputation of the "+what+": "+why)
	eq := c12OneCall(c, fn, an.Static("bytes.Equal"), func(ci ssa.CallInstruction) bool {
		a := ci.Common().Args
		return len(a) == 2 && ((c12From(a[0], c12Recv(fn), field) && c12SliceOfResult(a[1], hashCall)) ||
			(c12From(a[1], c12Recv(fn), field) && c12SliceOfResult(a[0], hashCall)))
	})
	if eq == nil {
		c.Bad(name+" compare "+what, posOf(r), "no bytes.Equal between the stored "+field+" and the recomputed "+what)
		return
	}
	ok, why = c12MustCall(entry, r.Block(), eq, 0, true, nil)
	c.Check(name+" compare "+what, eq.Pos(), ok, "comparison of stored and recomputed "+what+": "+why)
}

func c12DefVerifyHashes(c *rt.Ctx) {
	fn := c.Fn("cluster.Definition.VerifyHashes")
	rets := c12SuccessReturns(fn)
	if len(rets) == 0 {
		c.Bail("Definition.VerifyHashes has no successful return")
	}
	for _, r := range rets {
		for _, cfg := range []bool{true, false} {
			what, field := "definition hash", ".DefinitionHash"
			if cfg {
				what, field = "config hash", ".ConfigHash"
			}
			h := c12OneCall(c, fn, an.Static("cluster.hashDefinition"), func(ci ssa.CallInstruction) bool {
				a := ci.Common().Args
				b, ok := c12ConstBool(a[1])
				return ok && b == cfg && c12From(a[0], c12Recv(fn), "")
			})
			c12HashCompare(c, fn, r, what, h, field)
		}
	}
}

func c12LockVerifyHashes(c *rt.Ctx) {
	fn := c.Fn("cluster.Lock.VerifyHashes")
	rets := c12SuccessReturns(fn)
	if len(rets) == 0 {
		c.Bail("Lock.VerifyHashes has no successful return")
	}
	for _, r := range rets {
		dv := c12OneCall(c, fn, an.Static("cluster.Definition.VerifyHashes"), func(ci ssa.CallInstruction) bool {
			return c12From(ci.Common().Args[0], c12Recv(fn), ".Definition")
		})
		if dv == nil {
			c.Bad("cluster.Lock.VerifyHashes definition hashes", posOf(r), "Definition.VerifyHashes is not called on the embedded definition")
		} else {
			ok, why := c12MustCall(fn.Blocks[0], r.Block(), dv, -1, false, nil)
			c.Check("cluster.Lock.VerifyHashes definition hashes", dv.Pos(), ok, "Definition.VerifyHashes: "+why)
		}
		h := c12OneCall(c, fn, an.Static("cluster.hashLock"), func(ci ssa.CallInstruction) bool {
			return c12From(ci.Common().Args[0], c12Recv(fn), "")
		})
		c12HashCompare(c, fn, r, "lock hash", h, ".LockHash")
	}
}

func c12LockVerifySigs(c *rt.Ctx) {
	fn := c.Fn("cluster.Lock.VerifySignatures")
	name := "cluster.Lock.VerifySignatures"
	recv := c12Recv(fn)
	entry := fn.Blocks[0]
	rets := c12SuccessReturns(fn)
	if len(rets) == 0 {
		c.Bail("Lock.VerifySignatures has no successful return")
	}
	emptyAgg := c12EmptyDom(fn, recv, ".SignatureAggregate", true)
	need := func(r *ssa.Return, what string, call ssa.CallInstruction, boolIdx int) {
		if call == nil {
			c.Bad(name+" "+what, posOf(r), "no (unique) call performing this check on the receiver")
			return
		}
		if cv := call.Value(); cv != nil && len(r.Results) == 1 && r.Results[0] == ssa.Value(cv) {
			c.Good(name+" "+what, call.Pos(), "result returned to the caller")
			return
		}
		ok, why := c12MustCall(entry, r.Block(), call, boolIdx, true, nil)
		c.Check(name+" "+what, call.Pos(), ok, what+": "+why)
	}
	defSigs := c12OneCall(c, fn, an.Static("cluster.Definition.VerifySignatures"), func(ci ssa.CallInstruction) bool {
		return c12From(ci.Common().Args[0], recv, ".Definition")
	})
	for _, r := range rets {
		// frozen early exit: locks of v1.0/v1.1 were created without an aggregate signature
		if emptyAgg(r.Block()) {
			okv := false
			for _, in := range an.Instrs(fn, false) {
				if call, ok := in.(*ssa.Call); ok && c12IsAnyVersion(call, recv, ".Definition.Version", "v1.0.0", "v1.1.0") &&
					c12BoolEdgeDom(fn, call, true, r.Block()) {
					okv = true
				}
			}
			c.Check(name+" early-exit empty-aggregate", posOf(r), okv, "nil is returned for an empty SignatureAggregate outside the v1.0/v1.1 exemption")
			need(r, "early-exit definition signatures", defSigs, -1)
			continue
		}
		need(r, "definition signatures", defSigs, -1)
		// the per-validator loop
		var loop *an.Loop
		for _, l := range an.Loops(fn) {
			if coll := l.RangeColl(); coll != nil && c12From(coll, recv, ".Validators") {
				loop = l
			}
		}
		if loop == nil {
			c.Bad(name+" validator loop", posOf(r), "no loop over l.Validators")
			continue
		}
		onAll := !c12Reach(entry, r.Block(), c12Avoid(nil, loop.Header))
		c.Check(name+" validator loop", posOf(loop.Header.Instrs[0]), onAll, "the successful return can be reached without the per-validator checks")
		iter := func(what string, call ssa.CallInstruction) {
			if call == nil {
				c.Bad(name+" per-validator "+what, posOf(r), "no (unique) call performing this check on the validator being iterated")
				return
			}
			ok, why := c12IterMustCall(loop, call, -1, true, nil, r.Block())
			c.Check(name+" per-validator "+what, call.Pos(), ok, what+": "+why)
		}
		elem := func(v ssa.Value, path string) bool {
			_, p := c12Path(v)
			return loop.ElemOf(v) && p == ".Validators[]"+path
		}
		// share count
		var cnt *c12Cmp
		for _, cm := range c12Cmps(fn, func(v ssa.Value) bool { x := c12LenOf(v); return x != nil && elem(x, ".PubShares") },
			func(v ssa.Value) bool { x := c12LenOf(v); return x != nil && c12From(x, recv, ".Definition.Operators") }) {
			if cm.op == token.EQL || cm.op == token.NEQ {
				cm := cm
				cnt = &cm
			}
		}
		if cnt == nil {
			c.Bad(name+" per-validator share count", posOf(r), "no comparison of len(val.PubShares) with len(l.Operators)")
		} else {
			ok, why := c12IterMustBr(loop, c12Br{cnt.blk, cnt.ne, cnt.eq}, nil, r.Block())
			c.Check(name+" per-validator share count", posOf(cnt.blk.Instrs[len(cnt.blk.Instrs)-1]), ok, "share count: "+why)
		}
		dvKey := c12OneCall(c, fn, an.Static("tbls/tblsconv.PubkeyFromBytes"), func(ci ssa.CallInstruction) bool { return elem(ci.Common().Args[0], ".PubKey") })
		iter("group key parse", dvKey)
		// duplicate group key
		dup := false
		why := "no duplicate test of the group public key"
		if dvKey != nil {
			for _, in := range an.Instrs(fn, false) {
				lk, ok := in.(*ssa.Lookup)
				if !ok || !lk.CommaOk || c12ResultOf(lk.Index, 0) != dvKey.(*ssa.Call) {
					continue
				}
				mk, isMake := lk.X.(*ssa.MakeMap)
				if !isMake || loop.Body[mk.Block()] {
					why = "the seen-set is not one map created before the loop"
					continue
				}
				for _, ref := range *lk.Referrers() {
					ex, ok := ref.(*ssa.Extract)
					if !ok || ex.Index != 1 {
						continue
					}
					for _, cd := range an.CondsOn(fn, ex) {
						if cd.Other != nil {
							continue
						}
						g, w := c12IterMustBr(loop, c12Br{cd.If.Block(), cd.Succ(true), cd.Succ(false)}, nil, r.Block())
						if !g {
							why = w
							continue
						}
						// the key is recorded on every passing iteration
						rec := false
						for _, up := range mapUpdates(fn, func(m ssa.Value) bool { return m == ssa.Value(mk) }) {
							if c12ResultOf(up.Key, 0) == dvKey.(*ssa.Call) && loop.Body[up.Block()] {
								rec = c12BlockOnEveryIter(loop, up.Block())
							}
						}
						if rec {
							dup = true
						} else {
							why = "the group key is not recorded in the seen-set on every iteration"
						}
					}
				}
			}
		}
		c.Check(name+" per-validator duplicate key", posOf(r), dup, why)
		parse := c12OneCall(c, fn, an.Static("cluster.parsePubShares"), func(ci ssa.CallInstruction) bool { return elem(ci.Common().Args[0], ".PubShares") })
		iter("public share parse/duplicates", parse)
		var recon ssa.CallInstruction
		if parse != nil && dvKey != nil {
			recon = c12OneCall(c, fn, an.Static("cluster.verifySharesReconstruct"), func(ci ssa.CallInstruction) bool {
				a := ci.Common().Args
				return c12ResultOf(a[0], 0) == dvKey.(*ssa.Call) && c12ResultOf(a[1], 0) == parse.(*ssa.Call) && c12From(a[2], recv, ".Definition.Threshold")
			})
		}
		iter("share reconstruction", recon)
		// aggregate signature over the recomputed lock hash with exactly the verified shares
		h := c12OneCall(c, fn, an.Static("cluster.hashLock"), func(ci ssa.CallInstruction) bool { return c12From(ci.Common().Args[0], recv, "") })
		need(r, "lock hash", h, -1)
		sig := c12OneCall(c, fn, an.Static("tbls/tblsconv.SignatureFromBytes"), func(ci ssa.CallInstruction) bool {
			return c12From(ci.Common().Args[0], recv, ".SignatureAggregate")
		})
		need(r, "aggregate signature parse", sig, -1)
		var agg ssa.CallInstruction
		if h != nil && sig != nil && parse != nil {
			agg = c12OneCall(c, fn, an.Static("tbls.VerifyAggregate"), func(ci ssa.CallInstruction) bool {
				a := ci.Common().Args
				return c12ResultOf(a[1], 0) == sig.(*ssa.Call) && c12SliceOfResult(a[2], h) && c12AllShares(loop, a[0], parse.(*ssa.Call))
			})
		}
		need(r, "aggregate signature over lock hash and all verified shares", agg, -1)
		need(r, "builder registrations", c12OneCall(c, fn, an.Static("cluster.Lock.verifyBuilderRegistrations"), func(ci ssa.CallInstruction) bool {
			return c12From(ci.Common().Args[0], recv, "")
		}), -1)
		need(r, "node signatures", c12OneCall(c, fn, an.Static("cluster.Lock.verifyNodeSignatures"), func(ci ssa.CallInstruction) bool {
			return c12From(ci.Common().Args[0], recv, "")
		}), -1)
	}
}

// c12BlockOnEveryIter: every completed iteration of l passes block b.
func c12BlockOnEveryIter(l *an.Loop, b *ssa.BasicBlock) bool {
	av := map[*ssa.BasicBlock]bool{b: true}
	for _, s := range c12IterStarts(l) {
		if s == b {
			continue
		}
		for _, la := range l.Latches {
			if la != b && c12ReachIn(l, s, la, av) {
				return false
			}
		}
	}
	return true
}

// c12AllShares: v is the header phi accumulating `append(acc, shares...)` on every iteration of l,
// where shares is result #0 of parse.
func c12AllShares(l *an.Loop, v ssa.Value, parse *ssa.Call) bool {
	phi, ok := v.(*ssa.Phi)
	if !ok || phi.Block() != l.Header {
		return false
	}
	n := 0
	for i, e := range phi.Edges {
		if !l.Body[phi.Block().Preds[i]] {
			if !an.IsNilConst(e) {
				return false
			}
			continue
		}
		call, ok := e.(*ssa.Call)
		if !ok {
			return false
		}
		b, ok := call.Call.Value.(*ssa.Builtin)
		if !ok || b.Name() != "append" || len(call.Call.Args) != 2 || call.Call.Args[0] != ssa.Value(phi) || c12ResultOf(call.Call.Args[1], 0) != parse {
			return false
		}
		if !c12BlockOnEveryIter(l, call.Block()) {
			return false
		}
		n++
	}
	return n > 0
}

func c12BlocksWhere(fn *ssa.Function, pred func(*ssa.BasicBlock) bool) map[*ssa.BasicBlock]bool {
	out := map[*ssa.BasicBlock]bool{}
	for _, b := range fn.Blocks {
		if pred(b) {
			out[b] = true
		}
	}
	return out
}

// c12OperatorLoop returns the loop over d.Operators in Definition.VerifySignatures and the blocks of the
// frozen "completely unsigned operator" bypass (Address == "" && both signatures empty).
func c12OperatorLoop(fn *ssa.Function) (*an.Loop, map[*ssa.BasicBlock]bool) {
	recv := c12Recv(fn)
	var loop *an.Loop
	for _, l := range an.Loops(fn) {
		if coll := l.RangeColl(); coll != nil && c12From(coll, recv, ".Operators") {
			loop = l
		}
	}
	if loop == nil {
		return nil, nil
	}
	ea := c12EmptyDom(fn, recv, ".Operators[].Address", false)
	ee := c12EmptyDom(fn, recv, ".Operators[].ENRSignature", true)
	ec := c12EmptyDom(fn, recv, ".Operators[].ConfigSignature", true)
	u := c12BlocksWhere(fn, func(b *ssa.BasicBlock) bool { return loop.Body[b] && ea(b) && ee(b) && ec(b) })
	return loop, u
}

func c12SigCall(fn *ssa.Function, loop *an.Loop, addrPath, sigPath string, inLoop bool) ssa.CallInstruction {
	recv := c12Recv(fn)
	var got []ssa.CallInstruction
	for _, ci := range an.Calls(fn, an.Static("cluster.verifySigOrERC1271"), false) {
		a := ci.Common().Args
		if len(a) != 4 || !c12From(a[1], recv, addrPath) || !c12From(a[3], recv, sigPath) {
			continue
		}
		if inLoop && !(loop.ElemOf(a[1]) && loop.ElemOf(a[3])) {
			continue
		}
		got = append(got, ci)
	}
	if len(got) != 1 {
		return nil
	}
	return got[0]
}

func c12DefVerifySigs(c *rt.Ctx) {
	fn := c.Fn("cluster.Definition.VerifySignatures")
	name := "cluster.Definition.VerifySignatures"
	recv := c12Recv(fn)
	entry := fn.Blocks[0]
	rets := c12SuccessReturns(fn)
	if len(rets) == 0 {
		c.Bail("Definition.VerifySignatures has no successful return")
	}
	callsOn := func(callee, path string) []*ssa.Call {
		var out []*ssa.Call
		for _, ci := range an.Calls(fn, an.Static(callee), false) {
			if call, ok := ci.(*ssa.Call); ok && c12From(call.Call.Args[0], recv, path) {
				out = append(out, call)
			}
		}
		return out
	}
	support := callsOn("cluster.supportEIP712Sigs", ".Version")
	present := callsOn("cluster.eip712SigsPresent", ".Operators")
	for _, r := range rets {
		early := false
		for _, s := range support {
			if c12BoolEdgeDom(fn, s, false, r.Block()) {
				early = true
			}
		}
		if early {
			// frozen early exit: definitions older than v1.3 carry no EIP-712 signatures
			unsigned := false
			for _, p := range present {
				if c12BoolEdgeDom(fn, p, false, r.Block()) {
					unsigned = true
				}
			}
			c.Check(name+" early-exit pre-v1.3", posOf(r), unsigned, "nil is returned for a pre-v1.3 definition without testing that no operator signature is present")
			sf := c.Fn("cluster.supportEIP712Sigs")
			exact := false
			if rs := an.Returns(sf); len(rs) == 1 && len(rs[0].Results) == 1 {
				if not, ok := rs[0].Results[0].(*ssa.UnOp); ok && not.Op == token.NOT {
					if call, ok := not.X.(*ssa.Call); ok && c12IsAnyVersion(call, sf.Params[0], "", "v1.0.0", "v1.1.0", "v1.2.0") {
						exact = true
					}
				}
			}
			c.Check("cluster.supportEIP712Sigs versions", sf.Pos(), exact, "supportEIP712Sigs is not exactly `!isAnyVersion(version, v1.0, v1.1, v1.2)`: the signature-free early exit covers other versions")
			continue
		}
		loop, u := c12OperatorLoop(fn)
		if loop == nil {
			c.Bad(name+" operator loop", posOf(r), "no loop over d.Operators")
			continue
		}
		c.Check(name+" operator loop", posOf(loop.Header.Instrs[0]), !c12Reach(entry, r.Block(), c12Avoid(nil, loop.Header)),
			"the successful return can be reached without the per-operator checks")
		for _, k := range [][2]string{{"config", ".ConfigSignature"}, {"enr", ".ENRSignature"}} {
			v := c12SigCall(fn, loop, ".Operators[].Address", ".Operators[]"+k[1], true)
			if v == nil {
				c.Bad(name+" operator "+k[0]+" signature", posOf(r), "no (unique) verifySigOrERC1271(eth1, o.Address, digest, o"+k[1]+") on the operator being iterated")
				continue
			}
			ok, why := c12IterMustCall(loop, v, 0, true, u, r.Block())
			c.Check(name+" operator "+k[0]+" signature", v.Pos(), ok, "operator "+k[0]+" signature: "+why)
		}
		// the bypass is only acceptable when taken for all operators
		var cnt *ssa.Phi
		for _, in := range loop.Header.Instrs {
			phi, ok := in.(*ssa.Phi)
			if !ok {
				continue
			}
			for i, e := range phi.Edges {
				bin, ok := e.(*ssa.BinOp)
				if ok && bin.Op == token.ADD && bin.X == ssa.Value(phi) && u[bin.Block()] && u[phi.Block().Preds[i]] {
					if k, ok := an.ConstInt(bin.Y); ok && k == 1 {
						cnt = phi
					}
				}
			}
		}
		isCnt := func(v ssa.Value) bool { return cnt != nil && v == ssa.Value(cnt) }
		if len(u) > 0 {
			good, why := false, "no `noOpSigs > 0 && noOpSigs != len(d.Operators)` rejection after the loop"
			if cnt == nil {
				why = "the unsigned-operator bypass is not counted"
			}
			for _, gt := range c12Cmps(fn, isCnt, c12IsZero) {
				var yes *ssa.BasicBlock
				switch gt.op {
				case token.GTR:
					yes = gt.eq
				case token.NEQ:
					yes = gt.ne
				default:
					continue
				}
				if loop.Body[gt.blk] || !gt.blk.Dominates(r.Block()) {
					continue
				}
				for _, ne := range c12Cmps(fn, isCnt, func(v ssa.Value) bool { x := c12LenOf(v); return x != nil && c12From(x, recv, ".Operators") }) {
					if (ne.op == token.NEQ || ne.op == token.EQL) && yes == ne.blk && len(ne.blk.Preds) == 1 && !c12Reach(ne.ne, r.Block(), nil) {
						good = true
					}
				}
			}
			c.Check(name+" all-or-none unsigned operators", posOf(r), good, why)
		}
		// creator
		x1 := map[*ssa.BasicBlock]bool{}
		for _, in := range an.Instrs(fn, false) {
			if call, ok := in.(*ssa.Call); ok && c12IsAnyVersion(call, recv, ".Version", "v1.3.0") {
				for b := range c12BlocksWhere(fn, func(b *ssa.BasicBlock) bool { return c12BoolEdgeDom(fn, call, true, b) }) {
					x1[b] = true
				}
			}
		}
		eca := c12EmptyDom(fn, recv, ".Creator.Address", false)
		ecs := c12EmptyDom(fn, recv, ".Creator.ConfigSignature", true)
		x2 := c12BlocksWhere(fn, func(b *ssa.BasicBlock) bool { return eca(b) && ecs(b) })
		exempt := map[*ssa.BasicBlock]bool{}
		for b := range x1 {
			exempt[b] = true
		}
		for b := range x2 {
			exempt[b] = true
		}
		v3 := c12SigCall(fn, nil, ".Creator.Address", ".Creator.ConfigSignature", false)
		if v3 == nil {
			c.Bad(name+" creator signature", posOf(r), "no (unique) verifySigOrERC1271(eth1, d.Creator.Address, digest, d.Creator.ConfigSignature)")
		} else {
			ok, why := c12MustCall(entry, r.Block(), v3, 0, true, exempt)
			c.Check(name+" creator signature", v3.Pos(), ok, "creator signature: "+why)
		}
		if len(x2) > 0 {
			good, why := false, "an unsigned creator is accepted without requiring that every operator is unsigned too"
			for _, cm := range c12Cmps(fn, isCnt, c12IsZero) {
				if (cm.op != token.EQL && cm.op != token.NEQ) || !x2[cm.blk] {
					continue
				}
				all := true
				for h := range x2 {
					head := false
					for _, p := range h.Preds {
						if !x2[p] {
							head = true
						}
					}
					if !head {
						continue
					}
					if g, w := c12MustBr(h, r.Block(), c12Br{cm.blk, cm.eq, cm.ne}, nil); !g {
						all, why = false, w
					}
				}
				if all {
					good = true
				}
			}
			c.Check(name+" unsigned-creator exemption", posOf(r), good, why)
		}
	}
}

// ---------------------------------------------------------------------------------------------
// Version dispatch

type c12Case struct {
	call     *ssa.Call
	versions []string
	yes      *ssa.BasicBlock
	targets  []*ssa.Function
}

func c12InCluster(f *ssa.Function) bool {
	return f != nil && f.Pkg != nil && an.Short(f.Pkg.Pkg.Path()) == "cluster" && f.Name() != "isAnyVersion"
}

// c12Cases decodes the isAnyVersion if-chain of a dispatch function.
func c12Cases(c *rt.Ctx, fn *ssa.Function) []c12Case {
	var out []c12Case
	for _, in := range an.Instrs(fn, false) {
		call, ok := in.(*ssa.Call)
		if !ok || !an.Static("cluster.isAnyVersion")(&call.Call) {
			continue
		}
		vs, ok := c12VersionsOf(call)
		if !ok {
			c.Bail("%s: version list of an isAnyVersion call is not constant", an.FuncName(fn))
		}
		var yes *ssa.BasicBlock
		for _, cd := range an.CondsOn(fn, call) {
			if cd.Other == nil {
				yes = cd.Succ(true)
			}
		}
		if yes == nil {
			c.Bail("%s: isAnyVersion result is not branched on", an.FuncName(fn))
		}
		cs := c12Case{call: call, versions: vs, yes: yes}
		seen := map[*ssa.Function]bool{}
		add := func(v ssa.Value) {
			var f *ssa.Function
			switch x := v.(type) {
			case *ssa.Function:
				f = x
			case *ssa.MakeClosure:
				f, _ = x.Fn.(*ssa.Function)
			}
			if c12InCluster(f) && !seen[f] {
				seen[f] = true
				cs.targets = append(cs.targets, f)
			}
		}
		// the case body may be shared by several or-ed tests (`case isAnyVersion(..), isAnyVersion(..):`)
		bodyOK := true
		for _, p := range yes.Preds {
			i, ok := c12VersionSucc(p, "")
			_ = i
			if !ok || !(p.Succs[0] == yes || p.Succs[1] == yes) {
				bodyOK = false
			}
		}
		domBy := func(b *ssa.BasicBlock) bool { return bodyOK && (yes == b || yes.Dominates(b)) }
		for _, b := range fn.Blocks {
			under := domBy(b)
			for _, i2 := range b.Instrs {
				if phi, ok := i2.(*ssa.Phi); ok {
					for k, e := range phi.Edges {
						if domBy(b.Preds[k]) {
							add(e)
						}
					}
					continue
				}
				if under {
					for _, op := range an.Operands(i2) {
						add(op)
					}
				}
			}
		}
		out = append(out, cs)
	}
	return out
}

func c12Supported(c *rt.Ctx) map[string]bool {
	pkg := c.SSAPkg("cluster")
	g, ok := pkg.Members["supportedVersions"].(*ssa.Global)
	if !ok {
		c.Bail("cluster.supportedVersions not found")
	}
	out := map[string]bool{}
	for _, in := range an.Instrs(pkg.Func("init"), false) {
		st, ok := in.(*ssa.Store)
		if !ok || st.Addr != ssa.Value(g) {
			continue
		}
		mk, ok := st.Val.(*ssa.MakeMap)
		if !ok {
			c.Bail("supportedVersions is not initialised from a map literal")
		}
		for _, ref := range *mk.Referrers() {
			if up, ok := ref.(*ssa.MapUpdate); ok {
				k, ok1 := c12ConstStr(up.Key)
				v, ok2 := c12ConstBool(up.Value)
				if !ok1 || !ok2 {
					c.Bail("supportedVersions has a non-constant entry")
				}
				if v {
					out[k] = true
				}
			}
		}
	}
	if len(out) == 0 {
		c.Bail("supportedVersions is empty")
	}
	return out
}

var c12Dispatchers = []string{
	"cluster.Definition.MarshalJSON", "cluster.Definition.UnmarshalJSON", "cluster.getDefinitionHashFunc",
	"cluster.Lock.MarshalJSON", "cluster.Lock.UnmarshalJSON", "cluster.hashLock",
	"cluster.getDepositDataHashFunc", "cluster.getRegistrationHashFunc",
}

func c12VersionCoverage(c *rt.Ctx) {
	sup := c12Supported(c)
	for _, name := range c12Dispatchers {
		fn := c.Fn(name)
		got := map[string]bool{}
		for _, cs := range c12Cases(c, fn) {
			if len(cs.targets) == 0 {
				continue
			}
			for _, v := range cs.versions {
				got[v] = true
			}
		}
		var miss, extra []string
		for v := range sup {
			if !got[v] {
				miss = append(miss, v)
			}
		}
		for v := range got {
			if !sup[v] {
				extra = append(extra, v)
			}
		}
		sort.Strings(miss)
		sort.Strings(extra)
		c.Check(name+" covers supportedVersions", fn.Pos(), len(miss) == 0 && len(extra) == 0,
			"version switch differs from supportedVersions: missing "+strings.Join(miss, ",")+" extra "+strings.Join(extra, ","))
	}
}

// ---------------------------------------------------------------------------------------------
// L4 — Combine stores a recombined secret only after comparing its public key with the lock

func c12L4(c *rt.Ctx) {
	c.Rule("L4", 5, func() {
		fn := c.Fn("cmd/combine.Combine")
		name := "cmd/combine.Combine"
		lm := c.OneCall(fn, an.Static("cmd/combine.loadManifest"), "loadManifest", false)
		isLock := func(v ssa.Value) bool {
			call := c12ResultOf(v, 0)
			return call != nil && ssa.Instruction(call) == lm.(ssa.Instruction)
		}
		// the accumulation of recombined secrets
		var app *ssa.Call
		var secret ssa.Value
		for _, in := range an.Instrs(fn, false) {
			call, ok := in.(*ssa.Call)
			if !ok {
				continue
			}
			if b, ok := call.Call.Value.(*ssa.Builtin); !ok || b.Name() != "append" {
				continue
			}
			el := appendedElems(call)
			if len(el) != 1 {
				continue
			}
			if rc := c12ResultOf(el[0], 0); rc != nil && an.Static("tbls.RecoverSecret")(&rc.Call) {
				if app != nil {
					c.Bail("several appends of a recovered secret in Combine")
				}
				app, secret = call, an.Resolve(el[0])
			}
		}
		if app == nil {
			c.Bail("no append of the tbls.RecoverSecret result in Combine")
		}
		loop := an.InnermostLoop(fn, app.Block())
		if loop == nil {
			c.Bail("the recombination is not in a loop")
		}
		gen := c12OneCall(c, fn, an.Static("tbls.SecretToPublicKey"), func(ci ssa.CallInstruction) bool { return an.Resolve(ci.Common().Args[0]) == secret })
		val := c12OneCall(c, fn, an.Static("tbls/tblsconv.PubkeyFromBytes"), func(ci ssa.CallInstruction) bool {
			r, p := c12Path(ci.Common().Args[0])
			return isLock(r) && p == ".Validators[].PubKey" && loop.Body[ci.Block()]
		})
		if gen == nil || val == nil {
			c.Bad(name+" public-key comparison", app.Pos(), "no derivation of the recombined secret's public key and of the lock's validator key for the same iteration")
			return
		}
		isRes := func(call ssa.CallInstruction) func(ssa.Value) bool {
			return func(v ssa.Value) bool {
				r := c12ResultOf(v, 0)
				return r != nil && ssa.Instruction(r) == call.(ssa.Instruction)
			}
		}
		// what is written
		ks := c.OneCall(fn, an.FieldCall("cmd/combine.options.keyStoreFunc"), "o.keyStoreFunc", false)
		if loop.Body[ks.Block()] {
			c.Bail("keystore write inside the recombination loop")
		}
		good, why := false, "the recombined secret is stored without comparing tbls.SecretToPublicKey(secret) with the lock's validator public key"
		for _, cm := range c12Cmps(fn, isRes(gen), isRes(val)) {
			if cm.op != token.EQL && cm.op != token.NEQ {
				continue
			}
			if g, w := c12IterMustBr(loop, c12Br{cm.blk, cm.ne, cm.eq}, nil, ks.Block()); g {
				good = true
			} else {
				why = w
			}
		}
		c.Check(name+" public-key comparison", app.Pos(), good, why)
		for _, k := range []struct {
			what string
			call ssa.CallInstruction
		}{{"generated public key", gen}, {"lock validator key", val}} {
			g, w := c12IterMustCall(loop, k.call, -1, true, nil, ks.Block())
			c.Check(name+" "+k.what+" derivation checked", k.call.Pos(), g, w)
		}
		// same validator index for the shares and the lock entry
		idx := c12IndexOf(val.Common().Args[0])
		bind := false
		if rc := c12ResultOf(secret, 0); rc != nil && idx != nil {
			if sh := c12ResultOf(rc.Call.Args[0], 0); sh != nil && an.Static("cmd/combine.shareIdxByPubkeys")(&sh.Call) {
				a := sh.Call.Args
				if isLock(a[0]) && a[2] == idx {
					if lk, ok := an.Unwrap(a[1]).(*ssa.Lookup); ok && lk.Index == idx {
						bind = true
					}
				}
			}
		}
		c.Check(name+" validator index binding", val.Pos(), bind, "the secret is recombined from the shares of one validator index but compared with the lock entry of another")
		// what is written is exactly the accumulated, compared secrets
		seen := map[ssa.Value]bool{}
		var only func(v ssa.Value) bool
		only = func(v ssa.Value) bool {
			if seen[v] {
				return true
			}
			seen[v] = true
			if an.IsNilConst(v) || v == ssa.Value(app) {
				return true
			}
			if phi, ok := v.(*ssa.Phi); ok {
				for _, e := range phi.Edges {
					if !only(e) {
						return false
					}
				}
				return true
			}
			return false
		}
		okArg := only(ks.Common().Args[0]) && seen[ssa.Value(app)] && only(app.Call.Args[0])
		c.Check(name+" keystore holds only compared secrets", ks.Pos(), okArg, "the slice handed to the keystore writer is not the accumulation of the compared secrets")
	})
}

// ---------------------------------------------------------------------------------------------
// L5 — loaders ignore a verification error only under the explicit no-verify flag

// c12SuccessBlocks: blocks that end in a return whose error result is the nil constant (directly or
// through the spill slot used when the function has defers).
func c12SuccessBlocks(fn *ssa.Function) []*ssa.BasicBlock {
	var out []*ssa.BasicBlock
	for _, r := range an.Returns(fn) {
		if len(r.Results) == 0 {
			continue
		}
		v := r.Results[len(r.Results)-1]
		if !an.IsErrorType(v.Type()) {
			continue
		}
		if an.IsNilConst(v) {
			out = append(out, r.Block())
			continue
		}
		ld, ok := v.(*ssa.UnOp)
		if !ok || ld.Op != token.MUL {
			continue
		}
		var last ssa.Value
		for _, in := range r.Block().Instrs {
			if st, ok := in.(*ssa.Store); ok && st.Addr == ld.X {
				last = st.Val
			}
		}
		if last != nil && an.IsNilConst(last) {
			out = append(out, r.Block())
		}
	}
	return out
}

func c12NoVerifyRule(c *rt.Ctx, fnName string, callee string, isFlag func(ssa.Value) bool, exempt func(*ssa.BasicBlock) bool) {
	fn := c.Fn(fnName)
	key := fnName + " " + callee
	calls := an.Calls(fn, an.Static(callee), false)
	if len(calls) != 1 {
		c.Bad(key, fn.Pos(), "expected exactly one call to "+callee)
		return
	}
	call := calls[0]
	var succ []*ssa.BasicBlock
	for _, b := range c12SuccessBlocks(fn) {
		if exempt == nil || !exempt(b) {
			succ = append(succ, b)
		}
	}
	if len(succ) == 0 {
		c.Unsure(key, fn.Pos(), "no successful return found")
		return
	}
	// edges taken when the flag is set
	type edge struct {
		b *ssa.BasicBlock
		i int
	}
	flagOn := map[edge]bool{}
	for _, b := range fn.Blocks {
		iff, ok := b.Instrs[len(b.Instrs)-1].(*ssa.If)
		if !ok {
			continue
		}
		cond, neg := iff.Cond, false
		for {
			u, ok := cond.(*ssa.UnOp)
			if !ok || u.Op != token.NOT {
				break
			}
			cond, neg = u.X, !neg
		}
		if !isFlag(cond) {
			continue
		}
		if neg {
			flagOn[edge{b, 1}] = true
		} else {
			flagOn[edge{b, 0}] = true
		}
	}
	reach := func(from, to *ssa.BasicBlock) bool {
		seen := map[*ssa.BasicBlock]bool{}
		var walk func(b *ssa.BasicBlock) bool
		walk = func(b *ssa.BasicBlock) bool {
			if b == to {
				return true
			}
			if seen[b] {
				return false
			}
			seen[b] = true
			for i, s := range b.Succs {
				if !flagOn[edge{b, i}] && walk(s) {
					return true
				}
			}
			return false
		}
		return walk(from)
	}
	sts, why := c12Status(call, -1, false)
	if why != "" {
		c.Bad(key, call.Pos(), "verification result: "+why)
		return
	}
	for _, s := range succ {
		if !call.Block().Dominates(s) && call.Block() != s {
			c.Bad(key, call.Pos(), "a successful return is reachable without running the verification")
			return
		}
	}
	good, detail := true, ""
	for _, brs := range sts {
		// the first test of the error decides; later tests of the same value are re-tests on its edges
		var first *c12Br
		for i := range brs {
			dom := true
			for j := range brs {
				if i != j && !brs[i].blk.Dominates(brs[j].blk) {
					dom = false
				}
			}
			if dom {
				first = &brs[i]
			}
		}
		if first == nil {
			good, detail = false, "the tests of the verification error are not nested"
			continue
		}
		for _, s := range succ {
			if reach(first.fail, s) {
				good, detail = false, "with a verification error the successful return is reachable without taking an edge on which the no-verify flag is set"
			}
		}
	}
	c.Check(key, call.Pos(), good, detail)
}

func c12L5(c *rt.Ctx) {
	c.Rule("L5", 7, func() {
		lcl := c.Fn("cluster.LoadClusterLock")
		pflag := func(v ssa.Value) bool { return v == ssa.Value(lcl.Params[2]) }
		c12NoVerifyRule(c, "cluster.LoadClusterLock", "cluster.Lock.VerifyHashes", pflag, nil)
		c12NoVerifyRule(c, "cluster.LoadClusterLock", "cluster.Lock.VerifySignatures", pflag, nil)
		ld := c.Fn("dkg.loadDefinition")
		cflag := func(v ssa.Value) bool { return c12From(v, ld.Params[1], ".NoVerify") }
		// frozen exemption: the in-process test definition (conf.TestConfig.Def != nil) is returned as is
		testDef := func(b *ssa.BasicBlock) bool {
			for _, cm := range c12Cmps(ld, func(v ssa.Value) bool { return c12From(v, ld.Params[1], ".TestConfig.Def") }, an.IsNilConst) {
				if (cm.op == token.EQL || cm.op == token.NEQ) && c12DomBy(cm.ne, b) {
					return true
				}
			}
			return false
		}
		c12NoVerifyRule(c, "dkg.loadDefinition", "cluster.Definition.VerifyHashes", cflag, testDef)
		c12NoVerifyRule(c, "dkg.loadDefinition", "cluster.Definition.VerifySignatures", cflag, testDef)
		// flag provenance
		lv := c.Fn("cluster.LoadClusterLockAndVerify")
		call := c.OneCall(lv, an.Static("cluster.LoadClusterLock"), "LoadClusterLock", false)
		b, isC := c12ConstBool(call.Common().Args[2])
		c.Check("cluster.LoadClusterLockAndVerify noVerify=false", call.Pos(), isC && !b, "LoadClusterLockAndVerify does not pass the constant false as noVerify")
		lm := c.Fn("cmd/combine.loadManifest")
		call = c.OneCall(lm, an.Static("cluster.LoadClusterLock"), "LoadClusterLock", false)
		c.Check("cmd/combine.loadManifest noVerify passthrough", call.Pos(), call.Common().Args[2] == ssa.Value(lm.Params[2]), "loadManifest does not forward its own noverify parameter")
		cb := c.Fn("cmd/combine.Combine")
		call = c.OneCall(cb, an.Static("cmd/combine.loadManifest"), "loadManifest", false)
		c.Check("cmd/combine.Combine noVerify passthrough", call.Pos(), call.Common().Args[2] == ssa.Value(cb.Params[4]), "Combine does not forward its own noverify parameter")
	})
}

// ---------------------------------------------------------------------------------------------
// L6 — EIP-712 digests are built from the right type and operator

func c12GlobalLoad(v ssa.Value, name string) bool {
	ld, ok := an.Unwrap(v).(*ssa.UnOp)
	if !ok || ld.Op != token.MUL {
		return false
	}
	g, ok := ld.X.(*ssa.Global)
	return ok && g.Name() == name && g.Pkg != nil && an.Short(g.Pkg.Pkg.Path()) == "cluster"
}

func c12L6(c *rt.Ctx) {
	c.Rule("L6", 8, func() {
		fn := c.Fn("cluster.Definition.VerifySignatures")
		name := "cluster.Definition.VerifySignatures"
		recv := c12Recv(fn)
		loop, _ := c12OperatorLoop(fn)
		if loop == nil {
			c.Bail("no loop over d.Operators in Definition.VerifySignatures")
		}
		digestOf := func(v ssa.CallInstruction) *ssa.Call {
			if v == nil {
				return nil
			}
			d := c12ResultOf(v.Common().Args[2], 0)
			if d == nil || !an.Static("cluster.digestEIP712")(&d.Call) {
				return nil
			}
			return d
		}
		chk := func(what string, v ssa.CallInstruction, typeOK func(ssa.Value) bool, opOK func(ssa.Value) bool) {
			d := digestOf(v)
			if d == nil {
				c.Bad(name+" "+what+" digest", fn.Pos(), "the digest verified is not the result of digestEIP712")
				return
			}
			g, w := an.Guarded(d, v.(ssa.Instruction), an.DefaultGuard)
			ok := typeOK(d.Call.Args[0]) && c12From(d.Call.Args[1], recv, "") && opOK(d.Call.Args[2]) && g
			c.Check(name+" "+what+" digest", d.Pos(), ok, "digest is not built from the expected EIP-712 type, this definition and the operator being verified ("+w+")")
		}
		anyOp := func(ssa.Value) bool { return true }
		chk("operator config", c12SigCall(fn, loop, ".Operators[].Address", ".Operators[].ConfigSignature", true), func(v ssa.Value) bool {
			call, ok := an.Unwrap(v).(*ssa.Call)
			return ok && an.Static("cluster.getOperatorEIP712Type")(&call.Call) && c12From(call.Call.Args[0], recv, ".Version")
		}, anyOp)
		chk("operator enr", c12SigCall(fn, loop, ".Operators[].Address", ".Operators[].ENRSignature", true),
			func(v ssa.Value) bool { return c12GlobalLoad(v, "eip712ENR") },
			func(v ssa.Value) bool { _, p := c12Path(v); return p == ".Operators[]" && loop.ElemOf(v) })
		chk("creator config", c12SigCall(fn, nil, ".Creator.Address", ".Creator.ConfigSignature", false),
			func(v ssa.Value) bool { return c12GlobalLoad(v, "eip712CreatorConfigHash") }, anyOp)
		// getOperatorEIP712Type
		gt := c.Fn("cluster.getOperatorEIP712Type")
		okT := true
		n := 0
		for _, r := range an.Returns(gt) {
			v13 := false
			for _, in := range an.Instrs(gt, false) {
				if call, ok := in.(*ssa.Call); ok && c12IsAnyVersion(call, gt.Params[0], "", "v1.3.0") && c12BoolEdgeDom(gt, call, true, r.Block()) {
					v13 = true
				}
			}
			want := "eip712OperatorConfigHash"
			if v13 {
				want = "eip712V1x3ConfigHash"
			}
			if !c12GlobalLoad(r.Results[0], want) {
				okT = false
			}
			n++
		}
		c.Check("cluster.getOperatorEIP712Type", gt.Pos(), okT && n == 2, "does not return eip712V1x3ConfigHash exactly for v1.3 and eip712OperatorConfigHash otherwise")
		// ValueFuncs
		pkg := c.Pkg("cluster")
		initFn := c.SSAPkg("cluster").Func("init")
		for _, g := range []struct {
			name, path string
			param      int
		}{
			{"eip712CreatorConfigHash", ".ConfigHash", 0}, {"eip712OperatorConfigHash", ".ConfigHash", 0},
			{"eip712V1x3ConfigHash", ".ConfigHash", 0}, {"eip712ENR", ".ENR", 1},
		} {
			pos := c12ValueFuncPos(pkg, g.name)
			var vf *ssa.Function
			for _, a := range initFn.AnonFuncs {
				if len(pos) == 1 && a.Pos() == pos[0] {
					vf = a
				}
			}
			if vf == nil {
				c.Unsure("cluster."+g.name+" ValueFunc", token.NoPos, "cannot locate the single ValueFunc literal of "+g.name)
				continue
			}
			ok := false
			if rs := an.Returns(vf); len(rs) == 1 && len(rs[0].Results) == 1 {
				v := an.Unwrap(rs[0].Results[0])
				if g.param == 0 {
					if call, isCall := v.(*ssa.Call); isCall && an.Static("cluster.to0xHex")(&call.Call) {
						v = call.Call.Args[0]
					} else {
						v = nil
					}
				}
				ok = v != nil && c12From(v, vf.Params[g.param], g.path)
			}
			c.Check("cluster."+g.name+" ValueFunc", vf.Pos(), ok, "the signed value is not the field the type denotes ("+g.path+")")
		}
	})
}

// ---------------------------------------------------------------------------------------------
// Field machinery (E4) for L1 / L2

var (
	c12DefFamily  = []string{"Definition", "Operator", "Creator", "ValidatorAddresses"}
	c12LockFamily = []string{"Lock", "DistValidator", "DepositData", "BuilderRegistration", "Registration"}
)

func c12Tracked(key string) bool {
	for _, fam := range [][]string{c12DefFamily, c12LockFamily} {
		for _, t := range fam {
			if strings.HasPrefix(key, c12P+t+".") {
				return true
			}
		}
	}
	return false
}

func c12ValueFuncPos(pkg *packages.Package, global string) []token.Pos {
	var out []token.Pos
	for _, f := range pkg.Syntax {
		for _, d := range f.Decls {
			gd, ok := d.(*ast.GenDecl)
			if !ok {
				continue
			}
			for _, sp := range gd.Specs {
				vs, ok := sp.(*ast.ValueSpec)
				if !ok {
					continue
				}
				for i, n := range vs.Names {
					if n.Name != global || i >= len(vs.Values) {
						continue
					}
					ast.Inspect(vs.Values[i], func(nd ast.Node) bool {
						if kv, ok := nd.(*ast.KeyValueExpr); ok {
							if id, ok := kv.Key.(*ast.Ident); ok && id.Name == "ValueFunc" {
								if fl, ok := kv.Value.(*ast.FuncLit); ok {
									out = append(out, fl.Pos())
								}
							}
						}
						return true
					})
				}
			}
		}
	}
	return out
}

// c12VersionCond decodes a branch on isAnyVersion(x, consts...): returns the successor index taken for ver.
func c12VersionSucc(b *ssa.BasicBlock, ver string) (int, bool) {
	iff, ok := b.Instrs[len(b.Instrs)-1].(*ssa.If)
	if !ok {
		return 0, false
	}
	cond, neg := iff.Cond, false
	for {
		u, ok := cond.(*ssa.UnOp)
		if !ok || u.Op != token.NOT {
			break
		}
		cond, neg = u.X, !neg
	}
	call, ok := cond.(*ssa.Call)
	if !ok || !an.Static("cluster.isAnyVersion")(&call.Call) {
		return 0, false
	}
	vs, ok := c12VersionsOf(call)
	if !ok {
		return 0, false
	}
	truth := false
	for _, v := range vs {
		if v == ver {
			truth = true
		}
	}
	if neg {
		truth = !truth
	}
	if truth {
		return 0, true
	}
	return 1, true
}

// c12Feasible returns the blocks of fn reachable when every isAnyVersion test is evaluated for ver
// (all blocks when ver is empty).
func c12Feasible(fn *ssa.Function, ver string) map[*ssa.BasicBlock]bool {
	seen := map[*ssa.BasicBlock]bool{}
	if len(fn.Blocks) == 0 {
		return seen
	}
	var walk func(b *ssa.BasicBlock)
	walk = func(b *ssa.BasicBlock) {
		if seen[b] {
			return
		}
		seen[b] = true
		if ver != "" {
			if i, ok := c12VersionSucc(b, ver); ok {
				walk(b.Succs[i])
				return
			}
		}
		for _, s := range b.Succs {
			walk(s)
		}
	}
	walk(fn.Blocks[0])
	return seen
}

type c12Clo struct {
	ver  string
	fns  []*ssa.Function
	feas map[*ssa.Function]map[*ssa.BasicBlock]bool
}

func (cl *c12Clo) feasible(fn *ssa.Function) map[*ssa.BasicBlock]bool {
	if m, ok := cl.feas[fn]; ok {
		return m
	}
	m := c12Feasible(fn, cl.ver)
	cl.feas[fn] = m
	return m
}

// c12Closure: functions of package cluster reachable from roots through static calls and function
// values, following only the blocks feasible for ver.
func c12Closure(roots []*ssa.Function, ver string) *c12Clo {
	cl := &c12Clo{ver: ver, feas: map[*ssa.Function]map[*ssa.BasicBlock]bool{}}
	seen := map[*ssa.Function]bool{}
	var visit func(fn *ssa.Function)
	visit = func(fn *ssa.Function) {
		if fn == nil || seen[fn] || !c12InCluster(fn) || fn.Blocks == nil {
			return
		}
		seen[fn] = true
		cl.fns = append(cl.fns, fn)
		feas := cl.feasible(fn)
		ref := func(v ssa.Value) {
			switch x := v.(type) {
			case *ssa.Function:
				visit(x)
			case *ssa.MakeClosure:
				if f, ok := x.Fn.(*ssa.Function); ok {
					visit(f)
				}
			}
		}
		for _, b := range fn.Blocks {
			if !feas[b] {
				continue
			}
			for _, in := range b.Instrs {
				if phi, ok := in.(*ssa.Phi); ok {
					for i, e := range phi.Edges {
						if feas[b.Preds[i]] {
							ref(e)
						}
					}
					continue
				}
				for _, op := range an.Operands(in) {
					ref(op)
				}
			}
		}
	}
	for _, r := range roots {
		visit(r)
	}
	return cl
}

// c12AddrUse classifies the uses of a field address: read (loaded, passed on, sub-selected and read)
// and/or set (stored through).
func c12AddrUse(a ssa.Value, d int) (read, set bool) {
	refs := a.Referrers()
	if refs == nil || d > 6 {
		return true, false
	}
	for _, ref := range *refs {
		switch x := ref.(type) {
		case *ssa.Store:
			if x.Addr == a {
				set = true
			} else {
				read = true
			}
		case *ssa.FieldAddr:
			r, s := c12AddrUse(x, d+1)
			read, set = read || r, set || s
		case *ssa.IndexAddr:
			r, s := c12AddrUse(x, d+1)
			read, set = read || r, set || s
		case *ssa.DebugRef:
		default:
			read = true
		}
	}
	return
}

func c12StructFields(t types.Type) []string {
	for {
		p, ok := t.Underlying().(*types.Pointer)
		if !ok {
			break
		}
		t = p.Elem()
	}
	st, ok := t.Underlying().(*types.Struct)
	if !ok {
		return nil
	}
	var out []string
	for i := 0; i < st.NumFields(); i++ {
		out = append(out, an.FieldKey(t, i))
	}
	return out
}

// c12FieldUse returns the tracked fields read / set in the closure, with one read instruction each.
func c12FieldUse(cl *c12Clo) (reads, sets map[string]bool) {
	reads, sets = map[string]bool{}, map[string]bool{}
	for _, fn := range cl.fns {
		feas := cl.feasible(fn)
		for _, b := range fn.Blocks {
			if !feas[b] {
				continue
			}
			for _, in := range b.Instrs {
				switch x := in.(type) {
				case *ssa.Field:
					if k := an.FieldKey(x.X.Type(), x.Field); c12Tracked(k) {
						reads[k] = true
					}
				case *ssa.FieldAddr:
					if k := an.FieldKey(x.X.Type(), x.Field); c12Tracked(k) {
						r, s := c12AddrUse(x, 0)
						if r {
							reads[k] = true
						}
						if s {
							sets[k] = true
						}
					}
				case *ssa.ChangeType:
					if _, ok := x.X.Type().Underlying().(*types.Struct); ok {
						for _, k := range c12StructFields(x.X.Type()) {
							if c12Tracked(k) {
								reads[k] = true
							}
						}
						for _, k := range c12StructFields(x.Type()) {
							if c12Tracked(k) {
								sets[k] = true
							}
						}
					}
				}
			}
		}
	}
	return
}

func c12Minus(a, b map[string]bool, exempt ...string) []string {
	ex := map[string]bool{}
	for _, e := range exempt {
		ex[e] = true
	}
	var out []string
	for k := range a {
		if !b[k] && !ex[k] {
			out = append(out, strings.TrimPrefix(k, c12P))
		}
	}
	sort.Strings(out)
	return out
}

// ---------------------------------------------------------------------------------------------
// L2 — per version: marshalled ⊆ hashed ∪ verified-by-comparison; marshalled == unmarshalled

func c12L2(c *rt.Ctx) {
	c.Rule("L2", 48, func() {
		sup := c12Sorted(c12Supported(c))
		target := func(cases []c12Case, ver string) *ssa.Function {
			var got []*ssa.Function
			for _, cs := range cases {
				for _, v := range cs.versions {
					if v == ver {
						got = append(got, cs.targets...)
					}
				}
			}
			if len(got) != 1 {
				return nil
			}
			return got[0]
		}
		type side struct {
			what, marshal, unmarshal, hash string
			cmpExempt, rtExempt            []string
		}
		sides := []side{
			{"definition", "cluster.Definition.MarshalJSON", "cluster.Definition.UnmarshalJSON", "cluster.hashDefinition",
				[]string{c12P + "Definition.ConfigHash", c12P + "Definition.DefinitionHash"}, nil},
			{"lock", "cluster.Lock.MarshalJSON", "cluster.Lock.UnmarshalJSON", "cluster.hashLock",
				// LockHash is recomputed by MarshalJSON; SignatureAggregate and NodeSignatures are signatures over the lock hash
				[]string{c12P + "Lock.LockHash", c12P + "Lock.SignatureAggregate", c12P + "Lock.NodeSignatures"}, []string{c12P + "Lock.LockHash"}},
		}
		for _, s := range sides {
			mc := c12Cases(c, c.Fn(s.marshal))
			uc := c12Cases(c, c.Fn(s.unmarshal))
			hroot := c.Fn(s.hash)
			for _, ver := range sup {
				m, u := target(mc, ver), target(uc, ver)
				if m == nil || u == nil {
					c.Unsure(s.what+" "+ver+" dispatch", hroot.Pos(), "cannot resolve the marshal/unmarshal function dispatched for this version")
					continue
				}
				mr, _ := c12FieldUse(c12Closure([]*ssa.Function{m}, ver))
				_, us := c12FieldUse(c12Closure([]*ssa.Function{u}, ver))
				hr, _ := c12FieldUse(c12Closure([]*ssa.Function{hroot}, ver))
				if len(mr) == 0 || len(us) == 0 || len(hr) == 0 {
					c.Unsure(s.what+" "+ver+" field sets", m.Pos(), "empty field set extracted")
					continue
				}
				unh := c12Minus(mr, hr, s.cmpExempt...)
				c.Check(s.what+" "+ver+" marshalled⊆hashed "+m.Name(), m.Pos(), len(unh) == 0,
					"fields written to the file but covered by no hash for this version: "+strings.Join(unh, ", "))
				lost := c12Minus(us, mr, s.rtExempt...)
				extra := c12Minus(mr, us, s.rtExempt...)
				c.Check(s.what+" "+ver+" roundtrip "+m.Name()+"/"+u.Name(), u.Pos(), len(lost) == 0 && len(extra) == 0,
					"decode∘encode drops fields: restored but not written ["+strings.Join(lost, ", ")+"], written but not restored ["+strings.Join(extra, ", ")+"]")
			}
		}
	})
}

// ---------------------------------------------------------------------------------------------
// L1 — every tagged field flows into the hasher (current version)

type c12Flow struct {
	cl   *c12Clo
	memo map[*ssa.Parameter][2]bool
	busy map[*ssa.Parameter]bool
}

func c12IsSink(cc *ssa.CallCommon, v ssa.Value) bool {
	var name string
	var recvT types.Type
	args := cc.Args
	if cc.IsInvoke() {
		name, recvT = cc.Method.Name(), cc.Value.Type()
	} else if s := cc.StaticCallee(); s != nil && s.Signature.Recv() != nil {
		name, recvT = s.Name(), s.Signature.Recv().Type()
		if len(args) > 0 {
			args = args[1:]
		}
	} else {
		return false
	}
	if !strings.HasPrefix(name, "Put") && !strings.HasPrefix(name, "Append") {
		return false
	}
	if !strings.HasPrefix(an.TypeName(recvT), c12HashWk+".") {
		return false
	}
	for _, a := range args {
		if a == v {
			return true
		}
	}
	return false
}

func (f *c12Flow) funcsOf(v ssa.Value, d int) []*ssa.Function {
	if d > 6 {
		return nil
	}
	switch x := v.(type) {
	case *ssa.Function:
		return []*ssa.Function{x}
	case *ssa.MakeClosure:
		if fn, ok := x.Fn.(*ssa.Function); ok {
			return []*ssa.Function{fn}
		}
	case *ssa.ChangeType:
		return f.funcsOf(x.X, d+1)
	case *ssa.Phi:
		var out []*ssa.Function
		feas := f.cl.feasible(x.Parent())
		for i, e := range x.Edges {
			if feas[x.Block().Preds[i]] {
				out = append(out, f.funcsOf(e, d+1)...)
			}
		}
		return out
	case *ssa.Extract:
		call, ok := x.Tuple.(*ssa.Call)
		if !ok {
			return nil
		}
		dfn := call.Call.StaticCallee()
		if !c12InCluster(dfn) || dfn.Blocks == nil {
			return nil
		}
		var out []*ssa.Function
		feas := f.cl.feasible(dfn)
		for _, r := range an.Returns(dfn) {
			if feas[r.Block()] && x.Index < len(r.Results) {
				out = append(out, f.funcsOf(r.Results[x.Index], d+1)...)
			}
		}
		return out
	case *ssa.UnOp:
		if al, ok := x.X.(*ssa.Alloc); ok && x.Op == token.MUL {
			if src := an.UniqueStore(al); src != nil {
				return f.funcsOf(src, d+1)
			}
		}
	}
	return nil
}

func (f *c12Flow) param(p *ssa.Parameter) (bool, bool) {
	if r, ok := f.memo[p]; ok {
		return r[0], r[1]
	}
	if f.busy[p] {
		return false, false
	}
	f.busy[p] = true
	s, r := f.from(p)
	delete(f.busy, p)
	f.memo[p] = [2]bool{s, r}
	return s, r
}

// from follows seed forward inside its function (and, through parameters, into callees): does it
// reach a hasher Put*/Append* argument, does it reach a return value.
func (f *c12Flow) from(seed ssa.Value) (sink, ret bool) {
	seen := map[ssa.Value]bool{seed: true}
	work := []ssa.Value{seed}
	push := func(v ssa.Value) {
		if v != nil && !seen[v] {
			seen[v] = true
			work = append(work, v)
		}
	}
	for len(work) > 0 {
		v := work[len(work)-1]
		work = work[:len(work)-1]
		refs := v.Referrers()
		if refs == nil {
			continue
		}
		for _, ref := range *refs {
			if ref.Block() != nil && !f.cl.feasible(ref.Parent())[ref.Block()] {
				continue
			}
			switch x := ref.(type) {
			case ssa.CallInstruction:
				cc := x.Common()
				if b, ok := cc.Value.(*ssa.Builtin); ok {
					switch b.Name() {
					case "append":
						push(x.Value())
					case "copy":
						if len(cc.Args) == 2 && cc.Args[1] == v {
							push(c12AddrBase(cc.Args[0]))
						}
					}
					continue
				}
				if c12IsSink(cc, v) {
					sink = true
					continue
				}
				var callees []*ssa.Function
				if !cc.IsInvoke() {
					if s := cc.StaticCallee(); s != nil {
						callees = []*ssa.Function{s}
					} else {
						callees = f.funcsOf(cc.Value, 0)
					}
				}
				internal := false
				for _, cal := range callees {
					if !c12InCluster(cal) || cal.Blocks == nil {
						continue
					}
					internal = true
					for i, a := range cc.Args {
						if a == v && i < len(cal.Params) {
							s, r := f.param(cal.Params[i])
							sink = sink || s
							if r {
								push(x.Value())
							}
						}
					}
				}
				if !internal && x.Value() != nil {
					isArg := false
					for _, a := range cc.Args {
						if a == v {
							isArg = true
						}
					}
					if isArg {
						push(x.Value()) // external pure helper (hex, strings, time.Unix, fmt.Sprintf ...)
					}
				}
			case *ssa.Store:
				if x.Val == v {
					push(c12AddrBase(x.Addr))
				}
			case *ssa.Return:
				ret = true
			case *ssa.If, *ssa.Jump, *ssa.MapUpdate, *ssa.Send, *ssa.Panic, *ssa.DebugRef, *ssa.RunDefers:
			default:
				if val, ok := ref.(ssa.Value); ok {
					push(val)
				}
			}
		}
	}
	return
}

func c12AddrBase(a ssa.Value) ssa.Value {
	for i := 0; i < 16; i++ {
		switch x := a.(type) {
		case *ssa.FieldAddr:
			a = x.X
		case *ssa.IndexAddr:
			a = x.X
		case *ssa.Slice:
			a = x.X
		default:
			if _, ok := a.(*ssa.Alloc); ok {
				return a
			}
			return nil
		}
	}
	return nil
}

func c12L1(c *rt.Ctx) {
	c.Rule("L1", 49, func() {
		pkg := c.Pkg("cluster")
		cur, ok := pkg.Types.Scope().Lookup("currentVersion").(*types.Const)
		if !ok || cur.Val().Kind() != constant.String {
			c.Bail("cluster.currentVersion not found")
		}
		ver := constant.StringVal(cur.Val())
		if !c12Supported(c)[ver] {
			c.Bail("currentVersion %s is not in supportedVersions", ver)
		}
		cl := c12Closure([]*ssa.Function{c.Fn("cluster.hashDefinition"), c.Fn("cluster.hashLock")}, ver)
		fl := &c12Flow{cl: cl, memo: map[*ssa.Parameter][2]bool{}, busy: map[*ssa.Parameter]bool{}}
		// flowing reads per field
		type rd struct {
			in ssa.Instruction
		}
		flowing := map[string][]ssa.Instruction{}
		for _, fn := range cl.fns {
			feas := cl.feasible(fn)
			for _, b := range fn.Blocks {
				if !feas[b] {
					continue
				}
				for _, in := range b.Instrs {
					var k string
					switch x := in.(type) {
					case *ssa.Field:
						k = an.FieldKey(x.X.Type(), x.Field)
					case *ssa.FieldAddr:
						k = an.FieldKey(x.X.Type(), x.Field)
						if r, _ := c12AddrUse(x, 0); !r {
							k = ""
						}
					}
					if k == "" || !c12Tracked(k) {
						continue
					}
					if s, _ := fl.from(in.(ssa.Value)); s {
						flowing[k] = append(flowing[k], in)
					}
				}
			}
		}
		cfgEdges := func(in ssa.Instruction) (known, underTrue, underFalse bool) {
			fn := in.Parent()
			if len(fn.Params) < 3 || an.TypeName(fn.Params[0].Type()) != c12P+"Definition" {
				return false, false, false
			}
			p := fn.Params[2]
			if b, ok := p.Type().Underlying().(*types.Basic); !ok || b.Kind() != types.Bool {
				return false, false, false
			}
			for _, cd := range an.CondsOn(fn, p) {
				if cd.Other != nil {
					continue
				}
				if c12DomBy(cd.Succ(true), in.Block()) {
					underTrue = true
				}
				if c12DomBy(cd.Succ(false), in.Block()) {
					underFalse = true
				}
			}
			return true, underTrue, underFalse
		}
		for fi, fam := range [][]string{c12DefFamily, c12LockFamily} {
			tag := "definition_hash"
			if fi == 1 {
				tag = "lock_hash"
			}
			for _, tn := range fam {
				obj := pkg.Types.Scope().Lookup(tn)
				if obj == nil {
					c.Unsure(c12P+tn+" tags", token.NoPos, "type not found")
					continue
				}
				st, ok := obj.Type().Underlying().(*types.Struct)
				if !ok {
					c.Unsure(c12P+tn+" tags", obj.Pos(), "not a struct")
					continue
				}
				var untagged []string
				for i := 0; i < st.NumFields(); i++ {
					f := st.Field(i)
					key := c12P + tn + "." + f.Name()
					tags := reflect.StructTag(st.Tag(i))
					hv, has := tags.Lookup(tag)
					if !has {
						untagged = append(untagged, f.Name())
						continue
					}
					if hv == "-" {
						continue
					}
					fr := flowing[key]
					if len(fr) == 0 {
						c.Bad(key+" hashed", f.Pos(), "field is tagged "+tag+":\""+hv+"\" but no read of it reaches a hasher Put*/Append* call in the "+ver+" hash functions")
						continue
					}
					if fi == 1 {
						c.Good(key+" hashed", fr[0].Pos(), "")
						continue
					}
					cv, hasCfg := tags.Lookup("config_hash")
					if !hasCfg {
						c.Bad(key+" hashed", f.Pos(), "field has no config_hash tag")
						continue
					}
					good, why, unsure := true, "", false
					both := false
					for _, in := range fr {
						known, ut, uf := cfgEdges(in)
						if !known {
							unsure = true
							continue
						}
						if cv == "-" && !uf {
							good, why = false, "field is excluded from the config hash (config_hash:\"-\") but is hashed outside the !configOnly edge"
						}
						if !ut && !uf {
							both = true
						}
					}
					if cv != "-" && !both {
						good, why = false, "field belongs to the config hash but is not hashed on both configOnly edges"
					}
					if unsure && good {
						c.Unsure(key+" hashed", fr[0].Pos(), "field is hashed in a function without a configOnly parameter")
						continue
					}
					c.Check(key+" hashed", fr[0].Pos(), good, why)
				}
				c.Check(c12P+tn+" every field carries a "+tag+" tag", obj.Pos(), len(untagged) == 0, "fields without a "+tag+" tag (neither hashed nor declared excluded): "+strings.Join(untagged, ", "))
			}
		}
	})
}

var c12Mutants = []Mutant{
	{ID: "C12-L1-skip-compounding", File: "cluster/ssz.go", Expect: "L1|Definition.Compounding",
		Old: "\thh.PutBool(d.Compounding)\n\n\t// Field (15)",
		New: "\t// Field (15)"},
	{ID: "C12-L1-skip-gaslimit", File: "cluster/ssz.go", Expect: "L1|Registration.GasLimit",
		Old: "\thh.PutUint64(uint64(r.GasLimit))\n",
		New: ""},
	{ID: "C12-L1-enr-in-config-hash", File: "cluster/ssz.go", Expect: "L1|Operator.ENR",
		Old: "\t\t\tif !configOnly {\n\t\t\t\t// Field (1) 'ENR' ByteList[1024]\n\t\t\t\tif err := putByteList(hh, []byte(o.ENR), sszMaxENR, \"enr\"); err != nil {\n\t\t\t\t\treturn err\n\t\t\t\t}\n\n\t\t\t\t// Field (2) 'ConfigSignature' List[Bytes65, 32]",
		New: "\t\t\tif err := putByteList(hh, []byte(o.ENR), sszMaxENR, \"enr\"); err != nil {\n\t\t\t\treturn err\n\t\t\t}\n\n\t\t\tif !configOnly {\n\t\t\t\t// Field (2) 'ConfigSignature' List[Bytes65, 32]"},
	{ID: "C12-L1-wrong-var-enrsig", File: "cluster/ssz.go", Expect: "L1|Operator.ENRSignature",
		Old: "putK1SigList(hh, o.ENRSignature, sszMaxK1Sigs, \"enr_signature\")",
		New: "putK1SigList(hh, o.ConfigSignature, sszMaxK1Sigs, \"enr_signature\")"},
	{ID: "C12-L1-confighash-on-config-edge", File: "cluster/ssz.go", Expect: "L1|Definition.ConfigHash",
		Old: "\tif !configOnly {\n\t\thh.PutBytes(d.ConfigHash)",
		New: "\tif configOnly {\n\t\thh.PutBytes(d.ConfigHash)"},
	{ID: "C12-L1-untagged-field", File: "cluster/registration.go", Expect: "L1|Registration every field",
		Old: "\tPubKey       []byte    `json:\"pubkey\"        lock_hash:\"3\" ssz:\"Bytes48\"`\n}",
		New: "\tPubKey       []byte    `json:\"pubkey\"        lock_hash:\"3\" ssz:\"Bytes48\"`\n\tExtra        []byte    `json:\"extra\"`\n}"},
	{ID: "C12-L1-deposit-sig-wrong-var", File: "cluster/ssz.go", Expect: "L1|DepositData.Signature",
		Old: "\tif err := putBytesN(hh, d.Signature, sszLenBLSSig); err != nil {",
		New: "\tif err := putBytesN(hh, d.PubKey, sszLenBLSSig); err != nil {"},
	{ID: "C12-L1-threshold-dup", File: "cluster/ssz.go", Expect: "L1|Definition.NumValidators",
		Old: "\t// Field (4) 'NumValidators' uint64\n\thh.PutUint64(uint64(d.NumValidators))\n\n\t// Field (5) 'Threshold' uint64\n\thh.PutUint64(uint64(d.Threshold))\n\n\t// Field (6) 'DKGAlgorithm' ByteList[32]\n\tif err := putByteList(hh, []byte(d.DKGAlgorithm), sszMaxDKGAlgorithm, \"dkg_algorithm\"); err != nil {\n\t\treturn err\n\t}\n\n\t// Field (7) 'ForkVersion' Bytes4\n\tif err := putBytesN(hh, d.ForkVersion, sszLenForkVersion); err != nil {\n\t\treturn err\n\t}\n\n\t// Field (8) 'Operators' CompositeList[256]\n\t{\n\t\toperatorsIdx := hh.Index()\n\n\t\tnum := uint64(len(d.Operators))\n\t\tfor _, o := range d.Operators {\n\t\t\toperatorIdx := hh.Index()\n\n\t\t\t// Field (0) 'Address' Bytes20\n\t\t\tif err := putHexBytes20(hh, o.Address); err != nil {\n\t\t\t\treturn err\n\t\t\t}\n\n\t\t\tif !configOnly {\n\t\t\t\t// Field (1) 'ENR' ByteList[1024]\n\t\t\t\tif err := putByteList(hh, []byte(o.ENR), sszMaxENR, \"enr\"); err != nil {\n\t\t\t\t\treturn err\n\t\t\t\t}\n\n\t\t\t\t// Field (2) 'ConfigSignature' List[Bytes65, 32]",
		New: "\t// Field (4) 'NumValidators' uint64\n\thh.PutUint64(uint64(d.Threshold))\n\n\t// Field (5) 'Threshold' uint64\n\thh.PutUint64(uint64(d.Threshold))\n\n\t// Field (6) 'DKGAlgorithm' ByteList[32]\n\tif err := putByteList(hh, []byte(d.DKGAlgorithm), sszMaxDKGAlgorithm, \"dkg_algorithm\"); err != nil {\n\t\treturn err\n\t}\n\n\t// Field (7) 'ForkVersion' Bytes4\n\tif err := putBytesN(hh, d.ForkVersion, sszLenForkVersion); err != nil {\n\t\treturn err\n\t}\n\n\t// Field (8) 'Operators' CompositeList[256]\n\t{\n\t\toperatorsIdx := hh.Index()\n\n\t\tnum := uint64(len(d.Operators))\n\t\tfor _, o := range d.Operators {\n\t\t\toperatorIdx := hh.Index()\n\n\t\t\t// Field (0) 'Address' Bytes20\n\t\t\tif err := putHexBytes20(hh, o.Address); err != nil {\n\t\t\t\treturn err\n\t\t\t}\n\n\t\t\tif !configOnly {\n\t\t\t\t// Field (1) 'ENR' ByteList[1024]\n\t\t\t\tif err := putByteList(hh, []byte(o.ENR), sszMaxENR, \"enr\"); err != nil {\n\t\t\t\t\treturn err\n\t\t\t\t}\n\n\t\t\t\t// Field (2) 'ConfigSignature' List[Bytes65, 32]"},
	{ID: "C12-L2-unmarshal-drop-targetgaslimit", File: "cluster/definition.go", Expect: "L2|definition v1.10.0 roundtrip",
		Old: "\t\tTargetGasLimit:    defJSON.TargetGasLimit,\n",
		New: ""},
	{ID: "C12-L2-marshal-lock-v1x7-drop-nodesigs", File: "cluster/lock.go", Expect: "L2|lock v1.7.0 roundtrip",
		Old: "\t\tNodeSignatures:     byteSliceArrayToEthHex(lock.NodeSignatures),\n\t})\n\tif err != nil {\n\t\treturn nil, errors.Wrap(err, \"marshal definition v1_7\")",
		New: "\t})\n\tif err != nil {\n\t\treturn nil, errors.Wrap(err, \"marshal definition v1_7\")"},
	{ID: "C12-L2-hash-v1x6-skip-amount", File: "cluster/ssz.go", Expect: "L2|lock v1.6.0 marshalled",
		Old: "\thh.PutUint64(uint64(d.Amount))\n\n\t// Field (3) 'Signature' Bytes96\n\treturn putBytesN",
		New: "\t// Field (3) 'Signature' Bytes96\n\treturn putBytesN"},
	{ID: "C12-L2-marshal-v1x9-wrong-field", File: "cluster/definition.go", Expect: "L2|definition v1.9.0 roundtrip",
		Old: "\t\tDepositAmounts:    def.DepositAmounts,\n\t\tConsensusProtocol: def.ConsensusProtocol,\n\t})",
		New: "\t\tDepositAmounts:    def.DepositAmounts,\n\t\tConsensusProtocol: def.Name,\n\t})"},
	{ID: "C12-L2-registration-from-json-drop-pubkey", File: "cluster/registration.go", Expect: "L2|lock v1.8.0 roundtrip",
		Old: "\t\t\tTimestamp:    time.Unix(int64(b.Message.Timestamp), 0),\n\t\t\tPubKey:       b.Message.PubKey,\n",
		New: "\t\t\tTimestamp:    time.Unix(int64(b.Message.Timestamp), 0),\n"},
	{ID: "C12-L2-legacy-hash-skip-enr", File: "cluster/ssz.go", Expect: "L2|definition v1.0.0 marshalled",
		Old: "\t\t\thh.PutBytes([]byte(o.ENR))\n",
		New: ""},
	{ID: "C12-L3-discard-builder-registrations", File: "cluster/lock.go", Expect: "L3|builder registrations",
		Old: "\terr = l.verifyBuilderRegistrations()\n\tif err != nil {\n\t\treturn errors.Wrap(err, \"verify pre-generated builder registrations\")\n\t}\n",
		New: "\t_ = l.verifyBuilderRegistrations()\n"},
	{ID: "C12-L3-skip-config-hash-compare", File: "cluster/definition.go", Expect: "L3|compare config hash",
		Old: "\tconfigHash, err := hashDefinition(d, true)\n\tif err != nil {\n\t\treturn errors.Wrap(err, \"config hash\")\n\t}\n\n\tif !bytes.Equal(d.ConfigHash, configHash[:]) {\n\t\treturn errors.New(\"invalid config hash\")\n\t}\n",
		New: "\t_, err := hashDefinition(d, true)\n\tif err != nil {\n\t\treturn errors.Wrap(err, \"config hash\")\n\t}\n"},
	{ID: "C12-L3-weaken-lockhash-compare", File: "cluster/lock.go", Expect: "L3|compare lock hash",
		Old: "\tif !bytes.Equal(l.LockHash, lockHash[:]) {",
		New: "\tif !bytes.Equal(l.LockHash, lockHash[:]) && len(l.LockHash) > 0 {"},
	{ID: "C12-L3-compare-wrong-field", File: "cluster/definition.go", Expect: "L3|compare definition hash",
		Old: "bytes.Equal(d.DefinitionHash, defHash[:])",
		New: "bytes.Equal(d.ConfigHash, defHash[:])"},
	{ID: "C12-L3-config-only-flipped", File: "cluster/definition.go", Expect: "L3|recompute config hash",
		Old: "\tconfigHash, err := hashDefinition(d, true)\n\tif err != nil {\n\t\treturn errors.Wrap(err, \"config hash\")",
		New: "\tconfigHash, err := hashDefinition(d, false)\n\tif err != nil {\n\t\treturn errors.Wrap(err, \"config hash\")"},
	{ID: "C12-L3-weaken-aggregate-check", File: "cluster/lock.go", Expect: "L3|aggregate signature over",
		Old: "\terr = tbls.VerifyAggregate(pubkeys, sig, hash[:])\n\tif err != nil {",
		New: "\terr = tbls.VerifyAggregate(pubkeys, sig, hash[:])\n\tif err != nil && len(pubkeys) == 0 {"},
	{ID: "C12-L3-reconstruct-wrong-threshold", File: "cluster/lock.go", Expect: "L3|share reconstruction",
		Old: "verifySharesReconstruct(dvKey, shares, l.Threshold)",
		New: "verifySharesReconstruct(dvKey, shares, 1)"},
	{ID: "C12-L3-early-exit-wider", File: "cluster/lock.go", Expect: "L3|early-exit empty-aggregate",
		Old: "\t\tif isAnyVersion(l.Version, v1_0, v1_1) {\n\t\t\treturn nil",
		New: "\t\tif isAnyVersion(l.Version, v1_0, v1_1, v1_2) {\n\t\t\treturn nil"},
	{ID: "C12-L3-continue-around-share-checks", File: "cluster/lock.go", Expect: "L3|per-validator",
		Old: "\t\tshares, err := parsePubShares(val.PubShares)",
		New: "\t\tif len(val.PubShares) == 0 {\n\t\t\tcontinue\n\t\t}\n\n\t\tshares, err := parsePubShares(val.PubShares)"},
	{ID: "C12-L3-creator-sig-weakened", File: "cluster/definition.go", Expect: "L3|creator signature",
		Old: "\t\t} else if !ok {\n\t\t\treturn errors.New(\"invalid creator config signature\")",
		New: "\t\t} else if !ok && eth1 == nil {\n\t\t\treturn errors.New(\"invalid creator config signature\")"},
	{ID: "C12-L3-operator-enr-sig-continue", File: "cluster/definition.go", Expect: "L3|operator enr signature",
		Old: "\t\t} else if !ok {\n\t\t\treturn errors.New(\"invalid operator enr signature\", z.Any(\"operator_address\", o.Address))",
		New: "\t\t} else if !ok {\n\t\t\tcontinue"},
	{ID: "C12-L3-unsigned-bypass-weakened", File: "cluster/definition.go", Expect: "L3|operator",
		Old: "\t\tif o.Address == \"\" && len(o.ENRSignature) == 0 && len(o.ConfigSignature) == 0 {",
		New: "\t\tif len(o.ENRSignature) == 0 && len(o.ConfigSignature) == 0 {"},
	{ID: "C12-L3-mixed-check-removed", File: "cluster/definition.go", Expect: "L3|all-or-none",
		Old: "\tif noOpSigs > 0 && noOpSigs != len(d.Operators) {\n\t\treturn errors.New(\"some operators signed while others did not\")\n\t}\n",
		New: ""},
	{ID: "C12-L3-unsigned-creator-unconditional", File: "cluster/definition.go", Expect: "L3|unsigned-creator",
		Old: "\t\tif noOpSigs == 0 {\n\t\t\treturn errors.New(\"operators signed while creator did not\")\n\t\t}\n",
		New: "\t\tif noOpSigs < 0 {\n\t\t\treturn errors.New(\"operators signed while creator did not\")\n\t\t}\n"},
	{ID: "C12-L3-hashlock-switch-misses-v1x9", File: "cluster/ssz.go", Expect: "L3|cluster.hashLock covers",
		Old: "v1_3, v1_4, v1_5, v1_6, v1_7, v1_8, v1_9, v1_10, v1_11) {\n\t\thashFunc = hashLockV1x3orLater",
		New: "v1_3, v1_4, v1_5, v1_6, v1_7, v1_8, v1_10, v1_11) {\n\t\thashFunc = hashLockV1x3orLater"},
	{ID: "C12-L3-unmarshal-switch-misses-v1x6", File: "cluster/lock.go", Expect: "L3|cluster.Lock.UnmarshalJSON covers",
		Old: "\tcase isAnyVersion(version.Definition.Version, v1_6):\n",
		New: "\tcase isAnyVersion(version.Definition.Version, v1_5):\n"},
	{ID: "C12-L3-support-eip712-wider", File: "cluster/definition.go", Expect: "L3|supportEIP712Sigs",
		Old: "\treturn !isAnyVersion(version, v1_0, v1_1, v1_2)\n",
		New: "\treturn !isAnyVersion(version, v1_0, v1_1, v1_2, v1_3)\n"},
	{ID: "C12-L3-dup-key-not-recorded", File: "cluster/lock.go", Expect: "L3|duplicate key",
		Old: "\t\tseenDVKeys[dvKey] = struct{}{}\n",
		New: ""},
	{ID: "C12-L3-defsigs-after-early-exit", File: "cluster/lock.go", Expect: "L3|early-exit definition signatures",
		Old:  "\tif err := l.Definition.VerifySignatures(eth1); err != nil {\n\t\treturn errors.Wrap(err, \"invalid definition\")\n\t}\n\n\tif len(l.SignatureAggregate) == 0 {",
		New:  "\tif len(l.SignatureAggregate) == 0 {",
		More: [][2]string{{"\tsig, err := tblsconv.SignatureFromBytes(l.SignatureAggregate)", "\tif err := l.Definition.VerifySignatures(eth1); err != nil {\n\t\treturn errors.Wrap(err, \"invalid definition\")\n\t}\n\n\tsig, err := tblsconv.SignatureFromBytes(l.SignatureAggregate)"}}},
	{ID: "C12-L3-node-sigs-dropped", File: "cluster/lock.go", Expect: "L3|node signatures",
		Old: "\treturn l.verifyNodeSignatures()\n}",
		New: "\t_ = l.verifyNodeSignatures()\n\n\treturn nil\n}"},
	{ID: "C12-L4-weakened-compare", File: "cmd/combine/combine.go", Expect: "L4|public-key comparison",
		Old: "\t\tif valPk != genPubkey {",
		New: "\t\tif valPk != genPubkey && !force {"},
	{ID: "C12-L4-self-compare", File: "cmd/combine/combine.go", Expect: "L4|public-key comparison",
		Old: "\t\tif valPk != genPubkey {",
		New: "\t\tif genPubkey != genPubkey {"},
	{ID: "C12-L4-wrong-index", File: "cmd/combine/combine.go", Expect: "L4|index binding",
		Old: "\t\tval := lock.Validators[valIdx]",
		New: "\t\tval := lock.Validators[0]"},
	{ID: "C12-L4-error-logged", File: "cmd/combine/combine.go", Expect: "L4|public-key comparison",
		Old: "\t\t\treturn errors.New(\"unexpected resulting combined validator public key\",",
		New: "\t\t\tlog.Warn(ctx, \"unexpected resulting combined validator public key\", nil,"},
	{ID: "C12-L4-keystore-other-slice", File: "cmd/combine/combine.go", Expect: "L4|keystore holds",
		Old: "o.keyStoreFunc(combinedKeys, outputDir)",
		New: "o.keyStoreFunc(append(combinedKeys, privkeys[0]...), outputDir)"},
	{ID: "C12-L4-genkey-error-ignored", File: "cmd/combine/combine.go", Expect: "L4|generated public key",
		Old: "\t\tgenPubkey, err := tbls.SecretToPublicKey(secret)\n\t\tif err != nil {",
		New: "\t\tgenPubkey, err := tbls.SecretToPublicKey(secret)\n\t\tif err != nil && force {"},
	{ID: "C12-L5-flag-inverted", File: "cluster/load.go", Expect: "L5|LoadClusterLock cluster.Lock.VerifyHashes",
		Old: "\tif err := lock.VerifyHashes(); err != nil && !noVerify {",
		New: "\tif err := lock.VerifyHashes(); err != nil && noVerify {"},
	{ID: "C12-L5-always-ignored", File: "cluster/load.go", Expect: "L5|LoadClusterLock cluster.Lock.VerifySignatures",
		Old: "\tif err := lock.VerifySignatures(eth1Cl); err != nil && !noVerify {\n\t\treturn nil, errors.Wrap(err, \"verify cluster lock signatures (run with --no-verify to bypass verification at own risk)\")\n\t} else if err != nil && noVerify {",
		New: "\tif err := lock.VerifySignatures(eth1Cl); err != nil {"},
	{ID: "C12-L5-dkg-weakened", File: "dkg/disk.go", Expect: "L5|dkg.loadDefinition cluster.Definition.VerifySignatures",
		Old: "\tif err := def.VerifySignatures(eth1Cl); err != nil && !conf.NoVerify {",
		New: "\tif err := def.VerifySignatures(eth1Cl); err != nil && !conf.NoVerify && conf.DefFile == \"\" {"},
	{ID: "C12-L5-dkg-discarded", File: "dkg/disk.go", Expect: "L5|dkg.loadDefinition cluster.Definition.VerifyHashes",
		Old: "\tif err := def.VerifyHashes(); err != nil && !conf.NoVerify {",
		New: "\tif err := error(nil); def.VerifyHashes() == nil && err != nil && !conf.NoVerify {"},
	{ID: "C12-L5-and-verify-passes-true", File: "cluster/load.go", Expect: "L5|LoadClusterLockAndVerify",
		Old: "return LoadClusterLock(ctx, lockFilePath, false, eth1Cl)",
		New: "return LoadClusterLock(ctx, lockFilePath, true, eth1Cl)"},
	{ID: "C12-L5-combine-noverify-const", File: "cmd/combine/combine.go", Expect: "L5|cmd/combine.Combine",
		Old: "loadManifest(ctx, inputDir, noverify, eth1Cl)",
		New: "loadManifest(ctx, inputDir, true, eth1Cl)"},
	{ID: "C12-L6-enr-digest-empty-operator", File: "cluster/definition.go", Expect: "L6|operator enr digest",
		Old: "digestEIP712(eip712ENR, d, o)",
		New: "digestEIP712(eip712ENR, d, Operator{})"},
	{ID: "C12-L6-creator-type-swapped", File: "cluster/definition.go", Expect: "L6|creator config digest",
		Old: "digestEIP712(eip712CreatorConfigHash, d, Operator{})",
		New: "digestEIP712(eip712OperatorConfigHash, d, Operator{})"},
	{ID: "C12-L6-valuefunc-enr-wrong-field", File: "cluster/eip712sigs.go", Expect: "L6|eip712ENR ValueFunc",
		Old: "\t\t\t\t\treturn operator.ENR\n",
		New: "\t\t\t\t\treturn operator.Address\n"},
	{ID: "C12-L6-operator-type-v1x4", File: "cluster/eip712sigs.go", Expect: "L6|getOperatorEIP712Type",
		Old: "\tif isAnyVersion(version, v1_3) {\n\t\treturn eip712V1x3ConfigHash",
		New: "\tif isAnyVersion(version, v1_3, v1_4) {\n\t\treturn eip712V1x3ConfigHash"},
	{ID: "C12-L6-valuefunc-signs-definition-hash", File: "cluster/eip712sigs.go", Expect: "L6|eip712OperatorConfigHash ValueFunc",
		Old: "\t\t\t\tField: \"operator_config_hash\",\n\t\t\t\tType:  eip712.PrimitiveString,\n\t\t\t\tValueFunc: func(definition Definition, _ Operator) any {\n\t\t\t\t\treturn to0xHex(definition.ConfigHash)",
		New: "\t\t\t\tField: \"operator_config_hash\",\n\t\t\t\tType:  eip712.PrimitiveString,\n\t\t\t\tValueFunc: func(definition Definition, _ Operator) any {\n\t\t\t\t\treturn to0xHex(definition.DefinitionHash)"},
}
