package rules

import (
	"go/constant"
	"go/token"
	"go/types"
	"reflect"
	"sort"
	"strings"

	"golang.org/x/tools/go/ssa"

	"charonverif/internal/an"
	"charonverif/internal/rt"
)

func init() {
	Register(&Prop{
		ID: "C12",
		Decides: "package cluster / cmd/combine: (L1) every field of Definition/Operator/Creator/ValidatorAddresses/Lock/DistValidator/DepositData/BuilderRegistration/Registration " +
			"carries a hash tag, and every field whose tag is not `-` flows into an SSZ hasher call in the current-version hash functions, on the configOnly edge its config_hash tag states (the flag is followed through helpers, closures and negations), and the lock hash covers the definition in full; " +
			"(L2) per format version the fields written by marshal*V* are covered by the hash function dispatched for that version (or verified by comparison/signature) and are exactly the fields restored by unmarshal*V*; " +
			"(L3) VerifyHashes/VerifySignatures return nil only after every hash comparison and signature/share check succeeded, with the frozen early exits, and every version switch covers supportedVersions; " +
			"(L4) Combine stores a recombined secret only after comparing its public key with the lock's validator key; (L5) the loaders ignore a verification error only under the no-verify flag; " +
			"(L6) each EIP-712 digest verified in Definition.VerifySignatures is built from the type and the operator it is checked for, and each ValueFunc reads the field it names.",
		NotDecided: "that a freshly created cluster passes verification; recombination for every cluster shape; value-level tamper evidence (every representative alteration changes the hash); " +
			"byte-level stability of decode∘encode; all BLS/secp256k1 algebra.",
		Run:     c12,
		Mutants: c12Mutants,
	})
}

const (
	c12P      = "cluster."
	c12HashWk = "github.com/ferranbt/fastssz"
)

func c12(c *rt.Ctx) {
	if sp := c.P.SSAPkg("cluster"); sp != nil {
		defer c12CacheDrop(sp.Prog)
	}
	c12L1(c)
	c12L2(c)
	c12L3(c)
	c12L4(c)
	c12L5(c)
	c12L6(c)
}

// ---------------------------------------------------------------------------------------------
// Generic helpers

func c12ConstStr(v ssa.Value) (string, bool) {
	k, ok := an.Unwrap(v).(*ssa.Const)
	if !ok || k.Value == nil || k.Value.Kind() != constant.String {
		return "", false
	}
	return constant.StringVal(k.Value), true
}

func c12ConstBool(v ssa.Value) (bool, bool) {
	k, ok := an.Unwrap(v).(*ssa.Const)
	if !ok || k.Value == nil || k.Value.Kind() != constant.Bool {
		return false, false
	}
	return constant.BoolVal(k.Value), true
}

// c12DomBy: b is the block s or dominated by it, and s is entered only through that edge.
func c12DomBy(s, b *ssa.BasicBlock) bool {
	return (s == b || s.Dominates(b)) && len(s.Preds) == 1
}

func c12Sorted(m map[string]bool) []string {
	var out []string
	for k := range m {
		out = append(out, k)
	}
	sort.Strings(out)
	return out
}

var _ = strings.Join

// ---------------------------------------------------------------------------------------------
// L3 — verification functions return nil only after every check

// c12VersionsOf decodes the constant variadic version list of an isAnyVersion call.
func c12VersionsOf(call *ssa.Call) ([]string, bool) {
	if len(call.Call.Args) != 2 {
		return nil, false
	}
	sl, ok := call.Call.Args[1].(*ssa.Slice)
	if !ok {
		return nil, false
	}
	al, ok := sl.X.(*ssa.Alloc)
	if !ok {
		return nil, false
	}
	arr, ok := al.Type().Underlying().(*types.Pointer).Elem().Underlying().(*types.Array)
	if !ok {
		return nil, false
	}
	var out []string
	for _, ref := range *al.Referrers() {
		ia, ok := ref.(*ssa.IndexAddr)
		if !ok {
			continue
		}
		for _, r2 := range *ia.Referrers() {
			st, ok := r2.(*ssa.Store)
			if !ok || st.Addr != ssa.Value(ia) {
				continue
			}
			s, ok := c12ConstStr(st.Val)
			if !ok {
				return nil, false
			}
			out = append(out, s)
		}
	}
	if int64(len(out)) != arr.Len() {
		return nil, false
	}
	sort.Strings(out)
	return out, true
}

func c12L3(c *rt.Ctx) {
	c.Rule("L3", 37, func() {
		c12DefVerifyHashesP(c)
		c12LockVerifyHashesP(c)
		c12LockVerifySigsP(c)
		c12DefVerifySigsP(c)
		c12VersionCoverage(c)
	})
}

// ---------------------------------------------------------------------------------------------
// Version dispatch

func c12InCluster(f *ssa.Function) bool {
	return f != nil && f.Pkg != nil && an.Short(f.Pkg.Pkg.Path()) == "cluster" && f.Name() != "isAnyVersion"
}

func c12Supported(c *rt.Ctx) map[string]bool {
	pkg := c.SSAPkg("cluster")
	g, ok := pkg.Members["supportedVersions"].(*ssa.Global)
	if !ok {
		c.Bail("cluster.supportedVersions not found")
	}
	out := map[string]bool{}
	for _, in := range an.Instrs(pkg.Func("init"), false) {
		st, ok := in.(*ssa.Store)
		if !ok || st.Addr != ssa.Value(g) {
			continue
		}
		mk, ok := st.Val.(*ssa.MakeMap)
		if !ok {
			c.Bail("supportedVersions is not initialised from a map literal")
		}
		for _, ref := range *mk.Referrers() {
			if up, ok := ref.(*ssa.MapUpdate); ok {
				k, ok1 := c12ConstStr(up.Key)
				v, ok2 := c12ConstBool(up.Value)
				if !ok1 || !ok2 {
					c.Bail("supportedVersions has a non-constant entry")
				}
				if v {
					out[k] = true
				}
			}
		}
	}
	if len(out) == 0 {
		c.Bail("supportedVersions is empty")
	}
	return out
}

var c12Dispatchers = []string{
	"cluster.Definition.MarshalJSON", "cluster.Definition.UnmarshalJSON", "cluster.getDefinitionHashFunc",
	"cluster.Lock.MarshalJSON", "cluster.Lock.UnmarshalJSON", "cluster.hashLock",
	"cluster.getDepositDataHashFunc", "cluster.getRegistrationHashFunc",
}

// c12VersionCoverage: a dispatcher handles version v iff, with every isAnyVersion test evaluated for v, it (or a
// helper it owns) references a function of package cluster that it does not reference for a version matching no
// test at all. Other registered dispatchers are not descended into (they are checked on their own).
func c12VersionCoverage(c *rt.Ctx) {
	sup := c12Supported(c)
	stop := map[*ssa.Function]bool{}
	for _, name := range c12Dispatchers {
		stop[c.Fn(name)] = true
	}
	const bogus = "v?.?.?"
	for _, name := range c12Dispatchers {
		fn := c.Fn(name)
		base := map[*ssa.Function]bool{}
		bcl := c12ClosureStop([]*ssa.Function{fn}, bogus, stop)
		imprecise := bcl.imprecise || c12nOpaqueDispatch(bcl) != nil
		for _, f := range bcl.fns {
			base[f] = true
		}
		var miss, extra []string
		for v := range sup {
			gated := false
			vcl := c12ClosureStop([]*ssa.Function{fn}, v, stop)
			imprecise = imprecise || vcl.imprecise
			for _, f := range vcl.fns {
				if !base[f] {
					gated = true
				}
			}
			if !gated {
				miss = append(miss, v)
			}
		}
		seen := map[string]bool{}
		decodable := true
		for _, f := range c12ClosureStop([]*ssa.Function{fn}, "", stop).fns {
			for _, in := range an.Instrs(f, false) {
				if call, ok := in.(*ssa.Call); ok && an.Static("cluster.isAnyVersion")(&call.Call) {
					vs, ok := c12VersionsOf(call)
					if !ok {
						decodable = false
					}
					for _, v := range vs {
						if !sup[v] && !seen[v] {
							seen[v] = true
							extra = append(extra, v)
						}
					}
				}
			}
		}
		if !decodable {
			c.Unsure(name+" covers supportedVersions", fn.Pos(), "version list of an isAnyVersion call is not constant")
			continue
		}
		sort.Strings(miss)
		sort.Strings(extra)
		if in := c12n4DataDispatch(bcl); len(miss) > 0 && in != nil {
			c.Unsure(name+" covers supportedVersions", fn.Pos(), "the dispatcher selects its version-specific function through a table of function values built for every version ("+c.P.Pos(in.Pos())+"), which the valuation of the version tests cannot follow")
			continue
		}
		if len(miss) > 0 && imprecise {
			c.Unsure(name+" covers supportedVersions", fn.Pos(), "a version-dependent condition of the dispatch cannot be evaluated statically (missing "+strings.Join(miss, ",")+"?)")
			continue
		}
		c.Check(name+" covers supportedVersions", fn.Pos(), len(miss) == 0 && len(extra) == 0,
			"version switch differs from supportedVersions: missing "+strings.Join(miss, ",")+" extra "+strings.Join(extra, ","))
	}
}

// ---------------------------------------------------------------------------------------------
// L4 — Combine stores a recombined secret only after comparing its public key with the lock

func c12L4(c *rt.Ctx) {
	c.Rule("L4", 5, func() { c12L4P(c) })
}

// ---------------------------------------------------------------------------------------------
// L5 — loaders ignore a verification error only under the explicit no-verify flag

func c12L5(c *rt.Ctx) {
	c.Rule("L5", 7, func() { c12L5P(c) })
}

// ---------------------------------------------------------------------------------------------
// L6 — EIP-712 digests are built from the right type and operator

func c12L6(c *rt.Ctx) {
	c.Rule("L6", 8, func() {
		c12L6P(c)
		c12ValueFuncsP(c)
	})
}

// ---------------------------------------------------------------------------------------------
// Field machinery (E4) for L1 / L2

var (
	c12DefFamily  = []string{"Definition", "Operator", "Creator", "ValidatorAddresses"}
	c12LockFamily = []string{"Lock", "DistValidator", "DepositData", "BuilderRegistration", "Registration"}
)

func c12Tracked(key string) bool {
	for _, fam := range [][]string{c12DefFamily, c12LockFamily} {
		for _, t := range fam {
			if strings.HasPrefix(key, c12P+t+".") {
				return true
			}
		}
	}
	return false
}

// c12VerEval evaluates a boolean built from isAnyVersion(x, consts...) tests for version ver: the tests themselves,
// negations, comparisons with boolean constants and phis of short-circuit operators / named booleans (only the
// incoming edges that are feasible for ver count). known=false: not decided by the version alone; versioned reports
// whether an isAnyVersion test is involved at all.
func c12VerEval(v ssa.Value, ver string, edgeOK func(from, to *ssa.BasicBlock) bool, d int) (val, known, versioned bool) {
	if d > 8 {
		return false, false, false
	}
	switch x := v.(type) {
	case *ssa.Const:
		if b, ok := c12ConstBool(x); ok {
			return b, true, false
		}
	case *ssa.UnOp:
		if x.Op == token.NOT {
			val, known, versioned = c12VerEval(x.X, ver, edgeOK, d+1)
			return !val, known, versioned
		}
	case *ssa.Call:
		if an.Static("cluster.isAnyVersion")(&x.Call) {
			vs, ok := c12VersionsOf(x)
			if !ok {
				return false, false, true
			}
			for _, w := range vs {
				if w == ver {
					return true, true, true
				}
			}
			return false, true, true
		}
	case *ssa.BinOp:
		if x.Op == token.EQL || x.Op == token.NEQ {
			for i, side := range []ssa.Value{x.X, x.Y} {
				if c, ok := c12ConstBool(side); ok {
					other := x.Y
					if i == 1 {
						other = x.X
					}
					val, known, versioned = c12VerEval(other, ver, edgeOK, d+1)
					return val == (c == (x.Op == token.EQL)), known, versioned
				}
			}
		}
	case *ssa.Phi:
		first, agreed := true, true
		for i, e := range x.Edges {
			if !edgeOK(x.Block().Preds[i], x.Block()) {
				continue
			}
			ev, ek, evs := c12VerEval(e, ver, edgeOK, d+1)
			versioned = versioned || evs
			if !ek {
				agreed = false
				continue
			}
			if first {
				val, first = ev, false
			} else if ev != val {
				agreed = false
			}
		}
		return val, agreed && !first, versioned
	}
	return false, false, false
}

// c12Feasible returns the blocks of fn reachable when every isAnyVersion test is evaluated for ver
// (all blocks when ver is empty); imprecise reports a version-dependent condition that could not be decided.
func c12Feasible(fn *ssa.Function, ver string) (map[*ssa.BasicBlock]bool, bool) {
	seen := map[*ssa.BasicBlock]bool{}
	imprecise := false
	if len(fn.Blocks) == 0 {
		return seen, false
	}
	type edge struct{ from, to *ssa.BasicBlock }
	edges := map[edge]bool{}
	edgeOK := func(from, to *ssa.BasicBlock) bool { return edges[edge{from, to}] }
	seen[fn.Blocks[0]] = true
	for changed := true; changed; {
		changed = false
		imprecise = false
		for _, b := range fn.Blocks {
			if !seen[b] {
				continue
			}
			take := []bool{true, true}
			if iff, ok := b.Instrs[len(b.Instrs)-1].(*ssa.If); ok && ver != "" && len(b.Succs) == 2 {
				val, known, versioned := c12VerEval(iff.Cond, ver, edgeOK, 0)
				if known && versioned {
					take = []bool{val, !val}
				} else if versioned {
					imprecise = true
				}
			}
			for i, s := range b.Succs {
				if i < len(take) && !take[i] {
					continue
				}
				if !edges[edge{b, s}] {
					edges[edge{b, s}] = true
					changed = true
				}
				if !seen[s] {
					seen[s] = true
					changed = true
				}
			}
		}
	}
	return seen, imprecise
}

type c12Clo struct {
	ver       string
	fns       []*ssa.Function
	feas      map[*ssa.Function]map[*ssa.BasicBlock]bool
	imprecise bool // some version-dependent branch could not be decided for ver (both edges were followed)
}

func (cl *c12Clo) feasible(fn *ssa.Function) map[*ssa.BasicBlock]bool {
	if m, ok := cl.feas[fn]; ok {
		return m
	}
	m, imp := c12Feasible(fn, cl.ver)
	cl.imprecise = cl.imprecise || imp
	cl.feas[fn] = m
	return m
}

// c12Closure: functions of package cluster reachable from roots through static calls and function
// values, following only the blocks feasible for ver.
func c12Closure(roots []*ssa.Function, ver string) *c12Clo { return c12ClosureStop(roots, ver, nil) }

// c12ClosureStop is c12Closure that does not descend into the functions of stop (unless they are roots).
func c12ClosureStop(roots []*ssa.Function, ver string, stop map[*ssa.Function]bool) *c12Clo {
	cl := &c12Clo{ver: ver, feas: map[*ssa.Function]map[*ssa.BasicBlock]bool{}}
	seen := map[*ssa.Function]bool{}
	isRoot := map[*ssa.Function]bool{}
	for _, r := range roots {
		isRoot[r] = true
	}
	var visit func(fn *ssa.Function)
	visit = func(fn *ssa.Function) {
		if fn == nil || seen[fn] || !c12InCluster(fn) || fn.Blocks == nil || (stop[fn] && !isRoot[fn]) {
			return
		}
		seen[fn] = true
		cl.fns = append(cl.fns, fn)
		feas := cl.feasible(fn)
		ref := func(v ssa.Value) {
			switch x := v.(type) {
			case *ssa.Function:
				visit(x)
			case *ssa.MakeClosure:
				if f, ok := x.Fn.(*ssa.Function); ok {
					visit(f)
				}
			}
		}
		for _, b := range fn.Blocks {
			if !feas[b] {
				continue
			}
			for _, in := range b.Instrs {
				if phi, ok := in.(*ssa.Phi); ok {
					for i, e := range phi.Edges {
						if feas[b.Preds[i]] {
							ref(e)
						}
					}
					continue
				}
				for _, op := range an.Operands(in) {
					ref(op)
				}
			}
		}
	}
	for _, r := range roots {
		visit(r)
	}
	return cl
}

// c12Gated returns the functions of package cluster that dispatcher fn (or a helper it owns) references only when
// every isAnyVersion test is evaluated for ver: the entry points of the version-specific code. Registered
// dispatchers in stop are not descended into.
func c12Gated(fn *ssa.Function, ver string, stop map[*ssa.Function]bool) (entries []*ssa.Function, imprecise bool) {
	const bogus = "v?.?.?"
	base := map[*ssa.Function]bool{}
	bcl := c12ClosureStop([]*ssa.Function{fn}, bogus, stop)
	for _, f := range bcl.fns {
		base[f] = true
	}
	cl := c12ClosureStop([]*ssa.Function{fn}, ver, stop)
	defer func() { imprecise = bcl.imprecise || cl.imprecise }()
	gated := map[*ssa.Function]bool{}
	for _, f := range cl.fns {
		if !base[f] {
			gated[f] = true
		}
	}
	seen := map[*ssa.Function]bool{}
	var out []*ssa.Function
	for _, g := range cl.fns {
		if gated[g] {
			continue
		}
		feas := cl.feasible(g)
		ref := func(v ssa.Value) {
			var f *ssa.Function
			switch x := v.(type) {
			case *ssa.Function:
				f = x
			case *ssa.MakeClosure:
				f, _ = x.Fn.(*ssa.Function)
			}
			if f != nil && gated[f] && !seen[f] {
				seen[f] = true
				out = append(out, f)
			}
		}
		for _, b := range g.Blocks {
			if !feas[b] {
				continue
			}
			for _, in := range b.Instrs {
				if phi, ok := in.(*ssa.Phi); ok {
					for i, e := range phi.Edges {
						if feas[b.Preds[i]] {
							ref(e)
						}
					}
					continue
				}
				for _, op := range an.Operands(in) {
					ref(op)
				}
			}
		}
	}
	sort.Slice(out, func(i, j int) bool { return an.FuncName(out[i]) < an.FuncName(out[j]) })
	return out, false
}

// c12AddrUse classifies the uses of a field address: read (loaded, passed on, sub-selected and read)
// and/or set (stored through).
func c12AddrUse(a ssa.Value, d int) (read, set bool) {
	refs := a.Referrers()
	if refs == nil || d > 6 {
		return true, false
	}
	for _, ref := range *refs {
		switch x := ref.(type) {
		case *ssa.Store:
			if x.Addr == a {
				set = true
			} else {
				read = true
			}
		case *ssa.FieldAddr:
			r, s := c12AddrUse(x, d+1)
			read, set = read || r, set || s
		case *ssa.IndexAddr:
			r, s := c12AddrUse(x, d+1)
			read, set = read || r, set || s
		case *ssa.DebugRef:
		default:
			read = true
		}
	}
	return
}

func c12StructFields(t types.Type) []string {
	for {
		p, ok := t.Underlying().(*types.Pointer)
		if !ok {
			break
		}
		t = p.Elem()
	}
	st, ok := t.Underlying().(*types.Struct)
	if !ok {
		return nil
	}
	var out []string
	for i := 0; i < st.NumFields(); i++ {
		out = append(out, an.FieldKey(t, i))
	}
	return out
}

// c12FieldUse returns the tracked fields read / set in the closure, with one read instruction each.
func c12FieldUse(cl *c12Clo) (reads, sets map[string]bool) {
	reads, sets = map[string]bool{}, map[string]bool{}
	for _, fn := range cl.fns {
		feas := cl.feasible(fn)
		for _, b := range fn.Blocks {
			if !feas[b] {
				continue
			}
			for _, in := range b.Instrs {
				switch x := in.(type) {
				case *ssa.Field:
					if k := an.FieldKey(x.X.Type(), x.Field); c12Tracked(k) {
						reads[k] = true
					}
				case *ssa.FieldAddr:
					if k := an.FieldKey(x.X.Type(), x.Field); c12Tracked(k) {
						r, s := c12AddrUse(x, 0)
						if r {
							reads[k] = true
						}
						if s {
							sets[k] = true
						}
					}
				case *ssa.ChangeType:
					if _, ok := x.X.Type().Underlying().(*types.Struct); ok {
						for _, k := range c12StructFields(x.X.Type()) {
							if c12Tracked(k) {
								reads[k] = true
							}
						}
						for _, k := range c12StructFields(x.Type()) {
							if c12Tracked(k) {
								sets[k] = true
							}
						}
					}
				}
			}
		}
	}
	return
}

func c12Minus(a, b map[string]bool, exempt ...string) []string {
	ex := map[string]bool{}
	for _, e := range exempt {
		ex[e] = true
	}
	var out []string
	for k := range a {
		if !b[k] && !ex[k] {
			out = append(out, strings.TrimPrefix(k, c12P))
		}
	}
	sort.Strings(out)
	return out
}

// ---------------------------------------------------------------------------------------------
// L2 — per version: marshalled ⊆ hashed ∪ verified-by-comparison; marshalled == unmarshalled

func c12L2(c *rt.Ctx) {
	c.Rule("L2", 48, func() {
		sup := c12Sorted(c12Supported(c))
		stop := map[*ssa.Function]bool{}
		for _, name := range c12Dispatchers {
			stop[c.Fn(name)] = true
		}
		names := func(fs []*ssa.Function) string {
			var out []string
			for _, f := range fs {
				out = append(out, f.Name())
			}
			return strings.Join(out, "+")
		}
		type side struct {
			what, marshal, unmarshal, hash string
			cmpExempt, rtExempt            []string
		}
		sides := []side{
			{"definition", "cluster.Definition.MarshalJSON", "cluster.Definition.UnmarshalJSON", "cluster.hashDefinition",
				[]string{c12P + "Definition.ConfigHash", c12P + "Definition.DefinitionHash"}, nil},
			{"lock", "cluster.Lock.MarshalJSON", "cluster.Lock.UnmarshalJSON", "cluster.hashLock",
				// LockHash is recomputed by MarshalJSON; SignatureAggregate and NodeSignatures are signatures over the lock hash
				[]string{c12P + "Lock.LockHash", c12P + "Lock.SignatureAggregate", c12P + "Lock.NodeSignatures"}, []string{c12P + "Lock.LockHash"}},
		}
		for _, s := range sides {
			mfn, ufn := c.Fn(s.marshal), c.Fn(s.unmarshal)
			hroot := c.Fn(s.hash)
			for _, ver := range sup {
				m, mi := c12Gated(mfn, ver, stop)
				u, ui := c12Gated(ufn, ver, stop)
				if len(m) == 0 || len(u) == 0 || mi || ui {
					c.Unsure(s.what+" "+ver+" dispatch", hroot.Pos(), "cannot resolve the marshal/unmarshal function dispatched for this version")
					continue
				}
				mcl, ucl, hcl := c12Closure(m, ver), c12Closure(u, ver), c12Closure([]*ssa.Function{hroot}, ver)
				mr, _ := c12FieldUse(mcl)
				_, us := c12FieldUse(ucl)
				hr, _ := c12FieldUse(hcl)
				if len(mr) == 0 || len(us) == 0 || len(hr) == 0 {
					c.Unsure(s.what+" "+ver+" field sets", m[0].Pos(), "empty field set extracted")
					continue
				}
				unh := c12Minus(mr, hr, s.cmpExempt...)
				if opq := c12nOpaqueDispatch(hcl, mcl); len(unh) > 0 && opq != nil {
					c.Unsure(s.what+" "+ver+" marshalled⊆hashed "+names(m), m[0].Pos(), "the hash/marshal functions dispatch through function values the rule cannot resolve ("+
						c.P.Fset.Position(opq.Pos()).String()+"); fields not seen hashed: "+strings.Join(unh, ", "))
				} else {
					c.Check(s.what+" "+ver+" marshalled⊆hashed "+names(m), m[0].Pos(), len(unh) == 0,
						"fields written to the file but covered by no hash for this version: "+strings.Join(unh, ", "))
				}
				lost := c12Minus(us, mr, s.rtExempt...)
				extra := c12Minus(mr, us, s.rtExempt...)
				if opq := c12nOpaqueDispatch(mcl, ucl); len(lost)+len(extra) > 0 && opq != nil {
					c.Unsure(s.what+" "+ver+" roundtrip "+names(m)+"/"+names(u), u[0].Pos(), "the marshal/unmarshal functions dispatch through function values the rule cannot resolve ("+
						c.P.Fset.Position(opq.Pos()).String()+")")
				} else {
					c.Check(s.what+" "+ver+" roundtrip "+names(m)+"/"+names(u), u[0].Pos(), len(lost) == 0 && len(extra) == 0,
						"decode∘encode drops fields: restored but not written ["+strings.Join(lost, ", ")+"], written but not restored ["+strings.Join(extra, ", ")+"]")
				}
			}
		}
	})
}

// ---------------------------------------------------------------------------------------------
// L1 — every tagged field flows into the hasher (current version)

type c12Flow struct {
	cl   *c12Clo
	memo map[ssa.Value][2]bool
	busy map[ssa.Value]bool
	fbsy map[ssa.Value]bool
	lost ssa.Instruction // a followed value was handed to a function value whose targets cannot be resolved
}

// staticSites: the calls in the closure whose static callee is fn.
func (f *c12Flow) staticSites(fn *ssa.Function) []ssa.CallInstruction {
	var out []ssa.CallInstruction
	for _, g := range f.cl.fns {
		feas := f.cl.feasible(g)
		for _, b := range g.Blocks {
			if !feas[b] {
				continue
			}
			for _, in := range b.Instrs {
				if ci, ok := in.(ssa.CallInstruction); ok && ci.Common().StaticCallee() == fn {
					out = append(out, ci)
				}
			}
		}
	}
	return out
}

// bindings: the values bound to free variable fv where its function literal is created.
func (f *c12Flow) bindings(fv *ssa.FreeVar) []ssa.Value {
	fn := fv.Parent()
	idx := -1
	for i, x := range fn.FreeVars {
		if x == fv {
			idx = i
		}
	}
	var out []ssa.Value
	if idx < 0 || fn.Parent() == nil {
		return nil
	}
	for _, in := range an.Instrs(fn.Parent(), false) {
		if mc, ok := in.(*ssa.MakeClosure); ok && mc.Fn == ssa.Value(fn) && idx < len(mc.Bindings) {
			out = append(out, mc.Bindings[idx])
		}
	}
	return out
}

// cellSources: the values stored into the variable cell addr (a local, or a captured variable).
func (f *c12Flow) cellSources(addr ssa.Value, d int) []ssa.Value {
	if d > 4 {
		return nil
	}
	switch x := addr.(type) {
	case *ssa.Alloc:
		if src := an.UniqueStore(x); src != nil {
			return []ssa.Value{src}
		}
	case *ssa.FreeVar:
		var out []ssa.Value
		for _, b := range f.bindings(x) {
			if _, isPtr := b.Type().Underlying().(*types.Pointer); isPtr {
				out = append(out, f.cellSources(b, d+1)...)
			}
		}
		return out
	}
	return nil
}

func c12IsSink(cc *ssa.CallCommon, v ssa.Value) bool {
	var name string
	var recvT types.Type
	args := cc.Args
	if cc.IsInvoke() {
		name, recvT = cc.Method.Name(), cc.Value.Type()
	} else if s := cc.StaticCallee(); s != nil && s.Signature.Recv() != nil {
		name, recvT = s.Name(), s.Signature.Recv().Type()
		if len(args) > 0 {
			args = args[1:]
		}
	} else {
		return false
	}
	if !strings.HasPrefix(name, "Put") && !strings.HasPrefix(name, "Append") {
		return false
	}
	if !strings.HasPrefix(an.TypeName(recvT), c12HashWk+".") {
		return false
	}
	for _, a := range args {
		if a == v {
			return true
		}
	}
	return false
}

// c12BoundSink: fn is the bound-method wrapper of a hasher Put*/Append* method.
func c12BoundSink(fn *ssa.Function) bool {
	if fn == nil || !strings.HasSuffix(fn.Name(), "$bound") || len(fn.FreeVars) != 1 {
		return false
	}
	name := strings.TrimSuffix(fn.Name(), "$bound")
	if !strings.HasPrefix(name, "Put") && !strings.HasPrefix(name, "Append") {
		return false
	}
	return strings.HasPrefix(an.TypeName(fn.FreeVars[0].Type()), c12HashWk+".")
}

func (f *c12Flow) funcsOf(v ssa.Value, d int) []*ssa.Function {
	if d > 8 || f.fbsy[v] {
		return nil
	}
	switch x := v.(type) {
	case *ssa.Parameter:
		idx := an.H07ParamIndex(x)
		if idx < 0 {
			return nil
		}
		f.fbsy[v] = true
		defer delete(f.fbsy, v)
		var out []*ssa.Function
		for _, site := range f.staticSites(x.Parent()) {
			if a := an.H07ArgFor(site, idx); a != nil {
				out = append(out, f.funcsOf(a, d+1)...)
			}
		}
		return out
	case *ssa.FreeVar:
		f.fbsy[v] = true
		defer delete(f.fbsy, v)
		var out []*ssa.Function
		for _, b := range f.bindings(x) {
			out = append(out, f.funcsOf(b, d+1)...)
		}
		return out
	case *ssa.Function:
		return []*ssa.Function{x}
	case *ssa.MakeClosure:
		if fn, ok := x.Fn.(*ssa.Function); ok {
			return []*ssa.Function{fn}
		}
	case *ssa.ChangeType:
		return f.funcsOf(x.X, d+1)
	case *ssa.Phi:
		var out []*ssa.Function
		feas := f.cl.feasible(x.Parent())
		for i, e := range x.Edges {
			if feas[x.Block().Preds[i]] {
				out = append(out, f.funcsOf(e, d+1)...)
			}
		}
		return out
	case *ssa.Extract:
		call, ok := x.Tuple.(*ssa.Call)
		if !ok {
			return nil
		}
		dfn := call.Call.StaticCallee()
		if !c12InCluster(dfn) || dfn.Blocks == nil {
			return nil
		}
		var out []*ssa.Function
		feas := f.cl.feasible(dfn)
		for _, r := range an.Returns(dfn) {
			if feas[r.Block()] && x.Index < len(r.Results) {
				out = append(out, f.funcsOf(r.Results[x.Index], d+1)...)
			}
		}
		return out
	case *ssa.UnOp:
		if x.Op == token.MUL {
			var out []*ssa.Function
			for _, src := range f.cellSources(x.X, 0) {
				out = append(out, f.funcsOf(src, d+1)...)
			}
			return out
		}
	}
	return nil
}

func (f *c12Flow) param(p ssa.Value) (bool, bool) {
	if r, ok := f.memo[p]; ok {
		return r[0], r[1]
	}
	if f.busy[p] {
		return false, false
	}
	f.busy[p] = true
	s, r := f.from(p)
	delete(f.busy, p)
	f.memo[p] = [2]bool{s, r}
	return s, r
}

// from follows seed forward inside its function (and, through parameters, into callees): does it
// reach a hasher Put*/Append* argument, does it reach a return value.
func (f *c12Flow) from(seed ssa.Value) (sink, ret bool) {
	seen := map[ssa.Value]bool{seed: true}
	work := []ssa.Value{seed}
	push := func(v ssa.Value) {
		if v != nil && !seen[v] {
			seen[v] = true
			work = append(work, v)
		}
	}
	for len(work) > 0 {
		v := work[len(work)-1]
		work = work[:len(work)-1]
		refs := v.Referrers()
		if refs == nil {
			continue
		}
		for _, ref := range *refs {
			if ref.Block() != nil && !f.cl.feasible(ref.Parent())[ref.Block()] {
				continue
			}
			switch x := ref.(type) {
			case ssa.CallInstruction:
				cc := x.Common()
				if b, ok := cc.Value.(*ssa.Builtin); ok {
					switch b.Name() {
					case "append":
						push(x.Value())
					case "copy":
						if len(cc.Args) == 2 && cc.Args[1] == v {
							push(c12AddrBase(cc.Args[0]))
						}
					}
					continue
				}
				if c12IsSink(cc, v) {
					sink = true
					continue
				}
				var callees []*ssa.Function
				if !cc.IsInvoke() {
					if s := cc.StaticCallee(); s != nil {
						callees = []*ssa.Function{s}
					} else {
						callees = f.funcsOf(cc.Value, 0)
					}
				}
				// a hasher method bound to a variable (`put := hh.PutUint64; put(x)`)
				bound := false
				for _, cal := range callees {
					if c12BoundSink(cal) {
						for _, a := range cc.Args {
							if a == v {
								bound = true
							}
						}
					}
				}
				if bound {
					sink = true
					continue
				}
				internal := false
				for _, cal := range callees {
					if !c12InCluster(cal) || cal.Blocks == nil {
						continue
					}
					internal = true
					for i, a := range cc.Args {
						if a == v && i < len(cal.Params) {
							s, r := f.param(cal.Params[i])
							sink = sink || s
							if r {
								push(x.Value())
							}
						}
					}
				}
				if !internal && x.Value() != nil {
					isArg := false
					for _, a := range cc.Args {
						if a == v {
							isArg = true
						}
					}
					if isArg {
						push(x.Value()) // external pure helper (hex, strings, time.Unix, fmt.Sprintf ...)
						if !cc.IsInvoke() && cc.StaticCallee() == nil && len(callees) == 0 && f.lost == nil {
							f.lost = x
						}
					}
				}
			case *ssa.Store:
				if x.Val == v {
					push(c12AddrBase(x.Addr))
				}
			case *ssa.MakeClosure:
				// v is captured: it continues as the corresponding free variable of the function literal
				if cfn, ok := x.Fn.(*ssa.Function); ok && c12InCluster(cfn) {
					for i, b := range x.Bindings {
						if b == v && i < len(cfn.FreeVars) {
							s, _ := f.param(cfn.FreeVars[i])
							sink = sink || s
						}
					}
				}
			case *ssa.Return:
				ret = true
			case *ssa.If, *ssa.Jump, *ssa.MapUpdate, *ssa.Send, *ssa.Panic, *ssa.DebugRef, *ssa.RunDefers:
			default:
				if val, ok := ref.(ssa.Value); ok {
					push(val)
				}
			}
		}
	}
	return
}

func c12AddrBase(a ssa.Value) ssa.Value {
	for i := 0; i < 16; i++ {
		switch x := a.(type) {
		case *ssa.FieldAddr:
			a = x.X
		case *ssa.IndexAddr:
			a = x.X
		case *ssa.Slice:
			a = x.X
		default:
			if _, ok := a.(*ssa.Alloc); ok {
				return a
			}
			return nil
		}
	}
	return nil
}

// configOnly contexts: which values of hashDefinition's configOnly flag an instruction of the hash closure can run
// under. The flag is followed through parameters, captured variables and negations; the context of a function is
// the union of the contexts of its call sites (static calls, calls through function values, function literals).
const (
	c12CfgT = 1
	c12CfgF = 2
)

type c12Cfg struct {
	fl      *c12Flow
	flag    ssa.Value
	roots   map[*ssa.Function]bool
	sites   map[*ssa.Function][]ssa.CallInstruction
	val     map[ssa.Value]int // 1 = the flag, 2 = its negation, 3 = neither
	valBusy map[ssa.Value]bool
	ctx     map[*ssa.Function]int
	ctxBusy map[*ssa.Function]bool
	ctxUnk  map[*ssa.Function]bool
	vals    map[*ssa.Function][]ssa.Value
}

func newC12Cfg(fl *c12Flow, hashDef *ssa.Function, more ...*ssa.Function) *c12Cfg {
	g := &c12Cfg{fl: fl, roots: map[*ssa.Function]bool{hashDef: true}, sites: map[*ssa.Function][]ssa.CallInstruction{},
		val: map[ssa.Value]int{}, valBusy: map[ssa.Value]bool{}, ctx: map[*ssa.Function]int{}, ctxBusy: map[*ssa.Function]bool{},
		ctxUnk: map[*ssa.Function]bool{}, vals: map[*ssa.Function][]ssa.Value{}}
	for _, m := range more {
		g.roots[m] = true
	}
	for _, p := range hashDef.Params {
		if b, ok := p.Type().Underlying().(*types.Basic); ok && b.Kind() == types.Bool {
			g.flag = p
		}
	}
	for _, fn := range fl.cl.fns {
		feas := fl.cl.feasible(fn)
		for _, b := range fn.Blocks {
			if !feas[b] {
				continue
			}
			for _, in := range b.Instrs {
				ci, ok := in.(ssa.CallInstruction)
				if !ok || ci.Common().IsInvoke() {
					continue
				}
				var callees []*ssa.Function
				if sc := ci.Common().StaticCallee(); sc != nil {
					callees = []*ssa.Function{sc}
				} else {
					callees = fl.funcsOf(ci.Common().Value, 0)
				}
				for _, cal := range callees {
					g.sites[cal] = append(g.sites[cal], ci)
				}
			}
		}
	}
	return g
}

// kind: 1 = v carries the flag, 2 = its negation, 3 = unrelated.
func (g *c12Cfg) kind(v ssa.Value, d int) int {
	if g.flag == nil || d > 8 {
		return 3
	}
	if v == g.flag {
		return 1
	}
	if k, ok := g.val[v]; ok {
		return k
	}
	if g.valBusy[v] {
		return 3
	}
	if b, ok := v.Type().Underlying().(*types.Basic); !ok || b.Kind() != types.Bool {
		return 3
	}
	g.valBusy[v] = true
	defer delete(g.valBusy, v)
	all := func(vs []ssa.Value) int {
		if len(vs) == 0 {
			return 3
		}
		k := g.kind(vs[0], d+1)
		for _, x := range vs[1:] {
			if g.kind(x, d+1) != k {
				return 3
			}
		}
		return k
	}
	k := 3
	switch x := v.(type) {
	case *ssa.Parameter:
		// every call site passes the flag (with one polarity) or a boolean constant
		idx := an.H07ParamIndex(x)
		var args []ssa.Value
		consts, bad := 0, false
		for _, site := range g.sites[x.Parent()] {
			a := an.H07ArgFor(site, idx)
			if a == nil {
				bad = true
				break
			}
			if _, isC := c12ConstBool(a); isC {
				consts++
				continue
			}
			args = append(args, a)
		}
		switch {
		case bad:
		case len(args) > 0:
			k = all(args)
		case consts > 0:
			k = 1
		}
	case *ssa.UnOp:
		switch x.Op {
		case token.NOT:
			switch g.kind(x.X, d+1) {
			case 1:
				k = 2
			case 2:
				k = 1
			}
		case token.MUL:
			k = all(g.fl.cellSources(x.X, 0))
		}
	case *ssa.ChangeType:
		k = g.kind(x.X, d+1)
	case *ssa.Phi:
		k = all(x.Edges)
	}
	g.val[v] = k
	return k
}

func (g *c12Cfg) flagVals(fn *ssa.Function) []ssa.Value {
	if vs, ok := g.vals[fn]; ok {
		return vs
	}
	var vs []ssa.Value
	for _, p := range fn.Params {
		if g.kind(p, 0) != 3 {
			vs = append(vs, p)
		}
	}
	for _, in := range an.Instrs(fn, false) {
		if u, ok := in.(*ssa.UnOp); ok && u.Op == token.MUL && g.kind(u, 0) != 3 {
			vs = append(vs, u)
		}
	}
	g.vals[fn] = vs
	return vs
}

func (g *c12Cfg) local(in ssa.Instruction) int {
	fn, mask := in.Parent(), c12CfgT|c12CfgF
	for _, v := range g.flagVals(fn) {
		pos := g.kind(v, 0) == 1
		for _, cd := range an.CondsOn(fn, v) {
			if cd.Other != nil {
				continue
			}
			for _, truth := range []bool{true, false} {
				if c12DomBy(cd.Succ(truth), in.Block()) {
					if truth == pos {
						mask &= c12CfgT
					} else {
						mask &= c12CfgF
					}
				}
			}
		}
	}
	return mask
}

func (g *c12Cfg) fnCtx(fn *ssa.Function) (int, bool) {
	if g.roots[fn] {
		return c12CfgT | c12CfgF, true
	}
	if m, ok := g.ctx[fn]; ok {
		return m, !g.ctxUnk[fn]
	}
	if g.ctxBusy[fn] {
		return 0, true
	}
	g.ctxBusy[fn] = true
	mask, known := 0, true
	if len(g.sites[fn]) == 0 {
		mask, known = c12CfgT|c12CfgF, false
	}
	var carrier *ssa.Parameter
	for _, p := range fn.Params {
		if carrier == nil && g.kind(p, 0) != 3 {
			carrier = p
		}
	}
	for _, site := range g.sites[fn] {
		if carrier != nil {
			if a := an.H07ArgFor(site, an.H07ParamIndex(carrier)); a != nil {
				if cv, isC := c12ConstBool(a); isC {
					if cv == (g.kind(carrier, 0) == 1) {
						mask |= c12CfgT
					} else {
						mask |= c12CfgF
					}
					continue
				}
			}
		}
		m, k := g.at(site)
		mask |= m
		known = known && k
	}
	delete(g.ctxBusy, fn)
	g.ctx[fn] = mask
	g.ctxUnk[fn] = !known
	return mask, known
}

// at returns the flag values under which the instruction can run.
func (g *c12Cfg) at(in ssa.Instruction) (int, bool) {
	m, known := g.fnCtx(in.Parent())
	return m & g.local(in), known
}

func c12L1(c *rt.Ctx) {
	c.Rule("L1", 50, func() {
		pkg := c.Pkg("cluster")
		cur, ok := pkg.Types.Scope().Lookup("currentVersion").(*types.Const)
		if !ok || cur.Val().Kind() != constant.String {
			c.Bail("cluster.currentVersion not found")
		}
		ver := constant.StringVal(cur.Val())
		if !c12Supported(c)[ver] {
			c.Bail("currentVersion %s is not in supportedVersions", ver)
		}
		cl := c12Closure([]*ssa.Function{c.Fn("cluster.hashDefinition"), c.Fn("cluster.hashLock")}, ver)
		fl := &c12Flow{cl: cl, memo: map[ssa.Value][2]bool{}, busy: map[ssa.Value]bool{}, fbsy: map[ssa.Value]bool{}}
		// with unresolvable dispatch in the hash closure, "not hashed" is not positive evidence
		opq := c12nOpaqueDispatch(cl)
		bad := func(construct string, pos token.Pos, why string) {
			if opq == nil {
				opq = fl.lost
			}
			if opq != nil {
				c.Unsure(construct, pos, "the hash functions dispatch through function values the rule cannot resolve ("+c.P.Fset.Position(opq.Pos()).String()+"): "+why)
				return
			}
			c.Bad(construct, pos, why)
		}
		// flowing reads per field
		flowing := map[string][]ssa.Instruction{}
		for _, fn := range cl.fns {
			feas := cl.feasible(fn)
			for _, b := range fn.Blocks {
				if !feas[b] {
					continue
				}
				for _, in := range b.Instrs {
					var k string
					switch x := in.(type) {
					case *ssa.Field:
						k = an.FieldKey(x.X.Type(), x.Field)
					case *ssa.FieldAddr:
						k = an.FieldKey(x.X.Type(), x.Field)
						if r, _ := c12AddrUse(x, 0); !r {
							k = ""
						}
					}
					if k == "" || !c12Tracked(k) {
						continue
					}
					if s, _ := fl.from(in.(ssa.Value)); s {
						flowing[k] = append(flowing[k], in)
					}
				}
			}
		}
		cfg := newC12Cfg(fl, c.Fn("cluster.hashDefinition"), c.Fn("cluster.hashLock"))
		// inside the lock hash the definition is hashed in full: every constant handed on as the configOnly flag
		// within the hash closure means "not config-only"
		{
			full, n, pos := true, 0, token.NoPos
			for _, fn := range cl.fns {
				for _, p := range fn.Params {
					k := cfg.kind(p, 0)
					if k == 3 {
						continue
					}
					for _, site := range cfg.sites[fn] {
						if a := an.H07ArgFor(site, an.H07ParamIndex(p)); a != nil {
							if cv, isC := c12ConstBool(a); isC {
								n++
								if cv == (k == 1) {
									full, pos = false, site.Pos()
								} else if !pos.IsValid() {
									pos = site.Pos()
								}
							}
						}
					}
				}
			}
			if n == 0 {
				c.Unsure(c12P+"Lock.Definition hashed in full", token.NoPos, "no constant configOnly argument found in the lock hash closure")
			} else {
				c.Check(c12P+"Lock.Definition hashed in full", pos, full, "the lock hash covers the definition config-only (ENRs and signatures are not bound by the lock hash)")
			}
		}
		for fi, fam := range [][]string{c12DefFamily, c12LockFamily} {
			tag := "definition_hash"
			if fi == 1 {
				tag = "lock_hash"
			}
			for _, tn := range fam {
				obj := pkg.Types.Scope().Lookup(tn)
				if obj == nil {
					c.Unsure(c12P+tn+" tags", token.NoPos, "type not found")
					continue
				}
				st, ok := obj.Type().Underlying().(*types.Struct)
				if !ok {
					c.Unsure(c12P+tn+" tags", obj.Pos(), "not a struct")
					continue
				}
				var untagged []string
				for i := 0; i < st.NumFields(); i++ {
					f := st.Field(i)
					key := c12P + tn + "." + f.Name()
					tags := reflect.StructTag(st.Tag(i))
					hv, has := tags.Lookup(tag)
					if !has {
						untagged = append(untagged, f.Name())
						continue
					}
					if hv == "-" {
						continue
					}
					fr := flowing[key]
					if len(fr) == 0 {
						bad(key+" hashed", f.Pos(), "field is tagged "+tag+":\""+hv+"\" but no read of it reaches a hasher Put*/Append* call in the "+ver+" hash functions")
						continue
					}
					if fi == 1 {
						c.Good(key+" hashed", fr[0].Pos(), "")
						continue
					}
					cv, hasCfg := tags.Lookup("config_hash")
					if !hasCfg {
						c.Bad(key+" hashed", f.Pos(), "field has no config_hash tag")
						continue
					}
					good, why, unsure := true, "", false
					union := 0
					for _, in := range fr {
						mask, known := cfg.at(in)
						if !known {
							unsure = true
						}
						union |= mask
						if cv == "-" && mask&c12CfgT != 0 {
							good, why = false, "field is excluded from the config hash (config_hash:\"-\") but is hashed outside the !configOnly edge"
						}
					}
					if cv != "-" && union != c12CfgT|c12CfgF {
						good, why = false, "field belongs to the config hash but is not hashed on both configOnly edges"
					}
					if unsure {
						c.Unsure(key+" hashed", fr[0].Pos(), "the configOnly context of a function hashing this field cannot be resolved (no call site found)")
						continue
					}
					if good {
						c.Good(key+" hashed", fr[0].Pos(), "")
					} else {
						bad(key+" hashed", fr[0].Pos(), why)
					}
				}
				c.Check(c12P+tn+" every field carries a "+tag+" tag", obj.Pos(), len(untagged) == 0, "fields without a "+tag+" tag (neither hashed nor declared excluded): "+strings.Join(untagged, ", "))
			}
		}
	})
}

var c12Mutants = []Mutant{
	{ID: "C12-L1-skip-compounding", File: "cluster/ssz.go", Expect: "L1|Definition.Compounding",
		Old: "\thh.PutBool(d.Compounding)\n\n\t// Field (15)",
		New: "\t// Field (15)"},
	{ID: "C12-L1-skip-gaslimit", File: "cluster/ssz.go", Expect: "L1|Registration.GasLimit",
		Old: "\thh.PutUint64(uint64(r.GasLimit))\n",
		New: ""},
	{ID: "C12-L1-enr-in-config-hash", File: "cluster/ssz.go", Expect: "L1|Operator.ENR",
		Old: "\t\t\tif !configOnly {\n\t\t\t\t// Field (1) 'ENR' ByteList[1024]\n\t\t\t\tif err := putByteList(hh, []byte(o.ENR), sszMaxENR, \"enr\"); err != nil {\n\t\t\t\t\treturn err\n\t\t\t\t}\n\n\t\t\t\t// Field (2) 'ConfigSignature' List[Bytes65, 32]",
		New: "\t\t\tif err := putByteList(hh, []byte(o.ENR), sszMaxENR, \"enr\"); err != nil {\n\t\t\t\treturn err\n\t\t\t}\n\n\t\t\tif !configOnly {\n\t\t\t\t// Field (2) 'ConfigSignature' List[Bytes65, 32]"},
	{ID: "C12-L1-wrong-var-enrsig", File: "cluster/ssz.go", Expect: "L1|Operator.ENRSignature",
		Old: "putK1SigList(hh, o.ENRSignature, sszMaxK1Sigs, \"enr_signature\")",
		New: "putK1SigList(hh, o.ConfigSignature, sszMaxK1Sigs, \"enr_signature\")"},
	{ID: "C12-L1-confighash-on-config-edge", File: "cluster/ssz.go", Expect: "L1|Definition.ConfigHash",
		Old: "\tif !configOnly {\n\t\thh.PutBytes(d.ConfigHash)",
		New: "\tif configOnly {\n\t\thh.PutBytes(d.ConfigHash)"},
	{ID: "C12-L1-untagged-field", File: "cluster/registration.go", Expect: "L1|Registration every field",
		Old: "\tPubKey       []byte    `json:\"pubkey\"        lock_hash:\"3\" ssz:\"Bytes48\"`\n}",
		New: "\tPubKey       []byte    `json:\"pubkey\"        lock_hash:\"3\" ssz:\"Bytes48\"`\n\tExtra        []byte    `json:\"extra\"`\n}"},
	{ID: "C12-L1-deposit-sig-wrong-var", File: "cluster/ssz.go", Expect: "L1|DepositData.Signature",
		Old: "\tif err := putBytesN(hh, d.Signature, sszLenBLSSig); err != nil {",
		New: "\tif err := putBytesN(hh, d.PubKey, sszLenBLSSig); err != nil {"},
	{ID: "C12-L1-threshold-dup", File: "cluster/ssz.go", Expect: "L1|Definition.NumValidators",
		Old: "\t// Field (4) 'NumValidators' uint64\n\thh.PutUint64(uint64(d.NumValidators))\n\n\t// Field (5) 'Threshold' uint64\n\thh.PutUint64(uint64(d.Threshold))\n\n\t// Field (6) 'DKGAlgorithm' ByteList[32]\n\tif err := putByteList(hh, []byte(d.DKGAlgorithm), sszMaxDKGAlgorithm, \"dkg_algorithm\"); err != nil {\n\t\treturn err\n\t}\n\n\t// Field (7) 'ForkVersion' Bytes4\n\tif err := putBytesN(hh, d.ForkVersion, sszLenForkVersion); err != nil {\n\t\treturn err\n\t}\n\n\t// Field (8) 'Operators' CompositeList[256]\n\t{\n\t\toperatorsIdx := hh.Index()\n\n\t\tnum := uint64(len(d.Operators))\n\t\tfor _, o := range d.Operators {\n\t\t\toperatorIdx := hh.Index()\n\n\t\t\t// Field (0) 'Address' Bytes20\n\t\t\tif err := putHexBytes20(hh, o.Address); err != nil {\n\t\t\t\treturn err\n\t\t\t}\n\n\t\t\tif !configOnly {\n\t\t\t\t// Field (1) 'ENR' ByteList[1024]\n\t\t\t\tif err := putByteList(hh, []byte(o.ENR), sszMaxENR, \"enr\"); err != nil {\n\t\t\t\t\treturn err\n\t\t\t\t}\n\n\t\t\t\t// Field (2) 'ConfigSignature' List[Bytes65, 32]",
		New: "\t// Field (4) 'NumValidators' uint64\n\thh.PutUint64(uint64(d.Threshold))\n\n\t// Field (5) 'Threshold' uint64\n\thh.PutUint64(uint64(d.Threshold))\n\n\t// Field (6) 'DKGAlgorithm' ByteList[32]\n\tif err := putByteList(hh, []byte(d.DKGAlgorithm), sszMaxDKGAlgorithm, \"dkg_algorithm\"); err != nil {\n\t\treturn err\n\t}\n\n\t// Field (7) 'ForkVersion' Bytes4\n\tif err := putBytesN(hh, d.ForkVersion, sszLenForkVersion); err != nil {\n\t\treturn err\n\t}\n\n\t// Field (8) 'Operators' CompositeList[256]\n\t{\n\t\toperatorsIdx := hh.Index()\n\n\t\tnum := uint64(len(d.Operators))\n\t\tfor _, o := range d.Operators {\n\t\t\toperatorIdx := hh.Index()\n\n\t\t\t// Field (0) 'Address' Bytes20\n\t\t\tif err := putHexBytes20(hh, o.Address); err != nil {\n\t\t\t\treturn err\n\t\t\t}\n\n\t\t\tif !configOnly {\n\t\t\t\t// Field (1) 'ENR' ByteList[1024]\n\t\t\t\tif err := putByteList(hh, []byte(o.ENR), sszMaxENR, \"enr\"); err != nil {\n\t\t\t\t\treturn err\n\t\t\t\t}\n\n\t\t\t\t// Field (2) 'ConfigSignature' List[Bytes65, 32]"},
	{ID: "C12-L2-unmarshal-drop-targetgaslimit", File: "cluster/definition.go", Expect: "L2|definition v1.10.0 roundtrip",
		Old: "\t\tTargetGasLimit:    defJSON.TargetGasLimit,\n",
		New: ""},
	{ID: "C12-L2-marshal-lock-v1x7-drop-nodesigs", File: "cluster/lock.go", Expect: "L2|lock v1.7.0 roundtrip",
		Old: "\t\tNodeSignatures:     byteSliceArrayToEthHex(lock.NodeSignatures),\n\t})\n\tif err != nil {\n\t\treturn nil, errors.Wrap(err, \"marshal definition v1_7\")",
		New: "\t})\n\tif err != nil {\n\t\treturn nil, errors.Wrap(err, \"marshal definition v1_7\")"},
	{ID: "C12-L2-hash-v1x6-skip-amount", File: "cluster/ssz.go", Expect: "L2|lock v1.6.0 marshalled",
		Old: "\thh.PutUint64(uint64(d.Amount))\n\n\t// Field (3) 'Signature' Bytes96\n\treturn putBytesN",
		New: "\t// Field (3) 'Signature' Bytes96\n\treturn putBytesN"},
	{ID: "C12-L2-marshal-v1x9-wrong-field", File: "cluster/definition.go", Expect: "L2|definition v1.9.0 roundtrip",
		Old: "\t\tDepositAmounts:    def.DepositAmounts,\n\t\tConsensusProtocol: def.ConsensusProtocol,\n\t})",
		New: "\t\tDepositAmounts:    def.DepositAmounts,\n\t\tConsensusProtocol: def.Name,\n\t})"},
	{ID: "C12-L2-registration-from-json-drop-pubkey", File: "cluster/registration.go", Expect: "L2|lock v1.8.0 roundtrip",
		Old: "\t\t\tTimestamp:    time.Unix(int64(b.Message.Timestamp), 0),\n\t\t\tPubKey:       b.Message.PubKey,\n",
		New: "\t\t\tTimestamp:    time.Unix(int64(b.Message.Timestamp), 0),\n"},
	{ID: "C12-L2-legacy-hash-skip-enr", File: "cluster/ssz.go", Expect: "L2|definition v1.0.0 marshalled",
		Old: "\t\t\thh.PutBytes([]byte(o.ENR))\n",
		New: ""},
	{ID: "C12-L3-discard-builder-registrations", File: "cluster/lock.go", Expect: "L3|builder registrations",
		Old: "\terr = l.verifyBuilderRegistrations()\n\tif err != nil {\n\t\treturn errors.Wrap(err, \"verify pre-generated builder registrations\")\n\t}\n",
		New: "\t_ = l.verifyBuilderRegistrations()\n"},
	{ID: "C12-L3-skip-config-hash-compare", File: "cluster/definition.go", Expect: "L3|compare config hash",
		Old: "\tconfigHash, err := hashDefinition(d, true)\n\tif err != nil {\n\t\treturn errors.Wrap(err, \"config hash\")\n\t}\n\n\tif !bytes.Equal(d.ConfigHash, configHash[:]) {\n\t\treturn errors.New(\"invalid config hash\")\n\t}\n",
		New: "\t_, err := hashDefinition(d, true)\n\tif err != nil {\n\t\treturn errors.Wrap(err, \"config hash\")\n\t}\n"},
	{ID: "C12-L3-weaken-lockhash-compare", File: "cluster/lock.go", Expect: "L3|compare lock hash",
		Old: "\tif !bytes.Equal(l.LockHash, lockHash[:]) {",
		New: "\tif !bytes.Equal(l.LockHash, lockHash[:]) && len(l.LockHash) > 0 {"},
	{ID: "C12-L3-compare-wrong-field", File: "cluster/definition.go", Expect: "L3|compare definition hash",
		Old: "bytes.Equal(d.DefinitionHash, defHash[:])",
		New: "bytes.Equal(d.ConfigHash, defHash[:])"},
	{ID: "C12-L3-config-only-flipped", File: "cluster/definition.go", Expect: "L3|recompute config hash",
		Old: "\tconfigHash, err := hashDefinition(d, true)\n\tif err != nil {\n\t\treturn errors.Wrap(err, \"config hash\")",
		New: "\tconfigHash, err := hashDefinition(d, false)\n\tif err != nil {\n\t\treturn errors.Wrap(err, \"config hash\")"},
	{ID: "C12-L3-weaken-aggregate-check", File: "cluster/lock.go", Expect: "L3|aggregate signature over",
		Old: "\terr = tbls.VerifyAggregate(pubkeys, sig, hash[:])\n\tif err != nil {",
		New: "\terr = tbls.VerifyAggregate(pubkeys, sig, hash[:])\n\tif err != nil && len(pubkeys) == 0 {"},
	{ID: "C12-L3-reconstruct-wrong-threshold", File: "cluster/lock.go", Expect: "L3|share reconstruction",
		Old: "verifySharesReconstruct(dvKey, shares, l.Threshold)",
		New: "verifySharesReconstruct(dvKey, shares, 1)"},
	{ID: "C12-L3-early-exit-wider", File: "cluster/lock.go", Expect: "L3|early-exit empty-aggregate",
		Old: "\t\tif isAnyVersion(l.Version, v1_0, v1_1) {\n\t\t\treturn nil",
		New: "\t\tif isAnyVersion(l.Version, v1_0, v1_1, v1_2) {\n\t\t\treturn nil"},
	{ID: "C12-L3-continue-around-share-checks", File: "cluster/lock.go", Expect: "L3|per-validator",
		Old: "\t\tshares, err := parsePubShares(val.PubShares)",
		New: "\t\tif len(val.PubShares) == 0 {\n\t\t\tcontinue\n\t\t}\n\n\t\tshares, err := parsePubShares(val.PubShares)"},
	{ID: "C12-L3-creator-sig-weakened", File: "cluster/definition.go", Expect: "L3|creator signature",
		Old: "\t\t} else if !ok {\n\t\t\treturn errors.New(\"invalid creator config signature\")",
		New: "\t\t} else if !ok && eth1 == nil {\n\t\t\treturn errors.New(\"invalid creator config signature\")"},
	{ID: "C12-L3-operator-enr-sig-continue", File: "cluster/definition.go", Expect: "L3|operator enr signature",
		Old: "\t\t} else if !ok {\n\t\t\treturn errors.New(\"invalid operator enr signature\", z.Any(\"operator_address\", o.Address))",
		New: "\t\t} else if !ok {\n\t\t\tcontinue"},
	{ID: "C12-L3-unsigned-bypass-weakened", File: "cluster/definition.go", Expect: "L3|operator",
		Old: "\t\tif o.Address == \"\" && len(o.ENRSignature) == 0 && len(o.ConfigSignature) == 0 {",
		New: "\t\tif len(o.ENRSignature) == 0 && len(o.ConfigSignature) == 0 {"},
	{ID: "C12-L3-mixed-check-removed", File: "cluster/definition.go", Expect: "L3|all-or-none",
		Old: "\tif noOpSigs > 0 && noOpSigs != len(d.Operators) {\n\t\treturn errors.New(\"some operators signed while others did not\")\n\t}\n",
		New: ""},
	{ID: "C12-L3-unsigned-creator-unconditional", File: "cluster/definition.go", Expect: "L3|unsigned-creator",
		Old: "\t\tif noOpSigs == 0 {\n\t\t\treturn errors.New(\"operators signed while creator did not\")\n\t\t}\n",
		New: "\t\tif noOpSigs < 0 {\n\t\t\treturn errors.New(\"operators signed while creator did not\")\n\t\t}\n"},
	{ID: "C12-L3-hashlock-switch-misses-v1x9", File: "cluster/ssz.go", Expect: "L3|cluster.hashLock covers",
		Old: "v1_3, v1_4, v1_5, v1_6, v1_7, v1_8, v1_9, v1_10, v1_11) {\n\t\thashFunc = hashLockV1x3orLater",
		New: "v1_3, v1_4, v1_5, v1_6, v1_7, v1_8, v1_10, v1_11) {\n\t\thashFunc = hashLockV1x3orLater"},
	{ID: "C12-L3-unmarshal-switch-misses-v1x6", File: "cluster/lock.go", Expect: "L3|cluster.Lock.UnmarshalJSON covers",
		Old: "\tcase isAnyVersion(version.Definition.Version, v1_6):\n",
		New: "\tcase isAnyVersion(version.Definition.Version, v1_5):\n"},
	{ID: "C12-L3-support-eip712-wider", File: "cluster/definition.go", Expect: "L3|supportEIP712Sigs",
		Old: "\treturn !isAnyVersion(version, v1_0, v1_1, v1_2)\n",
		New: "\treturn !isAnyVersion(version, v1_0, v1_1, v1_2, v1_3)\n"},
	{ID: "C12-L3-dup-key-not-recorded", File: "cluster/lock.go", Expect: "L3|duplicate key",
		Old: "\t\tseenDVKeys[dvKey] = struct{}{}\n",
		New: ""},
	{ID: "C12-L3-defsigs-after-early-exit", File: "cluster/lock.go", Expect: "L3|early-exit definition signatures",
		Old:  "\tif err := l.Definition.VerifySignatures(eth1); err != nil {\n\t\treturn errors.Wrap(err, \"invalid definition\")\n\t}\n\n\tif len(l.SignatureAggregate) == 0 {",
		New:  "\tif len(l.SignatureAggregate) == 0 {",
		More: [][2]string{{"\tsig, err := tblsconv.SignatureFromBytes(l.SignatureAggregate)", "\tif err := l.Definition.VerifySignatures(eth1); err != nil {\n\t\treturn errors.Wrap(err, \"invalid definition\")\n\t}\n\n\tsig, err := tblsconv.SignatureFromBytes(l.SignatureAggregate)"}}},
	{ID: "C12-L3-node-sigs-dropped", File: "cluster/lock.go", Expect: "L3|node signatures",
		Old: "\treturn l.verifyNodeSignatures()\n}",
		New: "\t_ = l.verifyNodeSignatures()\n\n\treturn nil\n}"},
	{ID: "C12-L4-weakened-compare", File: "cmd/combine/combine.go", Expect: "L4|public-key comparison",
		Old: "\t\tif valPk != genPubkey {",
		New: "\t\tif valPk != genPubkey && !force {"},
	{ID: "C12-L4-self-compare", File: "cmd/combine/combine.go", Expect: "L4|public-key comparison",
		Old: "\t\tif valPk != genPubkey {",
		New: "\t\tif genPubkey != genPubkey {"},
	{ID: "C12-L4-wrong-index", File: "cmd/combine/combine.go", Expect: "L4|index binding",
		Old: "\t\tval := lock.Validators[valIdx]",
		New: "\t\tval := lock.Validators[0]"},
	{ID: "C12-L4-error-logged", File: "cmd/combine/combine.go", Expect: "L4|public-key comparison",
		Old: "\t\t\treturn errors.New(\"unexpected resulting combined validator public key\",",
		New: "\t\t\tlog.Warn(ctx, \"unexpected resulting combined validator public key\", nil,"},
	{ID: "C12-L4-keystore-other-slice", File: "cmd/combine/combine.go", Expect: "L4|keystore holds",
		Old: "o.keyStoreFunc(combinedKeys, outputDir)",
		New: "o.keyStoreFunc(append(combinedKeys, privkeys[0]...), outputDir)"},
	{ID: "C12-L4-genkey-error-ignored", File: "cmd/combine/combine.go", Expect: "L4|generated public key",
		Old: "\t\tgenPubkey, err := tbls.SecretToPublicKey(secret)\n\t\tif err != nil {",
		New: "\t\tgenPubkey, err := tbls.SecretToPublicKey(secret)\n\t\tif err != nil && force {"},
	{ID: "C12-L5-flag-inverted", File: "cluster/load.go", Expect: "L5|LoadClusterLock cluster.Lock.VerifyHashes",
		Old: "\tif err := lock.VerifyHashes(); err != nil && !noVerify {",
		New: "\tif err := lock.VerifyHashes(); err != nil && noVerify {"},
	{ID: "C12-L5-always-ignored", File: "cluster/load.go", Expect: "L5|LoadClusterLock cluster.Lock.VerifySignatures",
		Old: "\tif err := lock.VerifySignatures(eth1Cl); err != nil && !noVerify {\n\t\treturn nil, errors.Wrap(err, \"verify cluster lock signatures (run with --no-verify to bypass verification at own risk)\")\n\t} else if err != nil && noVerify {",
		New: "\tif err := lock.VerifySignatures(eth1Cl); err != nil {"},
	{ID: "C12-L5-dkg-weakened", File: "dkg/disk.go", Expect: "L5|dkg.loadDefinition cluster.Definition.VerifySignatures",
		Old: "\tif err := def.VerifySignatures(eth1Cl); err != nil && !conf.NoVerify {",
		New: "\tif err := def.VerifySignatures(eth1Cl); err != nil && !conf.NoVerify && conf.DefFile == \"\" {"},
	{ID: "C12-L5-dkg-discarded", File: "dkg/disk.go", Expect: "L5|dkg.loadDefinition cluster.Definition.VerifyHashes",
		Old: "\tif err := def.VerifyHashes(); err != nil && !conf.NoVerify {",
		New: "\tif err := error(nil); def.VerifyHashes() == nil && err != nil && !conf.NoVerify {"},
	{ID: "C12-L5-and-verify-passes-true", File: "cluster/load.go", Expect: "L5|LoadClusterLockAndVerify",
		Old: "return LoadClusterLock(ctx, lockFilePath, false, eth1Cl)",
		New: "return LoadClusterLock(ctx, lockFilePath, true, eth1Cl)"},
	{ID: "C12-L5-combine-noverify-const", File: "cmd/combine/combine.go", Expect: "L5|cmd/combine.Combine",
		Old: "loadManifest(ctx, inputDir, noverify, eth1Cl)",
		New: "loadManifest(ctx, inputDir, true, eth1Cl)"},
	{ID: "C12-L6-enr-digest-empty-operator", File: "cluster/definition.go", Expect: "L6|operator enr digest",
		Old: "digestEIP712(eip712ENR, d, o)",
		New: "digestEIP712(eip712ENR, d, Operator{})"},
	{ID: "C12-L6-creator-type-swapped", File: "cluster/definition.go", Expect: "L6|creator config digest",
		Old: "digestEIP712(eip712CreatorConfigHash, d, Operator{})",
		New: "digestEIP712(eip712OperatorConfigHash, d, Operator{})"},
	{ID: "C12-L6-valuefunc-enr-wrong-field", File: "cluster/eip712sigs.go", Expect: "L6|eip712ENR ValueFunc",
		Old: "\t\t\t\t\treturn operator.ENR\n",
		New: "\t\t\t\t\treturn operator.Address\n"},
	{ID: "C12-L6-operator-type-v1x4", File: "cluster/eip712sigs.go", Expect: "L6|getOperatorEIP712Type",
		Old: "\tif isAnyVersion(version, v1_3) {\n\t\treturn eip712V1x3ConfigHash",
		New: "\tif isAnyVersion(version, v1_3, v1_4) {\n\t\treturn eip712V1x3ConfigHash"},
	{ID: "C12-L6-valuefunc-signs-definition-hash", File: "cluster/eip712sigs.go", Expect: "L6|eip712OperatorConfigHash ValueFunc",
		Old: "\t\t\t\tField: \"operator_config_hash\",\n\t\t\t\tType:  eip712.PrimitiveString,\n\t\t\t\tValueFunc: func(definition Definition, _ Operator) any {\n\t\t\t\t\treturn to0xHex(definition.ConfigHash)",
		New: "\t\t\t\tField: \"operator_config_hash\",\n\t\t\t\tType:  eip712.PrimitiveString,\n\t\t\t\tValueFunc: func(definition Definition, _ Operator) any {\n\t\t\t\t\treturn to0xHex(definition.DefinitionHash)"},
	// --- added with the path-based (refactor-robust) formulation: mechanisms it could have weakened
	{ID: "C12-L3-skip-first-validator", File: "cluster/lock.go", Expect: "L3|validator loop",
		Old: "\tfor i, val := range l.Validators {\n\t\tif len(val.PubShares) != len(l.Operators) {",
		New: "\tfor i, val := range l.Validators[1:] {\n\t\tif len(val.PubShares) != len(l.Operators) {"},
	{ID: "C12-L3-break-after-first-validator", File: "cluster/lock.go", Expect: "L3|validator loop",
		Old: "\t\tpubkeys = append(pubkeys, shares...)\n\t}",
		New: "\t\tpubkeys = append(pubkeys, shares...)\n\n\t\tbreak\n\t}"},
	{ID: "C12-L3-aggregate-first-share-only", File: "cluster/lock.go", Expect: "L3|aggregate signature over",
		Old: "\t\tpubkeys = append(pubkeys, shares...)\n",
		New: "\t\tpubkeys = append(pubkeys, shares[0])\n"},
	{ID: "C12-L3-aggregate-last-validator-only", File: "cluster/lock.go", Expect: "L3|aggregate signature over",
		Old: "\t\tpubkeys = append(pubkeys, shares...)\n",
		New: "\t\tpubkeys = append(pubkeys[:0], shares...)\n"},
	{ID: "C12-L3-lockhash-compared-with-itself", File: "cluster/lock.go", Expect: "L3|compare lock hash",
		Old: "\tif !bytes.Equal(l.LockHash, lockHash[:]) {",
		New: "\tif !bytes.Equal(lockHash[:], lockHash[:]) {"},
	{ID: "C12-L3-aggregate-over-stored-hash", File: "cluster/lock.go", Expect: "L3|aggregate signature over",
		Old: "\terr = tbls.VerifyAggregate(pubkeys, sig, hash[:])",
		New: "\t_ = hash\n\terr = tbls.VerifyAggregate(pubkeys, sig, l.LockHash)"},
	{ID: "C12-L3-mixed-check-off-by-direction", File: "cluster/definition.go", Expect: "L3|all-or-none",
		Old: "\tif noOpSigs > 0 && noOpSigs != len(d.Operators) {",
		New: "\tif noOpSigs > 0 && noOpSigs > len(d.Operators) {"},
	{ID: "C12-L3-operator-sig-of-first-operator", File: "cluster/definition.go", Expect: "L3|operator config signature",
		Old: "verifySigOrERC1271(eth1, o.Address, operatorConfigHashDigest, o.ConfigSignature)",
		New: "verifySigOrERC1271(eth1, o.Address, operatorConfigHashDigest, d.Operators[0].ConfigSignature)"},
	{ID: "C12-L3-marshal-switch-misses-v1x11", File: "cluster/definition.go", Expect: "L3|cluster.Definition.MarshalJSON covers",
		Old: "\tcase isAnyVersion(d2.Version, v1_10, v1_11):\n\t\treturn marshalDefinitionV1x10to11(d2)",
		New: "\tcase isAnyVersion(d2.Version, v1_10):\n\t\treturn marshalDefinitionV1x10to11(d2)"},
	{ID: "C12-L4-store-unchecked-share", File: "cmd/combine/combine.go", Expect: "L4|keystore holds",
		Old: "\t\tcombinedKeys = append(combinedKeys, secret)\n",
		New: "\t\tcombinedKeys = append(combinedKeys, pkSet[0])\n"},
	{ID: "C12-L4-compare-previous-validator", File: "cmd/combine/combine.go", Expect: "L4|index binding",
		Old: "\t\tval := lock.Validators[valIdx]",
		New: "\t\tval := lock.Validators[max(valIdx-1, 0)]"},
	{ID: "C12-L5-hashes-ignored-for-empty-lock", File: "cluster/load.go", Expect: "L5|LoadClusterLock cluster.Lock.VerifyHashes",
		Old: "\tif err := lock.VerifyHashes(); err != nil && !noVerify {",
		New: "\tif err := lock.VerifyHashes(); err != nil && !noVerify && len(lock.Validators) > 0 {"},
	{ID: "C12-L5-dkg-verify-only-when-flag", File: "dkg/disk.go", Expect: "L5|dkg.loadDefinition cluster.Definition.VerifyHashes",
		Old: "\tif err := def.VerifyHashes(); err != nil && !conf.NoVerify {",
		New: "\tif err := error(nil); conf.NoVerify && def.VerifyHashes() != nil && err != nil {"},
	{ID: "C12-L1-creator-sig-on-config-edge", File: "cluster/ssz.go", Expect: "L1|Creator.ConfigSignature",
		Old: "\t\tif !configOnly {\n\t\t\t// Field (1) 'ConfigSignature' List[Bytes65, 32]\n\t\t\tif err := putK1SigList(hh, d.Creator.ConfigSignature, sszMaxK1Sigs, \"creator_config_signature\"); err != nil {",
		New: "\t\tif configOnly {\n\t\t\t// Field (1) 'ConfigSignature' List[Bytes65, 32]\n\t\t\tif err := putK1SigList(hh, d.Creator.ConfigSignature, sszMaxK1Sigs, \"creator_config_signature\"); err != nil {"},
	{ID: "C12-L1-lock-hashes-config-only-definition", File: "cluster/ssz.go", Expect: "L1|Lock.Definition hashed in full",
		Old: "\tif err := defHashFunc(l.Definition, hh, false); err != nil {",
		New: "\tif err := defHashFunc(l.Definition, hh, true); err != nil {"},
	{ID: "C12-L6-enr-digest-first-operator", File: "cluster/definition.go", Expect: "L6|operator enr digest",
		Old: "digestEIP712(eip712ENR, d, o)",
		New: "digestEIP712(eip712ENR, d, d.Operators[0])"},
	{ID: "C12-L6-digest-error-ignored", File: "cluster/definition.go", Expect: "L6|operator enr digest",
		Old: "\t\tenrDigest, err := digestEIP712(eip712ENR, d, o)\n\t\tif err != nil {\n\t\t\treturn err\n\t\t}\n",
		New: "\t\tenrDigest, _ := digestEIP712(eip712ENR, d, o)\n"},
	{ID: "C12-L2-lock-v1x8-marshal-drops-registration", File: "cluster/distvalidator.go", Expect: "L2|lock v1.8.0 roundtrip",
		Old: "\t\t\tBuilderRegistration: registrationToJSON(dv.BuilderRegistration),\n\t\t\tPartialDepositData:  depositDataArrayToJSON(dv.PartialDepositData),\n",
		New: "\t\t\tPartialDepositData:  depositDataArrayToJSON(dv.PartialDepositData),\n"},
}
