package rules

import (
	"fmt"
	"go/constant"
	"go/token"
	"go/types"
	"sort"
	"strconv"
	"strings"

	"golang.org/x/tools/go/ssa"

	"charonverif/internal/an"
	"charonverif/internal/rt"
)

// C04 — termination under timely delivery (narrow): every event of core/qbft.Run's loop performs its
// protocol action and re-arms the round timer. The rules are statements about every path of one iteration
// of the event loop (from the select to the next select, a return or a panic). The paths are enumerated by
// the abstract evaluator of c04eng.go, which follows Run's function literals and the in-package helpers that
// contain protocol actions, tracks the captured state per path and records calls, stores and branch
// decisions as a trace; a rule is a predicate over traces ("on every path that took the timer case the round
// state ends as round+1, the next select waits on a timer started for that value, and a ROUND-CHANGE was
// broadcast for it"). Nothing in the rules depends on which block, closure or variable form the code uses.

func init() {
	Register(&Prop{
		ID: "C04",
		Decides: "core/qbft.Run: (T1) the round-timer case and the UponFPlus1RoundChanges branch advance the round (round+1 / nextMinRound(d, justification, round)), " +
			"start d.NewTimer(round) for the new round, feed its channel to the next select and broadcast ROUND-CHANGE on every path back to the loop; the loop is entered with a running timer; changeRound sets the round; " +
			"(T2) UponJustifiedPrePrepare moves to msg.Round(), restarts the timer, hands the restarted timer to compare, broadcasts PREPARE whenever compare succeeded and runs the full round-timeout sequence when compare timed out " +
			"(awaitCompare reports an expired timer with the error value Run tests for); " +
			"(T3) UponQuorumPrepares always broadcasts COMMIT and UponQuorumCommits/UponJustifiedDecided always call d.Decide; " +
			"(T4) UponQuorumRoundChanges and the round-1 leader broadcast PRE-PREPARE or cache the justification, and the input-value case flushes a cached justification; " +
			"(T5) after the decision a foreign ROUND-CHANGE is answered with DECIDED(qCommitValue, qCommit) unless the per-source limiter refuses, and the limiter's first call for a source returns true; " +
			"(T6) every rule classify can return is dispatched, only UponNothing/duplicate rules skip the dispatch, an unknown rule panics, and the duplicate filter's first call for a key returns false.",
		NotDecided: "everything quantitative: bounded-time termination, 'within one leader rotation', timer durations (core/consensus/timer), leader rotation (core/consensus/qbft leader), " +
			"and 'no honest message is rejected as unjustified' (producer/verifier agreement of justifications). Payload of PREPARE/COMMIT/ROUND-CHANGE and the prepared triple are C02-Q3/Q5; the decision latch is C03-V1.",
		Assumptions: []string{
			"first-call evaluation of the limiter/duplicate filter assumes the looked-up map has no entry for the key and rounds are >= 1 (C05-A4 rejects round <= 0)",
			"a path that leaves Run with an error reported by the transport or the context is not required to perform the action (errors are fatal for the instance); a timer / round-change / quorum event answered by an error Run constructs itself counts as not handled",
		},
		Run:     c04,
		Mutants: c04Mutants,
	})
}

// ---------------------------------------------------------------------------------------------
// the Run model: every path of one iteration of the event loop, as traces (see c04eng.go)

const (
	c04NewTimer  = "field:" + c02P + ".Definition.NewTimer"
	c04Broadcast = "field:" + c02P + ".Transport.Broadcast"
	c04Decide    = "field:" + c02P + ".Definition.Decide"
	c04IsLeader  = "field:" + c02P + ".Definition.IsLeader"
)

// the in-package helpers the rules treat as opaque events; resolved by c04Anchors (by name, and when a helper was
// renamed by its structural role)
var (
	c04Compare  = "static:" + c02P + ".compare"
	c04Classify = "static:" + c02P + ".classify"
	c04Await    = "static:" + c02P + ".awaitCompare"
)

type c04Anch struct {
	compare, await, classify *ssa.Function
}

// c04Anchors finds classify (the function that turns a message into an upon rule), compare (the function that waits
// for the local comparison under the round timer) and the function compare delegates the wait to. The names are
// tried first; failing that the role decides: classify is the top-level function whose first result is an UponRule,
// compare the one taking a timer channel and returning (value, error) — in both cases the outermost such function
// (not one only called by other candidates); the wait function is compare's callee that is handed the timer channel,
// or compare itself.
func c04Anchors(c *rt.Ctx) c04Anch {
	var a c04Anch
	pkg := c.Pkg(c02P)
	sp := c.P.SSAPkg(c02P)
	_ = pkg
	var tops []*ssa.Function
	for _, f := range an.PkgFuncsAll(sp) {
		if f.Parent() == nil && len(f.Blocks) > 0 {
			tops = append(tops, f)
		}
	}
	callers := func(g *ssa.Function) []*ssa.Function {
		var out []*ssa.Function
		for _, f := range an.PkgFuncsAll(sp) {
			for _, in := range an.Instrs(f, false) {
				if ci, ok := in.(ssa.CallInstruction); ok {
					if t := ci.Common().StaticCallee(); t != nil && an.Orig(t) == g {
						out = append(out, c04Outermost(f))
					}
				}
			}
		}
		return out
	}
	outermost := func(cands []*ssa.Function) *ssa.Function {
		isCand := map[*ssa.Function]bool{}
		for _, f := range cands {
			isCand[f] = true
		}
		var keep []*ssa.Function
		for _, f := range cands {
			ext := false
			for _, g := range callers(f) {
				if !isCand[g] {
					ext = true
				}
			}
			if ext {
				keep = append(keep, f)
			}
		}
		if len(keep) == 1 {
			return keep[0]
		}
		return nil
	}
	timerParam := func(f *ssa.Function) bool {
		for _, p := range f.Params {
			if ch, ok := p.Type().Underlying().(*types.Chan); ok && an.TypeName(ch.Elem()) == "time.Time" {
				return true
			}
		}
		return false
	}
	if a.classify = c.FnOpt(c02P + ".classify"); a.classify == nil {
		var cands []*ssa.Function
		for _, f := range tops {
			if res := f.Signature.Results(); res.Len() >= 1 && an.TypeName(res.At(0).Type()) == c02P+".UponRule" && f.Signature.Recv() == nil {
				cands = append(cands, f)
			}
		}
		a.classify = outermost(cands)
	}
	if a.compare = c.FnOpt(c02P + ".compare"); a.compare == nil {
		var cands []*ssa.Function
		for _, f := range tops {
			if res := f.Signature.Results(); res.Len() == 2 && an.IsErrorType(res.At(1).Type()) && timerParam(f) {
				cands = append(cands, f)
			}
		}
		a.compare = outermost(cands)
	}
	if a.classify == nil {
		c.Bail("the function that classifies a received message (returns an UponRule) was not found")
	}
	if a.compare == nil {
		c.Bail("the function that waits for the value comparison under the round timer was not found")
	}
	{
		for _, in := range an.Instrs(a.compare, false) {
			if call, ok := in.(*ssa.Call); ok {
				if g := call.Call.StaticCallee(); g != nil && an.Orig(g).Pkg == sp && an.Orig(g).Parent() == nil && timerParam(an.Orig(g)) {
					a.await = an.Orig(g)
				}
			}
		}
		if a.await == nil {
			a.await = a.compare // the wait is written into compare itself
		}
	}
	c04Compare = "static:" + c02Strip(an.FuncName(a.compare))
	c04Classify = "static:" + c02Strip(an.FuncName(a.classify))
	c04Await = "static:" + c02Strip(an.FuncName(a.await))
	return a
}

func c04IsEvent(name string) bool {
	switch name {
	case c04NewTimer, c04Broadcast, c04Decide:
		return true
	}
	return name == c04Compare || name == c04Classify
}

type c04Run struct {
	c         *rt.Ctx
	anch      c04Anch
	fn        *ssa.Function
	sel       *ssa.Select
	timerK    int
	recvK     int
	recvExt   int // tuple index of the received message
	x         *c04Exec
	its       []*c04Trace            // from the select to the next select (or a return / panic)
	pre       []*c04Trace            // from the entry of Run to the first select
	chainFns  map[*ssa.Function]bool // Run and the functions between Run and the event select (outermost functions)
	roundAddr string
	roundAt0  *c04T // the address term
	roundInit *c04T
	names     map[int64]string // UponRule constant names
	rules     map[string]int64
	msgTypes  map[string]int64
}

func c04Idx(in ssa.Instruction) int {
	for i, x := range in.Block().Instrs {
		if x == in {
			return i
		}
	}
	return -1
}

func c04NewRun(c *rt.Ctx) *c04Run {
	anch := c04Anchors(c)
	r := &c04Run{c: c, anch: anch, fn: c.Fn(c02P + ".Run"), names: map[int64]string{}, rules: map[string]int64{}, msgTypes: map[string]int64{}, timerK: -1, recvK: -1}
	// the event loop's select: the one that receives from Transport.Receive. It lies in Run, in a function literal
	// of Run or in an in-package function Run reaches through static calls (the loop moved into a helper / a method of
	// a state object).
	probe := c04NewExec(c04Cfg{root: r.fn, isEvent: c04IsEvent})
	reach := map[*ssa.Function]bool{}
	var order []*ssa.Function
	var visit func(f *ssa.Function, d int)
	visit = func(f *ssa.Function, d int) {
		if f == nil || reach[f] || len(f.Blocks) == 0 || d > 6 {
			return
		}
		if f.Pkg != r.fn.Pkg && c04Outermost(f).Pkg != r.fn.Pkg {
			return
		}
		reach[f] = true
		order = append(order, f)
		for _, in := range an.Instrs(f, false) {
			switch a := in.(type) {
			case *ssa.Call:
				visit(probe.staticCallee(&a.Call), d+1)
			case *ssa.MakeClosure:
				if g, ok := a.Fn.(*ssa.Function); ok {
					visit(g, d) // a literal of a reached function is its own code
				}
			}
		}
	}
	visit(r.fn, 0)
	for _, f := range order {
		for _, in := range an.Instrs(f, false) {
			sel, ok := in.(*ssa.Select)
			if !ok {
				continue
			}
			n := 0
			for k, st := range sel.States {
				if st.Dir != types.RecvOnly {
					continue
				}
				if key, _, ok := an.FieldOf(st.Chan); ok && c02Strip(key) == c02P+".Transport.Receive" {
					if r.sel != nil {
						c.Bail("Run: several receives from Transport.Receive")
					}
					r.sel, r.recvK, r.recvExt = sel, k, 2+n
				}
				n++
			}
		}
	}
	if r.sel == nil {
		c.Bail("Run: no select receiving from Transport.Receive")
	}
	// the chain of calls that leads from Run to the function holding the select (empty: the select lies in Run itself)
	var chain []*ssa.Call
	{
		host := r.sel.Parent()
		var paths [][]*ssa.Call
		var dfs func(f *ssa.Function, acc []*ssa.Call, on map[*ssa.Function]bool)
		dfs = func(f *ssa.Function, acc []*ssa.Call, on map[*ssa.Function]bool) {
			if f == host {
				paths = append(paths, append([]*ssa.Call(nil), acc...))
				return
			}
			if len(acc) >= 4 || on[f] || len(paths) > 4 {
				return
			}
			on[f] = true
			for _, in := range an.Instrs(f, false) {
				if call, ok := in.(*ssa.Call); ok {
					if g := probe.staticCallee(&call.Call); g != nil && reach[g] {
						dfs(g, append(acc, call), on)
					}
				}
			}
			on[f] = false
		}
		dfs(r.fn, nil, map[*ssa.Function]bool{})
		switch len(paths) {
		case 0:
			c.Bail("Run: the function holding the event select is not reached from Run through static calls")
		case 1:
			chain = paths[0]
		default:
			c.Bail("Run: the function holding the event select is called from several places")
		}
		inLoop := an.InnermostLoop(host, r.sel.Block()) != nil
		for _, call := range chain {
			if an.InnermostLoop(call.Parent(), call.Block()) != nil {
				inLoop = true
			}
		}
		if !inLoop {
			c.Bail("Run: the select over Transport.Receive is not inside a loop")
		}
	}
	r.chainFns = map[*ssa.Function]bool{c04Outermost(r.fn): true, c04Outermost(r.sel.Parent()): true}
	for _, call := range chain {
		r.chainFns[c04Outermost(call.Parent())] = true
	}
	for k, st := range r.sel.States {
		ch, ok := st.Chan.Type().Underlying().(*types.Chan)
		if st.Dir == types.RecvOnly && ok && an.TypeName(ch.Elem()) == "time.Time" {
			if r.timerK >= 0 {
				c.Bail("Run: several select cases wait on a timer channel")
			}
			r.timerK = k
		}
	}
	scope := c.Pkg(c02P).Types.Scope()
	for _, n := range scope.Names() {
		k, ok := scope.Lookup(n).(*types.Const)
		if !ok {
			continue
		}
		v, exact := constant.Int64Val(k.Val())
		if !exact {
			continue
		}
		switch an.TypeName(k.Type()) {
		case c02P + ".UponRule":
			r.names[v] = n
			r.rules[n] = v
		case c02P + ".MsgType":
			r.msgTypes[n] = v
		}
	}
	for _, n := range []string{"MsgPrePrepare", "MsgPrepare", "MsgCommit", "MsgRoundChange", "MsgDecided"} {
		if _, ok := r.msgTypes[n]; !ok {
			c.Bail("constant %s.%s not found", c02P, n)
		}
	}
	r.x = c04NewExec(c04Cfg{root: r.fn, stop: r.sel, startB: r.sel.Block(), startI: c04Idx(r.sel), chain: chain, isEvent: c04IsEvent})
	r.its = r.x.run()
	if r.x.err != "" {
		c.Bail("Run: path enumeration of the event loop failed: %s", r.x.err)
	}
	px := c04NewExec(c04Cfg{root: r.fn, stop: r.sel, chain: chain, isEvent: c04IsEvent})
	px.allocID = r.x.allocID
	r.pre = px.run()
	if px.err != "" {
		c.Bail("Run: path enumeration of the start of Run failed: %s", px.err)
	}
	for _, tr := range r.its {
		if len(tr.evs) == 0 || tr.evs[0].kind != "select" || tr.evs[0].res == nil {
			c.Bail("Run: an iteration does not start at the select")
		}
	}
	// the round state: the memory location every broadcast reads its round argument from
	var raddr *c04T
	nb := 0
	for _, tr := range r.its {
		for _, e := range tr.evs {
			if e.kind != "call" || e.name != c04Broadcast {
				continue
			}
			nb++
			if len(e.args) != 9 {
				c.Bail("Transport.Broadcast: unexpected arity")
			}
			if f := e.args[4].from; f != nil {
				if raddr != nil && raddr.k != f.k {
					c.Bail("Run: the round argument of the broadcasts is not one single round state")
				}
				raddr = f
			}
		}
	}
	if nb == 0 {
		c.Bail("Run: no Transport.Broadcast reachable from Run")
	}
	if raddr == nil {
		c.Bail("Run: the round argument of the broadcasts is not read from a state variable of Run")
	}
	if !r.isRunState(raddr) {
		c.Bail("Run: the round state is not a variable of Run")
	}
	r.roundAddr, r.roundAt0, r.roundInit = raddr.k, raddr, r.x.initOf(raddr)
	return r
}

// roundStores counts the store instructions that write the round state on some path of an iteration of the event
// loop; direct lists the functions other than the loop's own that contain one (closures, helpers, methods).
func (r *c04Run) roundStores() (n int, direct []*ssa.Function, at map[*ssa.Function]ssa.Instruction) {
	seen := map[ssa.Instruction]bool{}
	at = map[*ssa.Function]ssa.Instruction{}
	loopFn := r.sel.Parent()
	for _, tr := range r.its {
		for _, e := range tr.evs {
			if e.kind != "store" || e.addr.k != r.roundAddr || e.in == nil || seen[e.in] {
				continue
			}
			seen[e.in] = true
			n++
			if f := e.in.Parent(); f != loopFn && f != r.fn {
				if _, has := at[f]; !has {
					direct = append(direct, f)
					at[f] = e.in
				}
			}
		}
	}
	sort.Slice(direct, func(i, j int) bool { return direct[i].Pos() < direct[j].Pos() })
	return
}

// roundInitType: the type of the round state.
func (r *c04Run) roundInitType() types.Type {
	if r.roundAt0.typ != nil {
		return r.roundAt0.typ
	}
	return types.Typ[types.Int64]
}

// isRunState: addr denotes a variable of Run or of the function running the event loop (or a field of one), or a
// location inside an object that existed before the path started (a state object handed in as parameter / receiver).
func (r *c04Run) isRunState(addr *c04T) bool {
	root, _ := c04AddrRoot(addr)
	switch root.kind {
	case 'a':
		return r.chainFns[c04Outermost(root.al.Parent())]
	case 's':
		return root.op == "param" || root.op == "pre" || root.op == "free" || root.from != nil
	case 'i':
		return true
	}
	return false
}

func (r *c04Run) needTimer() {
	if r.timerK < 0 {
		r.c.Bail("Run: no select case waits on a timer channel")
	}
}

func (r *c04Run) selRes(tr *c04Trace) *c04T { return tr.evs[0].res }
func (r *c04Run) idx(tr *c04Trace) *c04T    { return c04S("ext#0", r.selRes(tr)) }
func (r *c04Run) msg(tr *c04Trace) *c04T    { return c04S("ext#"+strconv.Itoa(r.recvExt), r.selRes(tr)) }
func (r *c04Run) msgCall(tr *c04Trace, method string) *c04T {
	return c04S("inv:"+method, r.msg(tr))
}

// recvExtOf: the tuple index of the value received in select state k.
func (r *c04Run) recvExtOf(k int) int {
	n := 0
	for i, st := range r.sel.States {
		if st.Dir != types.RecvOnly {
			continue
		}
		if i == k {
			return 2 + n
		}
		n++
	}
	return -1
}

func (r *c04Run) inState(tr *c04Trace, k int) bool {
	return tr.has(c04Eq(r.idx(tr), c04Int(int64(k))), true)
}

// live: the path goes on to the next select, or ends the instance without an error.
func c04Live(tr *c04Trace) bool {
	switch tr.exit {
	case "stop":
		return true
	case "ret":
		return len(tr.ret) == 0 || tr.ret[len(tr.ret)-1].kind == 'n'
	}
	return false
}

// c04Aborts: the path ends the instance with an error that Run (or a helper) constructed itself on this path —
// a deliberate abort, as opposed to a failure reported by the transport or the context.
func c04Aborts(tr *c04Trace) bool {
	return tr.exit == "ret" && len(tr.ret) > 0 && c04IsErrCtor(tr.ret[len(tr.ret)-1])
}

// c04ActOf: the paths on which a protocol action is due: those that go on, and those that abort deliberately
// (an event answered by aborting the instance has not been handled).
func c04ActOf(trs []*c04Trace) []*c04Trace {
	var out []*c04Trace
	for _, tr := range trs {
		if c04Live(tr) || c04Aborts(tr) {
			out = append(out, tr)
		}
	}
	return out
}

func c04LiveOf(trs []*c04Trace) []*c04Trace {
	var out []*c04Trace
	for _, tr := range trs {
		if c04Live(tr) {
			out = append(out, tr)
		}
	}
	return out
}

// cls: the classify call of the path: event index, rule term, justification term.
func (r *c04Run) cls(tr *c04Trace) (int, *c04T, *c04T) {
	is := tr.calls(c04Classify)
	if len(is) == 0 {
		return -1, nil, nil
	}
	res := tr.evs[is[0]].res
	return is[0], c04S("ext#0", res), c04S("ext#1", res)
}

// ruleTraces: the paths on which classify's rule was decided to be the named one.
func (r *c04Run) ruleTraces(name string) []*c04Trace {
	k, ok := r.rules[name]
	if !ok {
		r.c.Bail("constant %s.%s not found", c02P, name)
	}
	var out []*c04Trace
	for _, tr := range r.its {
		if _, rule, _ := r.cls(tr); rule != nil && tr.has(c04Eq(rule, c04Int(k)), true) {
			out = append(out, tr)
		}
	}
	return out
}

func (r *c04Run) ruleStartIdx(tr *c04Trace, name string) int {
	_, rule, _ := r.cls(tr)
	return tr.decIndex(c04Eq(rule, c04Int(r.rules[name])), true)
}

func (r *c04Run) finalRound(tr *c04Trace) *c04T {
	return tr.x.load(&c04State{mem: tr.mem, dec: tr.dec}, r.addrIn(tr, r.roundAt0), r.roundInitType())
}

func (r *c04Run) roundAt(tr *c04Trace, i int) *c04T {
	if t := tr.memAt(r.addrIn(tr, r.roundAt0).k, i); t != nil {
		return t
	}
	return r.roundInit
}

// addrIn: the address of a state cell, known from the paths of one iteration of the loop, as the given path names it.
// The paths from the entry of Run to the loop (r.pre) execute the code that creates the state, so a location inside
// a state object that an iteration knows as "the object that existed before the path started" is there a location
// inside whatever the creating instruction evaluated to (an allocation of a followed constructor, …).
func (r *c04Run) addrIn(tr *c04Trace, addr *c04T) *c04T {
	if addr == nil || tr.x == r.x || len(tr.pre) == 0 {
		return addr
	}
	switch {
	case addr.kind == 'f' && len(addr.args) == 1:
		base := r.addrIn(tr, addr.args[0])
		if base == addr.args[0] {
			return addr
		}
		t := c04S("fa#"+strconv.Itoa(addr.idx), base)
		t.kind, t.idx, t.op, t.typ = 'f', addr.idx, addr.op, addr.typ
		return t
	case addr.kind == 's' && addr.op == "pre":
		if t, ok := tr.pre[addr.k]; ok {
			return t
		}
	}
	return addr
}

// bcast: e is a broadcast of the named message type.
func (r *c04Run) bcast(e *c04Ev, typ string) bool {
	if e.kind != "call" || e.name != c04Broadcast || len(e.args) != 9 {
		return false
	}
	k, ok := e.args[1].isInt()
	return ok && k == r.msgTypes[typ]
}

func c04EvPos(e *c04Ev) token.Pos {
	if e != nil && e.in != nil {
		return posOf(e.in)
	}
	return token.NoPos
}

// forall records one obligation: pred holds on every one of the paths.
func (r *c04Run) forall(key string, pos token.Pos, trs []*c04Trace, pred func(tr *c04Trace) (bool, string)) bool {
	if len(trs) == 0 {
		r.c.Unsure(key, pos, "no path of this kind was found in Run")
		return false
	}
	for _, tr := range trs {
		if ok, why := pred(tr); !ok {
			if strings.HasPrefix(why, "?") { // the shape of this path is not understood: undecided, never a violation
				r.c.Unsure(key, pos, why[1:]+"; on the path ["+tr.path()+"]")
				return false
			}
			if u := c04Unfollowed(tr); u != "" { // code that may perform the action was not followed
				r.c.Unsure(key, pos, "the path calls a function value that could not be resolved ("+u+"), so what it does is unknown; on the path ["+tr.path()+"]")
				return false
			}
			r.c.Check(key, pos, false, why+"; on the path ["+tr.path()+"] "+an.PathString(r.c.P, c04RootBlocks(tr, r.fn)))
			return false
		}
	}
	r.c.Check(key, pos, true, "")
	return true
}

// c04Unfollowed names a call on the path whose target is a function value of unknown identity — other than the
// stop function of a round timer (a parameterless, resultless function held in the state or returned by NewTimer).
func c04Unfollowed(tr *c04Trace) string {
	for _, e := range tr.evs {
		if e.kind != "call" || !strings.HasPrefix(e.name, "value:") {
			continue
		}
		callee := strings.TrimPrefix(e.name, "value:")
		call, ok := e.in.(*ssa.Call)
		if !ok {
			continue
		}
		sig, _ := call.Call.Value.Type().Underlying().(*types.Signature)
		plain := sig != nil && sig.Params().Len() == 0 && sig.Results().Len() == 0
		if plain && (strings.HasPrefix(callee, "init:") || strings.HasPrefix(callee, "fld:") || strings.HasPrefix(callee, "ext#1(ev:"+c04NewTimer) || callee == "nil") {
			continue
		}
		return callee
	}
	return ""
}

func c04RootBlocks(tr *c04Trace, fn *ssa.Function) []*ssa.BasicBlock {
	var out []*ssa.BasicBlock
	for _, b := range tr.blocks {
		if b.Parent() == fn {
			out = append(out, b)
		}
	}
	return out
}

// timeoutSeq decides the round-timeout sequence on the given paths, from event index start(tr) on:
// the round moves to the right new round, a timer is started for that round after the move, the next select
// waits on that timer, and ROUND-CHANGE is broadcast for the new round.
func (r *c04Run) timeoutSeq(region string, pos token.Pos, trs []*c04Trace, start func(tr *c04Trace) int,
	newRoundOK func(tr *c04Trace, f, r0 *c04T) (bool, string)) {
	type info struct {
		i0, iAdv int
		r0, f    *c04T
		nt       *c04Ev
	}
	get := func(tr *c04Trace) info {
		var n info
		n.i0 = start(tr)
		if n.i0 < 0 {
			n.i0 = 0
		}
		n.r0, n.f, n.iAdv = r.roundAt(tr, n.i0+1), r.finalRound(tr), n.i0
		for j := n.i0 + 1; j < len(tr.evs); j++ {
			if e := tr.evs[j]; e.kind == "store" && e.addr.k == r.roundAddr {
				n.iAdv = j
			}
		}
		for j := n.iAdv + 1; j < len(tr.evs); j++ {
			if e := tr.evs[j]; e.kind == "call" && e.name == c04NewTimer {
				n.nt = e
			}
		}
		return n
	}
	r.forall(region+" round advance", pos, trs, func(tr *c04Trace) (bool, string) {
		n := get(tr)
		if n.f.k != n.r0.k {
			return true, ""
		}
		for j := n.i0 + 1; j < len(tr.evs); j++ {
			if e := tr.evs[j]; e.kind == "dec" && e.truth && e.val.is("eq") && (e.val.args[0].k == n.r0.k || e.val.args[1].k == n.r0.k) {
				return true, "" // the round already has the requested value
			}
		}
		return false, "the event returns to the loop without advancing the round"
	})
	r.forall(region+" new round", pos, trs, func(tr *c04Trace) (bool, string) {
		n := get(tr)
		return newRoundOK(tr, n.f, n.r0)
	})
	r.forall(region+" round advance→NewTimer", pos, trs, func(tr *c04Trace) (bool, string) {
		return get(tr).nt != nil, "after the round advance the loop is re-entered without starting a timer for the new round"
	})
	r.forall(region+" NewTimer(round)", pos, trs, func(tr *c04Trace) (bool, string) {
		n := get(tr)
		if n.nt == nil || len(n.nt.args) != 1 {
			return false, "no timer is started after the round advance"
		}
		return tr.same(n.nt.args[0], n.f), "the timer is not created for the round the instance is in after the advance (it is created for " + n.nt.args[0].k + ")"
	})
	r.forall(region+" NewTimer→timerChan", pos, trs, func(tr *c04Trace) (bool, string) {
		n := get(tr)
		if tr.exit != "stop" {
			return true, ""
		}
		if n.nt == nil {
			return false, "no timer is started after the round advance"
		}
		return tr.same(tr.stop.args[r.timerK], c04S("ext#0", n.nt.res)),
			"the channel of the new timer is not what the next select waits on (a stale or nil timer channel is kept): the new round never times out"
	})
	r.forall(region+" round advance→ROUND-CHANGE", pos, trs, func(tr *c04Trace) (bool, string) {
		n := get(tr)
		for j := n.i0 + 1; j < len(tr.evs); j++ {
			if e := tr.evs[j]; r.bcast(e, "MsgRoundChange") && tr.same(e.args[4], n.f) {
				return true, ""
			}
		}
		return false, "after the round advance the loop is re-entered without broadcasting ROUND-CHANGE for the new round"
	})
}

func (r *c04Run) plusOne(tr *c04Trace, f, r0 *c04T) (bool, string) {
	return tr.same(f, c04Add(r0, c04Int(1))), "the new round is not the current round + 1"
}

// ---------------------------------------------------------------------------------------------
// first-call evaluation of the small stateful predicates (limiter, duplicate filter)

// firstCallReturns decides that the first call of the predicate closure f returns the constant want: f is
// evaluated on every path under the assumption that a map held in Run's state has no entry for the looked-up
// key, with the given lower bounds for parameters.
func (r *c04Run) firstCallReturns(key string, f *ssa.Function, paramMin map[*ssa.Parameter]int64, want bool, broken string) {
	if c04Outermost(f).Pkg == nil {
		r.c.Unsure(key, f.Pos(), "the predicate is a synthetic function that cannot be evaluated on its own")
		return
	}
	x := c04NewExec(c04Cfg{root: f, emptyMaps: true, paramLo: paramMin})
	trs := x.run()
	if x.err != "" {
		r.c.Unsure(key, f.Pos(), "the predicate could not be evaluated: "+x.err)
		return
	}
	n := 0
	for _, tr := range trs {
		if tr.exit != "ret" {
			continue
		}
		n++
		if len(tr.ret) != 1 {
			r.c.Unsure(key, f.Pos(), "the predicate does not return one value")
			return
		}
		k, isK := tr.ret[0].isBool()
		if !isK {
			r.c.Unsure(key, f.Pos(), "the predicate returns a value that is not decided by its first-call state ("+tr.ret[0].k+")")
			return
		}
		if k != want {
			r.c.Check(key, f.Pos(), false, fmt.Sprintf("with no entry recorded for the key the predicate can return %v [%s]: %s", k, tr.path(), broken))
			return
		}
	}
	r.c.Check(key, f.Pos(), n > 0, "no return reachable")
}

// ---------------------------------------------------------------------------------------------
// rules

func c04(c *rt.Ctx) {
	c.Rule("T1", 15, func() { c04T1(c04NewRun(c)) })
	c.Rule("T2", 17, func() { c04T2(c04NewRun(c)) })
	c.Rule("T3", 3, func() { c04T3(c04NewRun(c)) })
	c.Rule("T4", 4, func() { c04T4(c04NewRun(c)) })
	c.Rule("T5", 3, func() { c04T5(c04NewRun(c)) })
	c.Rule("T6", 10, func() { c04T6(c04NewRun(c)) })
}

// T1 — round timeout and f+1 jump.
func c04T1(r *c04Run) {
	c := r.c
	r.needTimer()
	// the loop is entered with a timer armed for the current round
	starts := []*c04Trace{}
	for _, tr := range r.pre {
		if tr.exit == "stop" {
			starts = append(starts, tr)
		}
	}
	startTimer := func(tr *c04Trace) *c04Ev {
		for _, i := range tr.calls(c04NewTimer) {
			if e := tr.evs[i]; tr.same(tr.stop.args[r.timerK], c04S("ext#0", e.res)) {
				return e
			}
		}
		return nil
	}
	r.forall("Run start NewTimer→timerChan", r.sel.Pos(), starts, func(tr *c04Trace) (bool, string) {
		return startTimer(tr) != nil, "the event loop is entered without a running round timer: a silent leader in round 1 is never timed out"
	})
	r.forall("Run start NewTimer(round)", r.sel.Pos(), starts, func(tr *c04Trace) (bool, string) {
		e := startTimer(tr)
		if e == nil || len(e.args) != 1 {
			return false, "no timer is running when the loop is entered"
		}
		return tr.same(e.args[0], r.finalRound(tr)), "the first timer is not created for the round the instance starts in"
	})
	// the round-changing closures really set the round
	nStores, advancers, storeAt := r.roundStores()
	if nStores == 0 {
		unf := ""
		for _, tr := range r.its {
			if u := c04Unfollowed(tr); u != "" {
				unf = u
			}
		}
		if unf != "" {
			c.Unsure("Run round-changing closure sets round", r.sel.Pos(), "no store into the round state was found, but the event loop calls a function value that could not be resolved ("+unf+")")
		} else {
			c.Bad("Run round-changing closure sets round", r.sel.Pos(), "nothing inside the event loop ever stores a new value into the round state: no timeout or message can move the instance to the next round")
		}
	}
	for _, f := range advancers {
		x := c04NewExec(c04Cfg{root: f, isEvent: c04IsEvent})
		trs := x.run()
		if x.err != "" {
			c.Unsure("Run round-changing closure sets round", f.Pos(), x.err)
			continue
		}
		// the round state as this function sees it: the address its store instruction writes
		var addr *c04T
		for _, tr := range trs {
			for _, e := range tr.evs {
				if e.kind == "store" && e.in == storeAt[f] {
					addr = e.addr
				}
			}
		}
		if addr == nil {
			c.Unsure("Run round-changing closure sets round", f.Pos(), "the store into the round state is not reached when the function is evaluated on its own")
			continue
		}
		initial := x.initOf(addr)
		final := func(tr *c04Trace) *c04T {
			if t, has := tr.mem[addr.k]; has {
				return t
			}
			return initial
		}
		ok, why := false, "the closure does not store one of its parameters into the round state"
		var cands []*ssa.Parameter // the parameters that can carry the new round
		for _, p := range f.Params {
			if types.Identical(p.Type(), r.roundInitType()) {
				cands = append(cands, p)
			}
		}
		if len(cands) == 0 {
			ok = true
			for _, tr := range trs {
				if tr.exit == "ret" && final(tr).k == initial.k {
					ok, why = false, "the closure can return without changing the round; path ["+tr.path()+"]"
				}
			}
		}
		for _, p := range cands {
			pt := x.static(nil, nil, p)
			good := true
			for _, tr := range trs {
				if tr.exit == "ret" && !tr.same(final(tr), pt) {
					good = false
					why = "the closure can return without storing the new round although it differs from the current one; path [" + tr.path() + "]"
				}
			}
			if good {
				ok = true
			}
		}
		c.Check("Run round-changing closure sets round", f.Pos(), ok, why)
	}
	if len(advancers) == 0 && nStores > 0 {
		c.Good("Run round-changing closure sets round", r.sel.Pos(), "the round is assigned in the event loop itself")
	}
	// timer case
	var timer []*c04Trace
	for _, tr := range c04ActOf(r.its) {
		if r.inState(tr, r.timerK) {
			timer = append(timer, tr)
		}
	}
	r.timeoutSeq("Run timer case", r.sel.Pos(), timer, func(tr *c04Trace) int {
		return tr.decIndex(c04Eq(r.idx(tr), c04Int(int64(r.timerK))), true)
	}, r.plusOne)
	// f+1 higher ROUND-CHANGEs
	r.timeoutSeq("Run UponFPlus1RoundChanges", r.sel.Pos(), c04ActOf(r.ruleTraces("UponFPlus1RoundChanges")), func(tr *c04Trace) int {
		return r.ruleStartIdx(tr, "UponFPlus1RoundChanges")
	}, func(tr *c04Trace, f, r0 *c04T) (bool, string) {
		_, _, just := r.cls(tr)
		why := "the new round is not nextMinRound(d, justification, round)"
		for _, u := range tr.equals(f) {
			// the minimum-round helper: an in-package function of the f+1 ROUND-CHANGEs and the current round
			if u.kind != 's' || !strings.HasPrefix(u.op, "call:static:"+c02P+".") {
				continue
			}
			hasJust, hasRound := false, false
			for _, a := range u.args {
				hasJust = hasJust || tr.same(a, just)
				hasRound = hasRound || tr.same(a, r0)
			}
			if !hasJust {
				why = "nextMinRound is not applied to the f+1 ROUND-CHANGEs returned by classify"
				continue
			}
			if !hasRound {
				why = "nextMinRound is not given the current round"
				continue
			}
			return true, ""
		}
		if c04HasUniq(f) {
			return false, "?the new round is computed in a way that is not followed (" + f.k + ")"
		}
		return false, why
	})
}

// c04TimerParam returns the index of the unique `<-chan time.Time` parameter.
func c04TimerParam(c *rt.Ctx, f *ssa.Function) int {
	idx := -1
	for i, p := range f.Params {
		ch, ok := p.Type().Underlying().(*types.Chan)
		if ok && an.TypeName(ch.Elem()) == "time.Time" {
			if idx >= 0 {
				c.Bail("%s: several timer channel parameters", an.FuncName(f))
			}
			idx = i
		}
	}
	if idx < 0 {
		c.Bail("%s: no timer channel parameter", an.FuncName(f))
	}
	return idx
}

// T2 — justified PRE-PREPARE.
func c04T2(r *c04Run) {
	c := r.c
	r.needTimer()
	cmpFn, awaitFn := r.anch.compare, r.anch.await
	cmpT, awaitT := c04TimerParam(c, cmpFn), c04TimerParam(c, awaitFn)

	// (a) awaitCompare reports an expired timer with one sentinel error
	timeoutErr := ""
	{
		key := "awaitCompare timer case→timeout error"
		x := c04NewExec(c04Cfg{root: awaitFn})
		trs := x.run()
		if x.err != "" {
			c.Bail("awaitCompare: %s", x.err)
		}
		pt := x.static(nil, nil, awaitFn.Params[awaitT])
		// the selects of awaitCompare that wait on the timer it was given
		type wait struct {
			sel *ssa.Select
			k   int
		}
		var waits []wait
		nested := false
		for _, tr := range trs {
			for _, e := range tr.evs {
				if e.kind != "select" || e.res == nil {
					continue
				}
				sel := e.in.(*ssa.Select)
				for k, st := range sel.States {
					if st.Dir != types.RecvOnly || e.args[k].k != pt.k {
						continue
					}
					if sel.Parent() != awaitFn {
						nested = true
						continue
					}
					dup := false
					for _, w := range waits {
						dup = dup || (w.sel == sel && w.k == k)
					}
					if !dup {
						waits = append(waits, wait{sel, k})
					}
				}
			}
		}
		switch {
		case len(waits) == 0 && nested:
			c.Unsure(key, awaitFn.Pos(), "the round timer is waited on inside a helper of awaitCompare")
		case len(waits) == 0:
			c.Bad(key, awaitFn.Pos(), "awaitCompare never waits on the round timer: a comparison waiting for local data blocks the consensus loop for ever")
		}
		for _, w := range waits {
			// every path from this select taking the timer case ends awaitCompare with the sentinel
			wx := c04NewExec(c04Cfg{root: awaitFn, stop: w.sel, startB: w.sel.Block(), startI: c04Idx(w.sel)})
			wtrs := wx.run()
			if wx.err != "" {
				c.Bail("awaitCompare: %s", wx.err)
			}
			good, why, n := true, "", 0
			for _, tr := range wtrs {
				if len(tr.evs) == 0 || tr.evs[0].kind != "select" || !tr.has(c04Eq(c04S("ext#0", tr.evs[0].res), c04Int(int64(w.k))), true) {
					continue
				}
				n++
				g := ""
				if tr.exit == "ret" && len(tr.ret) > 0 {
					if last := tr.ret[len(tr.ret)-1]; last.kind == 's' && strings.HasPrefix(last.op, "gload:") {
						g = last.k
					}
				}
				switch {
				case tr.exit != "ret":
					good, why = false, "an expired round timer does not end the wait: awaitCompare keeps waiting; path ["+tr.path()+"]"
				case g == "" || (timeoutErr != "" && g != timeoutErr):
					good, why = false, "an expired round timer does not end the wait with the (single) timeout sentinel error; path ["+tr.path()+"]"
				default:
					timeoutErr = g
				}
			}
			if n == 0 {
				c.Bail("awaitCompare: no path takes the timer case")
			}
			c.Check(key, w.sel.Pos(), good, why)
		}
	}
	// (b) compare hands its timer to awaitCompare and returns its verdict
	if awaitFn == cmpFn {
		c.Good("compare→awaitCompare timer", cmpFn.Pos(), "compare waits on the round timer itself")
		c.Good("compare returns awaitCompare verdict", cmpFn.Pos(), "compare waits on the round timer itself")
	} else {
		x := c04NewExec(c04Cfg{root: cmpFn})
		trs := x.run()
		if x.err != "" {
			c.Bail("compare: %s", x.err)
		}
		pt := x.static(nil, nil, cmpFn.Params[cmpT])
		n, okTimer, okRet := 0, true, true
		for _, tr := range trs {
			if tr.exit != "ret" {
				continue
			}
			is := tr.calls(c04Await)
			if len(is) != 1 {
				c.Bail("compare: expected exactly one awaitCompare call on every path")
			}
			n++
			e := tr.evs[is[0]]
			if awaitT >= len(e.args) || e.args[awaitT].k != pt.k {
				okTimer = false
			}
			if len(tr.ret) == 0 || !tr.same(tr.ret[len(tr.ret)-1], c04S("ext#1", e.res)) {
				okRet = false
			}
		}
		if n == 0 {
			c.Bail("compare: no returning path")
		}
		c.Check("compare→awaitCompare timer", cmpFn.Pos(), okTimer, "compare does not wait on the round timer it was given")
		c.Check("compare returns awaitCompare verdict", cmpFn.Pos(), okRet, "compare does not return the error produced by awaitCompare: a timeout is not reported to Run")
	}

	region := "Run UponJustifiedPrePrepare"
	all := r.ruleTraces("UponJustifiedPrePrepare")
	pp := c04LiveOf(all)
	if len(pp) == 0 {
		c.Bail("Run: no path handles UponJustifiedPrePrepare")
	}
	pos := r.sel.Pos()
	type info struct {
		i0, ic int
		cmp    *c04Ev
		nts    []int // NewTimer events between the rule decision and compare
		errV   *c04T
	}
	get := func(tr *c04Trace) info {
		n := info{i0: r.ruleStartIdx(tr, "UponJustifiedPrePrepare"), ic: -1}
		for _, i := range tr.calls(c04Compare) {
			if i > n.i0 {
				n.ic, n.cmp = i, tr.evs[i]
				n.errV = c04S("ext#1", n.cmp.res)
				break
			}
		}
		for _, i := range tr.calls(c04NewTimer) {
			if i > n.i0 && (n.ic < 0 || i < n.ic) {
				n.nts = append(n.nts, i)
			}
		}
		return n
	}
	r.forall(region+" round:=msg.Round()", pos, pp, func(tr *c04Trace) (bool, string) {
		n := get(tr)
		at := len(tr.evs)
		if n.ic >= 0 {
			at = n.ic
		}
		return tr.same(r.roundAt(tr, at), r.msgCall(tr, "Round")), "the branch does not move to the round of the justified PRE-PREPARE"
	})
	r.forall(region+" round:=msg.Round() before compare", pos, pp, func(tr *c04Trace) (bool, string) {
		n := get(tr)
		if n.cmp == nil {
			return false, "the justified PRE-PREPARE is not compared with the local value"
		}
		return tr.same(r.roundAt(tr, n.ic), r.msgCall(tr, "Round")), "the round is not set to msg.Round() before the value comparison starts"
	})
	r.forall(region+" compare waits on restarted timer", pos, pp, func(tr *c04Trace) (bool, string) {
		n := get(tr)
		if n.cmp != nil && cmpT < len(n.cmp.args) {
			for _, i := range n.nts {
				if tr.same(n.cmp.args[cmpT], c04S("ext#0", tr.evs[i].res)) {
					return true, ""
				}
			}
		}
		return false, "compare is not given the channel of a timer started in this branch: waiting for local data is not bounded by the round timeout"
	})
	r.forall(region+"→NewTimer", pos, pp, func(tr *c04Trace) (bool, string) {
		return len(get(tr).nts) > 0, "the round timer is not restarted for the round of the justified PRE-PREPARE"
	})
	r.forall(region+" NewTimer after round:=msg.Round()", pos, pp, func(tr *c04Trace) (bool, string) {
		for _, i := range get(tr).nts {
			if !tr.same(r.roundAt(tr, i), r.msgCall(tr, "Round")) {
				return false, "the timer is started before the round is moved to msg.Round()"
			}
		}
		return true, ""
	})
	r.forall(region+" NewTimer(round)", pos, pp, func(tr *c04Trace) (bool, string) {
		for _, i := range get(tr).nts {
			if e := tr.evs[i]; len(e.args) != 1 || !tr.same(e.args[0], r.roundAt(tr, i)) {
				return false, "the timer is not created for the current round (argument is neither the round state nor the value just stored into it)"
			}
		}
		return true, ""
	})
	r.forall(region+" NewTimer→timerChan", pos, pp, func(tr *c04Trace) (bool, string) {
		if tr.exit != "stop" {
			return true, ""
		}
		is := tr.calls(c04NewTimer)
		if len(is) == 0 {
			return false, "no timer is started in this branch"
		}
		return tr.same(tr.stop.args[r.timerK], c04S("ext#0", tr.evs[is[len(is)-1]].res)),
			"the channel of the new timer is not what the next select waits on (a stale or nil timer channel is kept): the new round never times out"
	})
	// success → PREPARE
	var okTr []*c04Trace
	for _, tr := range pp {
		n := get(tr)
		if n.cmp == nil {
			continue
		}
		cons := tr.consistent(c04Lit{c04Eq(n.errV, c04Nil), true})
		for _, e := range tr.evs {
			if e.kind == "dec" && e.truth && c04IsErrIs(e.val, n.errV) != nil {
				cons = false
			}
		}
		if cons {
			okTr = append(okTr, tr)
		}
	}
	r.forall(region+" compare ok→PREPARE", pos, okTr, func(tr *c04Trace) (bool, string) {
		n := get(tr)
		for _, e := range tr.evs[n.ic:] {
			if r.bcast(e, "MsgPrepare") && tr.same(e.args[4], r.msgCall(tr, "Round")) {
				return true, ""
			}
		}
		return false, "a successful comparison does not lead to a PREPARE broadcast"
	})
	// timeout → round-timeout sequence
	var toTr []*c04Trace
	tested := false
	toIdx := func(tr *c04Trace) int {
		n := get(tr)
		if n.cmp == nil || timeoutErr == "" {
			return -1
		}
		for i, e := range tr.evs {
			if e.kind == "dec" && e.truth && i > n.ic {
				if g := c04IsErrIs(e.val, n.errV); g != nil && g.k == timeoutErr {
					return i
				}
			}
		}
		return -1
	}
	for _, tr := range all {
		if toIdx(tr) >= 0 {
			tested = true
			if c04Live(tr) || c04Aborts(tr) {
				toTr = append(toTr, tr)
			}
		}
	}
	if !tested {
		c.Bad("Run compare-timeout round advance", pos,
			"no branch of the pre-prepare handler tests compare's error against the sentinel awaitCompare returns when the round timer expires: a round that times out inside compare is never changed")
	} else {
		r.timeoutSeq("Run compare-timeout", pos, toTr, toIdx, r.plusOne)
	}
}

// c04IsErrIs: t is errors.Is(errV, g) or errV == g; returns g.
func c04IsErrIs(t, errV *c04T) *c04T {
	if t.kind != 's' {
		return nil
	}
	if strings.HasPrefix(t.op, "call:static:") && (strings.HasSuffix(t.op, "/errors.Is") || t.op == "call:static:errors.Is") && len(t.args) == 2 && t.args[0].k == errV.k {
		return t.args[1]
	}
	if t.is("eq") {
		if t.args[0].k == errV.k && t.args[1].kind != 'n' {
			return t.args[1]
		}
		if t.args[1].k == errV.k && t.args[0].kind != 'n' {
			return t.args[0]
		}
	}
	return nil
}

// T3 — quorum events perform their action.
func c04T3(r *c04Run) {
	pos := r.sel.Pos()
	r.forall("Run UponQuorumPrepares→COMMIT", pos, c04ActOf(r.ruleTraces("UponQuorumPrepares")), func(tr *c04Trace) (bool, string) {
		i0 := r.ruleStartIdx(tr, "UponQuorumPrepares")
		for _, e := range tr.evs[i0:] {
			if r.bcast(e, "MsgCommit") {
				return true, ""
			}
		}
		return false, "a quorum of PREPAREs does not lead to a COMMIT broadcast: no member can collect a quorum of COMMITs"
	})
	for _, name := range []string{"UponQuorumCommits", "UponJustifiedDecided"} {
		r.forall("Run "+name+"→Decide", pos, c04ActOf(r.ruleTraces(name)), func(tr *c04Trace) (bool, string) {
			i0 := r.ruleStartIdx(tr, name)
			for _, i := range tr.calls(c04Decide) {
				if i > i0 {
					return true, ""
				}
			}
			return false, "a quorum of COMMITs / a justified DECIDED does not lead to d.Decide: the member never decides"
		})
	}
}

// T4 — proposals: PRE-PREPARE or cached justification, flushed when the input value arrives.
func c04T4(r *c04Run) {
	c := r.c
	pos := r.sel.Pos()
	// the input-value case of the select: it receives a value of the type broadcasts carry
	var vt types.Type
	for _, tr := range r.its {
		for _, e := range tr.evs {
			if call, ok := e.in.(*ssa.Call); ok && e.kind == "call" && e.name == c04Broadcast && len(call.Call.Args) == 9 {
				vt = call.Call.Args[5].Type()
			}
		}
	}
	// the input-value case: the receive whose value is what a later broadcast of the same iteration carries as value
	// (the flush); failing that the one remaining receive that is neither the transport, the timer nor a signal
	// channel (struct{}), or the one whose element type is the type broadcasts carry
	inputK := -1
	pick := func(ok func(k int, st *ssa.SelectState) bool) {
		if inputK >= 0 {
			return
		}
		n := 0
		for k, st := range r.sel.States {
			if st.Dir == types.RecvOnly && k != r.recvK && k != r.timerK && ok(k, st) {
				inputK = k
				n++
			}
		}
		if n > 1 {
			c.Bail("Run: several select cases receive a value")
		}
	}
	pick(func(k int, _ *ssa.SelectState) bool {
		for _, tr := range r.its {
			if !r.inState(tr, k) {
				continue
			}
			in := c04S("ext#"+strconv.Itoa(r.recvExtOf(k)), r.selRes(tr))
			for _, e := range tr.evs {
				if e.kind == "call" && e.name == c04Broadcast && len(e.args) == 9 && e.args[5].k == in.k {
					return true
				}
			}
		}
		return false
	})
	pick(func(_ int, st *ssa.SelectState) bool {
		ch, ok := st.Chan.Type().Underlying().(*types.Chan)
		return ok && vt != nil && types.Identical(ch.Elem(), vt)
	})
	pick(func(_ int, st *ssa.SelectState) bool {
		ch, ok := st.Chan.Type().Underlying().(*types.Chan)
		if !ok {
			return false
		}
		if s, isStruct := ch.Elem().Underlying().(*types.Struct); isStruct && s.NumFields() == 0 {
			return false
		}
		return true
	})
	if inputK < 0 {
		c.Bail("Run: no select case receives the input value")
	}
	inputExt := r.recvExtOf(inputK)
	qrc := c04LiveOf(r.ruleTraces("UponQuorumRoundChanges"))
	if len(qrc) == 0 {
		c.Bail("Run: no path handles UponQuorumRoundChanges")
	}
	// the cache: the cell of Run that a quorum-round-change path stores classify's justification into
	cache := ""
	var cacheInit, cacheAddr, inputAddr *c04T
	flagInit := map[string]c04Lit{}
	for _, tr := range qrc {
		_, _, just := r.cls(tr)
		i0 := r.ruleStartIdx(tr, "UponQuorumRoundChanges")
		for i, e := range tr.evs {
			if i > i0 && e.kind == "store" && r.isRunState(e.addr) && tr.same(e.val, just) {
				if cache != "" && cache != e.addr.k {
					c.Bail("Run: several cells cache a justification")
				}
				cache, cacheInit, cacheAddr = e.addr.k, r.x.initOf(e.addr), e.addr
				// companions: boolean state the same function sets to a constant together with the cache ("cached = true");
				// "a justification is cached" then means the cache cell holds it and these flags have those values
				for j, e2 := range tr.evs {
					if j <= i0 || e2.kind != "store" || e2.addr.k == e.addr.k || !r.isRunState(e2.addr) || e2.in == nil || e.in == nil || e2.in.Parent() != e.in.Parent() {
						continue
					}
					if b, isB := e2.val.isBool(); isB {
						if f := tr.memFinal(e2.addr.k); f != nil && f.k == e2.val.k {
							flagInit[e2.addr.k] = c04Lit{r.x.initOf(e2.addr), b}
						}
					}
				}
			}
		}
	}
	if cache == "" {
		c.Note("T4: no justification cache found; proposals must broadcast unconditionally")
	}
	// the input cell: where the received input value is kept
	inputCell := ""
	for _, tr := range r.its {
		if !r.inState(tr, inputK) {
			continue
		}
		in := c04S("ext#"+strconv.Itoa(inputExt), r.selRes(tr))
		for _, e := range tr.evs {
			if e.kind == "store" && r.isRunState(e.addr) && e.val.k == in.k {
				inputCell, inputAddr = e.addr.k, e.addr
			}
		}
	}
	ownValue := func(tr *c04Trace, t *c04T) bool {
		return inputCell != "" && t.from != nil && t.from.k == r.addrIn(tr, inputAddr).k
	}
	proposes := func(tr *c04Trace, from int, just *c04T) (found bool, own bool, ownOK bool) {
		ownOK = true
		for i, e := range tr.evs {
			if i <= from || !r.bcast(e, "MsgPrePrepare") {
				continue
			}
			if just != nil && !tr.same(e.args[8], just) {
				continue
			}
			found = true
			if e.args[5].from != nil {
				own = true
				if !ownValue(tr, e.args[5]) {
					ownOK = false
				}
			}
		}
		return
	}
	cached := func(tr *c04Trace, just *c04T) bool {
		if cache == "" {
			return false
		}
		t, ok := tr.mem[r.addrIn(tr, cacheAddr).k]
		if !ok {
			return false
		}
		if just == nil {
			return t.kind != 'n'
		}
		return tr.same(t, just)
	}
	// leader of round 1
	var leader []*c04Trace
	sawLeader := false
	for _, tr := range r.pre {
		for _, e := range tr.evs {
			if e.kind == "dec" && e.truth && e.val.is("call:"+c04IsLeader) {
				sawLeader = true
				if c04Live(tr) {
					leader = append(leader, tr)
				}
			}
		}
	}
	r.forall("Run propose-or-cache closure", pos, append(append([]*c04Trace{}, qrc...), leader...), func(tr *c04Trace) (bool, string) {
		_, _, just := r.cls(tr) // nil on the start paths
		from := -1
		if just != nil {
			from = r.ruleStartIdx(tr, "UponQuorumRoundChanges")
		}
		found, _, ownOK := proposes(tr, from, nil)
		if found && !ownOK {
			return false, "the proposal of the own value does not carry the input value cell the input-value case fills"
		}
		if !found && !cached(tr, just) {
			return false, "the proposal helper can return without broadcasting PRE-PREPARE for its own input value and without caching the justification"
		}
		return true, ""
	})
	r.forall("Run UponQuorumRoundChanges→PRE-PREPARE|cache", pos, qrc, func(tr *c04Trace) (bool, string) {
		_, _, just := r.cls(tr)
		found, _, _ := proposes(tr, r.ruleStartIdx(tr, "UponQuorumRoundChanges"), just)
		return found || cached(tr, just), "a justified quorum of ROUND-CHANGEs at the leader leads neither to a PRE-PREPARE carrying that justification nor to caching it"
	})
	if !sawLeader {
		c.Bad("Run start leader→PRE-PREPARE|cache", r.fn.Pos(), "Run does not test IsLeader before entering the loop: round 1 has no proposal")
	} else {
		r.forall("Run start leader→PRE-PREPARE|cache", pos, leader, func(tr *c04Trace) (bool, string) {
			found, _, _ := proposes(tr, -1, nil)
			return found || cached(tr, nil), "the leader of round 1 enters the loop without proposing (or caching the empty justification)"
		})
	}
	// flush of the cached justification when the input value arrives
	key := "Run input value→flush cached PRE-PREPARE"
	if cache == "" {
		c.Good(key, pos, "no justification is ever cached")
		return
	}
	var input []*c04Trace
	for _, tr := range c04LiveOf(r.its) {
		if !r.inState(tr, inputK) {
			continue
		}
		lits := []c04Lit{{c04Eq(cacheInit, c04Nil), false}, {c04Eq(c04S("len", cacheInit), c04Int(0)), false}, {c04Lt(c04Int(0), c04S("len", cacheInit)), true}}
		for _, k := range c04SortedLitKeys(flagInit) {
			lits = append(lits, flagInit[k])
		}
		if tr.consistent(lits...) {
			input = append(input, tr)
		}
	}
	r.forall(key, pos, input, func(tr *c04Trace) (bool, string) {
		in := c04S("ext#"+strconv.Itoa(inputExt), r.selRes(tr))
		for _, e := range tr.evs {
			if r.bcast(e, "MsgPrePrepare") && tr.same(e.args[5], in) && tr.same(e.args[8], cacheInit) {
				return true, ""
			}
		}
		return false, "when the input value arrives a cached justification is not flushed as PRE-PREPARE(input value, cached justification): the leader's round never gets a proposal"
	})
}

func c04SortedLitKeys(m map[string]c04Lit) []string {
	var ks []string
	for k := range m {
		ks = append(ks, k)
	}
	sort.Strings(ks)
	return ks
}

// memFinal: the content of the cell at the end of the path (nil if never written).
func (tr *c04Trace) memFinal(addr string) *c04T { return tr.mem[addr] }

// c04Slot is a loop-carried variable of Run as seen at the start of an iteration: a captured cell or a loop phi.
func c04IsSlot(t *c04T) bool { return t.phi != nil || t.from != nil }

func c04SlotFinal(tr *c04Trace, init *c04T) *c04T {
	if init.from != nil {
		return tr.x.load(&c04State{mem: tr.mem, dec: tr.dec}, init.from, nil)
	}
	if t, ok := tr.phis[init.k]; ok {
		return t
	}
	return init // not re-assigned on the way to the next select
}

// T5 — after the decision, lagging peers are answered with DECIDED.
func c04T5(r *c04Run) {
	c := r.c
	pos := r.sel.Pos()
	key := "Run post-decision ROUND-CHANGE→DECIDED"
	var q, qv *c04T
	nd := 0
	okCarry, whyCarry := true, ""
	var carryPos token.Pos
	for _, tr := range r.its {
		for _, e := range tr.evs {
			if !r.bcast(e, "MsgDecided") {
				continue
			}
			nd++
			carryPos = c04EvPos(e)
			if !c04IsSlot(e.args[8]) || !c04IsSlot(e.args[5]) {
				okCarry, whyCarry = false, "the DECIDED resend does not carry the latched commit quorum and value (it carries "+e.args[5].k+", "+e.args[8].k+")"
				continue
			}
			if (q != nil && q.k != e.args[8].k) || (qv != nil && qv.k != e.args[5].k) {
				c.Bail("Run: DECIDED broadcasts carry different quorum variables")
			}
			q, qv = e.args[8], e.args[5]
		}
	}
	if nd == 0 {
		// absent on every path: positive evidence only if every path was followed to its end
		for _, tr := range r.its {
			if u := c04Unfollowed(tr); u != "" {
				c.Unsure(key, r.fn.Pos(), "no DECIDED broadcast was found, but the event loop calls a function value that could not be resolved ("+u+"), so what it does is unknown")
				return
			}
		}
		c.Bad(key, r.fn.Pos(), "Run never broadcasts DECIDED: a member that missed the COMMIT quorum is never told the decision")
		return
	}
	if okCarry && q != nil {
		// the resent state is latched from the deciding quorum and value
		n := 0
		for _, name := range []string{"UponQuorumCommits", "UponJustifiedDecided"} {
			for _, tr := range r.ruleTraces(name) {
				if tr.exit != "stop" {
					continue
				}
				n++
				_, _, just := r.cls(tr)
				if f := c04SlotFinal(tr, q); f == nil || !tr.same(f, just) {
					okCarry, whyCarry = false, "the state resent as DECIDED is never set from the deciding quorum / value"
				}
				if f := c04SlotFinal(tr, qv); f == nil || !tr.same(f, r.msgCall(tr, "Value")) {
					okCarry, whyCarry = false, "the state resent as DECIDED is never set from the deciding quorum / value"
				}
			}
		}
		if n == 0 {
			c.Bail("Run: no path handles UponQuorumCommits / UponJustifiedDecided")
		}
	}
	c.Check("Run DECIDED resend carries qCommit", carryPos, okCarry, whyCarry)
	if q == nil || !okCarry {
		return
	}
	// a boolean state variable that every deciding path sets to true is accepted as "decided" as well
	flags := map[string]bool{}
	for _, tr := range r.its {
		for _, e := range tr.evs {
			if e.kind == "dec" && c04IsSlot(e.val) {
				flags[e.val.k] = true
			}
		}
	}
	for _, tr := range r.its {
		for _, e := range tr.evs {
			if e.kind != "dec" || !flags[e.val.k] {
				continue
			}
			for _, name := range []string{"UponQuorumCommits", "UponJustifiedDecided"} {
				for _, dt := range r.ruleTraces(name) {
					if dt.exit == "stop" {
						if b, ok := c04SlotFinal(dt, e.val).isBool(); !ok || !b {
							delete(flags, e.val.k)
						}
					}
				}
			}
		}
	}
	// decided paths: those on which the commit quorum was found non-empty
	nonEmpty := func(tr *c04Trace) (bool, bool) {
		lq := c04S("len", q)
		for _, e := range tr.evs {
			if e.kind != "dec" {
				continue
			}
			switch {
			case e.val.k == c04Lt(c04Int(0), lq).k:
				return e.truth, true
			case e.val.k == c04Eq(lq, c04Int(0)).k, e.val.k == c04Lt(lq, c04Int(1)).k, e.val.k == c04Eq(q, c04Nil).k:
				return !e.truth, true
			case flags[e.val.k]:
				return e.truth, true
			}
		}
		return false, false
	}
	var decided []*c04Trace
	tested := false
	limiters := map[*ssa.Function]bool{}
	limRound := map[*ssa.Function]int{} // index of the round argument
	for _, tr := range r.its {
		ne, ok := nonEmpty(tr)
		if !ok {
			continue
		}
		tested = true
		if !ne || !c04Live(tr) || !r.inState(tr, r.recvK) {
			continue
		}
		src, typ, rnd := r.msgCall(tr, "Source"), r.msgCall(tr, "Type"), r.msgCall(tr, "Round")
		// the process id: the source argument of the broadcasts
		var proc *c04T
		for _, t2 := range r.its {
			for _, e := range t2.evs {
				if e.kind == "call" && e.name == c04Broadcast && len(e.args) == 9 {
					proc = e.args[3]
				}
			}
		}
		if proc == nil {
			c.Bail("Run: the process id was not found")
		}
		if !tr.consistent(c04Lit{c04Eq(src, proc), false}, c04Lit{c04Eq(typ, c04Int(r.msgTypes["MsgRoundChange"])), true}) {
			continue
		}
		refused := false
		for _, e := range tr.evs {
			// the limiter: an in-package predicate asked about (source, round) of the message — a closure, a method of the
			// state object or a function handed the map; followed or not
			if !c04IsPredCall(e) {
				continue
			}
			_, j, ok := c04ArgsHave(tr, e.args, src, rnd)
			if !ok {
				continue
			}
			limiters[e.fn] = true
			limRound[e.fn] = j
			if tr.has(e.res, false) {
				refused = true
			}
		}
		if !refused {
			decided = append(decided, tr)
		}
	}
	if !tested {
		c.Unsure(key, r.fn.Pos(), "DECIDED is resent, but the test whether the instance has decided was not recognised")
		return
	}
	r.forall(key, pos, decided, func(tr *c04Trace) (bool, string) {
		for _, e := range tr.evs {
			if r.bcast(e, "MsgDecided") && e.args[8].k == q.k && e.args[5].k == qv.k {
				return true, ""
			}
		}
		// a refusal decided inside an in-package helper that was not followed is not understood
		msg := r.msg(tr)
		for _, e := range tr.evs {
			if e.kind == "dec" && e.val.kind == 's' && strings.HasPrefix(e.val.op, "call:static:"+c02P+".") {
				for _, a := range e.val.args {
					if a.k == msg.k || strings.Contains(a.k, "("+msg.k+")") {
						return false, "?whether the ROUND-CHANGE is answered is decided by the helper " + strings.TrimPrefix(e.val.op, "call:static:") + ", which is not followed"
					}
				}
			}
		}
		return false, "after the decision a ROUND-CHANGE from another member is not (always) answered with the DECIDED message: a member that missed the quorum keeps changing rounds for ever"
	})
	var fs []*ssa.Function
	for f := range limiters {
		fs = append(fs, f)
	}
	sort.Slice(fs, func(i, j int) bool { return fs[i].Pos() < fs[j].Pos() })
	for _, f := range fs {
		r.firstCallReturns("Run decided-resend limiter first call", f, map[*ssa.Parameter]int64{f.Params[limRound[f]]: 1}, true,
			"the first ROUND-CHANGE of a lagging member is refused, so it is never told the decision")
	}
	if len(fs) == 0 {
		c.Good("Run decided-resend limiter first call", pos, "the resend is not rate-limited")
	}
}

// c04TableValues: m is a read of a package-level map variable that is assigned exactly once, in the package
// initialiser, a map literal, and is never updated anywhere in the package; the values of the literal are returned.
func c04TableValues(pkg *ssa.Package, m ssa.Value) ([]ssa.Value, bool) {
	ld, ok := an.Unwrap(m).(*ssa.UnOp)
	if !ok || ld.Op != token.MUL {
		return nil, false
	}
	g, ok := ld.X.(*ssa.Global)
	if !ok || g.Pkg != pkg || pkg == nil {
		return nil, false
	}
	var mk *ssa.MakeMap
	fns := append([]*ssa.Function{}, an.PkgFuncsAll(pkg)...)
	if init := pkg.Func("init"); init != nil {
		fns = append(fns, init)
	}
	for _, f := range fns {
		for _, in := range an.Instrs(f, false) {
			switch x := in.(type) {
			case *ssa.Store:
				if x.Addr != ssa.Value(g) {
					continue
				}
				mm, isMk := x.Val.(*ssa.MakeMap)
				if !isMk || mk != nil || f.Name() != "init" {
					return nil, false
				}
				mk = mm
			case *ssa.MapUpdate:
				if l, isLd := an.Unwrap(x.Map).(*ssa.UnOp); isLd && l.X == ssa.Value(g) {
					return nil, false
				}
			case ssa.CallInstruction:
				// the variable's address or the map itself handed to a function: it may be written there
				for _, a := range x.Common().Args {
					if a == ssa.Value(g) {
						return nil, false
					}
					if l, isLd := an.Unwrap(a).(*ssa.UnOp); isLd && l.X == ssa.Value(g) {
						if b, isB := x.Common().Value.(*ssa.Builtin); !isB || b.Name() != "len" {
							return nil, false
						}
					}
				}
			}
		}
	}
	if mk == nil {
		return nil, false
	}
	var vals []ssa.Value
	for _, ref := range *mk.Referrers() {
		switch x := ref.(type) {
		case *ssa.MapUpdate:
			vals = append(vals, x.Value)
		case *ssa.Store, *ssa.DebugRef:
		default:
			return nil, false
		}
	}
	return vals, len(vals) > 0
}

// c04IsPredCall: the event is the call (followed or not) of an in-package function with a single boolean result.
func c04IsPredCall(e *c04Ev) bool {
	if (e.kind != "call" && e.kind != "leave") || e.fn == nil || e.res == nil || len(e.fn.Blocks) == 0 {
		return false
	}
	res := e.fn.Signature.Results()
	if res.Len() != 1 {
		return false
	}
	b, ok := res.At(0).Type().Underlying().(*types.Basic)
	return ok && b.Kind() == types.Bool
}

// c04ArgsHave: the argument list contains a and, later, b (other arguments — a receiver, a map, a context — may
// surround them).
func c04ArgsHave(tr *c04Trace, args []*c04T, a, b *c04T) (int, int, bool) {
	for i := range args {
		if !tr.same(args[i], a) {
			continue
		}
		for j := i + 1; j < len(args); j++ {
			if tr.same(args[j], b) {
				return i, j, true
			}
		}
	}
	return -1, -1, false
}

// c04IsLookupOf: t is (the presence flag / boolean element of) a map lookup whose key is built from v.
func c04IsLookupOf(t, v *c04T) bool {
	for t.is("ext#1") || t.is("ext#0") {
		t = t.args[0]
	}
	if !(t.is("lookup") || t.is("lookup2")) || len(t.args) != 2 {
		return false
	}
	return c04Contains(t.args[1], v)
}

func c04Contains(t, v *c04T) bool {
	if t == nil {
		return false
	}
	if t.k == v.k {
		return true
	}
	for _, a := range t.args {
		if c04Contains(a, v) {
			return true
		}
	}
	return false
}

// c04RuleConsts collects the constants result idx of fn can be, following phis, result slots, the results of
// in-package static callees handed through and parameters (to the arguments of every in-package call site).
func c04RuleConsts(fn *ssa.Function, idx int, out map[int64]bool) bool {
	ok := true
	vis := map[ssa.Value]bool{}
	retOf := map[*ssa.Function]map[int]bool{}
	var walk func(v ssa.Value)
	results := func(g *ssa.Function, i int) {
		if retOf[g] == nil {
			retOf[g] = map[int]bool{}
		}
		if retOf[g][i] {
			return
		}
		retOf[g][i] = true
		for _, ret := range an.Returns(g) {
			if i < len(ret.Results) {
				walk(ret.Results[i])
			}
		}
	}
	local := func(cc *ssa.CallCommon) *ssa.Function {
		if cc.IsInvoke() || cc.StaticCallee() == nil {
			return nil
		}
		g := an.Orig(cc.StaticCallee())
		if g.Pkg != fn.Pkg || len(g.Blocks) == 0 {
			return nil
		}
		return g
	}
	walk = func(v ssa.Value) {
		if vis[v] {
			return
		}
		vis[v] = true
		if len(vis) > 400 {
			ok = false
			return
		}
		switch a := v.(type) {
		case *ssa.Const:
			if k, isK := an.ConstInt(a); isK {
				out[k] = true
				return
			}
		case *ssa.Phi:
			for _, e := range a.Edges {
				walk(e)
			}
			return
		case *ssa.ChangeType:
			walk(a.X)
			return
		case *ssa.Convert:
			walk(a.X)
			return
		case *ssa.UnOp:
			if al, isAl := a.X.(*ssa.Alloc); isAl && a.Op == token.MUL {
				n := 0
				for _, ref := range *al.Referrers() {
					switch s := ref.(type) {
					case *ssa.Store:
						if s.Addr == ssa.Value(al) {
							n++
							walk(s.Val)
						}
					case *ssa.UnOp, *ssa.DebugRef:
					default:
						ok = false
					}
				}
				if n == 0 {
					out[0] = true
				}
				return
			}
		case *ssa.Extract:
			if call, isCall := a.Tuple.(*ssa.Call); isCall {
				if g := local(&call.Call); g != nil {
					results(g, a.Index)
					return
				}
			}
			if lk, isLk := a.Tuple.(*ssa.Lookup); isLk && lk.CommaOk && a.Index == 0 {
				walk(lk)
				return
			}
		case *ssa.Lookup:
			// a table: a package-level map filled once by its initialiser and never written again; a missing key
			// yields the zero value
			if vals, isTable := c04TableValues(fn.Pkg, a.X); isTable {
				for _, v := range vals {
					walk(v)
				}
				out[0] = true
				return
			}
		case *ssa.Call:
			if g := local(&a.Call); g != nil && g.Signature.Results().Len() == 1 {
				results(g, 0)
				return
			}
		case *ssa.Parameter:
			pi, n := -1, 0
			for i, q := range a.Parent().Params {
				if q == a {
					pi = i
				}
			}
			for _, f := range an.PkgFuncsAll(fn.Pkg) {
				for _, in := range an.Instrs(f, false) {
					ci, isCall := in.(ssa.CallInstruction)
					if !isCall {
						continue
					}
					if g := local(ci.Common()); g == a.Parent() && pi >= 0 && pi < len(ci.Common().Args) {
						if _, plain := in.(*ssa.Call); !plain {
							ok = false
						}
						n++
						walk(ci.Common().Args[pi])
					}
				}
			}
			if n > 0 && a.Parent().Object() != nil && !a.Parent().Object().Exported() {
				return
			}
		}
		ok = false
	}
	results(fn, idx)
	return ok
}

// T6 — dispatch is exhaustive and only no-rule / duplicate rules skip it.
func c04T6(r *c04Run) {
	c := r.c
	pos := r.sel.Pos()
	cl := r.anch.classify
	returned := map[int64]bool{}
	if !c04RuleConsts(cl, 0, returned) {
		c.Unsure("classify result", cl.Pos(), "classify returns a computed rule")
	}
	var withCls []*c04Trace
	for _, tr := range r.its {
		if i, _, _ := r.cls(tr); i >= 0 {
			withCls = append(withCls, tr)
		}
	}
	if len(withCls) == 0 {
		c.Bail("Run: classify is not called from the event loop")
	}
	var ks []int64
	for k := range returned {
		ks = append(ks, k)
	}
	sort.Slice(ks, func(i, j int) bool { return ks[i] < ks[j] })
	for _, k := range ks {
		name := r.names[k]
		if name == "" {
			name = fmt.Sprint("UponRule#", k)
		}
		ok, why := true, ""
		for _, tr := range withCls {
			_, rule, _ := r.cls(tr)
			if tr.exit != "panic" {
				continue
			}
			// a panic inside the handler of some rule is not the dispatch's "unknown rule" panic
			inCase := false
			for _, e := range tr.evs {
				if e.kind == "dec" && e.truth && e.val.is("eq") && e.val.args[0].k == rule.k && e.val.args[1].kind == 'k' {
					inCase = true
				}
			}
			if !inCase && tr.consistent(c04Lit{c04Eq(rule, c04Int(k)), true}) {
				ok, why = false, "classify can return "+name+" but Run has no case for it: the event panics the instance (\"bug: invalid rule\") or is dropped; path ["+tr.path()+"]"
			}
		}
		c.Check("Run dispatch handles "+name, pos, ok, why)
	}
	dups := map[*ssa.Function]bool{}
	inlineDup := false
	var through []*c04Trace
	for _, tr := range withCls {
		if tr.exit == "stop" || tr.exit == "ret" {
			through = append(through, tr)
		}
	}
	r.forall("Run classify→dispatch", pos, through, func(tr *c04Trace) (bool, string) {
		ic, rule, _ := r.cls(tr)
		rnd := r.msgCall(tr, "Round")
		ok := false
		for i, e := range tr.evs {
			if i <= ic {
				continue
			}
			if e.kind == "dec" && e.truth && e.val.is("eq") && e.val.args[0].k == rule.k && e.val.args[1].kind == 'k' {
				ok = true
			}
			if c04IsPredCall(e) {
				if _, _, has := c04ArgsHave(tr, e.args, rule, rnd); has {
					dups[e.fn] = true
					if tr.has(e.res, true) {
						ok = true // duplicate: skip
					}
				}
			}
			// the duplicate filter written in line: the path found an entry for a key built from the rule in a map
			if e.kind == "dec" && e.truth && c04IsLookupOf(e.val, rule) {
				inlineDup = true
				ok = true
			}
		}
		if !ok {
			for i, e := range tr.evs {
				if i > ic && e.kind == "call" && strings.HasPrefix(e.name, "value:") && strings.Contains(e.name, rule.k) {
					return false, "?the rule is dispatched through a function value selected by the rule, which is not followed"
				}
			}
		}
		return ok, "a classified rule can bypass the dispatch (other than as UponNothing or a duplicate), or an unknown rule is silently ignored instead of panicking"
	})
	var fs []*ssa.Function
	for f := range dups {
		fs = append(fs, f)
	}
	sort.Slice(fs, func(i, j int) bool { return fs[i].Pos() < fs[j].Pos() })
	for _, f := range fs {
		r.firstCallReturns("Run duplicate-rule filter first call", f, nil, false,
			"a rule firing for the first time in a round is treated as a duplicate and skipped")
	}
	if len(fs) == 0 && inlineDup {
		// the filter is a map test written into the loop: the "first call" is the path on which the lookup misses, and
		// the dispatch obligation above already covers it (such a path must reach the dispatch)
		c.Good("Run duplicate-rule filter first call", pos, "the duplicate filter is a map lookup in the loop; its miss edge reaches the dispatch")
	} else if len(fs) == 0 {
		c.Good("Run duplicate-rule filter first call", pos, "rules are not de-duplicated")
	}
}

const c04File = "core/qbft/qbft.go"

var c04Mutants = []Mutant{
	// T1
	{ID: "C04-T1-timer-no-roundchange", File: c04File, Expect: "T1|timer case round advance→ROUND-CHANGE",
		Old: "\t\t\terr = broadcastRoundChange()\n\n\t\tcase <-ctx.Done()",
		New: "\t\tcase <-ctx.Done()"},
	{ID: "C04-T1-fplus1-no-newtimer", File: c04File, Expect: "T1|UponFPlus1RoundChanges round advance→NewTimer",
		Old: "/* < msg.Round */), rule)\n\n\t\t\t\tstopTimer()\n\t\t\t\ttimerChan, stopTimer = d.NewTimer(round)\n",
		New: "/* < msg.Round */), rule)\n\n\t\t\t\tstopTimer()\n"},
	{ID: "C04-T1-timer-same-round", File: c04File, Expect: "T1|timer case new round",
		Old: "\t\tcase <-timerChan: // Algorithm 3:1\n\t\t\tchangeRound(round+1, UponRoundTimeout)",
		New: "\t\tcase <-timerChan: // Algorithm 3:1\n\t\t\tchangeRound(round, UponRoundTimeout)"},
	{ID: "C04-T1-timer-channel-dropped", File: c04File, Expect: "T1|timer case NewTimer→timerChan",
		Old: "\t\t\ttimerChan, stopTimer = d.NewTimer(round)\n\n\t\t\terr = broadcastRoundChange()\n\n\t\tcase <-ctx.Done()",
		New: "\t\t\t_, stopTimer = d.NewTimer(round)\n\n\t\t\terr = broadcastRoundChange()\n\n\t\tcase <-ctx.Done()"},
	{ID: "C04-T1-timer-before-advance", File: c04File, Expect: "T1|timer case",
		Old: "\t\t\tchangeRound(round+1, UponRoundTimeout)\n\n\t\t\tstopTimer()\n\t\t\ttimerChan, stopTimer = d.NewTimer(round)\n\n\t\t\terr = broadcastRoundChange()\n\n\t\tcase <-ctx.Done()",
		New: "\t\t\tstopTimer()\n\t\t\ttimerChan, stopTimer = d.NewTimer(round)\n\n\t\t\tchangeRound(round+1, UponRoundTimeout)\n\n\t\t\terr = broadcastRoundChange()\n\n\t\tcase <-ctx.Done()"},
	{ID: "C04-T1-fplus1-next-round-only", File: c04File, Expect: "T1|UponFPlus1RoundChanges new round",
		Old: "changeRound(nextMinRound(d, justification, round /* < msg.Round */), rule)",
		New: "changeRound(round+1, rule)"},
	{ID: "C04-T1-fplus1-no-roundchange", File: c04File, Expect: "T1|UponFPlus1RoundChanges round advance→ROUND-CHANGE",
		Old: "\t\t\t\terr = broadcastRoundChange()\n\n\t\t\tcase UponQuorumRoundChanges:",
		New: "\t\t\tcase UponQuorumRoundChanges:"},
	{ID: "C04-T1-changeround-keeps-round", File: c04File, Expect: "T1|round-changing closure",
		Old: "\t\tround = newRound\n\t\tdedupRules = make(map[dedupKey]bool)",
		New: "\t\tdedupRules = make(map[dedupKey]bool)"},
	{ID: "C04-T1-changeround-only-forward-by-one", File: c04File, Expect: "T1|round-changing closure",
		Old: "\t\tif round == newRound {\n\t\t\treturn\n\t\t}\n\n\t\td.LogRoundChange(",
		New: "\t\tif round == newRound || newRound > round+1 {\n\t\t\treturn\n\t\t}\n\n\t\td.LogRoundChange("},
	{ID: "C04-T1-timer-continue-before-broadcast", File: c04File, Expect: "T1|timer case round advance→ROUND-CHANGE",
		Old: "\t\t\terr = broadcastRoundChange()\n\n\t\tcase <-ctx.Done()",
		New: "\t\t\tif inputValueCh != nil {\n\t\t\t\tcontinue\n\t\t\t}\n\n\t\t\terr = broadcastRoundChange()\n\n\t\tcase <-ctx.Done()"},
	{ID: "C04-T1-no-initial-timer", File: c04File, Expect: "T1|Run start",
		Old: "\t\ttimerChan, stopTimer = d.NewTimer(round)\n\t}\n\n\t// Handle events until cancelled.",
		New: "\t\t_, stopTimer = d.NewTimer(round)\n\t}\n\n\t// Handle events until cancelled."},
	{ID: "C04-T1-timer-prepare-instead", File: c04File, Expect: "T1|timer case round advance→ROUND-CHANGE",
		Old: "\t\t\terr = broadcastRoundChange()\n\n\t\tcase <-ctx.Done()",
		New: "\t\t\terr = broadcastMsg(MsgPrepare, preparedValue, nil)\n\n\t\tcase <-ctx.Done()"},
	{ID: "C04-T1-fplus1-broadcast-before-advance", File: c04File, Expect: "T1|UponFPlus1RoundChanges round advance→ROUND-CHANGE",
		Old: "\t\t\t\tchangeRound(nextMinRound(d, justification, round /* < msg.Round */), rule)\n\n\t\t\t\tstopTimer()\n\t\t\t\ttimerChan, stopTimer = d.NewTimer(round)\n\n\t\t\t\terr = broadcastRoundChange()\n",
		New: "\t\t\t\terr = broadcastRoundChange()\n\n\t\t\t\tchangeRound(nextMinRound(d, justification, round /* < msg.Round */), rule)\n\n\t\t\t\tstopTimer()\n\t\t\t\ttimerChan, stopTimer = d.NewTimer(round)\n"},
	{ID: "C04-T1-fplus1-timer-for-message-round", File: c04File, Expect: "T1|UponFPlus1RoundChanges NewTimer(round)",
		Old: "/* < msg.Round */), rule)\n\n\t\t\t\tstopTimer()\n\t\t\t\ttimerChan, stopTimer = d.NewTimer(round)\n",
		New: "/* < msg.Round */), rule)\n\n\t\t\t\tstopTimer()\n\t\t\t\ttimerChan, stopTimer = d.NewTimer(msg.Round())\n"},
	// T2
	{ID: "C04-T2-no-prepare", File: c04File, Expect: "T2|compare ok→PREPARE",
		Old: "\t\t\t\t} else {\n\t\t\t\t\terr = broadcastMsg(MsgPrepare, msg.Value(), nil)\n\t\t\t\t}\n",
		New: "\t\t\t\t}\n"},
	{ID: "C04-T2-prepare-only-current-round", File: c04File, Expect: "T2|compare ok→PREPARE",
		Old: "\t\t\t\t} else {\n\t\t\t\t\terr = broadcastMsg(MsgPrepare, msg.Value(), nil)\n\t\t\t\t}\n",
		New: "\t\t\t\t} else if preparedRound == 0 {\n\t\t\t\t\terr = broadcastMsg(MsgPrepare, msg.Value(), nil)\n\t\t\t\t}\n"},
	{ID: "C04-T2-timer-not-restarted", File: c04File, Expect: "T2|UponJustifiedPrePrepare",
		Old: "\t\t\t\tstopTimer()\n\t\t\t\ttimerChan, stopTimer = d.NewTimer(round)\n\n\t\t\t\tvar errC error\n",
		New: "\t\t\t\tvar errC error\n"},
	{ID: "C04-T2-compare-without-timer", File: c04File, Expect: "T2|compare waits on restarted timer",
		Old: "compare(ctx, d, msg, inputValueSourceCh, inputValueSource, timerChan)",
		New: "compare(ctx, d, msg, inputValueSourceCh, inputValueSource, nil)"},
	{ID: "C04-T2-timeout-only-later-rounds", File: c04File, Expect: "T2|compare-timeout round advance",
		Old: "\t\t\t\t\tcase errors.Is(errC, errTimeout):",
		New: "\t\t\t\t\tcase errors.Is(errC, errTimeout) && round > 1:"},
	{ID: "C04-T2-await-timeout-as-compare-error", File: c04File, Expect: "T2|compare-timeout round advance",
		Old: "\t\t\treturn drainValue(), errTimeout",
		New: "\t\t\treturn drainValue(), errCompare"},
	{ID: "C04-T2-await-ignores-timer", File: c04File, Expect: "T2|awaitCompare timer case",
		Old: "\t\t\treturn drainValue(), errTimeout",
		New: "\t\t\tcontinue"},
	{ID: "C04-T2-timeout-no-roundchange", File: c04File, Expect: "T2|compare-timeout round advance→ROUND-CHANGE",
		Old: "\t\t\t\t\t\terr = broadcastRoundChange()\n\t\t\t\t\tdefault:",
		New: "\t\t\t\t\tdefault:"},
	{ID: "C04-T2-timeout-same-round", File: c04File, Expect: "T2|compare-timeout",
		Old: "\t\t\t\t\t\tchangeRound(round+1, UponRoundTimeout)\n",
		New: "\t\t\t\t\t\tchangeRound(round, UponRoundTimeout)\n"},
	{ID: "C04-T2-timeout-no-newtimer", File: c04File, Expect: "T2|compare-timeout round advance→NewTimer",
		Old: "\t\t\t\t\t\tstopTimer()\n\t\t\t\t\t\ttimerChan, stopTimer = d.NewTimer(round)\n",
		New: "\t\t\t\t\t\tstopTimer()\n"},
	{ID: "C04-T2-stay-in-old-round", File: c04File, Expect: "T2|round:=msg.Round()",
		Old: "\t\t\t\tchangeRound(msg.Round(), rule)\n\t\t\t\t// Re-record",
		New: "\t\t\t\tchangeRound(round, rule)\n\t\t\t\t// Re-record"},
	{ID: "C04-T2-compare-ignores-given-timer", File: c04File, Expect: "T2|compare→awaitCompare timer",
		Old: "return awaitCompare(ctx, compareErr, compareValue, timerChan, inputValueSource)",
		New: "return awaitCompare(ctx, compareErr, compareValue, nil, inputValueSource)"},
	// T3
	{ID: "C04-T3-no-commit", File: c04File, Expect: "T3|UponQuorumPrepares→COMMIT",
		Old: "\t\t\t\terr = broadcastMsg(MsgCommit, preparedValue, nil)\n",
		New: ""},
	{ID: "C04-T3-commit-only-first-round", File: c04File, Expect: "T3|UponQuorumPrepares→COMMIT",
		Old: "\t\t\t\terr = broadcastMsg(MsgCommit, preparedValue, nil)\n",
		New: "\t\t\t\tif preparedRound == 1 {\n\t\t\t\t\terr = broadcastMsg(MsgCommit, preparedValue, nil)\n\t\t\t\t}\n"},
	{ID: "C04-T3-prepare-instead-of-commit", File: c04File, Expect: "T3|UponQuorumPrepares→COMMIT",
		Old: "err = broadcastMsg(MsgCommit, preparedValue, nil)",
		New: "err = broadcastMsg(MsgPrepare, preparedValue, nil)"},
	{ID: "C04-T3-decide-only-foreign", File: c04File, Expect: "T3|Decide",
		Old: "\t\t\t\td.Decide(ctx, instance, msg.Value(), msg.Round(), justification)\n",
		New: "\t\t\t\tif msg.Source() != process {\n\t\t\t\t\td.Decide(ctx, instance, msg.Value(), msg.Round(), justification)\n\t\t\t\t}\n"},
	// T4
	{ID: "C04-T4-no-flush", File: c04File, Expect: "T4|flush",
		Old: "\t\t\tif ppjCache != nil {\n\t\t\t\t// Broadcast the pre-prepare now that we have a input value using the cached justification.\n\t\t\t\terr = broadcastMsg(MsgPrePrepare, inputValue, ppjCache)\n\t\t\t}\n",
		New: ""},
	{ID: "C04-T4-flush-inverted", File: c04File, Expect: "T4|flush",
		Old: "\t\t\tif ppjCache != nil {\n\t\t\t\t// Broadcast the pre-prepare now",
		New: "\t\t\tif ppjCache == nil {\n\t\t\t\t// Broadcast the pre-prepare now"},
	{ID: "C04-T4-flush-without-justification", File: c04File, Expect: "T4|flush",
		Old: "err = broadcastMsg(MsgPrePrepare, inputValue, ppjCache)",
		New: "err = broadcastMsg(MsgPrePrepare, inputValue, nil)"},
	{ID: "C04-T4-helper-does-not-cache", File: c04File, Expect: "T4",
		Old: "\t\t\tppjCache = justification\n\t\t\treturn nil",
		New: "\t\t\treturn nil"},
	{ID: "C04-T4-helper-caches-only", File: c04File, Expect: "T4|propose-or-cache closure",
		Old: "\t\treturn broadcastMsg(MsgPrePrepare, inputValue, justification)\n\t}\n\n\t// bufferMsg",
		New: "\t\treturn nil\n\t}\n\n\t// bufferMsg"},
	{ID: "C04-T4-qrc-own-value-branch-dropped", File: c04File, Expect: "T4|UponQuorumRoundChanges",
		Old: "\t\t\t\t} else {\n\t\t\t\t\t// Send pre-prepare using our own input value\n\t\t\t\t\terr = broadcastOwnPrePrepare(justification)\n\t\t\t\t}\n",
		New: "\t\t\t\t}\n"},
	{ID: "C04-T4-qrc-empty-justification", File: c04File, Expect: "T4|UponQuorumRoundChanges",
		Old: "err = broadcastMsg(MsgPrePrepare, pv, justification)",
		New: "err = broadcastMsg(MsgPrePrepare, pv, nil)"},
	{ID: "C04-T4-non-leader-proposes", File: c04File, Expect: "T4|start leader",
		Old: "\t\tif d.IsLeader(instance, round, process) { // Note round==1 at this point.",
		New: "\t\tif !d.IsLeader(instance, round, process) { // Note round==1 at this point."},
	{ID: "C04-T4-flush-prepared-value", File: c04File, Expect: "T4|flush",
		Old: "err = broadcastMsg(MsgPrePrepare, inputValue, ppjCache)",
		New: "err = broadcastMsg(MsgPrePrepare, preparedValue, ppjCache)"},
	// T5
	{ID: "C04-T5-resend-prepared-value", File: c04File, Expect: "T5|carries qCommit",
		Old:  "err = broadcastMsg(MsgDecided, qCommitValue, qCommit)",
		New:  "err = broadcastMsg(MsgDecided, preparedValue, qCommit)",
		More: [][2]string{{"\t\t\t\tqCommitValue = msg.Value()\n", "\t\t\t\tqCommitValue = msg.Value()\n\t\t\t\t_ = qCommitValue\n"}}},
	{ID: "C04-T5-answers-wrong-type", File: c04File, Expect: "T5|ROUND-CHANGE→DECIDED",
		Old: "msg.Source() != process && msg.Type() == MsgRoundChange && // Algorithm 3:17",
		New: "msg.Source() != process && msg.Type() == MsgDecided && // Algorithm 3:17"},
	{ID: "C04-T5-no-resend", File: c04File, Expect: "T5",
		Old: "\t\t\t\t\terr = broadcastMsg(MsgDecided, qCommitValue, qCommit)\n",
		New: "\t\t\t\t\t_, _ = qCommitValue, qCommit\n"},
	{ID: "C04-T5-resend-without-quorum", File: c04File, Expect: "T5",
		Old: "err = broadcastMsg(MsgDecided, qCommitValue, qCommit)",
		New: "err = broadcastMsg(MsgDecided, qCommitValue, nil)"},
	{ID: "C04-T5-limiter-inverted-round", File: c04File, Expect: "T5|limiter first call",
		Old: "if incomingRound <= resend.Round || resend.Count >= maxDecidedResends {",
		New: "if incomingRound >= resend.Round || resend.Count >= maxDecidedResends {"},
	{ID: "C04-T5-limiter-inverted-count", File: c04File, Expect: "T5|limiter first call",
		Old: "if incomingRound <= resend.Round || resend.Count >= maxDecidedResends {",
		New: "if incomingRound <= resend.Round || resend.Count <= maxDecidedResends {"},
	{ID: "C04-T5-limiter-zero-budget", File: c04File, Expect: "T5|limiter first call",
		Old: "const maxDecidedResends = 16",
		New: "const maxDecidedResends = 0"},
	{ID: "C04-T5-only-higher-rounds", File: c04File, Expect: "T5|ROUND-CHANGE→DECIDED",
		Old: "\t\t\t\t\tallowDecidedResend(msg.Source(), msg.Round()) {",
		New: "\t\t\t\t\tmsg.Round() > round && allowDecidedResend(msg.Source(), msg.Round()) {"},
	{ID: "C04-T5-qcommit-never-latched", File: c04File, Expect: "T5|carries qCommit",
		Old: "\t\t\t\tqCommit = justification\n\t\t\t\tqCommitValue = msg.Value()\n",
		New: "\t\t\t\tqCommit = msg.Justification()\n\t\t\t\tqCommitValue = msg.Value()\n"},
	// T6
	{ID: "C04-T6-unjust-case-removed", File: c04File, Expect: "T6|UponUnjustQuorumRoundChanges",
		Old: "\t\t\tcase UponUnjustQuorumRoundChanges:\n\t\t\t\t// Ignore bug or byzantine\n\n",
		New: ""},
	{ID: "C04-T6-fplus1-case-removed", File: c04File, Expect: "T6|UponFPlus1RoundChanges",
		Old: "\t\t\tcase UponFPlus1RoundChanges: // Algorithm 3:5\n\t\t\t\t// Only applicable to future rounds\n",
		New: "\t\t\tcase UponRoundTimeout: // Algorithm 3:5\n\t\t\t\t// Only applicable to future rounds\n"},
	{ID: "C04-T6-default-ignores", File: c04File, Expect: "T6|classify→dispatch",
		Old: "\t\t\tdefault:\n\t\t\t\tpanic(\"bug: invalid rule\")\n",
		New: "\t\t\tdefault:\n"},
	{ID: "C04-T6-dedup-inverted", File: c04File, Expect: "T6|classify→dispatch",
		Old: "if rule == UponNothing || isDuplicatedRule(rule, msg.Round()) {",
		New: "if rule == UponNothing || !isDuplicatedRule(rule, msg.Round()) {"},
	{ID: "C04-T6-dedup-always-duplicate", File: c04File, Expect: "T6|duplicate-rule filter",
		Old: "\t\tif !dedupRules[key] {\n",
		New: "\t\tif dedupRules[key] {\n"},
	{ID: "C04-T6-skip-non-current-rounds", File: c04File, Expect: "T6|classify→dispatch",
		Old: "if rule == UponNothing || isDuplicatedRule(rule, msg.Round()) {",
		New: "if rule == UponNothing || msg.Round() != round || isDuplicatedRule(rule, msg.Round()) {"},
	// added with the path-enumerating reformulation (mechanisms a shape-independent rule could have lost)
	{ID: "C04-T1-timer-for-next-round", File: c04File, Expect: "T1|timer case NewTimer(round)",
		Old: "\t\t\ttimerChan, stopTimer = d.NewTimer(round)\n\n\t\t\terr = broadcastRoundChange()\n\n\t\tcase <-ctx.Done()",
		New: "\t\t\ttimerChan, stopTimer = d.NewTimer(round + 1)\n\n\t\t\terr = broadcastRoundChange()\n\n\t\tcase <-ctx.Done()"},
	{ID: "C04-T1-changeround-inverted-guard", File: c04File, Expect: "T1|round-changing closure",
		Old: "\t\tif round == newRound {\n\t\t\treturn\n\t\t}\n\n\t\td.LogRoundChange(",
		New: "\t\tif round != newRound {\n\t\t\treturn\n\t\t}\n\n\t\td.LogRoundChange("},
	{ID: "C04-T2-timer-channel-dropped", File: c04File, Expect: "T2|UponJustifiedPrePrepare",
		Old: "\t\t\t\tstopTimer()\n\t\t\t\ttimerChan, stopTimer = d.NewTimer(round)\n\n\t\t\t\tvar errC error\n",
		New: "\t\t\t\tstopTimer()\n\t\t\t\t_, stopTimer = d.NewTimer(round)\n\n\t\t\t\tvar errC error\n"},
	{ID: "C04-T2-await-timeout-returns-nil", File: c04File, Expect: "T2|awaitCompare timer case",
		Old: "\t\t\treturn drainValue(), errTimeout",
		New: "\t\t\treturn drainValue(), nil"},
	{ID: "C04-T2-sentinels-swapped-in-run", File: c04File, Expect: "T2|compare-timeout",
		Old: "\t\t\t\t\tcase errors.Is(errC, errCompare):\n\t\t\t\t\t\tcompareFailureRound = msg.Round()\n\t\t\t\t\tcase errors.Is(errC, errTimeout):",
		New: "\t\t\t\t\tcase errors.Is(errC, errTimeout):\n\t\t\t\t\t\tcompareFailureRound = msg.Round()\n\t\t\t\t\tcase errors.Is(errC, errCompare):"},
	{ID: "C04-T3-commit-skipped-for-own-message", File: c04File, Expect: "T3|UponQuorumPrepares→COMMIT",
		Old: "\t\t\t\terr = broadcastMsg(MsgCommit, preparedValue, nil)\n",
		New: "\t\t\t\tif msg.Source() != process {\n\t\t\t\t\terr = broadcastMsg(MsgCommit, preparedValue, nil)\n\t\t\t\t}\n"},
	{ID: "C04-T4-helper-caches-elsewhere", File: c04File, Expect: "T4",
		Old: "\t\t\tppjCache = justification\n\t\t\treturn nil",
		New: "\t\t\tpreparedJustification = justification\n\t\t\treturn nil"},
	{ID: "C04-T4-flush-only-later-rounds", File: c04File, Expect: "T4|flush",
		Old: "\t\t\tif ppjCache != nil {\n\t\t\t\t// Broadcast the pre-prepare now",
		New: "\t\t\tif ppjCache != nil && round > 1 {\n\t\t\t\t// Broadcast the pre-prepare now"},
	{ID: "C04-T5-limiter-args-swapped", File: c04File, Expect: "T5",
		Old: "\t\t\t\t\tallowDecidedResend(msg.Source(), msg.Round()) {",
		New: "\t\t\t\t\tallowDecidedResend(msg.Round(), msg.Source()) {"},
	{ID: "C04-T5-old-rounds-ignored", File: c04File, Expect: "T5|ROUND-CHANGE→DECIDED",
		Old: "\t\t\tif len(qCommit) > 0 {\n",
		New: "\t\t\tif len(qCommit) > 0 {\n\t\t\t\tif msg.Round() < round {\n\t\t\t\t\tbreak\n\t\t\t\t}\n\n"},
	{ID: "C04-T6-dedup-marks-before-test", File: c04File, Expect: "T6|duplicate-rule filter",
		Old: "\t\tif !dedupRules[key] {\n\t\t\tdedupRules[key] = true\n\n\t\t\treturn false\n\t\t}\n",
		New: "\t\tdedupRules[key] = true\n\t\tif !dedupRules[key] {\n\t\t\treturn false\n\t\t}\n"},
	{ID: "C04-T6-quorum-prepares-skipped-before-switch", File: c04File, Expect: "T6|classify→dispatch",
		Old: "\t\t\td.LogUponRule(ctx, instance, process, round, msg, rule)\n",
		New: "\t\t\td.LogUponRule(ctx, instance, process, round, msg, rule)\n\n\t\t\tif preparedRound == round {\n\t\t\t\tbreak\n\t\t\t}\n"},
}
