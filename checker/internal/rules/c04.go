package rules

import (
	"fmt"
	"go/constant"
	"go/token"
	"go/types"
	"sort"
	"strings"

	"golang.org/x/tools/go/ssa"

	"charonverif/internal/an"
	"charonverif/internal/rt"
)

// C04 — termination under timely delivery (narrow): every event of core/qbft.Run's loop performs its
// protocol action and re-arms the round timer. The rules are effect-after (must-pass-through) queries on
// the event loop of Run; state variables are resolved as SSA cells/phis, helper closures are resolved
// through their bindings (c02Run), broadcasts are lifted to the call sites in Run.

func init() {
	Register(&Prop{
		ID: "C04",
		Decides: "core/qbft.Run: (T1) the round-timer case and the UponFPlus1RoundChanges branch advance the round (round+1 / nextMinRound(d, justification, round)), " +
			"start d.NewTimer(round) for the new round, feed its channel to the next select and broadcast ROUND-CHANGE on every path back to the loop; the loop is entered with a running timer; changeRound sets the round; " +
			"(T2) UponJustifiedPrePrepare moves to msg.Round(), restarts the timer, hands the restarted timer to compare, broadcasts PREPARE whenever compare succeeded and runs the full round-timeout sequence when compare timed out " +
			"(awaitCompare reports an expired timer with the error value Run tests for); " +
			"(T3) UponQuorumPrepares always broadcasts COMMIT and UponQuorumCommits/UponJustifiedDecided always call d.Decide; " +
			"(T4) UponQuorumRoundChanges and the round-1 leader broadcast PRE-PREPARE or cache the justification, and the input-value case flushes a cached justification; " +
			"(T5) after the decision a foreign ROUND-CHANGE is answered with DECIDED(qCommitValue, qCommit) unless the per-source limiter refuses, and the limiter's first call for a source returns true; " +
			"(T6) every rule classify can return is dispatched, only UponNothing/duplicate rules skip the dispatch, an unknown rule panics, and the duplicate filter's first call for a key returns false.",
		NotDecided: "everything quantitative: bounded-time termination, 'within one leader rotation', timer durations (core/consensus/timer), leader rotation (core/consensus/qbft leader), " +
			"and 'no honest message is rejected as unjustified' (producer/verifier agreement of justifications). Payload of PREPARE/COMMIT/ROUND-CHANGE and the prepared triple are C02-Q3/Q5; the decision latch is C03-V1.",
		Assumptions: []string{
			"first-call evaluation of the limiter/duplicate filter assumes the looked-up map has no entry for the key and rounds are >= 1 (C05-A4 rejects round <= 0)",
			"a path that leaves Run with a non-nil error is not required to perform the action (errors are fatal for the instance)",
		},
		Run:     c04,
		Mutants: c04Mutants,
	})
}

// ---------------------------------------------------------------------------------------------
// generic helpers

func c04Idx(in ssa.Instruction) int {
	for i, x := range in.Block().Instrs {
		if x == in {
			return i
		}
	}
	return -1
}

// c04Walk searches a path that reaches `stop` (or an escaping return) without executing an effect.
type c04Walk struct {
	effect func(ssa.Instruction) bool
	prune  func(b *ssa.BasicBlock, succ int) bool
	stop   *ssa.BasicBlock
	retEsc func(*ssa.Return) bool // nil: every return escapes
}

func (w c04Walk) from(b *ssa.BasicBlock, idx int) ([]*ssa.BasicBlock, bool) {
	seen := map[*ssa.BasicBlock]bool{}
	var path []*ssa.BasicBlock
	var walk func(b *ssa.BasicBlock, i int) bool
	walk = func(b *ssa.BasicBlock, i int) bool {
		path = append(path, b)
		for ; i < len(b.Instrs); i++ {
			in := b.Instrs[i]
			if w.effect != nil && w.effect(in) {
				path = path[:len(path)-1]
				return false
			}
			switch x := in.(type) {
			case *ssa.Return:
				if w.retEsc == nil || w.retEsc(x) {
					return true
				}
				path = path[:len(path)-1]
				return false
			case *ssa.Panic:
				path = path[:len(path)-1]
				return false
			}
		}
		for si, s := range b.Succs {
			if w.prune != nil && w.prune(b, si) {
				continue
			}
			if s == w.stop {
				path = append(path, s)
				return true
			}
			if seen[s] {
				continue
			}
			seen[s] = true
			if walk(s, 0) {
				return true
			}
		}
		path = path[:len(path)-1]
		return false
	}
	esc := walk(b, idx)
	return path, esc
}

// c04ReturnsNilErr: the return hands back a nil error (looking through the spill slot a deferred
// function forces on named results).
func c04ReturnsNilErr(ret *ssa.Return) bool {
	if len(ret.Results) == 0 {
		return true
	}
	v := ret.Results[len(ret.Results)-1]
	if ld, ok := v.(*ssa.UnOp); ok && ld.Op == token.MUL {
		if al, ok := ld.X.(*ssa.Alloc); ok {
			var val ssa.Value
			for _, in := range ret.Block().Instrs {
				if in == ssa.Instruction(ld) {
					break
				}
				if st, ok := in.(*ssa.Store); ok && st.Addr == ssa.Value(al) {
					val = st.Val
				}
			}
			if val == nil {
				return true
			}
			v = val
		}
	}
	return an.IsNilConst(v)
}

// c04OnEveryPath: instruction `in` is executed on every path from the entry of its function to a return.
func c04OnEveryPath(in ssa.Instruction) bool {
	f := in.Parent()
	_, esc := c04Walk{effect: func(x ssa.Instruction) bool { return x == in }}.from(f.Blocks[0], 0)
	return !esc
}

func c04Extract(call ssa.Value, idx int) ssa.Value {
	if call == nil || call.Referrers() == nil {
		return nil
	}
	for _, ref := range *call.Referrers() {
		if ex, ok := ref.(*ssa.Extract); ok && ex.Index == idx {
			return ex
		}
	}
	return nil
}

// c04Cond is a decoded branch condition: (x op y), or the boolean x when y == nil; neg if negated.
type c04Cond struct {
	x, y ssa.Value
	op   token.Token
	neg  bool
}

func c04Decode(v ssa.Value) c04Cond {
	neg := false
	for {
		u, ok := v.(*ssa.UnOp)
		if !ok || u.Op != token.NOT {
			break
		}
		neg = !neg
		v = u.X
	}
	if b, ok := v.(*ssa.BinOp); ok && c02IsCmp(b.Op) {
		return c04Cond{x: b.X, y: b.Y, op: b.Op, neg: neg}
	}
	return c04Cond{x: v, neg: neg}
}

// succ: index of the successor taken when the comparison / boolean has truth t.
func (cd c04Cond) succ(t bool) int {
	if cd.neg {
		t = !t
	}
	if t {
		return 0
	}
	return 1
}

func c04If(b *ssa.BasicBlock) *ssa.If {
	if len(b.Instrs) == 0 {
		return nil
	}
	iff, _ := b.Instrs[len(b.Instrs)-1].(*ssa.If)
	return iff
}

// c04EqEdge: for a branch comparing a value satisfying isX with a value satisfying isY by ==/!=, the index
// of the successor taken when they are equal.
func c04EqEdge(iff *ssa.If, isX, isY func(ssa.Value) bool) (int, bool) {
	cd := c04Decode(iff.Cond)
	if cd.y == nil || (cd.op != token.EQL && cd.op != token.NEQ) {
		return 0, false
	}
	if !(isX(cd.x) && isY(cd.y)) && !(isX(cd.y) && isY(cd.x)) {
		return 0, false
	}
	return cd.succ(cd.op == token.EQL), true
}

// c04BoolEdge: for a branch on the boolean v, the successor index taken when v has truth t.
func c04BoolEdge(iff *ssa.If, v ssa.Value, t bool) (int, bool) {
	cd := c04Decode(iff.Cond)
	if cd.y == nil {
		if cd.x != v {
			return 0, false
		}
		return cd.succ(t), true
	}
	if cd.op != token.EQL && cd.op != token.NEQ {
		return 0, false
	}
	other := cd.y
	if cd.x != v {
		if cd.y != v {
			return 0, false
		}
		other = cd.x
	}
	k, ok := c02ConstBool(other)
	if !ok {
		return 0, false
	}
	return cd.succ((cd.op == token.EQL) == (k == t)), true
}

func c04FieldCall(cc *ssa.CallCommon, name string) bool {
	if cc.IsInvoke() || cc.StaticCallee() != nil {
		return false
	}
	k, _, ok := an.FieldOf(cc.Value)
	return ok && c02Strip(k) == c02P+"."+name
}

// ---------------------------------------------------------------------------------------------
// the Run model

type c04Send struct {
	call   ssa.CallInstruction // the call in the function the list was asked for
	inner  ssa.CallInstruction // the Transport.Broadcast call
	args   []ssa.Value         // ctx, typ, instance, source, round, value, pr, pv, justification
	always bool                // the broadcast happens on every path through the helper closures
}

type c04Advance struct {
	in       ssa.Instruction
	newRound ssa.Value
}

type c04Run struct {
	*c02Run
	loop      *an.Loop
	hdr       *ssa.BasicBlock
	sel       *ssa.Select
	selIdx    ssa.Value
	roundCell *ssa.Alloc
	procCell  *ssa.Alloc
	timerPhi  *ssa.Phi
	timerK    int
	recvK     int
	sends     []c04Send
	memo      map[*ssa.Function][]c04Send
	advances  []c04Advance
	advancers []*ssa.Function
	newTimers []*ssa.Call
	names     map[int64]string // UponRule constant names
	msgTypes  map[string]int64
}

func c04NewRun(c *rt.Ctx) *c04Run {
	r := &c04Run{c02Run: c02NewRun(c), memo: map[*ssa.Function][]c04Send{}, names: map[int64]string{}, msgTypes: map[string]int64{}}
	ex, ok := r.recvMsg.(*ssa.Extract)
	if !ok {
		c.Bail("Run: received message is not a select result")
	}
	r.sel, ok = ex.Tuple.(*ssa.Select)
	if !ok {
		c.Bail("Run: received message is not a select result")
	}
	r.loop = an.InnermostLoop(r.fn, r.sel.Block())
	if r.loop == nil {
		c.Bail("Run: the select over Transport.Receive is not inside a loop")
	}
	r.hdr = r.loop.Header
	r.selIdx = c04Extract(r.sel, 0)
	if r.selIdx == nil {
		c.Bail("Run: select index is unused")
	}
	r.recvK = r.stateOfRecv(ex.Index)
	if r.recvK < 0 {
		c.Bail("Run: cannot map the received message to a select state")
	}
	scope := c.Pkg(c02P).Types.Scope()
	for _, n := range scope.Names() {
		k, ok := scope.Lookup(n).(*types.Const)
		if !ok {
			continue
		}
		v, exact := constant.Int64Val(k.Val())
		if !exact {
			continue
		}
		switch an.TypeName(k.Type()) {
		case c02P + ".UponRule":
			r.names[v] = n
		case c02P + ".MsgType":
			r.msgTypes[n] = v
		}
	}
	for _, n := range []string{"MsgPrePrepare", "MsgPrepare", "MsgCommit", "MsgRoundChange", "MsgDecided"} {
		if _, ok := r.msgTypes[n]; !ok {
			c.Bail("constant %s.%s not found", c02P, n)
		}
	}
	// broadcasts, round and process cells
	r.sends = r.sendsIn(r.fn, 0)
	if len(r.sends) == 0 {
		c.Bail("Run: no Transport.Broadcast reachable from Run")
	}
	for _, s := range r.sends {
		rc, pc := r.cellOf(s.args[4]), r.cellOf(s.args[3])
		if rc == nil || (r.roundCell != nil && rc != r.roundCell) {
			c.Bail("Run: the round argument of a broadcast is not the single round state cell")
		}
		if pc == nil || (r.procCell != nil && pc != r.procCell) {
			c.Bail("Run: the source argument of a broadcast is not the single process cell")
		}
		r.roundCell, r.procCell = rc, pc
		if _, ok := an.ConstInt(s.args[1]); !ok {
			c.Bail("Run: message type of the broadcast at %s is not a constant", c.P.Pos(s.call.Pos()))
		}
	}
	// round advances: closures storing a parameter into the round cell, called from Run; direct stores inside the loop
	for _, f := range r.all {
		for _, in := range an.Instrs(f, false) {
			st, ok := in.(*ssa.Store)
			if !ok || r.cellAddr(st.Addr) != r.roundCell {
				continue
			}
			if f == r.fn {
				if r.loop.Body[st.Block()] {
					r.advances = append(r.advances, c04Advance{in: st, newRound: st.Val})
				}
				continue
			}
			p, ok := st.Val.(*ssa.Parameter)
			if !ok {
				c.Bail("Run: closure %s stores a computed value into the round cell", an.FuncName(f))
			}
			pi := -1
			for i, q := range f.Params {
				if q == p {
					pi = i
				}
			}
			r.advancers = append(r.advancers, f)
			for _, s := range r.callSites(f) {
				if s.Parent() != r.fn {
					c.Bail("Run: the round-changing closure is called from another closure")
				}
				if _, isCall := s.(*ssa.Call); !isCall || pi >= len(s.Common().Args) {
					c.Bail("Run: the round-changing closure is deferred or spawned")
				}
				r.advances = append(r.advances, c04Advance{in: s, newRound: s.Common().Args[pi]})
			}
		}
	}
	// timers
	for _, in := range an.Instrs(r.fn, false) {
		if call, ok := in.(*ssa.Call); ok && c04FieldCall(&call.Call, "Definition.NewTimer") {
			r.newTimers = append(r.newTimers, call)
		}
	}
	if len(r.newTimers) == 0 {
		c.Bail("Run: no call of Definition.NewTimer")
	}
	r.timerK = -1
	for k, st := range r.sel.States {
		p, ok := st.Chan.(*ssa.Phi)
		if !ok || p.Block() != r.hdr || st.Dir != types.RecvOnly {
			continue
		}
		_, inputs := c02PhiWeb(p)
		for _, v := range inputs {
			if e, ok := v.(*ssa.Extract); ok && e.Index == 0 {
				if call, ok := e.Tuple.(*ssa.Call); ok && c04FieldCall(&call.Call, "Definition.NewTimer") {
					if r.timerK >= 0 && r.timerK != k {
						c.Bail("Run: several select cases wait on a timer channel")
					}
					r.timerK, r.timerPhi = k, p
				}
			}
		}
	}
	return r
}

// needTimer bails (UNDECIDED) when the timer channel is not a loop-carried SSA value.
func (r *c04Run) needTimer() {
	if r.timerK < 0 {
		r.c.Bail("Run: no select case waits on a loop-carried channel fed by Definition.NewTimer (timer channel is not a loop phi)")
	}
}

// stateOfRecv maps the tuple index of a received value to the select state.
func (r *c04Run) stateOfRecv(exIdx int) int {
	n := 0
	for k, st := range r.sel.States {
		if st.Dir != types.RecvOnly {
			continue
		}
		if 2+n == exIdx {
			return k
		}
		n++
	}
	return -1
}

// eqEdges returns the blocks entered when v equals the constant k.
func (r *c04Run) eqEdges(v ssa.Value, k int64) []*ssa.BasicBlock {
	var out []*ssa.BasicBlock
	for _, cd := range an.CondsOn(r.fn, v) {
		n, ok := an.ConstInt(cd.Other)
		if !ok || n != k {
			continue
		}
		var b *ssa.BasicBlock
		switch cd.Op {
		case token.EQL:
			b = cd.Succ(true)
		case token.NEQ:
			b = cd.Succ(false)
		default:
			continue
		}
		dup := false
		for _, x := range out {
			dup = dup || x == b
		}
		if !dup {
			out = append(out, b)
		}
	}
	return out
}

func (r *c04Run) stateStart(k int) []*ssa.BasicBlock { return r.eqEdges(r.selIdx, int64(k)) }

func (r *c04Run) ruleStart(name string) []*ssa.BasicBlock {
	bs := r.eqEdges(r.ruleV, constOf(r.c, c02P, name))
	if len(bs) == 0 {
		r.c.Bail("Run: no branch for %s", name)
	}
	return bs
}

// sendsIn lists the Transport.Broadcast calls reachable from f through helper closures of Run, with the
// arguments expressed in terms of f's values.
func (r *c04Run) sendsIn(f *ssa.Function, depth int) []c04Send {
	if s, ok := r.memo[f]; ok {
		return s
	}
	var out []c04Send
	for _, in := range an.Instrs(f, false) {
		ci, ok := in.(*ssa.Call)
		if !ok || ci.Call.IsInvoke() {
			continue
		}
		if c04FieldCall(&ci.Call, "Transport.Broadcast") {
			if len(ci.Call.Args) != 9 {
				r.c.Bail("Transport.Broadcast: unexpected arity")
			}
			out = append(out, c04Send{call: ci, inner: ci, args: append([]ssa.Value(nil), ci.Call.Args...), always: true})
			continue
		}
		h := r.closureOf(ci.Call.Value)
		if h == nil || h == f || depth > 3 {
			continue
		}
		for _, s := range r.sendsIn(h, depth+1) {
			ns := c04Send{call: ci, inner: s.inner, args: append([]ssa.Value(nil), s.args...), always: s.always && c04OnEveryPath(s.call)}
			for i, a := range ns.args {
				if p, ok := a.(*ssa.Parameter); ok && p.Parent() == h {
					for j, hp := range h.Params {
						if hp == p && j < len(ci.Call.Args) {
							ns.args[i] = ci.Call.Args[j]
						}
					}
				}
			}
			out = append(out, ns)
		}
	}
	r.memo[f] = out
	return out
}

func (r *c04Run) sendAt(list []c04Send, in ssa.Instruction, typ string) *c04Send {
	for i := range list {
		s := &list[i]
		if ssa.Instruction(s.call) != in || !s.always {
			continue
		}
		if n, ok := an.ConstInt(s.args[1]); ok && n == r.msgTypes[typ] {
			return s
		}
	}
	return nil
}

// fwd: blocks reachable from b (inclusive) within one iteration of the event loop.
func (r *c04Run) fwd(b *ssa.BasicBlock) map[*ssa.BasicBlock]bool {
	seen := map[*ssa.BasicBlock]bool{b: true}
	var walk func(x *ssa.BasicBlock)
	walk = func(x *ssa.BasicBlock) {
		for _, s := range x.Succs {
			if s == r.hdr || seen[s] {
				continue
			}
			seen[s] = true
			walk(s)
		}
	}
	walk(b)
	return seen
}

// after: b can execute after a within the same iteration of the event loop.
func (r *c04Run) after(a, b ssa.Instruction) bool {
	if a.Parent() != b.Parent() {
		return false
	}
	if a.Block() == b.Block() {
		return c04Idx(a) < c04Idx(b)
	}
	return r.fwd(a.Block())[b.Block()]
}

func (r *c04Run) isRoundLoad(v ssa.Value) *ssa.UnOp {
	ld, ok := an.Unwrap(v).(*ssa.UnOp)
	if !ok || ld.Op != token.MUL || r.cellAddr(ld.X) != r.roundCell {
		return nil
	}
	return ld
}

func (r *c04Run) roundPlusOne(v ssa.Value) (bool, string) {
	b, ok := an.Unwrap(v).(*ssa.BinOp)
	if ok && b.Op == token.ADD {
		x, y := b.X, b.Y
		if r.isRoundLoad(x) == nil {
			x, y = y, x
		}
		if k, isK := an.ConstInt(y); r.isRoundLoad(x) != nil && isK && k == 1 {
			return true, ""
		}
	}
	return false, "the new round is not the current round + 1"
}

func (r *c04Run) check(key string, start *ssa.BasicBlock, idx int, pos token.Pos, w c04Walk, broken string) bool {
	w.stop = r.hdr
	if w.retEsc == nil {
		w.retEsc = c04ReturnsNilErr
	}
	path, esc := w.from(start, idx)
	return r.c.Check(key, pos, !esc, broken+"; path "+an.PathString(r.c.P, path))
}

func c04BlockPos(b *ssa.BasicBlock) token.Pos {
	for _, in := range b.Instrs {
		if in.Pos().IsValid() {
			return in.Pos()
		}
	}
	return b.Parent().Pos()
}

// timerChecks decides for one NewTimer call: it is armed for the round as it stands after the latest
// advance, and its channel is what the next select waits on.
func (r *c04Run) timerChecks(region string, n *ssa.Call, done map[*ssa.Call]bool) {
	if done[n] {
		return
	}
	done[n] = true
	ok, why := true, ""
	if len(n.Call.Args) != 1 {
		r.c.Bail("Definition.NewTimer: unexpected arity")
	}
	ld := r.isRoundLoad(n.Call.Args[0])
	if ld == nil || ld.Parent() != r.fn {
		// accepted alternative: the very value the dominating, latest round advance has just stored
		ok, why = false, "the timer is not created for the current round (argument is neither the round state nor the value just stored into it)"
		for _, a := range r.advances {
			if !an.Dominates(a.in, n) || !an.Equiv(n.Call.Args[0], a.newRound) {
				continue
			}
			latest := true
			for _, b := range r.advances {
				if b.in != a.in && r.after(a.in, b.in) && r.after(b.in, n) {
					latest = false
				}
			}
			if latest {
				ok, why = true, ""
			}
		}
	} else {
		for _, a := range r.advances {
			if r.after(ld, a.in) && r.after(a.in, n) {
				ok, why = false, "the timer is created for the round as it was before the round advance"
			}
		}
	}
	r.c.Check(region+" NewTimer(round)", n.Pos(), ok, why)
	ok, why = r.carries(n)
	r.c.Check(region+" NewTimer→timerChan", n.Pos(), ok, why)
}

// carries: on every path from the NewTimer call n to the next iteration, the select's timer channel is the
// channel returned by n (or by a later NewTimer call of the same iteration).
func (r *c04Run) carries(n *ssa.Call) (bool, string) {
	fresh := map[ssa.Value]bool{}
	for _, m := range r.newTimers {
		if m == n || r.after(n, m) {
			if e := c04Extract(m, 0); e != nil {
				fresh[e] = true
			}
		}
	}
	reach := r.fwd(n.Block())
	memo := map[*ssa.Phi]int{}
	var okv func(v ssa.Value) bool
	okv = func(v ssa.Value) bool {
		if fresh[v] {
			return true
		}
		p, ok := v.(*ssa.Phi)
		if !ok || !reach[p.Block()] || p.Block() == n.Block() || p.Block() == r.hdr {
			return false
		}
		if st, ok := memo[p]; ok {
			return st == 1
		}
		memo[p] = 1
		any := false
		for i, pred := range p.Block().Preds {
			if !reach[pred] {
				continue
			}
			any = true
			if !okv(p.Edges[i]) {
				memo[p] = 2
				return false
			}
		}
		if !any {
			memo[p] = 2
		}
		return any
	}
	for i, pred := range r.hdr.Preds {
		if !reach[pred] {
			continue
		}
		if !okv(r.timerPhi.Edges[i]) {
			return false, "the channel of the new timer is not what the next select waits on (a stale or nil timer channel is kept): the new round never times out"
		}
	}
	return true, ""
}

// timeoutSeq decides the round-timeout sequence in the region entered at start:
// round advance → NewTimer(round) → ROUND-CHANGE broadcast on every path back to the loop.
func (r *c04Run) timeoutSeq(region string, start *ssa.BasicBlock, newRoundOK func(ssa.Value) (bool, string), done map[*ssa.Call]bool) {
	reach := r.fwd(start)
	var advs []c04Advance
	for _, a := range r.advances {
		if reach[a.in.Block()] {
			advs = append(advs, a)
		}
	}
	isAdv := func(in ssa.Instruction) bool {
		for _, a := range advs {
			if a.in == in {
				return true
			}
		}
		return false
	}
	r.check(region+" round advance", start, 0, c04BlockPos(start), c04Walk{effect: isAdv},
		"the event returns to the loop without advancing the round")
	for _, a := range advs {
		ok, why := newRoundOK(a.newRound)
		r.c.Check(region+" new round", a.in.Pos(), ok, why)
		r.check(region+" round advance→NewTimer", a.in.Block(), c04Idx(a.in)+1, a.in.Pos(), c04Walk{effect: func(in ssa.Instruction) bool {
			call, ok := in.(*ssa.Call)
			return ok && c04FieldCall(&call.Call, "Definition.NewTimer")
		}}, "after the round advance the loop is re-entered without starting a timer for the new round")
		for _, n := range r.newTimers {
			if r.after(a.in, n) {
				r.timerChecks(region, n, done)
			}
		}
		r.check(region+" round advance→ROUND-CHANGE", a.in.Block(), c04Idx(a.in)+1, a.in.Pos(), c04Walk{effect: func(in ssa.Instruction) bool {
			s := r.sendAt(r.sends, in, "MsgRoundChange")
			if s == nil {
				return false
			}
			if s.call == s.inner { // inline broadcast: the round must be read after the advance
				ld := r.isRoundLoad(s.args[4])
				return ld != nil && r.after(a.in, ld)
			}
			return true
		}}, "after the round advance the loop is re-entered without broadcasting ROUND-CHANGE for the new round")
	}
}

// ---------------------------------------------------------------------------------------------
// first-call evaluation of the small stateful predicates (limiter, duplicate filter)

type c04Itv struct {
	lo, hi int64
	known  bool
	zero   bool // zero value of a struct type
}

const c04Inf = int64(1) << 60

func c04Pt(k int64) c04Itv { return c04Itv{lo: k, hi: k, known: true} }

// firstCall walks f assuming every map loaded from a state cell of Run has no entry for the looked-up key
// and the given parameter lower bounds; it returns the reachable returns.
func (r *c04Run) firstCall(f *ssa.Function, paramMin map[*ssa.Parameter]int64) []*ssa.Return {
	var eval func(v ssa.Value, d int) c04Itv
	eval = func(v ssa.Value, d int) c04Itv {
		if d > 12 {
			return c04Itv{}
		}
		switch x := v.(type) {
		case *ssa.Const:
			if x.Value == nil {
				return c04Itv{}
			}
			switch x.Value.Kind() {
			case constant.Int:
				if k, ok := constant.Int64Val(x.Value); ok {
					return c04Pt(k)
				}
			case constant.Bool:
				if constant.BoolVal(x.Value) {
					return c04Pt(1)
				}
				return c04Pt(0)
			}
		case *ssa.Parameter:
			if m, ok := paramMin[x]; ok {
				return c04Itv{lo: m, hi: c04Inf, known: true}
			}
		case *ssa.Lookup:
			if x.CommaOk || r.cellOf(x.X) == nil {
				return c04Itv{}
			}
			switch t := x.Type().Underlying().(type) {
			case *types.Struct:
				return c04Itv{zero: true}
			case *types.Basic:
				if t.Info()&(types.IsInteger|types.IsBoolean) != 0 {
					return c04Pt(0)
				}
			}
		case *ssa.Field:
			if eval(x.X, d+1).zero {
				if _, ok := x.Type().Underlying().(*types.Basic); ok {
					return c04Pt(0)
				}
			}
		case *ssa.Convert:
			return eval(x.X, d+1)
		case *ssa.ChangeType:
			return eval(x.X, d+1)
		case *ssa.UnOp:
			switch x.Op {
			case token.NOT:
				if a := eval(x.X, d+1); a.known && a.lo == a.hi {
					return c04Pt(1 - a.lo)
				}
			case token.MUL:
				switch a := x.X.(type) {
				case *ssa.Alloc:
					if src := an.UniqueStore(a); src != nil && c04OnlyLoadsAndFields(a) {
						return eval(src, d+1)
					}
				case *ssa.FieldAddr:
					if al, ok := a.X.(*ssa.Alloc); ok {
						if src := an.UniqueStore(al); src != nil && c04OnlyLoadsAndFields(al) && eval(src, d+1).zero {
							if _, ok := x.Type().Underlying().(*types.Basic); ok {
								return c04Pt(0)
							}
						}
					}
				}
			}
		case *ssa.BinOp:
			a, b := eval(x.X, d+1), eval(x.Y, d+1)
			if !a.known || !b.known {
				return c04Itv{}
			}
			tf := func(t, f bool) c04Itv {
				if t {
					return c04Pt(1)
				}
				if f {
					return c04Pt(0)
				}
				return c04Itv{}
			}
			switch x.Op {
			case token.ADD:
				if a.hi >= c04Inf || b.hi >= c04Inf {
					return c04Itv{lo: a.lo + b.lo, hi: c04Inf, known: true}
				}
				return c04Itv{lo: a.lo + b.lo, hi: a.hi + b.hi, known: true}
			case token.LSS:
				return tf(a.hi < b.lo, a.lo >= b.hi)
			case token.LEQ:
				return tf(a.hi <= b.lo, a.lo > b.hi)
			case token.GTR:
				return tf(a.lo > b.hi, a.hi <= b.lo)
			case token.GEQ:
				return tf(a.lo >= b.hi, a.hi < b.lo)
			case token.EQL:
				return tf(a.lo == a.hi && b.lo == b.hi && a.lo == b.lo, a.hi < b.lo || b.hi < a.lo)
			case token.NEQ:
				return tf(a.hi < b.lo || b.hi < a.lo, a.lo == a.hi && b.lo == b.hi && a.lo == b.lo)
			}
		}
		return c04Itv{}
	}
	seen := map[*ssa.BasicBlock]bool{}
	var rets []*ssa.Return
	var walk func(b *ssa.BasicBlock)
	walk = func(b *ssa.BasicBlock) {
		if seen[b] {
			return
		}
		seen[b] = true
		if len(b.Instrs) == 0 {
			return
		}
		switch x := b.Instrs[len(b.Instrs)-1].(type) {
		case *ssa.Return:
			rets = append(rets, x)
			return
		case *ssa.If:
			if v := eval(x.Cond, 0); v.known && v.lo == v.hi {
				if v.lo != 0 {
					walk(b.Succs[0])
				} else {
					walk(b.Succs[1])
				}
				return
			}
		}
		for _, s := range b.Succs {
			walk(s)
		}
	}
	walk(f.Blocks[0])
	return rets
}

// c04OnlyLoadsAndFields: the local is written exactly once as a whole and otherwise only read (loads, field reads).
func c04OnlyLoadsAndFields(al *ssa.Alloc) bool {
	for _, ref := range *al.Referrers() {
		switch x := ref.(type) {
		case *ssa.Store:
			if x.Addr != ssa.Value(al) {
				return false
			}
		case *ssa.UnOp:
		case *ssa.FieldAddr:
			for _, r2 := range *x.Referrers() {
				if u, ok := r2.(*ssa.UnOp); !ok || u.Op != token.MUL {
					return false
				}
			}
		case *ssa.DebugRef:
		default:
			return false
		}
	}
	return true
}

// firstCallReturns decides that the first call of the predicate closure returns the constant want.
func (r *c04Run) firstCallReturns(key string, f *ssa.Function, paramMin map[*ssa.Parameter]int64, want bool, broken string) {
	rets := r.firstCall(f, paramMin)
	ok, why := len(rets) > 0, "no return reachable"
	for _, ret := range rets {
		k, isK := c02ConstBool(ret.Results[0])
		if len(ret.Results) != 1 || !isK {
			r.c.Unsure(key, posOf(ret), "the predicate returns a computed value; its first-call result is not decided")
			return
		}
		if k != want {
			ok, why = false, fmt.Sprintf("with no entry recorded for the key the predicate can return %v at %s: %s", k, r.c.P.Pos(posOf(ret)), broken)
		}
	}
	r.c.Check(key, f.Pos(), ok, why)
}

// ---------------------------------------------------------------------------------------------
// rules

func c04(c *rt.Ctx) {
	c.Rule("T1", 15, func() { c04T1(c04NewRun(c)) })
	c.Rule("T2", 17, func() { c04T2(c04NewRun(c)) })
	c.Rule("T3", 2, func() { c04T3(c04NewRun(c)) })
	c.Rule("T4", 4, func() { c04T4(c04NewRun(c)) })
	c.Rule("T5", 3, func() { c04T5(c04NewRun(c)) })
	c.Rule("T6", 10, func() { c04T6(c04NewRun(c)) })
}

// T1 — round timeout and f+1 jump.
func c04T1(r *c04Run) {
	c := r.c
	r.needTimer()
	done := map[*ssa.Call]bool{}
	// the loop is entered with a timer armed for the current round
	for i, pred := range r.hdr.Preds {
		if r.loop.Body[pred] {
			continue
		}
		e, _ := r.timerPhi.Edges[i].(*ssa.Extract)
		var n *ssa.Call
		if e != nil && e.Index == 0 {
			if call, ok := e.Tuple.(*ssa.Call); ok && c04FieldCall(&call.Call, "Definition.NewTimer") {
				n = call
			}
		}
		if n == nil {
			c.Bad("Run start NewTimer→timerChan", c04BlockPos(pred), "the event loop is entered without a running round timer: a silent leader in round 1 is never timed out")
			continue
		}
		r.timerChecks("Run start", n, done)
	}
	// the round-changing closure really sets the round
	if len(r.advances) == 0 {
		c.Bad("Run round-changing closure sets round", r.roundCell.Pos(), "nothing inside the event loop ever stores a new value into the round state: no timeout or message can move the instance to the next round")
	}
	for _, f := range r.advancers {
		var p *ssa.Parameter
		for _, in := range an.Instrs(f, false) {
			if st, ok := in.(*ssa.Store); ok && r.cellAddr(st.Addr) == r.roundCell {
				p, _ = st.Val.(*ssa.Parameter)
			}
		}
		w := c04Walk{
			effect: func(in ssa.Instruction) bool {
				st, ok := in.(*ssa.Store)
				return ok && r.cellAddr(st.Addr) == r.roundCell
			},
			prune: func(b *ssa.BasicBlock, succ int) bool { // `round == newRound`: nothing to do
				iff := c04If(b)
				if iff == nil {
					return false
				}
				eq, ok := c04EqEdge(iff, func(v ssa.Value) bool { return r.isRoundLoad(v) != nil }, func(v ssa.Value) bool { return v == ssa.Value(p) })
				return ok && succ == eq
			},
		}
		path, esc := w.from(f.Blocks[0], 0)
		c.Check("Run round-changing closure sets round", f.Pos(), !esc,
			"the closure can return without storing the new round although it differs from the current one; path "+an.PathString(c.P, path))
	}
	// timer case
	starts := r.stateStart(r.timerK)
	if len(starts) == 0 {
		c.Bail("Run: no branch for the timer case of the select")
	}
	for _, s := range starts {
		r.timeoutSeq("Run timer case", s, r.roundPlusOne, done)
	}
	// f+1 higher ROUND-CHANGEs
	for _, s := range r.ruleStart("UponFPlus1RoundChanges") {
		r.timeoutSeq("Run UponFPlus1RoundChanges", s, func(v ssa.Value) (bool, string) {
			call := c02Static(v, "nextMinRound")
			if call == nil || len(call.Call.Args) != 3 {
				return false, "the new round is not nextMinRound(d, justification, round)"
			}
			if call.Call.Args[1] != r.justV {
				return false, "nextMinRound is not applied to the f+1 ROUND-CHANGEs returned by classify"
			}
			if r.isRoundLoad(call.Call.Args[2]) == nil {
				return false, "nextMinRound is not given the current round"
			}
			return true, ""
		}, done)
	}
}

// c04TimerParam returns the index of the unique `<-chan time.Time` parameter.
func c04TimerParam(c *rt.Ctx, f *ssa.Function) int {
	idx := -1
	for i, p := range f.Params {
		ch, ok := p.Type().Underlying().(*types.Chan)
		if ok && an.TypeName(ch.Elem()) == "time.Time" {
			if idx >= 0 {
				c.Bail("%s: several timer channel parameters", an.FuncName(f))
			}
			idx = i
		}
	}
	if idx < 0 {
		c.Bail("%s: no timer channel parameter", an.FuncName(f))
	}
	return idx
}

func c04GlobalLoad(v ssa.Value) *ssa.Global {
	ld, ok := an.Unwrap(v).(*ssa.UnOp)
	if !ok || ld.Op != token.MUL {
		return nil
	}
	g, _ := ld.X.(*ssa.Global)
	return g
}

// T2 — justified PRE-PREPARE.
func c04T2(r *c04Run) {
	c := r.c
	r.needTimer()
	done := map[*ssa.Call]bool{}
	cmpFn := c.Fn(c02P + ".compare")
	awaitFn := c.Fn(c02P + ".awaitCompare")
	cmpT, awaitT := c04TimerParam(c, cmpFn), c04TimerParam(c, awaitFn)

	// (a) awaitCompare reports an expired timer with one sentinel error
	var timeoutErr *ssa.Global
	{
		var sel *ssa.Select
		k := -1
		for _, in := range an.Instrs(awaitFn, false) {
			s, ok := in.(*ssa.Select)
			if !ok {
				continue
			}
			for i, st := range s.States {
				if st.Dir == types.RecvOnly && st.Chan == ssa.Value(awaitFn.Params[awaitT]) {
					if sel != nil {
						c.Bail("awaitCompare: several selects on the timer channel")
					}
					sel, k = s, i
				}
			}
		}
		if sel == nil {
			c.Bad("awaitCompare timer case→timeout error", awaitFn.Pos(), "awaitCompare never waits on the round timer: a comparison waiting for local data blocks the consensus loop for ever")
		} else {
			idxV := c04Extract(sel, 0)
			var hdr *ssa.BasicBlock
			if l := an.InnermostLoop(awaitFn, sel.Block()); l != nil {
				hdr = l.Header
			}
			n := 0
			for _, cd := range an.CondsOn(awaitFn, idxV) {
				if kk, ok := an.ConstInt(cd.Other); !ok || kk != int64(k) || cd.Op != token.EQL {
					continue
				}
				n++
				good, why := true, ""
				w := c04Walk{stop: hdr, retEsc: func(ret *ssa.Return) bool {
					g := c04GlobalLoad(ret.Results[len(ret.Results)-1])
					if g == nil || (timeoutErr != nil && g != timeoutErr) {
						return true
					}
					timeoutErr = g
					return false
				}}
				if path, esc := w.from(cd.Succ(true), 0); esc {
					good, why = false, "an expired round timer does not end the wait with the timeout sentinel error; path "+an.PathString(c.P, path)
				}
				c.Check("awaitCompare timer case→timeout error", c04BlockPos(cd.Succ(true)), good, why)
			}
			if n == 0 {
				c.Bail("awaitCompare: no branch for the timer case")
			}
		}
	}
	// (b) compare hands its timer to awaitCompare and returns its verdict
	{
		call, _ := c.OneCall(cmpFn, func(cc *ssa.CallCommon) bool { return c02Callee(cc) == c02P+".awaitCompare" }, "awaitCompare", false).(*ssa.Call)
		if call == nil {
			c.Bail("compare: awaitCompare is deferred or spawned")
		}
		c.Check("compare→awaitCompare timer", call.Pos(), call.Call.Args[awaitT] == ssa.Value(cmpFn.Params[cmpT]),
			"compare does not wait on the round timer it was given")
		errV := c04Extract(call, 1)
		good := errV != nil
		for _, ret := range an.Returns(cmpFn) {
			v := ret.Results[len(ret.Results)-1]
			if v == errV {
				continue
			}
			var al *ssa.Alloc
			if ld, ok := v.(*ssa.UnOp); ok && ld.Op == token.MUL {
				al, _ = ld.X.(*ssa.Alloc)
			}
			if al == nil {
				good = false
				continue
			}
			for _, ref := range *al.Referrers() {
				if st, ok := ref.(*ssa.Store); ok && st.Addr == ssa.Value(al) && st.Val != errV {
					good = false
				}
			}
		}
		c.Check("compare returns awaitCompare verdict", call.Pos(), good, "compare does not return the error produced by awaitCompare: a timeout is not reported to Run")
	}

	for _, start := range r.ruleStart("UponJustifiedPrePrepare") {
		region := "Run UponJustifiedPrePrepare"
		reach := r.fwd(start)
		var cmp *ssa.Call
		for _, in := range an.Instrs(r.fn, false) {
			if call, ok := in.(*ssa.Call); ok && c02Callee(&call.Call) == c02P+".compare" && reach[call.Block()] {
				if cmp != nil {
					c.Bail("Run: several compare calls in the pre-prepare branch")
				}
				cmp = call
			}
		}
		if cmp == nil {
			c.Bail("Run: no compare call in the pre-prepare branch")
		}
		// round := msg.Round() before anything else
		msgRound := func(in ssa.Instruction) bool {
			for _, a := range r.advances {
				if a.in == in && c02IsMsgCallOn(a.newRound, "Round", r.recvMsg) {
					return true
				}
			}
			return false
		}
		r.check(region+" round:=msg.Round()", start, 0, c04BlockPos(start), c04Walk{effect: func(in ssa.Instruction) bool { return msgRound(in) || in == ssa.Instruction(cmp) }},
			"the branch does not move to the round of the justified PRE-PREPARE")
		var adv ssa.Instruction
		for _, a := range r.advances {
			if msgRound(a.in) && reach[a.in.Block()] && r.after(a.in, cmp) {
				adv = a.in
			}
		}
		c.Check(region+" round:=msg.Round() before compare", cmp.Pos(), adv != nil, "the round is not set to msg.Round() before the value comparison starts")
		// timer restarted, and compare waits on the restarted timer
		var n *ssa.Call
		if e, ok := cmp.Call.Args[cmpT].(*ssa.Extract); ok && e.Index == 0 {
			if call, ok := e.Tuple.(*ssa.Call); ok && c04FieldCall(&call.Call, "Definition.NewTimer") && reach[call.Block()] {
				n = call
			}
		}
		c.Check(region+" compare waits on restarted timer", cmp.Pos(), n != nil,
			"compare is not given the channel of a timer started in this branch: waiting for local data is not bounded by the round timeout")
		r.check(region+"→NewTimer", start, 0, c04BlockPos(start), c04Walk{effect: func(in ssa.Instruction) bool {
			call, ok := in.(*ssa.Call)
			return ok && c04FieldCall(&call.Call, "Definition.NewTimer")
		}}, "the round timer is not restarted for the round of the justified PRE-PREPARE")
		for _, m := range r.newTimers {
			if reach[m.Block()] && r.after(m, cmp) {
				ok := adv != nil && r.after(adv, m)
				c.Check(region+" NewTimer after round:=msg.Round()", m.Pos(), ok, "the timer is started before the round is moved to msg.Round()")
				r.timerChecks(region, m, done)
			}
		}
		// success → PREPARE
		errV := c04Extract(cmp, 1)
		if errV == nil {
			c.Bad(region+" compare ok→PREPARE", cmp.Pos(), "the verdict of compare is discarded")
			continue
		}
		r.check(region+" compare ok→PREPARE", cmp.Block(), c04Idx(cmp)+1, cmp.Pos(), c04Walk{
			effect: func(in ssa.Instruction) bool { return r.sendAt(r.sends, in, "MsgPrepare") != nil },
			prune: func(b *ssa.BasicBlock, succ int) bool { // the err != nil edge
				iff := c04If(b)
				if iff == nil {
					return false
				}
				eq, ok := c04EqEdge(iff, func(v ssa.Value) bool { return v == errV }, an.IsNilConst)
				return ok && succ == 1-eq
			},
		}, "a successful comparison does not lead to a PREPARE broadcast")
		// timeout → round-timeout sequence
		nT := 0
		for _, in := range an.Instrs(r.fn, false) {
			call, ok := in.(*ssa.Call)
			if !ok || !reach[call.Block()] || call.Call.IsInvoke() || call.Call.StaticCallee() == nil || len(call.Call.Args) < 2 {
				continue
			}
			if name := an.CalleeName(&call.Call); name != "errors.Is" && !strings.HasSuffix(name, "/errors.Is") {
				continue
			}
			if call.Call.Args[0] != errV || timeoutErr == nil || c04GlobalLoad(call.Call.Args[1]) != timeoutErr {
				continue
			}
			iffs := []*ssa.If{}
			for _, b := range r.fn.Blocks {
				if iff := c04If(b); iff != nil {
					if _, ok := c04BoolEdge(iff, call, true); ok {
						iffs = append(iffs, iff)
					}
				}
			}
			for _, iff := range iffs {
				e, _ := c04BoolEdge(iff, call, true)
				nT++
				r.timeoutSeq("Run compare-timeout", iff.Block().Succs[e], r.roundPlusOne, done)
			}
		}
		if nT == 0 {
			c.Bad("Run compare-timeout round advance", cmp.Pos(),
				"no branch of the pre-prepare handler tests compare's error against the sentinel awaitCompare returns when the round timer expires: a round that times out inside compare is never changed")
		}
	}
}

// T3 — quorum events perform their action.
func c04T3(r *c04Run) {
	for _, s := range r.ruleStart("UponQuorumPrepares") {
		r.check("Run UponQuorumPrepares→COMMIT", s, 0, c04BlockPos(s), c04Walk{effect: func(in ssa.Instruction) bool {
			return r.sendAt(r.sends, in, "MsgCommit") != nil
		}}, "a quorum of PREPAREs does not lead to a COMMIT broadcast: no member can collect a quorum of COMMITs")
	}
	seen := map[*ssa.BasicBlock]bool{}
	for _, name := range []string{"UponQuorumCommits", "UponJustifiedDecided"} {
		for _, s := range r.ruleStart(name) {
			if seen[s] {
				continue
			}
			seen[s] = true
			r.check("Run "+name+"→Decide", s, 0, c04BlockPos(s), c04Walk{effect: func(in ssa.Instruction) bool {
				call, ok := in.(*ssa.Call)
				return ok && c04FieldCall(&call.Call, "Definition.Decide")
			}}, "a quorum of COMMITs / a justified DECIDED does not lead to d.Decide: the member never decides")
		}
	}
}

// T4 — proposals: PRE-PREPARE or cached justification, flushed when the input value arrives.
func c04T4(r *c04Run) {
	c := r.c
	// the propose-or-cache closure: stores its parameter into a state cell of Run
	var poc *ssa.Function
	var cache *ssa.Alloc
	for _, f := range r.all {
		if f == r.fn || len(f.Params) != 1 || !types.Identical(f.Params[0].Type(), r.justV.Type()) {
			continue
		}
		for _, in := range an.Instrs(f, false) {
			if st, ok := in.(*ssa.Store); ok && st.Val == ssa.Value(f.Params[0]) && r.cellAddr(st.Addr) != nil {
				if poc != nil && poc != f {
					c.Bail("Run: several closures cache a justification")
				}
				poc, cache = f, r.cellAddr(st.Addr)
			}
		}
	}
	if poc == nil {
		// no caching helper: every proposal must be an unconditional broadcast, and nothing needs flushing
		c.Note("T4: no justification-caching closure found; proposals must broadcast unconditionally")
	}
	var input *ssa.Alloc
	if poc != nil {
		inner := r.sendsIn(poc, 1)
		w := c04Walk{effect: func(in ssa.Instruction) bool {
			if st, ok := in.(*ssa.Store); ok && st.Val == ssa.Value(poc.Params[0]) && r.cellAddr(st.Addr) == cache {
				return true
			}
			if s := r.sendAt(inner, in, "MsgPrePrepare"); s != nil && s.args[8] == ssa.Value(poc.Params[0]) && r.cellOf(s.args[5]) != nil {
				input = r.cellOf(s.args[5])
				return true
			}
			return false
		}}
		path, esc := w.from(poc.Blocks[0], 0)
		c.Check("Run propose-or-cache closure", poc.Pos(), !esc,
			"the proposal helper can return without broadcasting PRE-PREPARE for its own input value and without caching the justification; path "+an.PathString(c.P, path))
	}
	isPropose := func(just func(ssa.Value) bool) func(ssa.Instruction) bool {
		return func(in ssa.Instruction) bool {
			if s := r.sendAt(r.sends, in, "MsgPrePrepare"); s != nil { // unconditional broadcast
				return just(s.args[8])
			}
			if call, ok := in.(*ssa.Call); ok && poc != nil && !call.Call.IsInvoke() && r.closureOf(call.Call.Value) == poc {
				return just(call.Call.Args[0])
			}
			return false
		}
	}
	for _, s := range r.ruleStart("UponQuorumRoundChanges") {
		r.check("Run UponQuorumRoundChanges→PRE-PREPARE|cache", s, 0, c04BlockPos(s),
			c04Walk{effect: isPropose(func(v ssa.Value) bool { return v == r.justV })},
			"a justified quorum of ROUND-CHANGEs at the leader leads neither to a PRE-PREPARE carrying that justification nor to caching it")
	}
	// round 1 leader
	nL := 0
	for _, in := range an.Instrs(r.fn, false) {
		call, ok := in.(*ssa.Call)
		if !ok || !c04FieldCall(&call.Call, "Definition.IsLeader") || r.loop.Body[call.Block()] {
			continue
		}
		for _, b := range r.fn.Blocks {
			iff := c04If(b)
			if iff == nil {
				continue
			}
			if e, ok := c04BoolEdge(iff, call, true); ok {
				nL++
				s := b.Succs[e]
				r.check("Run start leader→PRE-PREPARE|cache", s, 0, c04BlockPos(s), c04Walk{effect: isPropose(func(ssa.Value) bool { return true })},
					"the leader of round 1 enters the loop without proposing (or caching the empty justification)")
			}
		}
	}
	if nL == 0 {
		c.Bad("Run start leader→PRE-PREPARE|cache", r.fn.Pos(), "Run does not test IsLeader before entering the loop: round 1 has no proposal")
	}
	// flush of the cached justification when the input value arrives
	if poc == nil {
		return
	}
	if input == nil {
		c.Bail("Run: the input value cell read by the proposal helper was not found")
	}
	var inStore *ssa.Store
	for _, in := range an.Instrs(r.fn, false) {
		st, ok := in.(*ssa.Store)
		if !ok || r.cellAddr(st.Addr) != input {
			continue
		}
		if e, ok := st.Val.(*ssa.Extract); ok && e.Tuple == ssa.Value(r.sel) && e.Index >= 2 {
			inStore = st
		}
	}
	if inStore == nil {
		c.Bad("Run input value→flush cached PRE-PREPARE", r.sel.Pos(), "no select case receives the input value into the cell the proposal helper reads")
		return
	}
	r.check("Run input value→flush cached PRE-PREPARE", inStore.Block(), c04Idx(inStore)+1, posOf(inStore), c04Walk{
		effect: func(in ssa.Instruction) bool {
			s := r.sendAt(r.sends, in, "MsgPrePrepare")
			if s == nil || r.cellOf(s.args[8]) != cache || r.cellOf(s.args[5]) != input {
				return false
			}
			if ld, ok := an.Unwrap(s.args[5]).(*ssa.UnOp); ok && ld.Parent() == r.fn && !r.after(inStore, ld) {
				return false
			}
			return true
		},
		prune: func(b *ssa.BasicBlock, succ int) bool { // cache == nil: nothing cached
			iff := c04If(b)
			if iff == nil {
				return false
			}
			eq, ok := c04EqEdge(iff, func(v ssa.Value) bool { return r.cellOf(v) == cache }, an.IsNilConst)
			return ok && succ == eq
		},
	}, "when the input value arrives a cached justification is not flushed as PRE-PREPARE(input value, cached justification): the leader's round never gets a proposal")
}

// T5 — after the decision, lagging peers are answered with DECIDED.
func c04T5(r *c04Run) {
	c := r.c
	key := "Run post-decision ROUND-CHANGE→DECIDED"
	var ds []*c04Send
	for i := range r.sends {
		if n, _ := an.ConstInt(r.sends[i].args[1]); n == r.msgTypes["MsgDecided"] {
			ds = append(ds, &r.sends[i])
		}
	}
	if len(ds) == 0 {
		c.Bad(key, r.fn.Pos(), "Run never broadcasts DECIDED: a member that missed the COMMIT quorum is never told the decision")
		return
	}
	hdrPhi := func(v ssa.Value) *ssa.Phi {
		p, ok := v.(*ssa.Phi)
		if !ok || p.Block() != r.hdr {
			return nil
		}
		return p
	}
	var q *ssa.Phi
	for _, d := range ds {
		qc, qv := hdrPhi(d.args[8]), hdrPhi(d.args[5])
		ok, why := qc != nil && qv != nil, "the DECIDED resend does not carry the latched commit quorum and value"
		if ok {
			_, in1 := c02PhiWeb(qc)
			_, in2 := c02PhiWeb(qv)
			has1, has2 := false, false
			for _, v := range in1 {
				has1 = has1 || v == r.justV
			}
			for _, v := range in2 {
				has2 = has2 || c02IsMsgCallOn(v, "Value", r.recvMsg)
			}
			if !has1 || !has2 {
				ok, why = false, "the state resent as DECIDED is never set from the deciding quorum / value"
			}
			if q != nil && q != qc {
				c.Bail("Run: DECIDED broadcasts carry different quorum variables")
			}
			q = qc
		}
		c.Check("Run DECIDED resend carries qCommit", d.call.Pos(), ok, why)
	}
	if q == nil {
		return
	}
	// the decided edge of len(qCommit) > 0
	var starts []*ssa.BasicBlock
	for _, b := range r.fn.Blocks {
		iff := c04If(b)
		if iff == nil {
			continue
		}
		cd := c04Decode(iff.Cond)
		if cd.y == nil {
			continue
		}
		x, y, op := cd.x, cd.y, cd.op
		if c02LenArg(y) == ssa.Value(q) {
			x, y, op = y, x, c02Flip(op)
		}
		k, isK := an.ConstInt(y)
		if c02LenArg(x) != ssa.Value(q) || !isK {
			continue
		}
		var truth bool // truth of (len op k) when len > 0
		switch {
		case (op == token.GTR || op == token.NEQ) && k == 0, op == token.GEQ && k == 1:
			truth = true
		case (op == token.EQL || op == token.LEQ) && k == 0, op == token.LSS && k == 1:
			truth = false
		default:
			continue
		}
		starts = append(starts, b.Succs[cd.succ(truth)])
	}
	if len(starts) == 0 {
		c.Bad(key, r.fn.Pos(), "the receive case never tests whether the instance has decided")
		return
	}
	isSrc := func(v ssa.Value) bool { return c02IsMsgCallOn(v, "Source", r.recvMsg) }
	isRnd := func(v ssa.Value) bool { return c02IsMsgCallOn(v, "Round", r.recvMsg) }
	isProc := func(v ssa.Value) bool { return r.cellOf(v) == r.procCell }
	limiters := map[*ssa.Function]bool{}
	limiterCall := func(v ssa.Value) *ssa.Function {
		call, ok := v.(*ssa.Call)
		if !ok || call.Call.IsInvoke() || len(call.Call.Args) != 2 || !isSrc(call.Call.Args[0]) || !isRnd(call.Call.Args[1]) {
			return nil
		}
		f := r.closureOf(call.Call.Value)
		if f == nil || f.Signature.Results().Len() != 1 {
			return nil
		}
		if b, ok := f.Signature.Results().At(0).Type().Underlying().(*types.Basic); !ok || b.Kind() != types.Bool {
			return nil
		}
		return f
	}
	for _, s := range starts {
		if !r.loop.Body[s] {
			continue
		}
		r.check(key, s, 0, c04BlockPos(s), c04Walk{
			effect: func(in ssa.Instruction) bool {
				s := r.sendAt(r.sends, in, "MsgDecided")
				return s != nil && s.args[8] == ssa.Value(q)
			},
			prune: func(b *ssa.BasicBlock, succ int) bool {
				iff := c04If(b)
				if iff == nil {
					return false
				}
				if eq, ok := c04EqEdge(iff, isSrc, isProc); ok { // own message
					return succ == eq
				}
				if eq, ok := c04EqEdge(iff, func(v ssa.Value) bool { return c02IsMsgCallOn(v, "Type", r.recvMsg) },
					func(v ssa.Value) bool { k, ok := an.ConstInt(v); return ok && k == r.msgTypes["MsgRoundChange"] }); ok { // not a ROUND-CHANGE
					return succ == 1-eq
				}
				cd := c04Decode(iff.Cond)
				if f := limiterCall(cd.x); f != nil && cd.y == nil { // limiter refuses
					limiters[f] = true
					return succ == cd.succ(false)
				}
				return false
			},
		}, "after the decision a ROUND-CHANGE from another member is not (always) answered with the DECIDED message: a member that missed the quorum keeps changing rounds for ever")
	}
	var fs []*ssa.Function
	for f := range limiters {
		fs = append(fs, f)
	}
	sort.Slice(fs, func(i, j int) bool { return fs[i].Pos() < fs[j].Pos() })
	for _, f := range fs {
		r.firstCallReturns("Run decided-resend limiter first call", f, map[*ssa.Parameter]int64{f.Params[1]: 1}, true,
			"the first ROUND-CHANGE of a lagging member is refused, so it is never told the decision")
	}
}

// T6 — dispatch is exhaustive and only no-rule / duplicate rules skip it.
func c04T6(r *c04Run) {
	c := r.c
	cl := c.Fn(c02P + ".classify")
	returned := map[int64]bool{}
	for _, ret := range an.Returns(cl) {
		k, ok := an.ConstInt(ret.Results[0])
		if !ok {
			c.Unsure("classify result", posOf(ret), "classify returns a computed rule")
			continue
		}
		returned[k] = true
	}
	handled := map[int64]bool{}
	for _, cd := range an.CondsOn(r.fn, r.ruleV) {
		if k, ok := an.ConstInt(cd.Other); ok && (cd.Op == token.EQL || cd.Op == token.NEQ) {
			handled[k] = true
		}
	}
	var ks []int64
	for k := range returned {
		ks = append(ks, k)
	}
	sort.Slice(ks, func(i, j int) bool { return ks[i] < ks[j] })
	for _, k := range ks {
		name := r.names[k]
		if name == "" {
			name = fmt.Sprint("UponRule#", k)
		}
		c.Check("Run dispatch handles "+name, r.classify.Pos(), handled[k],
			"classify can return "+name+" but Run has no case for it: the event panics the instance (\"bug: invalid rule\") or is dropped")
	}
	dups := map[*ssa.Function]bool{}
	r.check("Run classify→dispatch", r.classify.Block(), c04Idx(r.classify)+1, r.classify.Pos(), c04Walk{
		retEsc: func(*ssa.Return) bool { return true },
		prune: func(b *ssa.BasicBlock, succ int) bool {
			iff := c04If(b)
			if iff == nil {
				return false
			}
			// rule == K: into the case body (or the no-rule skip)
			if eq, ok := c04EqEdge(iff, func(v ssa.Value) bool { return v == r.ruleV }, func(v ssa.Value) bool { _, ok := an.ConstInt(v); return ok }); ok {
				return succ == eq
			}
			cd := c04Decode(iff.Cond)
			if call, ok := cd.x.(*ssa.Call); ok && cd.y == nil && !call.Call.IsInvoke() && len(call.Call.Args) == 2 &&
				call.Call.Args[0] == r.ruleV && c02IsMsgCallOn(call.Call.Args[1], "Round", r.recvMsg) {
				if f := r.closureOf(call.Call.Value); f != nil {
					dups[f] = true
					return succ == cd.succ(true) // duplicate: skip
				}
			}
			return false
		},
	}, "a classified rule can bypass the dispatch (other than as UponNothing or a duplicate), or an unknown rule is silently ignored instead of panicking")
	var fs []*ssa.Function
	for f := range dups {
		fs = append(fs, f)
	}
	sort.Slice(fs, func(i, j int) bool { return fs[i].Pos() < fs[j].Pos() })
	for _, f := range fs {
		r.firstCallReturns("Run duplicate-rule filter first call", f, nil, false,
			"a rule firing for the first time in a round is treated as a duplicate and skipped")
	}
}

const c04File = "core/qbft/qbft.go"

var c04Mutants = []Mutant{
	// T1
	{ID: "C04-T1-timer-no-roundchange", File: c04File, Expect: "T1|timer case round advance→ROUND-CHANGE",
		Old: "\t\t\terr = broadcastRoundChange()\n\n\t\tcase <-ctx.Done()",
		New: "\t\tcase <-ctx.Done()"},
	{ID: "C04-T1-fplus1-no-newtimer", File: c04File, Expect: "T1|UponFPlus1RoundChanges round advance→NewTimer",
		Old: "/* < msg.Round */), rule)\n\n\t\t\t\tstopTimer()\n\t\t\t\ttimerChan, stopTimer = d.NewTimer(round)\n",
		New: "/* < msg.Round */), rule)\n\n\t\t\t\tstopTimer()\n"},
	{ID: "C04-T1-timer-same-round", File: c04File, Expect: "T1|timer case new round",
		Old: "\t\tcase <-timerChan: // Algorithm 3:1\n\t\t\tchangeRound(round+1, UponRoundTimeout)",
		New: "\t\tcase <-timerChan: // Algorithm 3:1\n\t\t\tchangeRound(round, UponRoundTimeout)"},
	{ID: "C04-T1-timer-channel-dropped", File: c04File, Expect: "T1|timer case NewTimer→timerChan",
		Old: "\t\t\ttimerChan, stopTimer = d.NewTimer(round)\n\n\t\t\terr = broadcastRoundChange()\n\n\t\tcase <-ctx.Done()",
		New: "\t\t\t_, stopTimer = d.NewTimer(round)\n\n\t\t\terr = broadcastRoundChange()\n\n\t\tcase <-ctx.Done()"},
	{ID: "C04-T1-timer-before-advance", File: c04File, Expect: "T1|timer case",
		Old: "\t\t\tchangeRound(round+1, UponRoundTimeout)\n\n\t\t\tstopTimer()\n\t\t\ttimerChan, stopTimer = d.NewTimer(round)\n\n\t\t\terr = broadcastRoundChange()\n\n\t\tcase <-ctx.Done()",
		New: "\t\t\tstopTimer()\n\t\t\ttimerChan, stopTimer = d.NewTimer(round)\n\n\t\t\tchangeRound(round+1, UponRoundTimeout)\n\n\t\t\terr = broadcastRoundChange()\n\n\t\tcase <-ctx.Done()"},
	{ID: "C04-T1-fplus1-next-round-only", File: c04File, Expect: "T1|UponFPlus1RoundChanges new round",
		Old: "changeRound(nextMinRound(d, justification, round /* < msg.Round */), rule)",
		New: "changeRound(round+1, rule)"},
	{ID: "C04-T1-fplus1-no-roundchange", File: c04File, Expect: "T1|UponFPlus1RoundChanges round advance→ROUND-CHANGE",
		Old: "\t\t\t\terr = broadcastRoundChange()\n\n\t\t\tcase UponQuorumRoundChanges:",
		New: "\t\t\tcase UponQuorumRoundChanges:"},
	{ID: "C04-T1-changeround-keeps-round", File: c04File, Expect: "T1|round-changing closure",
		Old: "\t\tround = newRound\n\t\tdedupRules = make(map[dedupKey]bool)",
		New: "\t\tdedupRules = make(map[dedupKey]bool)"},
	{ID: "C04-T1-changeround-only-forward-by-one", File: c04File, Expect: "T1|round-changing closure",
		Old: "\t\tif round == newRound {\n\t\t\treturn\n\t\t}\n\n\t\td.LogRoundChange(",
		New: "\t\tif round == newRound || newRound > round+1 {\n\t\t\treturn\n\t\t}\n\n\t\td.LogRoundChange("},
	{ID: "C04-T1-timer-continue-before-broadcast", File: c04File, Expect: "T1|timer case round advance→ROUND-CHANGE",
		Old: "\t\t\terr = broadcastRoundChange()\n\n\t\tcase <-ctx.Done()",
		New: "\t\t\tif inputValueCh != nil {\n\t\t\t\tcontinue\n\t\t\t}\n\n\t\t\terr = broadcastRoundChange()\n\n\t\tcase <-ctx.Done()"},
	{ID: "C04-T1-no-initial-timer", File: c04File, Expect: "T1|Run start",
		Old: "\t\ttimerChan, stopTimer = d.NewTimer(round)\n\t}\n\n\t// Handle events until cancelled.",
		New: "\t\t_, stopTimer = d.NewTimer(round)\n\t}\n\n\t// Handle events until cancelled."},
	{ID: "C04-T1-timer-prepare-instead", File: c04File, Expect: "T1|timer case round advance→ROUND-CHANGE",
		Old: "\t\t\terr = broadcastRoundChange()\n\n\t\tcase <-ctx.Done()",
		New: "\t\t\terr = broadcastMsg(MsgPrepare, preparedValue, nil)\n\n\t\tcase <-ctx.Done()"},
	{ID: "C04-T1-fplus1-broadcast-before-advance", File: c04File, Expect: "T1|UponFPlus1RoundChanges round advance→ROUND-CHANGE",
		Old: "\t\t\t\tchangeRound(nextMinRound(d, justification, round /* < msg.Round */), rule)\n\n\t\t\t\tstopTimer()\n\t\t\t\ttimerChan, stopTimer = d.NewTimer(round)\n\n\t\t\t\terr = broadcastRoundChange()\n",
		New: "\t\t\t\terr = broadcastRoundChange()\n\n\t\t\t\tchangeRound(nextMinRound(d, justification, round /* < msg.Round */), rule)\n\n\t\t\t\tstopTimer()\n\t\t\t\ttimerChan, stopTimer = d.NewTimer(round)\n"},
	{ID: "C04-T1-fplus1-timer-for-message-round", File: c04File, Expect: "T1|UponFPlus1RoundChanges NewTimer(round)",
		Old: "/* < msg.Round */), rule)\n\n\t\t\t\tstopTimer()\n\t\t\t\ttimerChan, stopTimer = d.NewTimer(round)\n",
		New: "/* < msg.Round */), rule)\n\n\t\t\t\tstopTimer()\n\t\t\t\ttimerChan, stopTimer = d.NewTimer(msg.Round())\n"},
	// T2
	{ID: "C04-T2-no-prepare", File: c04File, Expect: "T2|compare ok→PREPARE",
		Old: "\t\t\t\t} else {\n\t\t\t\t\terr = broadcastMsg(MsgPrepare, msg.Value(), nil)\n\t\t\t\t}\n",
		New: "\t\t\t\t}\n"},
	{ID: "C04-T2-prepare-only-current-round", File: c04File, Expect: "T2|compare ok→PREPARE",
		Old: "\t\t\t\t} else {\n\t\t\t\t\terr = broadcastMsg(MsgPrepare, msg.Value(), nil)\n\t\t\t\t}\n",
		New: "\t\t\t\t} else if preparedRound == 0 {\n\t\t\t\t\terr = broadcastMsg(MsgPrepare, msg.Value(), nil)\n\t\t\t\t}\n"},
	{ID: "C04-T2-timer-not-restarted", File: c04File, Expect: "T2|UponJustifiedPrePrepare",
		Old: "\t\t\t\tstopTimer()\n\t\t\t\ttimerChan, stopTimer = d.NewTimer(round)\n\n\t\t\t\tvar errC error\n",
		New: "\t\t\t\tvar errC error\n"},
	{ID: "C04-T2-compare-without-timer", File: c04File, Expect: "T2|compare waits on restarted timer",
		Old: "compare(ctx, d, msg, inputValueSourceCh, inputValueSource, timerChan)",
		New: "compare(ctx, d, msg, inputValueSourceCh, inputValueSource, nil)"},
	{ID: "C04-T2-timeout-only-later-rounds", File: c04File, Expect: "T2|compare-timeout round advance",
		Old: "\t\t\t\t\tcase errors.Is(errC, errTimeout):",
		New: "\t\t\t\t\tcase errors.Is(errC, errTimeout) && round > 1:"},
	{ID: "C04-T2-await-timeout-as-compare-error", File: c04File, Expect: "T2|compare-timeout round advance",
		Old: "\t\t\treturn drainValue(), errTimeout",
		New: "\t\t\treturn drainValue(), errCompare"},
	{ID: "C04-T2-await-ignores-timer", File: c04File, Expect: "T2|awaitCompare timer case",
		Old: "\t\t\treturn drainValue(), errTimeout",
		New: "\t\t\tcontinue"},
	{ID: "C04-T2-timeout-no-roundchange", File: c04File, Expect: "T2|compare-timeout round advance→ROUND-CHANGE",
		Old: "\t\t\t\t\t\terr = broadcastRoundChange()\n\t\t\t\t\tdefault:",
		New: "\t\t\t\t\tdefault:"},
	{ID: "C04-T2-timeout-same-round", File: c04File, Expect: "T2|compare-timeout",
		Old: "\t\t\t\t\t\tchangeRound(round+1, UponRoundTimeout)\n",
		New: "\t\t\t\t\t\tchangeRound(round, UponRoundTimeout)\n"},
	{ID: "C04-T2-timeout-no-newtimer", File: c04File, Expect: "T2|compare-timeout round advance→NewTimer",
		Old: "\t\t\t\t\t\tstopTimer()\n\t\t\t\t\t\ttimerChan, stopTimer = d.NewTimer(round)\n",
		New: "\t\t\t\t\t\tstopTimer()\n"},
	{ID: "C04-T2-stay-in-old-round", File: c04File, Expect: "T2|round:=msg.Round()",
		Old: "\t\t\t\tchangeRound(msg.Round(), rule)\n\t\t\t\t// Re-record",
		New: "\t\t\t\tchangeRound(round, rule)\n\t\t\t\t// Re-record"},
	{ID: "C04-T2-compare-ignores-given-timer", File: c04File, Expect: "T2|compare→awaitCompare timer",
		Old: "return awaitCompare(ctx, compareErr, compareValue, timerChan, inputValueSource)",
		New: "return awaitCompare(ctx, compareErr, compareValue, nil, inputValueSource)"},
	// T3
	{ID: "C04-T3-no-commit", File: c04File, Expect: "T3|UponQuorumPrepares→COMMIT",
		Old: "\t\t\t\terr = broadcastMsg(MsgCommit, preparedValue, nil)\n",
		New: ""},
	{ID: "C04-T3-commit-only-first-round", File: c04File, Expect: "T3|UponQuorumPrepares→COMMIT",
		Old: "\t\t\t\terr = broadcastMsg(MsgCommit, preparedValue, nil)\n",
		New: "\t\t\t\tif preparedRound == 1 {\n\t\t\t\t\terr = broadcastMsg(MsgCommit, preparedValue, nil)\n\t\t\t\t}\n"},
	{ID: "C04-T3-prepare-instead-of-commit", File: c04File, Expect: "T3|UponQuorumPrepares→COMMIT",
		Old: "err = broadcastMsg(MsgCommit, preparedValue, nil)",
		New: "err = broadcastMsg(MsgPrepare, preparedValue, nil)"},
	{ID: "C04-T3-decide-only-foreign", File: c04File, Expect: "T3|Decide",
		Old: "\t\t\t\td.Decide(ctx, instance, msg.Value(), msg.Round(), justification)\n",
		New: "\t\t\t\tif msg.Source() != process {\n\t\t\t\t\td.Decide(ctx, instance, msg.Value(), msg.Round(), justification)\n\t\t\t\t}\n"},
	// T4
	{ID: "C04-T4-no-flush", File: c04File, Expect: "T4|flush",
		Old: "\t\t\tif ppjCache != nil {\n\t\t\t\t// Broadcast the pre-prepare now that we have a input value using the cached justification.\n\t\t\t\terr = broadcastMsg(MsgPrePrepare, inputValue, ppjCache)\n\t\t\t}\n",
		New: ""},
	{ID: "C04-T4-flush-inverted", File: c04File, Expect: "T4|flush",
		Old: "\t\t\tif ppjCache != nil {\n\t\t\t\t// Broadcast the pre-prepare now",
		New: "\t\t\tif ppjCache == nil {\n\t\t\t\t// Broadcast the pre-prepare now"},
	{ID: "C04-T4-flush-without-justification", File: c04File, Expect: "T4|flush",
		Old: "err = broadcastMsg(MsgPrePrepare, inputValue, ppjCache)",
		New: "err = broadcastMsg(MsgPrePrepare, inputValue, nil)"},
	{ID: "C04-T4-helper-does-not-cache", File: c04File, Expect: "T4",
		Old: "\t\t\tppjCache = justification\n\t\t\treturn nil",
		New: "\t\t\treturn nil"},
	{ID: "C04-T4-helper-caches-only", File: c04File, Expect: "T4|propose-or-cache closure",
		Old: "\t\treturn broadcastMsg(MsgPrePrepare, inputValue, justification)\n\t}\n\n\t// bufferMsg",
		New: "\t\treturn nil\n\t}\n\n\t// bufferMsg"},
	{ID: "C04-T4-qrc-own-value-branch-dropped", File: c04File, Expect: "T4|UponQuorumRoundChanges",
		Old: "\t\t\t\t} else {\n\t\t\t\t\t// Send pre-prepare using our own input value\n\t\t\t\t\terr = broadcastOwnPrePrepare(justification)\n\t\t\t\t}\n",
		New: "\t\t\t\t}\n"},
	{ID: "C04-T4-qrc-empty-justification", File: c04File, Expect: "T4|UponQuorumRoundChanges",
		Old: "err = broadcastMsg(MsgPrePrepare, pv, justification)",
		New: "err = broadcastMsg(MsgPrePrepare, pv, nil)"},
	{ID: "C04-T4-non-leader-proposes", File: c04File, Expect: "T4|start leader",
		Old: "\t\tif d.IsLeader(instance, round, process) { // Note round==1 at this point.",
		New: "\t\tif !d.IsLeader(instance, round, process) { // Note round==1 at this point."},
	{ID: "C04-T4-flush-prepared-value", File: c04File, Expect: "T4|flush",
		Old: "err = broadcastMsg(MsgPrePrepare, inputValue, ppjCache)",
		New: "err = broadcastMsg(MsgPrePrepare, preparedValue, ppjCache)"},
	// T5
	{ID: "C04-T5-resend-prepared-value", File: c04File, Expect: "T5|carries qCommit",
		Old:  "err = broadcastMsg(MsgDecided, qCommitValue, qCommit)",
		New:  "err = broadcastMsg(MsgDecided, preparedValue, qCommit)",
		More: [][2]string{{"\t\t\t\tqCommitValue = msg.Value()\n", "\t\t\t\tqCommitValue = msg.Value()\n\t\t\t\t_ = qCommitValue\n"}}},
	{ID: "C04-T5-answers-wrong-type", File: c04File, Expect: "T5|ROUND-CHANGE→DECIDED",
		Old: "msg.Source() != process && msg.Type() == MsgRoundChange && // Algorithm 3:17",
		New: "msg.Source() != process && msg.Type() == MsgDecided && // Algorithm 3:17"},
	{ID: "C04-T5-no-resend", File: c04File, Expect: "T5",
		Old: "\t\t\t\t\terr = broadcastMsg(MsgDecided, qCommitValue, qCommit)\n",
		New: "\t\t\t\t\t_, _ = qCommitValue, qCommit\n"},
	{ID: "C04-T5-resend-without-quorum", File: c04File, Expect: "T5",
		Old: "err = broadcastMsg(MsgDecided, qCommitValue, qCommit)",
		New: "err = broadcastMsg(MsgDecided, qCommitValue, nil)"},
	{ID: "C04-T5-limiter-inverted-round", File: c04File, Expect: "T5|limiter first call",
		Old: "if incomingRound <= resend.Round || resend.Count >= maxDecidedResends {",
		New: "if incomingRound >= resend.Round || resend.Count >= maxDecidedResends {"},
	{ID: "C04-T5-limiter-inverted-count", File: c04File, Expect: "T5|limiter first call",
		Old: "if incomingRound <= resend.Round || resend.Count >= maxDecidedResends {",
		New: "if incomingRound <= resend.Round || resend.Count <= maxDecidedResends {"},
	{ID: "C04-T5-limiter-zero-budget", File: c04File, Expect: "T5|limiter first call",
		Old: "const maxDecidedResends = 16",
		New: "const maxDecidedResends = 0"},
	{ID: "C04-T5-only-higher-rounds", File: c04File, Expect: "T5|ROUND-CHANGE→DECIDED",
		Old: "\t\t\t\t\tallowDecidedResend(msg.Source(), msg.Round()) {",
		New: "\t\t\t\t\tmsg.Round() > round && allowDecidedResend(msg.Source(), msg.Round()) {"},
	{ID: "C04-T5-qcommit-never-latched", File: c04File, Expect: "T5|carries qCommit",
		Old: "\t\t\t\tqCommit = justification\n\t\t\t\tqCommitValue = msg.Value()\n",
		New: "\t\t\t\tqCommit = msg.Justification()\n\t\t\t\tqCommitValue = msg.Value()\n"},
	// T6
	{ID: "C04-T6-unjust-case-removed", File: c04File, Expect: "T6|UponUnjustQuorumRoundChanges",
		Old: "\t\t\tcase UponUnjustQuorumRoundChanges:\n\t\t\t\t// Ignore bug or byzantine\n\n",
		New: ""},
	{ID: "C04-T6-fplus1-case-removed", File: c04File, Expect: "T6|UponFPlus1RoundChanges",
		Old: "\t\t\tcase UponFPlus1RoundChanges: // Algorithm 3:5\n\t\t\t\t// Only applicable to future rounds\n",
		New: "\t\t\tcase UponRoundTimeout: // Algorithm 3:5\n\t\t\t\t// Only applicable to future rounds\n"},
	{ID: "C04-T6-default-ignores", File: c04File, Expect: "T6|classify→dispatch",
		Old: "\t\t\tdefault:\n\t\t\t\tpanic(\"bug: invalid rule\")\n",
		New: "\t\t\tdefault:\n"},
	{ID: "C04-T6-dedup-inverted", File: c04File, Expect: "T6|classify→dispatch",
		Old: "if rule == UponNothing || isDuplicatedRule(rule, msg.Round()) {",
		New: "if rule == UponNothing || !isDuplicatedRule(rule, msg.Round()) {"},
	{ID: "C04-T6-dedup-always-duplicate", File: c04File, Expect: "T6|duplicate-rule filter",
		Old: "\t\tif !dedupRules[key] {\n",
		New: "\t\tif dedupRules[key] {\n"},
	{ID: "C04-T6-skip-non-current-rounds", File: c04File, Expect: "T6|classify→dispatch",
		Old: "if rule == UponNothing || isDuplicatedRule(rule, msg.Round()) {",
		New: "if rule == UponNothing || msg.Round() != round || isDuplicatedRule(rule, msg.Round()) {"},
}
