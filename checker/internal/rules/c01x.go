package rules

import (
	"go/token"
	"go/types"
	"strings"

	"golang.org/x/tools/go/ssa"

	"charonverif/internal/an"
	"charonverif/internal/rt"
)

// IX — the per-duty consensus instance state (Running/Proposed flags, buffers) is what makes a late Propose or
// Participate for an already decided duty a no-op. It may only be dropped when the duty has expired: every
// removal from the instances map is driven by a duty received from the deadliner's expiry channel. Dropping it
// earlier (e.g. "release the buffers once the instance returned nil") lets a late Propose start a second
// instance from round 1 with empty state, which can decide a different value for the same duty.

func init() {
	m := Mutant{ID: "IX-delete-instance-io-on-success", File: "core/consensus/qbft/qbft.go", Expect: "IX",
		Old: "\t\tinst.ErrCh <- err // Send resulting error to errCh.\n",
		New: "\t\tinst.ErrCh <- err // Send resulting error to errCh.\n\n\t\tif err == nil {\n\t\t\tc.deleteInstanceIO(duty)\n\t\t}\n"}
	dec := "(IX) the per-duty consensus instance state is removed only for duties received from the deadliner's expiry channel (a decided instance cannot be restarted by a late Propose)."
	m2 := Mutant{ID: "IX-delete-instance-io-when-instance-returns", File: "core/consensus/qbft/qbft.go", Expect: "IX",
		Old: "\t\treturn errors.New(\"consensus timeout\", z.Str(\"duty\", duty.String()))\n\t}\n\n\treturn nil\n}",
		New: "\t\treturn errors.New(\"consensus timeout\", z.Str(\"duty\", duty.String()))\n\t}\n\n\tc.deleteInstanceIO(duty)\n\n\treturn nil\n}"}
	Extend("C01", dec, instanceExpiryRule, m, m2)
	Extend("C02", dec, instanceExpiryRule)
	Extend("C03", dec, instanceExpiryRule)
}

func instanceExpiryRule(c *rt.Ctx) {
	c.Rule("IX", 2, func() {
		pkg := c.SSAPkg("core/consensus/qbft")
		funcs := an.PkgFuncs(pkg)
		isInstances := func(v ssa.Value) bool {
			k, _, ok := an.FieldOf(v)
			if !ok {
				return false
			}
			m, isMap := v.Type().Underlying().(*types.Map)
			return isMap && an.TypeName(m.Key()) == "core.Duty" && strings.Contains(an.TypeName(m.Elem()), "instance.IO") && strings.HasSuffix(k, ".instances")
		}
		// functions that delete from the instances map with a key that is one of their parameters
		deleters := map[*ssa.Function]int{} // fn -> parameter index of the duty
		n := 0
		for _, fn := range funcs {
			for _, in := range an.Instrs(fn, false) {
				call, ok := in.(*ssa.Call)
				if !ok {
					continue
				}
				b, ok := call.Call.Value.(*ssa.Builtin)
				if !ok || (b.Name() != "delete" && b.Name() != "clear") || !isInstances(call.Call.Args[0]) {
					continue
				}
				n++
				if b.Name() == "clear" {
					c.Bad(an.FuncName(fn)+" clears the instances", call.Pos(), "all consensus instance state is dropped at once")
					continue
				}
				key := c01ResolveCaptured(call.Call.Args[1])
				if p, ok := key.(*ssa.Parameter); ok && p.Parent().Parent() == nil {
					for i, q := range p.Parent().Params {
						if q == p {
							deleters[p.Parent()] = i
						}
					}
					c.Good(an.FuncName(fn)+" deletes instances[param]", call.Pos(), "callers checked below")
					continue
				}
				construct := an.FuncName(fn) + " deletes instances[duty]"
				switch c01xFromExpiry(call.Call.Args[1], funcs, 0) {
				case 1:
					c.Good(construct, call.Pos(), "")
				case -1:
					c.Bad(construct, call.Pos(), "instance state is removed for a duty that was not received from the deadliner's expiry channel")
				default:
					c.Unsure(construct, call.Pos(), "the duty is received from a channel the checker cannot trace back to deadliner.C()")
				}
			}
		}
		if n == 0 {
			c.Bail("no removal from the consensus instances map found")
		}
		// every call of a deleter: the duty handed over is received from the expiry channel, or is the caller's own
		// parameter (then the caller's call sites are checked in the next round)
		checked := map[ssa.Instruction]bool{}
		for round := 0; round < 5; round++ {
			for _, fn := range funcs {
				for _, in := range an.Instrs(fn, false) {
					ci, ok := in.(ssa.CallInstruction)
					if !ok || checked[in] {
						continue
					}
					callee := an.Orig(ci.Common().StaticCallee())
					idx, isDel := deleters[callee]
					if !isDel || idx >= len(ci.Common().Args) {
						continue
					}
					checked[in] = true
					arg := ci.Common().Args[idx]
					construct := an.FuncName(fn) + " → " + an.FuncName(callee)
					if p, ok := c01ResolveCaptured(arg).(*ssa.Parameter); ok {
						owner := p.Parent()
						pi := -1
						for i, q := range owner.Params {
							if q == p {
								pi = i
							}
						}
						sites := c01xCallSites(funcs, owner)
						switch {
						case pi >= 0 && owner.Parent() == nil && len(sites) > 0 && (owner.Object() == nil || !owner.Object().Exported()):
							// a forwarding helper: its callers are checked in the next round
							if _, seen := deleters[owner]; !seen {
								deleters[owner] = pi
							}
						case owner.Object() != nil && owner.Object().Exported():
							c.Bad(construct, ci.Pos(), "the consensus instance state is dropped for a duty that is an input of "+an.FuncName(owner)+" (supplied by the component's callers), not a duty received from deadliner.C(): a late Propose/Participate can start a second instance for a decided duty")
						default:
							c.Unsure(construct, ci.Pos(), "the duty is a parameter of "+an.FuncName(owner)+" whose callers are not followed")
						}
						continue
					}
					switch c01xFromExpiry(arg, funcs, 0) {
					case 1:
						c.Good(construct, ci.Pos(), "")
					case -1:
						c.Bad(construct, ci.Pos(), "the consensus instance state of a duty is dropped although the duty did not expire (not received from deadliner.C()): a late Propose/Participate can start a second instance for a decided duty")
					default:
						c.Unsure(construct, ci.Pos(), "the duty is received from a channel the checker cannot trace back to deadliner.C()")
					}
				}
			}
		}
		// the deleter must not escape as a value
		for d := range deleters {
			for _, fn := range funcs {
				for _, in := range an.Instrs(fn, false) {
					for _, op := range an.Operands(in) {
						if op == ssa.Value(d) {
							if ci, ok := in.(ssa.CallInstruction); ok && ci.Common().Value == op {
								continue
							}
							c.Unsure(an.FuncName(d)+" used as a value", in.Pos(), "the function that drops instance state escapes as a value")
						}
					}
				}
			}
		}
	})
}

// c01xCallSites: the static call/go/defer sites of fn in funcs.
func c01xCallSites(funcs []*ssa.Function, fn *ssa.Function) []ssa.CallInstruction {
	var out []ssa.CallInstruction
	for _, f := range funcs {
		for _, in := range an.Instrs(f, false) {
			if ci, ok := in.(ssa.CallInstruction); ok && an.Orig(ci.Common().StaticCallee()) == fn {
				out = append(out, ci)
			}
		}
	}
	return out
}

// c01xFromExpiry: v is received from the channel returned by core.Deadliner.C() (1), positively is not (-1), or is
// received from a channel the checker cannot trace (0). The channel is followed through single-assignment locals,
// captured variables and parameters (to every in-package call site).
func c01xFromExpiry(v ssa.Value, funcs []*ssa.Function, depth int) int {
	var ch ssa.Value
	switch x := c01ResolveCaptured(v).(type) {
	case *ssa.UnOp:
		if x.Op == token.ARROW {
			ch = x.X
		}
	case *ssa.Extract:
		if sel, ok := x.Tuple.(*ssa.Select); ok {
			k, n := x.Index-2, 0
			for _, st := range sel.States {
				if st.Dir == types.RecvOnly {
					if n == k {
						ch = st.Chan
					}
					n++
				}
			}
		}
	}
	if ch == nil {
		return -1 // not a channel receive at all
	}
	return c01xExpiryChan(ch, funcs, depth)
}

func c01xExpiryChan(ch ssa.Value, funcs []*ssa.Function, depth int) int {
	if depth > 3 {
		return 0
	}
	switch x := c01ResolveCaptured(ch).(type) {
	case *ssa.Call:
		if an.CalleeName(&x.Call) == "iface:core.Deadliner.C" {
			return 1
		}
		if callee := x.Call.StaticCallee(); callee != nil && len(callee.Blocks) > 0 {
			return 0 // an in-package helper that returns a channel: not followed
		}
		return -1 // the channel of another component (context, timer, ...)
	case *ssa.Parameter:
		owner := x.Parent()
		pi := -1
		for i, q := range owner.Params {
			if q == x {
				pi = i
			}
		}
		sites := c01xCallSites(funcs, owner)
		if pi < 0 || len(sites) == 0 || (owner.Object() != nil && owner.Object().Exported()) {
			return 0
		}
		res := 1
		for _, ci := range sites {
			if pi >= len(ci.Common().Args) {
				return 0
			}
			if r := c01xExpiryChan(ci.Common().Args[pi], funcs, depth+1); r < res {
				res = r
			}
		}
		return res
	}
	return 0
}
