package rules

import (
	"go/types"
	"strings"

	"golang.org/x/tools/go/ssa"

	"charonverif/internal/an"
	"charonverif/internal/rt"
)

// IX — the per-duty consensus instance state (Running/Proposed flags, buffers) is what makes a late Propose or
// Participate for an already decided duty a no-op. It may only be dropped when the duty has expired: every
// removal from the instances map is driven by a duty received from the deadliner's expiry channel. Dropping it
// earlier (e.g. "release the buffers once the instance returned nil") lets a late Propose start a second
// instance from round 1 with empty state, which can decide a different value for the same duty.

func init() {
	m := Mutant{ID: "IX-delete-instance-io-on-success", File: "core/consensus/qbft/qbft.go", Expect: "IX",
		Old: "\t\tinst.ErrCh <- err // Send resulting error to errCh.\n",
		New: "\t\tinst.ErrCh <- err // Send resulting error to errCh.\n\n\t\tif err == nil {\n\t\t\tc.deleteInstanceIO(duty)\n\t\t}\n"}
	dec := "(IX) the per-duty consensus instance state is removed only for duties received from the deadliner's expiry channel (a decided instance cannot be restarted by a late Propose)."
	Extend("C01", dec, instanceExpiryRule, m)
	Extend("C02", dec, instanceExpiryRule)
	Extend("C03", dec, instanceExpiryRule)
}

func instanceExpiryRule(c *rt.Ctx) {
	c.Rule("IX", 2, func() {
		pkg := c.SSAPkg("core/consensus/qbft")
		funcs := an.PkgFuncs(pkg)
		isInstances := func(v ssa.Value) bool {
			k, _, ok := an.FieldOf(v)
			if !ok {
				return false
			}
			m, isMap := v.Type().Underlying().(*types.Map)
			return isMap && an.TypeName(m.Key()) == "core.Duty" && strings.Contains(an.TypeName(m.Elem()), "instance.IO") && strings.HasSuffix(k, ".instances")
		}
		// functions that delete from the instances map with a key that is one of their parameters
		deleters := map[*ssa.Function]int{} // fn -> parameter index of the duty
		n := 0
		for _, fn := range funcs {
			for _, in := range an.Instrs(fn, false) {
				call, ok := in.(*ssa.Call)
				if !ok {
					continue
				}
				b, ok := call.Call.Value.(*ssa.Builtin)
				if !ok || (b.Name() != "delete" && b.Name() != "clear") || !isInstances(call.Call.Args[0]) {
					continue
				}
				n++
				if b.Name() == "clear" {
					c.Bad(an.FuncName(fn)+" clears the instances", call.Pos(), "all consensus instance state is dropped at once")
					continue
				}
				key := an.Resolve(call.Call.Args[1])
				if p, ok := key.(*ssa.Parameter); ok && fn.Parent() == nil {
					for i, q := range fn.Params {
						if q == p {
							deleters[fn] = i
						}
					}
					c.Good(an.FuncName(fn)+" deletes instances[param]", call.Pos(), "callers checked below")
					continue
				}
				c.Check(an.FuncName(fn)+" deletes instances[duty]", call.Pos(), valueFromRecvOf(call.Call.Args[1], "iface:core.Deadliner.C"),
					"instance state is removed for a duty that was not received from the deadliner's expiry channel")
			}
		}
		if n == 0 {
			c.Bail("no removal from the consensus instances map found")
		}
		for round := 0; round < 3; round++ {
			for _, fn := range funcs {
				for _, in := range an.Instrs(fn, false) {
					ci, ok := in.(ssa.CallInstruction)
					if !ok {
						continue
					}
					callee := an.Orig(ci.Common().StaticCallee())
					idx, isDel := deleters[callee]
					if !isDel || idx >= len(ci.Common().Args) {
						continue
					}
					arg := ci.Common().Args[idx]
					if round == 0 {
						if p, ok := an.Resolve(arg).(*ssa.Parameter); ok && fn.Parent() == nil {
							// a forwarding helper: its callers are checked in the next round
							for i, q := range fn.Params {
								if q == p {
									if _, seen := deleters[fn]; !seen {
										deleters[fn] = i
									}
								}
							}
							continue
						}
						c.Check(an.FuncName(fn)+" → "+an.FuncName(callee), ci.Pos(), valueFromRecvOf(arg, "iface:core.Deadliner.C"),
							"the consensus instance state of a duty is dropped although the duty did not expire (not received from deadliner.C()): a late Propose/Participate can start a second instance for a decided duty")
					}
				}
			}
		}
		// the deleter must not escape as a value
		for d := range deleters {
			for _, fn := range funcs {
				for _, in := range an.Instrs(fn, false) {
					for _, op := range an.Operands(in) {
						if op == ssa.Value(d) {
							if ci, ok := in.(ssa.CallInstruction); ok && ci.Common().Value == op {
								continue
							}
							c.Unsure(an.FuncName(d)+" used as a value", in.Pos(), "the function that drops instance state escapes as a value")
						}
					}
				}
			}
		}
	})
}
