package rules

import "charonverif/internal/rt"

// Mutants that only exist on the repaired tree: each re-introduces a defect fixed by a "fix:" commit
// in /repo (see known_findings.json "fixed"), so the rule that found it keeps a positive example.
func init() {
	Extend("C14", "", func(*rt.Ctx) {}, Mutant{ID: "C14-M3-registration-null-accepted", File: "core/signeddata.go", Expect: "M3",
		Old: "\t\tif registration == nil {\n\t\t\treturn errors.New(\"no V1 registration\")\n\t\t}\n\n", New: ""})
	Extend("C18", "", func(*rt.Ctx) {},
		Mutant{ID: "C18-X2-await-attestation-stored-pointer", File: "core/dutydb/memory.go", Expect: "X2",
			Old: "\t\treturn &attData.Data, nil", New: "\t\t_ = attData\n\n\t\treturn value, nil"},
		Mutant{ID: "C18-X2-await-proposal-stored-pointer", File: "core/dutydb/memory.go", Expect: "X2",
			Old: "\t\treturn &proposal.VersionedProposal, nil\n\t}\n}", New: "\t\t_ = proposal\n\n\t\treturn block, nil\n\t}\n}"})
	Extend("C17", "", func(*rt.Ctx) {}, Mutant{ID: "C17-W2-wait-on-field-after-unlock", File: "core/aggsigdb/memory_v2.go", Expect: "W4",
		Old: "\t\tcase <-notify:", New: "\t\tcase <-m.notify:", More: [][2]string{{"data, notify, err := query()", "data, _, err := query()"}}})
	Extend("C06", "", func(*rt.Ctx) {}, Mutant{ID: "C06-D4-error-exit-skips-resolve", File: "core/dutydb/memory.go", Expect: "D4",
		Old: "\t\t\t\tdb.resolveAttQueriesUnsafe() // Entries stored before the failure must still unblock their queries.\n\n", New: ""},
		Mutant{ID: "C06-D2-agg-overwrite-again", File: "core/dutydb/memory.go", Expect: "D2",
			Old: "\t\t\treturn errors.New(\"clashing data root\", z.Str(\"existing\", hex.EncodeToString(existingDataRoot[:])), z.Str(\"provided\", hex.EncodeToString(providedDataRoot[:])))\n\t\t}\n",
			New: "\t\t\treturn errors.New(\"clashing data root\", z.Str(\"existing\", hex.EncodeToString(existingDataRoot[:])), z.Str(\"provided\", hex.EncodeToString(providedDataRoot[:])))\n\t\t}\n\n\t\tdb.aggDuties[key] = provided\n"})
	Extend("C07", "", func(*rt.Ctx) {}, Mutant{ID: "C07-P2-return-err-again", File: "core/parsigdb/memory.go", Expect: "P2",
		Old: "\t\tsigs, ok, err := db.store(ctx, key{Duty: duty, PubKey: pubkey, SubcommIdx: subcommIdx}, sig, exempt)\n\t\tif err != nil {\n\t\t\tstoreErr = err\n\t\t\tbreak\n",
		New: "\t\tsigs, ok, err := db.store(ctx, key{Duty: duty, PubKey: pubkey, SubcommIdx: subcommIdx}, sig, exempt)\n\t\tif err != nil {\n\t\t\treturn err\n"})
}
