package rules

// K5 — validator order agreement between the cluster lock and the persisted key shares.
//
// The lock lists one DistValidator per validator and every consumer of the keystores (LoadSecrets/SequencedKeys,
// combine, reshare, add-validators) pairs keystore-<i> with lock.Validators[i]. In a ceremony that joins validators
// of two origins — OLD: taken from the AppendConfig (the existing cluster), NEW: produced by this ceremony — the
// sequence stored into cluster.Lock.Validators and the sequence of secret shares handed to the keystore writer must
// put the origins in the same relative order, otherwise every node holds, at index i, the secret share of another
// validator than the lock publishes at i.
//
// The rule follows values, not shapes: a "key sequence" is a slice of share.Share / cluster.DistValidator /
// tbls.PrivateKey / tbls.PublicKey. The order signature of a key sequence is computed backwards over SSA: concatenations
// (slices.Concat, append(a, b...)) concatenate signatures; element-wise mappings (a loop that appends one element
// per element of one source sequence, an in-repo helper with exactly one key-sequence argument, slices.Clone) keep
// the signature of their source; variables, phis and parameters are followed (alternatives are kept apart); a value
// read out of an AppendConfig is OLD; a key sequence returned by a call that takes no key sequence and no
// AppendConfig is NEW. Anything else is an unknown atom. VIOLATION only when one side positively orders OLD before NEW
// and the other NEW before OLD.

import (
	"go/token"
	"go/types"
	"sort"
	"strings"

	"golang.org/x/tools/go/ssa"

	"charonverif/internal/an"
	"charonverif/internal/rt"
)

func init() {
	Extend("C11", "(K5) in a ceremony that joins existing validators (from the AppendConfig) with new ones, the sequence stored into cluster.Lock.Validators and the sequence of secret shares handed to the keystore writer order the two origins the same way (keystore-i belongs to lock.Validators[i]).",
		func(c *rt.Ctx) { c.Rule("K5", 3, func() { c11K5(c) }) },
		Mutant{ID: "C11-K5-lock-new-before-existing", File: "dkg/dkg.go", Expect: "K5",
			Old: "vals = append(appendConfig.ClusterLock.Validators, vals...)", New: "vals = append(vals, appendConfig.ClusterLock.Validators...)"},
		Mutant{ID: "C11-K5-keys-new-before-existing-append", File: "dkg/dkg.go", Expect: "K5",
			Old: "allShares := slices.Concat(existingShares, shares)\n\t\tif err = writeKeysToDisk", New: "allShares := append(slices.Clone(shares), existingShares...)\n\t\tif err = writeKeysToDisk"},
		Mutant{ID: "C11-K5-keys-existing-appended-in-writer", File: "dkg/dkg.go", Expect: "K5",
			Old: "allShares := slices.Concat(existingShares, shares)\n\t\tif err = writeKeysToDisk", New: "allShares := shares\n\t\tfor _, old := range existingShares {\n\t\t\tallShares = append(allShares, old)\n\t\t}\n\t\tif err = writeKeysToDisk"},
	)
}

const (
	c11SeqOld     = 1
	c11SeqNew     = 2
	c11SeqUnknown = 3
)

func c11KeySeqType(t types.Type) bool {
	if t == nil {
		return false
	}
	sl, ok := t.Underlying().(*types.Slice)
	if !ok {
		return false
	}
	if _, isPtr := sl.Elem().(*types.Pointer); isPtr {
		return false
	}
	switch an.TypeName(sl.Elem()) {
	case "dkg/share.Share", "cluster.DistValidator", "tbls.PrivateKey", "tbls.PublicKey":
		return true
	}
	return false
}

func c11IsAppendCfg(t types.Type) bool { return t != nil && an.TypeName(t) == "dkg.AppendConfig" }

// c11HoldsAppendCfg: a struct (pointer) type with a field of type (*)AppendConfig: a value of it may carry the existing cluster.
func c11HoldsAppendCfg(t types.Type) bool {
	if t == nil {
		return false
	}
	if p, ok := t.Underlying().(*types.Pointer); ok {
		t = p.Elem()
	}
	st, ok := t.Underlying().(*types.Struct)
	if !ok {
		return false
	}
	for i := 0; i < st.NumFields(); i++ {
		if c11IsAppendCfg(st.Field(i).Type()) {
			return true
		}
	}
	return false
}

type c11SeqW struct {
	visiting map[ssa.Value]bool
	cyc      map[ssa.Value]bool // loop-carried variables (phis, cells) that were reached again while being evaluated
	bind     map[*ssa.Parameter]ssa.Value
	steps    int
}

type c11Alts [][]int

func c11AltKey(a []int) string {
	var sb strings.Builder
	for _, x := range a {
		sb.WriteByte(byte('0' + x))
	}
	return sb.String()
}

func c11AltUnion(as ...c11Alts) c11Alts {
	seen := map[string]bool{}
	var out c11Alts
	for _, a := range as {
		for _, alt := range a {
			k := c11AltKey(alt)
			if !seen[k] {
				seen[k] = true
				out = append(out, alt)
			}
		}
	}
	if len(out) > 24 {
		return c11Alts{{c11SeqUnknown}}
	}
	return out
}

func c11AltConcat(a, b c11Alts) c11Alts {
	var out c11Alts
	for _, x := range a {
		for _, y := range b {
			z := append(append([]int{}, x...), y...)
			// collapse runs of one class
			var w []int
			for _, k := range z {
				if len(w) == 0 || w[len(w)-1] != k {
					w = append(w, k)
				}
			}
			out = append(out, w)
		}
	}
	return c11AltUnion(out)
}

var (
	c11AltEmpty   = c11Alts{{}}
	c11AltUnknown = c11Alts{{c11SeqUnknown}}
)

// variadicElems: v is the slice of a fresh array that packs the arguments of a variadic call: the packed values.
func c11VariadicElems(v ssa.Value) ([]ssa.Value, bool) {
	sl, ok := v.(*ssa.Slice)
	if !ok || sl.Low != nil || sl.High != nil || sl.Max != nil {
		if c, isC := v.(*ssa.Const); isC && c.Value == nil {
			return nil, true // no variadic arguments
		}
		return nil, false
	}
	al, ok := sl.X.(*ssa.Alloc)
	if !ok || al.Referrers() == nil {
		return nil, false
	}
	pt, ok := al.Type().Underlying().(*types.Pointer)
	if !ok {
		return nil, false
	}
	arr, ok := pt.Elem().Underlying().(*types.Array)
	if !ok {
		return nil, false
	}
	elems := make([]ssa.Value, arr.Len())
	for _, ref := range *al.Referrers() {
		switch r := ref.(type) {
		case *ssa.IndexAddr:
			k, isC := an.ConstInt(r.Index)
			if !isC || k < 0 || k >= arr.Len() || r.Referrers() == nil {
				return nil, false
			}
			for _, rr := range *r.Referrers() {
				if st, isSt := rr.(*ssa.Store); isSt && st.Addr == ssa.Value(r) {
					if elems[k] != nil {
						return nil, false
					}
					elems[k] = st.Val
				}
			}
		case *ssa.Slice, *ssa.DebugRef:
		default:
			return nil, false
		}
	}
	for _, e := range elems {
		if e == nil {
			return nil, false
		}
	}
	return elems, true
}

// rootsAppendCfg: the access path of v (fields, elements, loads) starts at an AppendConfig value.
func c11FromAppendCfg(v ssa.Value) bool {
	for i := 0; i < 16 && v != nil; i++ {
		v = an.Unwrap(v)
		if c11IsAppendCfg(v.Type()) {
			return true
		}
		switch x := v.(type) {
		case *ssa.Field:
			v = x.X
		case *ssa.FieldAddr:
			v = x.X
		case *ssa.IndexAddr:
			v = x.X
		case *ssa.Index:
			v = x.X
		case *ssa.UnOp:
			if x.Op != token.MUL {
				return false
			}
			v = x.X
		case *ssa.Slice:
			v = x.X
		default:
			return false
		}
	}
	return false
}

func (w *c11SeqW) seq(v ssa.Value, d int) c11Alts {
	w.steps++
	if v == nil || d > 40 || w.steps > 4000 {
		return c11AltUnknown
	}
	v = an.Unwrap(v)
	if w.visiting[v] {
		w.markCyc(v)
		return c11AltEmpty // the loop-carried accumulator itself: what is added to it is joined by merge()
	}
	w.visiting[v] = true
	defer delete(w.visiting, v)
	switch x := v.(type) {
	case *ssa.Const:
		if x.Value == nil {
			return c11AltEmpty
		}
	case *ssa.Phi:
		return w.merge(x, x.Edges, d)
	case *ssa.UnOp:
		if x.Op != token.MUL {
			break
		}
		return w.load(x.X, d)
	case *ssa.Field:
		if c11FromAppendCfg(x) {
			return c11Alts{{c11SeqOld}}
		}
	case *ssa.Slice:
		if x.Low == nil && x.High == nil && x.Max == nil {
			if _, isPtr := x.X.Type().Underlying().(*types.Pointer); !isPtr {
				return w.seq(x.X, d+1)
			}
		}
	case *ssa.Extract:
		if call, ok := x.Tuple.(*ssa.Call); ok {
			return w.call(call, x.Index, d)
		}
	case *ssa.Call:
		return w.call(x, 0, d)
	case *ssa.MakeSlice:
		// a slice filled by index (`out[i] = f(in[i])`): an element-wise mapping of the sequence its elements come from
		out := c11AltEmpty
		if x.Referrers() == nil {
			return out
		}
		var parts []c11Alts
		for _, ref := range *x.Referrers() {
			ia, ok := ref.(*ssa.IndexAddr)
			if !ok || ia.X != ssa.Value(x) || ia.Referrers() == nil {
				continue
			}
			for _, rr := range *ia.Referrers() {
				if st, isSt := rr.(*ssa.Store); isSt && st.Addr == ssa.Value(ia) {
					parts = append(parts, w.elemSource(st.Val, nil, d+1))
				}
			}
		}
		if len(parts) == 0 {
			return out
		}
		for _, p := range parts[1:] {
			if len(c11AltUnion(parts[0], p)) != len(parts[0]) || len(p) != len(parts[0]) {
				return c11AltUnknown // filled from several sequences: the order depends on the indexes
			}
		}
		return parts[0]
	case *ssa.Parameter:
		return w.param(x, d)
	case *ssa.FreeVar:
		return w.load(x, d)
	}
	return c11AltUnknown
}

// load: the content of the cell at addr.
func (w *c11SeqW) load(addr ssa.Value, d int) c11Alts {
	switch a := addr.(type) {
	case *ssa.Alloc:
		sts := an.AllStores(a)
		if len(sts) == 0 {
			return c11AltEmpty
		}
		if w.visiting[a] {
			w.markCyc(a)
			return c11AltEmpty
		}
		w.visiting[a] = true
		defer delete(w.visiting, a)
		var vals []ssa.Value
		for _, st := range sts {
			vals = append(vals, st.Val)
		}
		return w.merge(a, vals, d)
	case *ssa.FreeVar:
		if b := an.ClosureBinding(a); b != nil {
			if w.visiting[b] {
				return c11AltEmpty
			}
			return w.load(b, d+1)
		}
	case *ssa.FieldAddr, *ssa.IndexAddr:
		if c11FromAppendCfg(a) {
			return c11Alts{{c11SeqOld}}
		}
	}
	return c11AltUnknown
}

func (w *c11SeqW) markCyc(v ssa.Value) {
	if w.cyc == nil {
		w.cyc = map[ssa.Value]bool{}
	}
	w.cyc[v] = true
}

// merge: the values a variable (phi or cell) can hold. Values that are computed from the variable itself (the steps of
// an accumulator: `x = append(x, ...)`) extend what the other values start it with.
func (w *c11SeqW) merge(self ssa.Value, vals []ssa.Value, d int) c11Alts {
	var inits, steps []c11Alts
	for _, v := range vals {
		was := w.cyc[self]
		delete(w.cyc, self)
		a := w.seq(v, d+1)
		if w.cyc[self] {
			steps = append(steps, a)
		} else {
			inits = append(inits, a)
		}
		if was {
			w.markCyc(self)
		} else {
			delete(w.cyc, self)
		}
	}
	if len(steps) == 0 {
		return c11AltUnion(inits...)
	}
	init := c11AltEmpty
	if len(inits) > 0 {
		init = c11AltUnion(inits...)
	}
	grown := c11AltConcat(init, c11AltUnion(steps...))
	return c11AltUnion(init, grown)
}

func (w *c11SeqW) param(p *ssa.Parameter, d int) c11Alts {
	if b, ok := w.bind[p]; ok {
		// evaluated in the caller's context: the binding of the callee's parameters must not capture it
		return w.seq(b, d+1)
	}
	fn := p.Parent()
	sites, closed := c11CallSites(fn)
	if !closed || len(sites) == 0 {
		return c11AltUnknown
	}
	idx := an.ParamIndex(p)
	var parts []c11Alts
	for _, s := range sites {
		if idx < 0 || idx >= len(s.Common().Args) {
			return c11AltUnknown
		}
		parts = append(parts, w.seq(s.Common().Args[idx], d+1))
	}
	return c11AltUnion(parts...)
}

func (w *c11SeqW) call(call *ssa.Call, idx int, d int) c11Alts {
	cc := &call.Call
	name := an.CalleeName(cc)
	if name == "builtin:append" && len(cc.Args) == 2 {
		base := w.seq(cc.Args[0], d+1)
		if elems, packed := c11VariadicElems(cc.Args[1]); packed {
			out := base
			for _, e := range elems {
				out = c11AltConcat(out, w.elemSource(e, call, d+1))
			}
			return out
		}
		return c11AltConcat(base, w.seq(cc.Args[1], d+1))
	}
	if strings.HasPrefix(name, "slices.Concat") && len(cc.Args) == 1 {
		elems, packed := c11VariadicElems(cc.Args[0])
		if !packed {
			return c11AltUnknown
		}
		out := c11AltEmpty
		for _, e := range elems {
			out = c11AltConcat(out, w.seq(e, d+1))
		}
		return out
	}
	var keyArgs []ssa.Value
	hasOld, maybeOld := false, false
	args := cc.Args
	if cc.IsInvoke() {
		args = append([]ssa.Value{cc.Value}, args...)
	}
	for _, a := range args {
		switch {
		case c11IsAppendCfg(a.Type()) || c11FromAppendCfg(a):
			hasOld = true
		case c11KeySeqType(a.Type()):
			keyArgs = append(keyArgs, a)
		case c11HoldsAppendCfg(a.Type()):
			maybeOld = true
		}
	}
	switch {
	case hasOld && len(keyArgs) == 0:
		return c11Alts{{c11SeqOld}}
	case !hasOld && !maybeOld && len(keyArgs) == 1:
		return w.seq(keyArgs[0], d+1) // element-wise mapping of one sequence keeps its order
	case !hasOld && !maybeOld && len(keyArgs) == 0:
		rt := call.Type()
		if tup, ok := rt.(*types.Tuple); ok && idx < tup.Len() {
			rt = tup.At(idx).Type()
		}
		if c11KeySeqType(rt) {
			return c11Alts{{c11SeqNew}}
		}
		return c11AltUnknown
	}
	// several sequences (or a sequence and the existing cluster) meet in a helper: follow its results
	body := an.StaticBody(cc)
	if body == nil || len(body.Blocks) == 0 || len(body.Params) != len(cc.Args) {
		return c11AltUnknown
	}
	saved := map[*ssa.Parameter]ssa.Value{}
	for i, p := range body.Params {
		if old, ok := w.bind[p]; ok {
			saved[p] = old
		}
		w.bind[p] = cc.Args[i]
	}
	var parts []c11Alts
	for _, r := range an.Returns(body) {
		if idx >= len(r.Results) {
			parts = append(parts, c11AltUnknown)
			continue
		}
		parts = append(parts, w.seq(r.Results[idx], d+1))
	}
	for _, p := range body.Params {
		if old, ok := saved[p]; ok {
			w.bind[p] = old
		} else {
			delete(w.bind, p)
		}
	}
	if len(parts) == 0 {
		return c11AltUnknown
	}
	return c11AltUnion(parts...)
}

// elemSource: the order signature contributed by one appended element: the signature of the single key sequence the
// element is computed from (one step of an element-wise mapping), OLD if it is read out of the AppendConfig only.
func (w *c11SeqW) elemSource(e ssa.Value, at *ssa.Call, d int) c11Alts {
	seen := map[ssa.Value]bool{}
	var srcs []ssa.Value
	old := false
	n := 0
	var walk func(v ssa.Value, depth int)
	addAddr := func(addr ssa.Value, depth int) {
		// every value stored into the cell (and into its fields/elements)
		var cells func(a ssa.Value, k int)
		cells = func(a ssa.Value, k int) {
			if a.Referrers() == nil || k > 3 {
				return
			}
			for _, ref := range *a.Referrers() {
				switch r := ref.(type) {
				case *ssa.Store:
					if r.Addr == a {
						walk(r.Val, depth+1)
					}
				case *ssa.FieldAddr:
					cells(r, k+1)
				case *ssa.IndexAddr:
					if r.X == a {
						cells(r, k+1)
					}
				}
			}
		}
		cells(addr, 0)
	}
	walk = func(v ssa.Value, depth int) {
		n++
		if v == nil || depth > 24 || n > 600 {
			return
		}
		v = an.Unwrap(v)
		if seen[v] {
			return
		}
		seen[v] = true
		if c11IsAppendCfg(v.Type()) {
			old = true
			return
		}
		if c11KeySeqType(v.Type()) {
			srcs = append(srcs, v)
			return
		}
		switch x := v.(type) {
		case *ssa.Extract:
			switch t := x.Tuple.(type) {
			case *ssa.Next:
				if r, ok := t.Iter.(*ssa.Range); ok {
					walk(r.X, depth+1)
				}
			default:
				walk(x.Tuple, depth+1)
			}
		case *ssa.UnOp:
			if x.Op != token.MUL {
				walk(x.X, depth+1)
				return
			}
			switch a := x.X.(type) {
			case *ssa.Alloc:
				addAddr(a, depth)
			case *ssa.FieldAddr:
				walk(a.X, depth+1)
			case *ssa.IndexAddr:
				walk(a.X, depth+1)
			case *ssa.FreeVar:
				if b := an.ClosureBinding(a); b != nil {
					if al, ok := b.(*ssa.Alloc); ok {
						for _, st := range an.AllStores(al) {
							walk(st.Val, depth+1)
						}
					} else {
						walk(b, depth+1)
					}
				}
			default:
				walk(x.X, depth+1)
			}
		case *ssa.Alloc:
			addAddr(x, depth)
		case *ssa.Field:
			walk(x.X, depth+1)
		case *ssa.FieldAddr:
			walk(x.X, depth+1)
		case *ssa.Index:
			walk(x.X, depth+1)
		case *ssa.IndexAddr:
			walk(x.X, depth+1)
		case *ssa.Slice:
			walk(x.X, depth+1)
		case *ssa.Phi:
			for _, ed := range x.Edges {
				walk(ed, depth+1)
			}
		case *ssa.Call:
			if x.Call.IsInvoke() {
				walk(x.Call.Value, depth+1)
			}
			for _, a := range x.Call.Args {
				walk(a, depth+1)
			}
		case *ssa.Parameter:
			if b, ok := w.bind[x]; ok {
				walk(b, depth+1)
			} else if arg := c11UniqueArg(x); arg != nil {
				walk(arg, depth+1)
			}
		case *ssa.TypeAssert:
			walk(x.X, depth+1)
		}
	}
	walk(e, 0)
	// the same source reached through several spellings (parameter and its argument) counts once
	var uniq []ssa.Value
	for _, s := range srcs {
		dup := false
		for _, u := range uniq {
			if u == s {
				dup = true
			}
		}
		if !dup {
			uniq = append(uniq, s)
		}
	}
	switch {
	case len(uniq) == 1 && !old:
		return w.seq(uniq[0], d+1)
	case len(uniq) == 0 && old:
		return c11Alts{{c11SeqOld}}
	}
	return c11AltUnknown
}

type c11K5Side struct {
	oldNew, newOld, unknown bool
	pos                     token.Pos
	n                       int
}

func (s *c11K5Side) add(alts c11Alts, pos token.Pos) {
	known := false
	for _, alt := range alts {
		firstOld, firstNew := -1, -1
		for i, k := range alt {
			switch k {
			case c11SeqOld:
				known = true
				if firstOld < 0 {
					firstOld = i
				}
				if firstNew >= 0 {
					s.newOld = true
				}
			case c11SeqNew:
				known = true
				if firstNew < 0 {
					firstNew = i
				}
				if firstOld >= 0 {
					s.oldNew = true
				}
			case c11SeqUnknown:
				s.unknown = true
			}
		}
	}
	if known {
		s.n++
		if s.pos == token.NoPos {
			s.pos = pos
		}
	}
}

func c11K5(c *rt.Ctx) {
	pkg := c.SSAPkg("dkg")
	if pkg == nil {
		c.Bail("package dkg not loaded")
	}
	var lock, keys c11K5Side
	type sink struct {
		v   ssa.Value
		pos token.Pos
	}
	var lockSinks, keySinks []sink
	for _, fn := range an.PkgFuncs(pkg) {
		if tpTestHelper(fn) || strings.HasSuffix(c.P.Fset.Position(fn.Pos()).Filename, "_test.go") {
			continue
		}
		for _, in := range an.Instrs(fn, false) {
			switch x := in.(type) {
			case *ssa.Store:
				if fa, ok := x.Addr.(*ssa.FieldAddr); ok && an.FieldKey(fa.X.Type(), fa.Field) == "cluster.Lock.Validators" {
					lockSinks = append(lockSinks, sink{x.Val, x.Pos()})
				}
			case ssa.CallInstruction:
				cc := x.Common()
				if callee := cc.StaticCallee(); callee != nil && an.Orig(callee).Pkg == pkg && len(callee.Blocks) > 0 {
					continue // followed through the parameter
				}
				if strings.HasPrefix(an.CalleeName(cc), "builtin:") || strings.HasPrefix(an.CalleeName(cc), "slices.") {
					continue
				}
				for _, a := range cc.Args {
					if sl, ok := a.Type().Underlying().(*types.Slice); ok && an.TypeName(sl.Elem()) == "tbls.PrivateKey" {
						if _, isPtr := sl.Elem().(*types.Pointer); !isPtr {
							keySinks = append(keySinks, sink{a, x.Pos()})
						}
					}
				}
			}
		}
	}
	sort.Slice(lockSinks, func(i, j int) bool { return lockSinks[i].pos < lockSinks[j].pos })
	sort.Slice(keySinks, func(i, j int) bool { return keySinks[i].pos < keySinks[j].pos })
	for _, s := range lockSinks {
		w := &c11SeqW{visiting: map[ssa.Value]bool{}, bind: map[*ssa.Parameter]ssa.Value{}}
		lock.add(w.seq(s.v, 0), s.pos)
	}
	for _, s := range keySinks {
		w := &c11SeqW{visiting: map[ssa.Value]bool{}, bind: map[*ssa.Parameter]ssa.Value{}}
		if c11Debug {
			println("C11K5 key sink", c.P.Pos(s.pos), s.v.String(), s.v.Name())
			for _, alt := range w.seq(s.v, 0) {
				println("   alt", c11AltKey(alt))
			}
		}
		keys.add(w.seq(s.v, 0), s.pos)
	}
	const (
		lk = "cluster.Lock.Validators: order of existing and new validators"
		kk = "persisted secret shares: order of existing and new validators"
		ck = "keystore-i belongs to lock.Validators[i]: the lock and the keystore writer order existing and new validators the same way"
	)
	side := func(k string, s *c11K5Side, nSinks int, what string) bool {
		switch {
		case nSinks == 0:
			c.Unsure(k, token.NoPos, "no "+what+" found in package dkg")
		case s.n == 0:
			c.Unsure(k, s.pos, "the origin (existing cluster / this ceremony) of no "+what+" could be followed")
		case s.oldNew && s.newOld:
			c.Unsure(k, s.pos, "existing and new validators are joined in both orders")
		case !s.oldNew && !s.newOld && s.unknown:
			c.Unsure(k, s.pos, "cannot tell in which order existing and new validators are joined")
		default:
			c.Good(k, s.pos, "")
			return true
		}
		return false
	}
	okL := side(lk, &lock, len(lockSinks), "store into cluster.Lock.Validators")
	okK := side(kk, &keys, len(keySinks), "sequence of secret shares handed to a keystore writer")
	if !okL || !okK {
		return
	}
	switch {
	case (lock.oldNew && keys.newOld) || (lock.newOld && keys.oldNew):
		a, b := "existing validators first", "new validators first"
		if lock.newOld {
			a, b = b, a
		}
		c.Bad(ck, keys.pos, "the cluster lock lists "+a+" (store at "+c.P.Pos(lock.pos)+") but the secret shares are written "+b+": on every node keystore-i holds the share of another validator than lock.Validators[i]")
	case lock.oldNew == keys.oldNew && lock.newOld == keys.newOld:
		c.Good(ck, keys.pos, "")
	default:
		// one side joins both origins, the other writes one origin only (keymanager import, unverified append)
		c.Good(ck, keys.pos, "only one side joins existing and new validators")
	}
}
