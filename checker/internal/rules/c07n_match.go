package rules

// P3 (matcher part): the set returned with ok=true by the threshold matcher is one message-root group of
// exactly `threshold` members of the stored list. Decided per (set, ok) pair that can reach a return: a
// single-exit function (`return matching, found, err` over variables) is expanded along the edges of the
// phis, and results handed on from in-package callees are decided in the callee with its parameters bound
// to the arguments (frames), whatever the callee is given (the list, the grouping map, the threshold).

import (
	"go/token"

	"golang.org/x/tools/go/ssa"

	"charonverif/internal/an"
)

// c07loc is the place where a (set, ok) pair is chosen: a block, and for a pair chosen by the edge of a
// phi the block holding the phi.
type c07loc struct {
	blk    *ssa.BasicBlock
	phiBlk *ssa.BasicBlock
	pos    token.Pos
}

// edgeHolds: every way to the location runs over the edge of cd on which its base comparison has truth base.
func (l c07loc) edgeHolds(cd an.Cond, base bool) bool {
	if an.H07CondEdgeDominates(cd, base, l.blk) {
		return true
	}
	return l.phiBlk != nil && cd.If.Block() == l.blk && cd.Succ(base) == l.phiBlk && cd.Succ(!base) != l.phiBlk
}

type c07pair struct {
	set, ok ssa.Value
	loc     c07loc
}

// expandPairs splits (set, ok) along the edges of phis in one block.
func c07expandPairs(set, ok ssa.Value, loc c07loc, seen map[ssa.Value]bool, depth int) []c07pair {
	set, ok = an.Resolve(set), an.Resolve(ok)
	if b, isC := c07constBool(ok); isC && !b {
		return nil
	}
	okPhi, _ := ok.(*ssa.Phi)
	setPhi, _ := set.(*ssa.Phi)
	if depth > 8 || (okPhi == nil && setPhi == nil) {
		return []c07pair{{set, ok, loc}}
	}
	var blk *ssa.BasicBlock
	if okPhi != nil {
		blk = okPhi.Block()
		if seen[okPhi] {
			return nil
		}
		seen[okPhi] = true
		defer delete(seen, okPhi)
	} else {
		blk = setPhi.Block()
		if seen[setPhi] {
			return nil
		}
		seen[setPhi] = true
		defer delete(seen, setPhi)
	}
	var out []c07pair
	for i, pred := range blk.Preds {
		s, o := set, ok
		if okPhi != nil && i < len(okPhi.Edges) {
			o = okPhi.Edges[i]
		}
		if setPhi != nil && setPhi.Block() == blk && i < len(setPhi.Edges) {
			s = setPhi.Edges[i]
		}
		out = append(out, c07expandPairs(s, o, c07loc{blk: pred, phiBlk: blk, pos: loc.pos}, seen, depth+1)...)
	}
	return out
}

type c07matcher struct {
	k                *c07k
	typP, sigsP, thr *ssa.Parameter
	dutySig          int64
	nTrue            int
	sel              bool // P11 mode: decide WHICH group is returned (see c07n4_rules.go) instead of size and grouping
	nSel             int
}

func (m *c07matcher) isRoot(fr *c07frame, v ssa.Value, p *ssa.Parameter) bool {
	if v == nil || p == nil {
		return false
	}
	r, _ := fr.root(v)
	return r == ssa.Value(p)
}

// onSigEdge: the location is only reached for DutySignature (here or at one of the entering calls).
func (m *c07matcher) onSigEdge(fr *c07frame, loc c07loc) (on, tested bool) {
	for ; fr != nil; fr = fr.up {
		var cands []ssa.Value
		for _, p := range fr.fn.Params {
			if m.isRoot(fr, p, m.typP) {
				cands = append(cands, p)
			}
		}
		for _, c := range cands {
			for _, cd := range an.CondsOn(fr.fn, c) {
				if n, ok := an.ConstInt(cd.Other); !ok || n != m.dutySig {
					continue
				}
				tested = true
				if (cd.Op == token.EQL && loc.edgeHolds(cd, true)) || (cd.Op == token.NEQ && loc.edgeHolds(cd, false)) {
					return true, true
				}
			}
		}
		if fr.call != nil {
			loc = c07loc{blk: fr.call.Block(), pos: fr.call.Pos()}
		}
	}
	return false, tested
}

// run decides results si (the set) and bi (ok) of the returns of frame fr.
func (m *c07matcher) run(fr *c07frame, si, bi int) {
	k := m.k
	f := fr.fn
	isThr := func(v ssa.Value) bool { return m.isRoot(fr, v, m.thr) }
	lenEq := func(b, set ssa.Value) bool {
		bin, ok := an.Resolve(b).(*ssa.BinOp)
		if !ok || bin.Op != token.EQL {
			return false
		}
		l, o := bin.X, bin.Y
		if an.H07IsLen(l) == nil {
			l, o = bin.Y, bin.X
		}
		x := an.H07IsLen(l)
		return x != nil && an.Resolve(x) == an.Resolve(set) && isThr(o)
	}
	sizeGuard := func(loc c07loc, set ssa.Value) c07v {
		seen := false
		lens := an.H07Lens(f, set)
		// `len(groups[root]) == threshold ... return groups[root]`: another lookup of the same group
		if lk := c07lookupOf(set); lk != nil {
			for _, in := range an.Instrs(f, false) {
				call, ok := in.(*ssa.Call)
				if !ok {
					continue
				}
				x := an.H07IsLen(call)
				if x == nil {
					continue
				}
				if l2 := c07lookupOf(x); l2 != nil && l2 != lk && an.Resolve(l2.X) == an.Resolve(lk.X) &&
					(an.Resolve(l2.Index) == an.Resolve(lk.Index) || an.Equiv(l2.Index, lk.Index)) {
					lens = append(lens, call)
				}
			}
		}
		for _, lc := range lens {
			for _, cd := range an.CondsOn(f, lc) {
				if !isThr(cd.Other) {
					continue
				}
				seen = true
				if (cd.Op == token.EQL && loc.edgeHolds(cd, true)) || (cd.Op == token.NEQ && loc.edgeHolds(cd, false)) {
					return c07Ok()
				}
			}
		}
		if !seen && set.Referrers() != nil {
			for _, ref := range *set.Referrers() {
				if ci, ok := ref.(ssa.CallInstruction); ok && k.ix.Callee(ci.Common()) != nil {
					return c07Unsure("the size of the returned group is tested by a callee")
				}
			}
		}
		if !seen {
			// a size test against the threshold guards the location, on a list that is not recognised as the returned one
			for _, b := range f.Blocks {
				iff, ok := b.Instrs[len(b.Instrs)-1].(*ssa.If)
				if !ok {
					continue
				}
				for _, in := range an.Instrs(f, false) {
					call, isCall := in.(*ssa.Call)
					if !isCall || an.H07IsLen(call) == nil || m.isRoot(fr, an.H07IsLen(call), m.sigsP) {
						continue
					}
					for _, cd := range an.CondsOn(f, call) {
						if cd.If == iff && isThr(cd.Other) &&
							((cd.Op == token.EQL && loc.edgeHolds(cd, true)) || (cd.Op == token.NEQ && loc.edgeHolds(cd, false))) {
							return c07Unsure("the size test that guards the returned group is on a list that is not recognised as that group")
						}
					}
				}
			}
		}
		return c07Bad("returned group is not guarded by len(group) == threshold (parameter)")
	}
	for _, r := range an.Returns(f) {
		rv := returnValues(r)
		if si >= len(rv) || bi >= len(rv) {
			continue
		}
		for _, pr := range c07expandPairs(rv[si], rv[bi], c07loc{blk: r.Block(), pos: posOf(r)}, map[ssa.Value]bool{}, 0) {
			okc, isConst := c07constBool(pr.ok)
			if isConst && !okc {
				continue
			}
			// the results of an in-package callee handed on unchanged: decide the callee
			if c0, i0, ok0 := c07resultOf(pr.set); ok0 && !isConst {
				if c1, i1, ok1 := c07resultOf(pr.ok); ok1 && c0 == c1 {
					if h := k.ix.Callee(&c0.Call); h != nil && fr.depth() < 3 {
						m.run(&c07frame{fn: h, call: c0, up: fr}, i0, i1)
						continue
					}
				}
			}
			m.nTrue++
			set := pr.set
			size := c07Ok()
			switch {
			case isConst:
				size = sizeGuard(pr.loc, set)
			case lenEq(pr.ok, set):
			default:
				size = c07Unsure("ok is neither a constant nor `len(set) == threshold` over the returned list")
				if bin, isBin := an.Resolve(pr.ok).(*ssa.BinOp); isBin && (an.H07IsLen(bin.X) != nil || an.H07IsLen(bin.Y) != nil) {
					size = c07Bad("ok is not `len(sigs) == threshold` over the returned list")
				}
			}
			// the group is one message-root group of the stored list (the whole list only for DutySignature)
			prov := c07Ok()
			var mapv ssa.Value
			sv, sfr := fr.root(set)
			switch x := sv.(type) {
			case *ssa.Extract:
				if nx, ok := x.Tuple.(*ssa.Next); ok && x.Index == 2 {
					if rg, ok := nx.Iter.(*ssa.Range); ok && an.IsMapType(rg.X.Type()) {
						mapv = rg.X
					}
				}
			case *ssa.Lookup:
				if an.IsMapType(x.X.Type()) {
					mapv = x.X
				}
			}
			if lk := c07lookupOf(sv); lk != nil && mapv == nil && an.IsMapType(lk.X.Type()) {
				mapv = lk.X // `group, found := groups[root]`
			}
			whole := sv == ssa.Value(m.sigsP)
			switch {
			case whole:
				if on, tested := m.onSigEdge(fr, pr.loc); !on {
					prov = c07Bad("set returned with ok=true is the whole stored list, not a value of the message-root grouping map (allowed for DutySignature only)")
					if m.typP != nil && !tested {
						prov = c07Unsure("the whole stored list is returned and the test for DutySignature is not recognised")
					}
				}
			case mapv != nil:
				mv, mfr := sfr.root(mapv)
				prov = k.grouping(mfr.fn, mv, func(v ssa.Value) bool { return m.isRoot(mfr, v, m.sigsP) }, 0)
			case an.IsNilConst(sv):
				prov = c07Bad("nil set returned with ok possibly true")
			default:
				prov = c07Unsure("origin of the set returned with ok=true is not recognised")
			}
			if m.sel {
				if !whole {
					m.nSel++
					k.report("getThresholdMatching returns the group of the partial just stored", pr.loc.pos, m.selection(fr, sfr, sv, pr.loc))
				}
				continue
			}
			if whole {
				k.report("getThresholdMatching DutySignature shortcut", pr.loc.pos, size.and(prov))
			} else {
				k.report("getThresholdMatching true-return size", pr.loc.pos, size)
				k.report("getThresholdMatching grouping by MessageRoot", pr.loc.pos, prov)
			}
		}
	}
}
