package rules

// Round 5 rule of C07.
//
// P15 (necessary for "other validators in the same batch [do not] prevent ... the trigger for a validator that
// has reached threshold", and for "duplicates are ignored"): the loop that stores the entries of a batch visits
// EVERY entry of the set. The only way out of that loop before the collection is exhausted is an error exit: on
// every path from the start of an iteration to an edge that leaves the loop (break, return, goto) an error is
// positively non-nil. A path that leaves the loop although every error produced in the iteration was tested nil
// (the entry was a duplicate, the matcher said "not yet", the validator reached threshold …) drops the entries
// iterated after it: they are neither stored nor evaluated against the threshold, so the validator whose
// threshold-th matching partial is among them never has aggregation triggered.
//
// The batch loop is found by what it does, not by where it is: every loop (of any function of the package)
// around an instruction that performs the accepted insertion into entries - the growing append itself or a
// static call of an in-package function (helper, method, closure) that transitively performs it. The paths are
// enumerated inside the loop body with the branch conditions kept as facts (c07pf), phis resolved along the
// path, so flag variables (`failed = true … if failed { break }`) are followed. A stop flag computed by an
// in-package helper is summarised (true only on paths on which an error is non-nil). Exits decided by a
// condition that is not recognised end UNDECIDED.

import (
	"go/token"
	"go/types"
	"strings"

	"golang.org/x/tools/go/ssa"

	"charonverif/internal/an"
	"charonverif/internal/rt"
)

func init() {
	Extend("C07", "(P15) the loop that stores the entries of a batch visits every entry: it is left before the set is exhausted only on a path on which an error is non-nil (a duplicate or any other non-error outcome never leaves the loop).",
		c07round5,
		Mutant{ID: "C07-P15-break-on-duplicate", File: "core/parsigdb/memory.go", Expect: "P15",
			Old: "\t\t\tlog.Debug(ctx, \"Ignoring duplicate partial signature\")\n\n\t\t\tcontinue\n",
			New: "\t\t\tlog.Debug(ctx, \"Ignoring duplicate partial signature\")\n\n\t\t\tbreak\n"},
		Mutant{ID: "C07-P15-return-below-threshold", File: "core/parsigdb/memory.go", Expect: "P15",
			Old: "\t\t\tstoreErr = err\n\t\t\tbreak\n\t\t} else if !ok {\n\t\t\tcontinue\n\t\t}\n\n\t\toutput[pubkey] = psigs\n",
			New: "\t\t\tstoreErr = err\n\t\t\tbreak\n\t\t} else if !ok {\n\t\t\treturn nil\n\t\t}\n\n\t\toutput[pubkey] = psigs\n"},
		Mutant{ID: "C07-P15-stop-after-first-trigger", File: "core/parsigdb/memory.go", Expect: "P15",
			Old: "\t\toutput[pubkey] = psigs\n\t}\n",
			New: "\t\toutput[pubkey] = psigs\n\n\t\tbreak\n\t}\n"},
	)
}

func c07round5(c *rt.Ctx) {
	k := newC07k(c)
	c.Rule("P15", 1, func() {
		if k.batchLoops() == 0 {
			c.Bail("no loop around the insertion into entries (direct or through a static in-package call) found: the loop over the batch is not recognised")
		}
	})
}

// storesEntry: the instruction performs the accepted insertion into entries (directly or in a callee).
func (k *c07k) storesEntry(in ssa.Instruction) bool {
	switch x := in.(type) {
	case *ssa.MapUpdate:
		if !c07entries(x.Map) {
			return false
		}
		_, _, grow := c07growAppend(x, c07entries)
		return grow
	case *ssa.Call:
		g := k.ix.Callee(&x.Call)
		return g != nil && k.growsEntries(g)
	}
	return false
}

// batchLoops decides P15 for every loop around a storing instruction; returns the number of loops decided.
func (k *c07k) batchLoops() int {
	n := 0
	for _, fn := range k.ix.Funcs {
		seen := map[*ssa.BasicBlock]bool{}
		for _, in := range an.Instrs(fn, false) {
			if !k.storesEntry(in) {
				continue
			}
			for _, l := range an.LoopsContaining(fn, in.Block()) {
				if seen[l.Header] {
					continue
				}
				seen[l.Header] = true
				n++
				name := an.FuncName(fn)
				name = name[strings.LastIndex(name, ".")+1:]
				pos := in.Pos()
				if !pos.IsValid() {
					pos = posOf(in)
				}
				k.report(name+" batch loop: every entry visited (early exit only on error)", pos, k.onlyErrorExits(fn, l))
			}
		}
	}
	return n
}

// c07errFacts: what the facts of a path say about errors.
func c07errFacts(f *c07pf) (nonNil, isNil int) {
	for v, n := range f.isNil {
		if v == nil || !an.IsErrorType(v.Type()) {
			continue
		}
		if n {
			isNil++
		} else {
			nonNil++
		}
	}
	return
}

// onlyErrorExits: every path from the start of an iteration of l to an edge that leaves l (other than the
// exhaustion edge of the header) has passed a positive test of an error.
func (k *c07k) onlyErrorExits(fn *ssa.Function, l *an.Loop) c07v {
	out := c07Ok()
	const limit = 4096
	visits, complete := 0, true
	on := map[*ssa.BasicBlock]bool{l.Header: true}
	path := []*ssa.BasicBlock{l.Header}
	branches := 0 // two-way branches passed inside the body
	var walk func(from *ssa.BasicBlock, si int, f *c07pf)
	walk = func(from *ssa.BasicBlock, si int, f *c07pf) {
		if visits >= limit {
			complete = false
			return
		}
		b := from.Succs[si]
		if b == l.Header || on[b] {
			return // the next iteration / a cycle of an inner loop
		}
		g := &c07pf{phi: map[*ssa.Phi]ssa.Value{}, truth: map[ssa.Value]bool{}, isNil: map[ssa.Value]bool{}}
		for p, v := range f.phi {
			g.phi[p] = v
		}
		for p, v := range f.truth {
			g.truth[p] = v
		}
		for p, v := range f.isNil {
			g.isNil[p] = v
		}
		twoWay := false
		if iff, ok := from.Instrs[len(from.Instrs)-1].(*ssa.If); ok && len(from.Succs) == 2 && from.Succs[0] != from.Succs[1] {
			if val, known := f.evalBool(iff.Cond, 0); known && val != (si == 0) {
				return // contradicts what the path has established
			}
			g.learn(iff.Cond, si == 0, 0)
			k.learnStopFlag(g, iff.Cond, si == 0)
			twoWay = from != l.Header
		}
		vals := map[*ssa.Phi]ssa.Value{}
		for _, in := range b.Instrs {
			p, isPhi := in.(*ssa.Phi)
			if !isPhi {
				break
			}
			for j, q := range b.Preds {
				if q == from && j < len(p.Edges) {
					vals[p] = g.res(p.Edges[j])
					break
				}
			}
		}
		for p, v := range vals {
			g.phi[p] = v
		}
		if twoWay {
			branches++
		}
		path = append(path, b)
		if !l.Body[b] {
			visits++
			out = out.and(k.judgeBatchExit(g, path, b, branches))
		} else {
			on[b] = true
			for i := range b.Succs {
				walk(b, i, g)
			}
			on[b] = false
		}
		path = path[:len(path)-1]
		if twoWay {
			branches--
		}
	}
	entered := false
	for i, s := range l.Header.Succs {
		if !l.Body[s] || s == l.Header {
			continue
		}
		entered = true
		walk(l.Header, i, &c07pf{phi: map[*ssa.Phi]ssa.Value{}, truth: map[ssa.Value]bool{}, isNil: map[ssa.Value]bool{}})
	}
	if !entered {
		return c07Unsure("the body of the loop around the insertion is not entered from its header")
	}
	if !complete {
		out = out.and(c07Unsure("too many paths through the loop over the batch"))
	}
	return out
}

// judgeBatchExit judges one path from the start of an iteration to the first block outside the loop.
func (k *c07k) judgeBatchExit(f *c07pf, path []*ssa.BasicBlock, exit *ssa.BasicBlock, branches int) c07v {
	nonNil, isNil := c07errFacts(f)
	if nonNil > 0 {
		return c07Ok()
	}
	// `return errors.New(…)` straight from the loop
	if r := c07returnBehind(exit); r != nil {
		for _, v := range returnValues(r) {
			if !an.IsErrorType(v.Type()) {
				continue
			}
			if n, known := f.evalNil(v, 0); known && !n {
				return c07Ok()
			}
		}
	}
	const lost = ": the entries of the set iterated after it are neither stored nor evaluated against the threshold, so a validator whose threshold-th matching partial is among them never has aggregation triggered"
	switch {
	case isNil > 0:
		return c07Bad("the loop over the batch is left on a path on which every error tested is nil (a duplicate / non-error outcome of the entry), path " + an.PathString(k.c.P, path) + lost)
	case branches == 0:
		return c07Bad("the loop over the batch is left unconditionally in its first iteration, path " + an.PathString(k.c.P, path) + lost)
	}
	return c07Unsure("the loop over the batch is left early under a condition that is not recognisably an error, path " + an.PathString(k.c.P, path))
}

// c07returnBehind: the return reached from b through unconditional jumps (nil if none).
func c07returnBehind(b *ssa.BasicBlock) *ssa.Return {
	for i := 0; i < 8 && b != nil && len(b.Instrs) > 0; i++ {
		switch x := b.Instrs[len(b.Instrs)-1].(type) {
		case *ssa.Return:
			return x
		case *ssa.Jump:
			b = b.Succs[0]
		default:
			return nil
		}
	}
	return nil
}

// learnStopFlag: the branch condition is (the negation of) a boolean result of an in-package function that
// is true only on paths on which an error is non-nil (`stop := db.storeOne(…); if stop { break }`): taking
// its true side establishes an error. Recorded as a non-nil fact on the call value's error stand-in.
func (k *c07k) learnStopFlag(f *c07pf, cond ssa.Value, val bool) {
	v := f.res(cond)
	for i := 0; i < 4; i++ {
		u, ok := v.(*ssa.UnOp)
		if !ok || u.Op != token.NOT {
			break
		}
		v, val = f.res(u.X), !val
	}
	if !val {
		return
	}
	call, idx, ok := c07resultOf(v)
	if !ok {
		return
	}
	g := k.ix.Callee(&call.Call)
	if g == nil {
		return
	}
	switch k.stopFlagOf(g, idx) {
	case 1:
		f.isNil[c07errWitness] = false
	case 2:
		f.isNil[c07okWitness] = true
	}
}

// c07errWitness stands for "an error occurred" established through a summarised stop flag, c07okWitness for
// "the helper reports true on a path on which every error tested is nil" (they carry the error type so that
// c07errFacts counts them).
var (
	c07errWitness ssa.Value = ssa.NewConst(nil, types.Universe.Lookup("error").Type())
	c07okWitness  ssa.Value = ssa.NewConst(nil, types.Universe.Lookup("error").Type())
)

// stopFlagOf summarises result idx (a bool) of g: 1 = true only on paths of g on which an error is non-nil;
// 2 = positively true on a path on which errors were tested and all are nil; 3 = not decided.
func (k *c07k) stopFlagOf(g *ssa.Function, idx int) int {
	key := an.FuncName(g) + "|stop|" + string(rune('0'+idx))
	if st, done := k.mustCall[key]; done {
		if st == 0 {
			return 3
		}
		return st
	}
	k.mustCall[key] = 0
	good, positive, n := true, false, 0
	for _, r := range an.Returns(g) {
		rv := returnValues(r)
		if idx >= len(rv) {
			good = false
			break
		}
		if b, isConst := c07constBool(rv[idx]); isConst && !b {
			continue
		}
		judge := func(f *c07pf, _ []*ssa.BasicBlock) {
			b, known := f.evalBool(rv[idx], 0)
			if known && !b {
				return
			}
			// `return err != nil`: true exactly when the error is non-nil
			if bin, isBin := f.res(rv[idx]).(*ssa.BinOp); isBin && bin.Op == token.NEQ {
				x, y := f.res(bin.X), f.res(bin.Y)
				if an.IsNilConst(x) {
					x, y = y, x
				}
				if an.IsNilConst(y) && an.IsErrorType(x.Type()) {
					n++
					return
				}
			}
			n++
			nonNil, isNil := c07errFacts(f)
			if nonNil == 0 {
				good = false
				if known && isNil > 0 {
					positive = true
				}
			}
		}
		entry := g.Blocks[0]
		if r.Block() == entry {
			good = false // true without any test
			break
		}
		for si := range entry.Succs {
			if _, complete := c07pathsFromEdge(entry, si, r.Block(), judge); !complete {
				good = false
			}
		}
	}
	st := 3
	switch {
	case good && n > 0:
		st = 1
	case positive:
		st = 2
	}
	k.mustCall[key] = st
	return st
}
