package rules

import (
	"fmt"
	"go/token"
	"sort"
	"strings"

	"golang.org/x/tools/go/ssa"
	"golang.org/x/tools/go/ssa/ssautil"

	"charonverif/internal/an"
	"charonverif/internal/rt"
)

// c06LockRule is lockRule (common.go) extended for function values: a function literal or a method value that touches
// guarded state may be handed to an in-package helper that only calls it synchronously (`storeEach(set, fn)`); the
// lock it needs is then checked at the call of that helper (held there, or an entry requirement of the caller that
// the lockset analysis already enforces on every call site of the caller).
func c06LockRule(c *rt.Ctx, pkgs []string, table an.LockTable) {
	var funcs []*ssa.Function
	for _, p := range pkgs {
		funcs = append(funcs, an.PkgFuncs(c.SSAPkg(p))...)
	}
	ls := &an.Lockset{Table: table, Funcs: funcs}
	ls.Run()
	// lock()/unlock() style wrappers: a function that returns holding a mutex it took, or releases one it did not take.
	// The lockset analysis only knows sync.(RW)Mutex calls, so with such wrappers "not held" proves nothing: every
	// violation below is downgraded to undecided.
	wrapper := ""
	for _, f := range funcs {
		// a deferred unlock (directly or inside a deferred literal) releases at the return
		deferredUnlock := false
		for _, in := range an.Instrs(f, false) {
			d, ok := in.(*ssa.Defer)
			if !ok {
				continue
			}
			if _, acq, isLock := an.H06LockOp(&d.Call); isLock && !acq {
				deferredUnlock = true
			}
			if mc, ok := d.Call.Value.(*ssa.MakeClosure); ok {
				for _, cin := range an.Instrs(mc.Fn.(*ssa.Function), true) {
					if ci, ok := cin.(ssa.CallInstruction); ok {
						if _, acq, isLock := an.H06LockOp(ci.Common()); isLock && !acq {
							deferredUnlock = true
						}
					}
				}
			}
		}
		for _, in := range an.Instrs(f, false) {
			switch x := in.(type) {
			case *ssa.Return:
				if !deferredUnlock && len(an.H06HeldAt(x)) > 0 && wrapper == "" {
					wrapper = an.FuncName(f) + " returns holding a mutex"
				}
			case *ssa.Call:
				if p, acq, isLock := an.H06LockOp(&x.Call); isLock && !acq && an.H06HeldAt(x)[p] == 0 && wrapper == "" {
					wrapper = an.FuncName(f) + " releases a mutex it did not acquire"
				}
			}
		}
	}
	bad := func(k string, pos token.Pos, detail string) {
		if wrapper != "" {
			c.Unsure(k, pos, "lock wrapper in the package ("+wrapper+"): the lockset analysis cannot see through it; would be: "+detail)
			return
		}
		c.Bad(k, pos, detail)
	}
	type agg struct {
		pos    token.Pos
		n      int
		bad    string
		unsure string
	}
	groups := map[string]*agg{}
	var order []string
	seenField := map[string]bool{}
	for _, f := range ls.Findings {
		seenField[f.Field] = true
		mode := "read"
		if f.Write {
			mode = "write"
		}
		k := fmt.Sprintf("%s %s %s", an.FuncName(f.Fn), f.Field, mode)
		g := groups[k]
		if g == nil {
			g = &agg{pos: f.Instr.Pos()}
			groups[k] = g
			order = append(order, k)
		}
		g.n++
		if f.Unsure && g.unsure == "" {
			g.unsure = f.Detail
			g.pos = f.Instr.Pos()
		} else if !f.OK && !f.Unsure && g.bad == "" {
			g.bad = f.Detail
			g.pos = f.Instr.Pos()
		}
	}
	sort.Strings(order)
	for _, k := range order {
		g := groups[k]
		switch {
		case g.bad != "":
			bad(k, g.pos, g.bad)
		case g.unsure != "":
			c.Unsure(k, g.pos, g.unsure)
		default:
			c.Good(k, g.pos, fmt.Sprintf("%d access(es) under the guarding mutex", g.n))
		}
	}
	nPairs, splits := ls.AtomicRMW()
	for _, sp := range splits {
		k := fmt.Sprintf("%s %s read→write atomic", an.FuncName(sp.Fn), sp.Field)
		bad(k, sp.Unlock.Pos(), "the mutex is released between reading "+sp.Field+" and writing it: the write acts on a stale read (two concurrent callers both pass the check)")
	}
	if nPairs > 0 && len(splits) == 0 {
		c.Good("read→write sequences of guarded fields are atomic", token.NoPos, fmt.Sprintf("%d function/field pairs, no unlock between a read and a dependent write", nPairs))
	}

	inSet := map[*ssa.Function]bool{}
	for _, f := range funcs {
		inSet[f] = true
	}
	reqs := ls.EntryRequirements()
	var rfns []*ssa.Function
	for fn := range reqs {
		rfns = append(rfns, fn)
	}
	sort.Slice(rfns, func(i, j int) bool { return an.FuncName(rfns[i]) < an.FuncName(rfns[j]) })

	// fnValueUse decides one use of a function value (MakeClosure mc of a literal, or of the bound wrapper of a
	// method): a direct call (checked by the lockset analysis) or an argument of a static in-package call whose
	// callee only invokes that parameter synchronously and never touches a mutex, with the needed lock held at the
	// call (or required by the calling function on its own entry). rootToBinding maps a requirement root to the value.
	type verdict int
	const (
		vGood verdict = iota
		vUnsure
	)
	// invocations returns the calls of parameter #idx inside g if that is all g does with it (no goroutines in g);
	// locking reports whether g itself operates a mutex.
	invocations := func(g *ssa.Function, idx int) (calls []*ssa.Call, locking bool, ok bool) {
		if g == nil || g.Blocks == nil || idx >= len(g.Params) {
			return nil, false, false
		}
		p := g.Params[idx]
		for _, ref := range *p.Referrers() {
			switch r := ref.(type) {
			case *ssa.Call:
				if r.Call.Value != ssa.Value(p) {
					return nil, false, false
				}
				calls = append(calls, r)
			case *ssa.DebugRef:
			default:
				return nil, false, false
			}
		}
		for _, in := range an.Instrs(g, true) {
			if ci, ok := in.(ssa.CallInstruction); ok {
				if _, _, isLock := an.H06LockOp(ci.Common()); isLock {
					locking = true
				}
			}
			if _, isGo := in.(*ssa.Go); isGo {
				return nil, false, false
			}
		}
		return calls, locking, len(calls) > 0
	}
	checkValue := func(mc *ssa.MakeClosure, target *ssa.Function, binding func(root string) ssa.Value) (verdict, string) {
		caller := mc.Parent()
		for _, ref := range *mc.Referrers() {
			if _, isDbg := ref.(*ssa.DebugRef); isDbg {
				continue
			}
			ci, isCall := ref.(ssa.CallInstruction)
			if !isCall {
				return vUnsure, "function value touching guarded state is stored or returned"
			}
			if _, isGo := ref.(*ssa.Go); isGo {
				return vUnsure, "function value touching guarded state is started as a goroutine"
			}
			if ci.Common().Value == ssa.Value(mc) {
				continue // direct call: checked at the call site by the lockset analysis
			}
			callee := ci.Common().StaticCallee()
			if callee == nil || !inSet[an.Orig(callee)] && an.Orig(callee).Pkg != caller.Pkg {
				return vUnsure, "function value touching guarded state is passed to a function outside the package"
			}
			idx := -1
			for i, a := range ci.Common().Args {
				if a == ssa.Value(mc) {
					if idx >= 0 {
						return vUnsure, "function value passed twice"
					}
					idx = i
				}
			}
			if idx < 0 {
				return vUnsure, "function value touching guarded state is passed in an unexpected position"
			}
			invs, locking, ok := invocations(callee, idx)
			if !ok {
				return vUnsure, "function value touching guarded state is passed to " + an.FuncName(callee) + ", which does more than calling it synchronously"
			}
			held := an.H06HeldAt(ci)
			if locking {
				// the helper takes the lock itself (`withLock(fn)`): what it holds at every invocation of fn, renamed from
				// its parameters to the arguments of this call
				held = nil
				for _, inv := range invs {
					h := map[string]int{}
					for path, mode := range an.H06HeldAt(inv) {
						root, rest := path, ""
						if i := strings.Index(path, "."); i >= 0 {
							root, rest = path[:i], path[i:]
						}
						var k int
						if n, err := fmt.Sscanf(root, "p%d", &k); err != nil || n != 1 || k >= len(ci.Common().Args) {
							continue
						}
						h[an.H06AccessPath(ci.Common().Args[k])+rest] = mode
					}
					if held == nil {
						held = h
					} else {
						for k, v := range held {
							if h[k] < v {
								held[k] = h[k]
							}
						}
					}
				}
			}
			for _, r := range ls.H06Reqs(target) {
				root := r.Path
				rest := ""
				if i := strings.Index(root, "."); i >= 0 {
					root, rest = r.Path[:i], r.Path[i:]
				}
				b := binding(root)
				if b == nil {
					return vUnsure, "cannot map the lock requirement " + r.Path + " of " + an.FuncName(target) + " to the place where the function value is created"
				}
				lock := an.H06AccessPath(b) + rest
				if strings.HasPrefix(lock, "?") {
					return vUnsure, "cannot name the mutex needed by " + an.FuncName(target) + " (" + lock + ")"
				}
				need := 1
				if r.Write {
					need = 2
				}
				if held[lock] >= need {
					continue
				}
				// required by the caller on its own entry (enforced at all of the caller's call sites)
				ok := false
				for _, cr := range ls.H06Reqs(caller) {
					if cr.Path == lock && (cr.Write || !r.Write) && !locking {
						ok = true
					}
				}
				if !ok {
					return vUnsure, "cannot show that " + lock + " is held when " + an.FuncName(callee) + " invokes the function value"
				}
			}
		}
		return vGood, ""
	}

	for _, fn := range rfns {
		name := an.FuncName(fn)
		k := "entry-requirement " + name
		if fn.Parent() != nil {
			// literal: every use of its MakeClosure is a direct call / defer, or a synchronous higher-order use
			v, why := vGood, ""
			for _, in := range an.Instrs(fn.Parent(), false) {
				mc, isMC := in.(*ssa.MakeClosure)
				if !isMC || mc.Fn != ssa.Value(fn) {
					continue
				}
				bind := func(root string) ssa.Value {
					for i, fv := range fn.FreeVars {
						if "fv:"+fv.Name() == root && i < len(mc.Bindings) {
							return mc.Bindings[i]
						}
					}
					return nil
				}
				if vv, w := checkValue(mc, fn, bind); vv != vGood {
					v, why = vv, w
				}
			}
			if v == vGood {
				c.Good(k, fn.Pos(), "closure needs "+strings.Join(reqs[fn], ", ")+"; only called directly or by an in-package helper under the lock (call sites checked)")
			} else {
				c.Unsure(k, fn.Pos(), why+"; needs "+strings.Join(reqs[fn], ", "))
			}
			continue
		}
		exported := fn.Object() != nil && fn.Object().Exported()
		if exported && !strings.HasSuffix(fn.Name(), "Unsafe") {
			bad(k, fn.Pos(), "exported entry point touches guarded state without taking the lock: "+strings.Join(reqs[fn], ", "))
			continue
		}
		// used as a value other than through a checked method value?
		taken, why := false, ""
		for _, g := range funcs {
			for _, in := range an.Instrs(g, false) {
				for _, op := range an.Operands(in) {
					if op == ssa.Value(fn) {
						if ci, ok := in.(ssa.CallInstruction); ok && ci.Common().Value == op {
							if _, isGo := in.(*ssa.Go); !isGo {
								continue
							}
						}
						taken, why = true, "function needing a lock on entry is used as a value"
					}
				}
			}
		}
		// method values go through synthetic $bound wrappers: each creation of one must be a checked higher-order use
		wrappers := map[*ssa.Function]bool{}
		for g := range ssautil.AllFunctions(c.P.SSA) {
			if g.Synthetic == "" || g.Blocks == nil {
				continue
			}
			for _, in := range an.Instrs(g, false) {
				if ci, ok := in.(ssa.CallInstruction); ok && an.Orig(ci.Common().StaticCallee()) == fn {
					wrappers[g] = true
				}
			}
		}
		for w := range wrappers {
			found := false
			for _, g := range funcs {
				for _, in := range an.Instrs(g, false) {
					mc, isMC := in.(*ssa.MakeClosure)
					if !isMC || mc.Fn != ssa.Value(w) {
						continue
					}
					found = true
					bind := func(root string) ssa.Value {
						if root == "p0" && len(mc.Bindings) == 1 {
							return mc.Bindings[0] // the bound receiver
						}
						return nil
					}
					if vv, wy := checkValue(mc, fn, bind); vv != vGood {
						taken, why = true, wy
					}
				}
			}
			if !found {
				taken, why = true, "function needing a lock on entry is used as a method value / expression"
			}
		}
		if taken {
			c.Unsure(k, fn.Pos(), why)
			continue
		}
		c.Good(k, fn.Pos(), "internal helper; needs "+strings.Join(reqs[fn], ", ")+" on entry; all static call sites checked")
	}
	var missing []string
	for f := range table {
		if !seenField[f] && !ls.SeenFields[f] {
			missing = append(missing, f)
		}
	}
	sort.Strings(missing)
	for _, f := range missing {
		c.Unsure("table "+f, token.NoPos, "guarded field of the frozen table is never accessed (renamed or removed?)")
	}
}
