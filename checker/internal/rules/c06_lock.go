package rules

import (
	"fmt"
	"go/token"
	"go/types"
	"sort"
	"strings"

	"golang.org/x/tools/go/ssa"
	"golang.org/x/tools/go/ssa/ssautil"

	"charonverif/internal/an"
	"charonverif/internal/rt"
)

// c06LockRule is lockRule (common.go) extended for function values: a function literal or a method value that touches
// guarded state may be handed to an in-package helper that only calls it synchronously (`storeEach(set, fn)`); the
// lock it needs is then checked at the call of that helper (held there, or an entry requirement of the caller that
// the lockset analysis already enforces on every call site of the caller).
func c06LockRule(c *rt.Ctx, pkgs []string, table an.LockTable) {
	var funcs []*ssa.Function
	for _, p := range pkgs {
		funcs = append(funcs, an.PkgFuncs(c.SSAPkg(p))...)
	}
	ls := &an.Lockset{Table: table, Funcs: funcs}
	ls.Run()
	// lock()/unlock() style wrappers: a function that returns holding a mutex it took, or releases one it did not take.
	// The lockset analysis only knows sync.(RW)Mutex calls, so with such wrappers "not held" proves nothing: every
	// violation below is downgraded to undecided.
	wrapper := ""
	for _, f := range funcs {
		// a deferred unlock (directly or inside a deferred literal) releases at the return
		deferredUnlock := false
		for _, in := range an.Instrs(f, false) {
			d, ok := in.(*ssa.Defer)
			if !ok {
				continue
			}
			if _, acq, isLock := an.H06LockOp(&d.Call); isLock && !acq {
				deferredUnlock = true
			}
			if mc, ok := d.Call.Value.(*ssa.MakeClosure); ok {
				for _, cin := range an.Instrs(mc.Fn.(*ssa.Function), true) {
					if ci, ok := cin.(ssa.CallInstruction); ok {
						if _, acq, isLock := an.H06LockOp(ci.Common()); isLock && !acq {
							deferredUnlock = true
						}
					}
				}
			}
		}
		for _, in := range an.Instrs(f, false) {
			switch x := in.(type) {
			case *ssa.Return:
				if !deferredUnlock && len(an.H06HeldAt(x)) > 0 && wrapper == "" {
					wrapper = an.FuncName(f) + " returns holding a mutex"
				}
			case *ssa.Call:
				if p, acq, isLock := an.H06LockOp(&x.Call); isLock && !acq && an.H06HeldAt(x)[p] == 0 && wrapper == "" {
					wrapper = an.FuncName(f) + " releases a mutex it did not acquire"
				}
			}
		}
	}
	bad := func(k string, pos token.Pos, detail string) {
		if wrapper != "" {
			c.Unsure(k, pos, "lock wrapper in the package ("+wrapper+"): the lockset analysis cannot see through it; would be: "+detail)
			return
		}
		c.Bad(k, pos, detail)
	}
	type agg struct {
		pos    token.Pos
		n      int
		bad    string
		unsure string
	}
	groups := map[string]*agg{}
	var order []string
	seenField := map[string]bool{}
	for _, f := range ls.Findings {
		seenField[f.Field] = true
		mode := "read"
		if f.Write {
			mode = "write"
		}
		k := fmt.Sprintf("%s %s %s", an.FuncName(f.Fn), f.Field, mode)
		g := groups[k]
		if g == nil {
			g = &agg{pos: f.Instr.Pos()}
			groups[k] = g
			order = append(order, k)
		}
		g.n++
		if f.Unsure && g.unsure == "" {
			g.unsure = f.Detail
			g.pos = f.Instr.Pos()
		} else if !f.OK && !f.Unsure && g.bad == "" {
			g.bad = f.Detail
			g.pos = f.Instr.Pos()
		}
	}
	sort.Strings(order)
	for _, k := range order {
		g := groups[k]
		switch {
		case g.bad != "":
			bad(k, g.pos, g.bad)
		case g.unsure != "":
			c.Unsure(k, g.pos, g.unsure)
		default:
			c.Good(k, g.pos, fmt.Sprintf("%d access(es) under the guarding mutex", g.n))
		}
	}
	nPairs, splits := ls.AtomicRMW()
	for _, sp := range splits {
		k := fmt.Sprintf("%s %s read→write atomic", an.FuncName(sp.Fn), sp.Field)
		bad(k, sp.Unlock.Pos(), "the mutex is released between reading "+sp.Field+" and writing it: the write acts on a stale read (two concurrent callers both pass the check)")
	}
	if nPairs > 0 && len(splits) == 0 {
		c.Good("read→write sequences of guarded fields are atomic", token.NoPos, fmt.Sprintf("%d function/field pairs, no unlock between a read and a dependent write", nPairs))
	}

	inSet := map[*ssa.Function]bool{}
	for _, f := range funcs {
		inSet[f] = true
	}
	reqs := ls.EntryRequirements()
	var rfns []*ssa.Function
	for fn := range reqs {
		rfns = append(rfns, fn)
	}
	sort.Slice(rfns, func(i, j int) bool { return an.FuncName(rfns[i]) < an.FuncName(rfns[j]) })

	// fnValueUse decides one use of a function value (MakeClosure mc of a literal, or of the bound wrapper of a
	// method): a direct call (checked by the lockset analysis) or an argument of a static in-package call whose
	// callee only invokes that parameter synchronously and never touches a mutex, with the needed lock held at the
	// call (or required by the calling function on its own entry). rootToBinding maps a requirement root to the value.
	type verdict int
	const (
		vGood verdict = iota
		vUnsure
	)
	// invocations returns the calls of parameter #idx inside g if that is all g does with it (no goroutines in g);
	// locking reports whether g itself operates a mutex.
	invocations := func(g *ssa.Function, idx int) (calls []*ssa.Call, locking bool, ok bool) {
		if g == nil || g.Blocks == nil || idx >= len(g.Params) {
			return nil, false, false
		}
		p := g.Params[idx]
		for _, ref := range *p.Referrers() {
			switch r := ref.(type) {
			case *ssa.Call:
				if r.Call.Value != ssa.Value(p) {
					return nil, false, false
				}
				calls = append(calls, r)
			case *ssa.DebugRef:
			default:
				return nil, false, false
			}
		}
		for _, in := range an.Instrs(g, true) {
			if ci, ok := in.(ssa.CallInstruction); ok {
				if _, _, isLock := an.H06LockOp(ci.Common()); isLock {
					locking = true
				}
			}
			if _, isGo := in.(*ssa.Go); isGo {
				return nil, false, false
			}
		}
		return calls, locking, len(calls) > 0
	}
	checkValue := func(mc *ssa.MakeClosure, target *ssa.Function, binding func(root string) ssa.Value) (verdict, string) {
		caller := mc.Parent()
		// the locks the target needs, named in the frame of the function that creates the value
		type need struct {
			lock string
			mode int
		}
		var needs []need
		for _, r := range ls.H06Reqs(target) {
			root := r.Path
			rest := ""
			if i := strings.Index(root, "."); i >= 0 {
				root, rest = r.Path[:i], r.Path[i:]
			}
			b := binding(root)
			if b == nil {
				return vUnsure, "cannot map the lock requirement " + r.Path + " of " + an.FuncName(target) + " to the place where the function value is created"
			}
			lock := c06LockPath(b, rest)
			if strings.HasPrefix(lock, "?") {
				return vUnsure, "cannot name the mutex needed by " + an.FuncName(target) + " (" + lock + ")"
			}
			n := need{lock, 1}
			if r.Write {
				n.mode = 2
			}
			needs = append(needs, n)
		}
		// satisfied: every needed lock is in held, or (byEntry) is an entry requirement of the creating function, which
		// the lockset analysis enforces at all of its call sites
		satisfied := func(held map[string]int, byEntry bool) string {
			for _, n := range needs {
				if held[n.lock] >= n.mode {
					continue
				}
				ok := false
				if byEntry {
					for _, cr := range ls.H06Reqs(caller) {
						if cr.Path == n.lock && (cr.Write || n.mode < 2) {
							ok = true
						}
					}
				}
				if !ok {
					return n.lock
				}
			}
			return ""
		}
		// A frame is a function the value has flowed into. The top frame is the creating function (locks are looked up at
		// each instruction); a nested frame was entered from a call site of its parent frame and, because it operates
		// no mutex, runs entirely under what was held at that site (ambient); the body of a closure that captured the
		// value runs under whatever its own invocations hold, and those are tracked separately (assume).
		type frame struct {
			top     bool
			assume  bool
			byEntry bool
			ambient map[string]int
			site    ssa.CallInstruction
			parent  *frame
		}
		var track func(v ssa.Value, fr *frame, depth int) string
		// captured: literal r binds what (the value, or the cell holding it). Its body (inner decides the free variable)
		// runs whenever r runs, so r itself is tracked like the value.
		captured := func(r *ssa.MakeClosure, what ssa.Value, fr *frame, depth int, inner func(fv *ssa.FreeVar) string) string {
			wf, _ := r.Fn.(*ssa.Function)
			if wf == nil || wf.Blocks == nil {
				return "function value touching guarded state is captured by a function without body"
			}
			for _, in := range an.Instrs(wf, true) {
				if _, isGo := in.(*ssa.Go); isGo {
					return "function value touching guarded state is captured by " + an.FuncName(wf) + ", which starts goroutines"
				}
				if ci, ok := in.(ssa.CallInstruction); ok {
					if _, _, isLock := an.H06LockOp(ci.Common()); isLock {
						return "function value touching guarded state is captured by " + an.FuncName(wf) + ", which operates a mutex itself"
					}
				}
			}
			for i, bnd := range r.Bindings {
				if bnd != what || i >= len(wf.FreeVars) {
					continue
				}
				if why := inner(wf.FreeVars[i]); why != "" {
					return why
				}
			}
			return track(r, fr, depth+1)
		}
		track = func(v ssa.Value, fr *frame, depth int) string {
			if depth > 8 {
				return "function value touching guarded state is handed on too many times to follow"
			}
			refs := v.Referrers()
			if refs == nil {
				return "function value touching guarded state flows through a value without use list"
			}
			heldHere := func(at ssa.Instruction) (map[string]int, bool) {
				if fr.top {
					return an.H06HeldAt(at), true
				}
				return fr.ambient, fr.byEntry
			}
			for _, ref := range *refs {
				switch r := ref.(type) {
				case *ssa.DebugRef:
					continue
				case *ssa.BinOp:
					if r.Op == token.EQL || r.Op == token.NEQ {
						continue // `if fn != nil`: a comparison does not run it
					}
					return "function value touching guarded state is stored or returned"
				case *ssa.Go:
					return "function value touching guarded state is started as a goroutine"
				case *ssa.MakeClosure:
					// captured by another literal: its body may invoke the value whenever the literal itself runs
					if why := captured(r, v, fr, depth, func(fv *ssa.FreeVar) string { return track(fv, &frame{assume: true}, depth+1) }); why != "" {
						return why
					}
					continue
				case *ssa.Store:
					// spilled into a variable cell (a parameter or local captured by reference): follow the loads of the cell
					cell, isCell := r.Addr.(*ssa.Alloc)
					if !isCell || r.Val != v {
						return "function value touching guarded state is stored or returned"
					}
					for _, cref := range *cell.Referrers() {
						switch cr := cref.(type) {
						case *ssa.DebugRef:
						case *ssa.Store:
							if cr != r {
								return "function value touching guarded state is kept in a variable that is assigned more than once"
							}
						case *ssa.UnOp:
							if cr.Op != token.MUL {
								return "function value touching guarded state is stored or returned"
							}
							if why := track(cr, fr, depth+1); why != "" {
								return why
							}
						case *ssa.MakeClosure:
							why := captured(cr, cell, fr, depth, func(fv *ssa.FreeVar) string {
								for _, fref := range *fv.Referrers() {
									switch x := fref.(type) {
									case *ssa.DebugRef:
									case *ssa.UnOp:
										if x.Op != token.MUL {
											return "function value touching guarded state is stored or returned"
										}
										if why := track(x, &frame{assume: true}, depth+1); why != "" {
											return why
										}
									default:
										return "function value touching guarded state is kept in a variable that a literal assigns or hands on"
									}
								}
								return ""
							})
							if why != "" {
								return why
							}
						default:
							return "function value touching guarded state is stored or returned"
						}
					}
					continue
				case *ssa.Return:
					if fr.top || fr.site == nil || fr.parent == nil {
						return "function value touching guarded state is stored or returned"
					}
					cv, isCall := fr.site.(*ssa.Call)
					if !isCall || len(r.Results) != 1 {
						return "function value touching guarded state is returned among several results"
					}
					if why := track(cv, fr.parent, depth+1); why != "" {
						return why
					}
					continue
				}
				ci, isCall := ref.(ssa.CallInstruction)
				if !isCall {
					return "function value touching guarded state is stored or returned"
				}
				_, isDefer := ref.(*ssa.Defer)
				if ci.Common().Value == v {
					for _, a := range ci.Common().Args {
						if a == v {
							return "function value touching guarded state is passed to itself"
						}
					}
					if fr.assume {
						continue
					}
					if fr.top && v == ssa.Value(mc) {
						continue // direct call: checked at the call site by the lockset analysis
					}
					if fr.top && isDefer {
						return "function value touching guarded state is deferred after being handed on"
					}
					held, byEntry := heldHere(ref)
					if miss := satisfied(held, byEntry); miss != "" {
						return "cannot show that " + miss + " is held when " + an.FuncName(ref.Parent()) + " invokes the function value"
					}
					continue
				}
				callee := ci.Common().StaticCallee()
				if callee == nil || !inSet[an.Orig(callee)] && an.Orig(callee).Pkg != caller.Pkg {
					return "function value touching guarded state is passed to a function outside the package"
				}
				if callee.Blocks == nil {
					return "function value touching guarded state is passed to a function without body"
				}
				if fr.assume || fr.top && isDefer {
					return "function value touching guarded state is handed on from a deferred call or a capturing literal"
				}
				idx := -1
				for i, a := range ci.Common().Args {
					if a == v {
						if idx >= 0 {
							return "function value passed twice"
						}
						idx = i
					}
				}
				if idx < 0 || idx >= len(callee.Params) {
					return "function value touching guarded state is passed in an unexpected position"
				}
				held, byEntry := heldHere(ref)
				invs, locking, ok := invocations(callee, idx)
				if locking {
					// the helper takes the lock itself (`withLock(fn)`): what it holds at every invocation of fn, renamed from
					// its parameters to the arguments of this call, on top of what is held at the call
					if !ok {
						return "function value touching guarded state is passed to " + an.FuncName(callee) + ", which does more than calling it synchronously"
					}
					var inner map[string]int
					for _, inv := range invs {
						h := map[string]int{}
						for path, mode := range an.H06HeldAt(inv) {
							root, rest := path, ""
							if i := strings.Index(path, "."); i >= 0 {
								root, rest = path[:i], path[i:]
							}
							var k int
							if n, err := fmt.Sscanf(root, "p%d", &k); err != nil || n != 1 || k >= len(ci.Common().Args) {
								continue
							}
							h[c06LockPath(ci.Common().Args[k], rest)] = mode
						}
						if inner == nil {
							inner = h
						} else {
							for k, v := range inner {
								if h[k] < v {
									inner[k] = h[k]
								}
							}
						}
					}
					if !fr.top {
						// the arguments are named in this frame, the needs in the creating frame: only what was already held counts
						inner = nil
					}
					merged := map[string]int{}
					for k, m := range held {
						merged[k] = m
					}
					for k, m := range inner {
						if merged[k] < m {
							merged[k] = m
						}
					}
					if miss := satisfied(merged, false); miss != "" {
						if miss2 := satisfied(held, byEntry); miss2 != "" {
							return "cannot show that " + miss + " is held when " + an.FuncName(callee) + " invokes the function value"
						}
					}
					continue
				}
				for _, in := range an.Instrs(callee, true) {
					if _, isGo := in.(*ssa.Go); isGo {
						return "function value touching guarded state is passed to " + an.FuncName(callee) + ", which starts goroutines"
					}
				}
				// the helper operates no mutex: everything it does with the value happens under what is held at this call
				if why := track(callee.Params[idx], &frame{ambient: held, byEntry: byEntry, site: ci, parent: fr}, depth+1); why != "" {
					return why
				}
			}
			return ""
		}
		if why := track(mc, &frame{top: true}, 0); why != "" {
			return vUnsure, why
		}
		return vGood, ""
	}

	for _, fn := range rfns {
		name := an.FuncName(fn)
		k := "entry-requirement " + name
		if fn.Parent() != nil {
			// literal: every use of its MakeClosure is a direct call / defer, or a synchronous higher-order use
			v, why := vGood, ""
			for _, in := range an.Instrs(fn.Parent(), false) {
				mc, isMC := in.(*ssa.MakeClosure)
				if !isMC || mc.Fn != ssa.Value(fn) {
					continue
				}
				bind := func(root string) ssa.Value {
					for i, fv := range fn.FreeVars {
						if "fv:"+fv.Name() == root && i < len(mc.Bindings) {
							return mc.Bindings[i]
						}
					}
					return nil
				}
				if vv, w := checkValue(mc, fn, bind); vv != vGood {
					v, why = vv, w
				}
			}
			if v == vGood {
				c.Good(k, fn.Pos(), "closure needs "+strings.Join(reqs[fn], ", ")+"; only called directly or by an in-package helper under the lock (call sites checked)")
			} else {
				c.Unsure(k, fn.Pos(), why+"; needs "+strings.Join(reqs[fn], ", "))
			}
			continue
		}
		exported := fn.Object() != nil && fn.Object().Exported()
		if exported && !strings.HasSuffix(fn.Name(), "Unsafe") {
			bad(k, fn.Pos(), "exported entry point touches guarded state without taking the lock: "+strings.Join(reqs[fn], ", "))
			continue
		}
		// used as a value other than through a checked method value?
		taken, why := false, ""
		for _, g := range funcs {
			for _, in := range an.Instrs(g, false) {
				for _, op := range an.Operands(in) {
					if op == ssa.Value(fn) {
						if ci, ok := in.(ssa.CallInstruction); ok && ci.Common().Value == op {
							if _, isGo := in.(*ssa.Go); !isGo {
								continue
							}
						}
						taken, why = true, "function needing a lock on entry is used as a value"
					}
				}
			}
		}
		// method values go through synthetic $bound wrappers: each creation of one must be a checked higher-order use
		wrappers := map[*ssa.Function]bool{}
		for g := range ssautil.AllFunctions(c.P.SSA) {
			if g.Synthetic == "" || g.Blocks == nil {
				continue
			}
			for _, in := range an.Instrs(g, false) {
				if ci, ok := in.(ssa.CallInstruction); ok && an.Orig(ci.Common().StaticCallee()) == fn {
					wrappers[g] = true
				}
			}
		}
		for w := range wrappers {
			found := false
			for _, g := range funcs {
				for _, in := range an.Instrs(g, false) {
					mc, isMC := in.(*ssa.MakeClosure)
					if !isMC || mc.Fn != ssa.Value(w) {
						continue
					}
					found = true
					bind := func(root string) ssa.Value {
						if root == "p0" && len(mc.Bindings) == 1 {
							return mc.Bindings[0] // the bound receiver
						}
						return nil
					}
					if vv, wy := checkValue(mc, fn, bind); vv != vGood {
						taken, why = true, wy
					}
				}
			}
			if !found {
				taken, why = true, "function needing a lock on entry is used as a method value / expression"
			}
		}
		if taken {
			c.Unsure(k, fn.Pos(), why)
			continue
		}
		c.Good(k, fn.Pos(), "internal helper; needs "+strings.Join(reqs[fn], ", ")+" on entry; all static call sites checked")
	}
	var missing []string
	for f := range table {
		if !seenField[f] && !ls.SeenFields[f] {
			missing = append(missing, f)
		}
	}
	sort.Strings(missing)
	for _, f := range missing {
		c.Unsure("table "+f, token.NoPos, "guarded field of the frozen table is never accessed (renamed or removed?)")
	}
}

// c06LockPath names the mutex reached from value v through the field path rest (".db.mu"). Where v itself has no
// access path (the result of a constructor call, a local composite), the leading fields of rest are resolved through
// the construction: `call := db.beginAwait(ctx)` with `return awaitCall{db: db}` makes call.db.mu the same as db.mu.
func c06LockPath(v ssa.Value, rest string) string {
	for i := 0; i < 6; i++ {
		p := an.H06AccessPath(v)
		if !strings.HasPrefix(p, "?") && !strings.HasPrefix(p, "alloc:") {
			return p + rest
		}
		if !strings.HasPrefix(rest, ".") {
			return p + rest
		}
		field, tail := rest[1:], ""
		if j := strings.Index(field, "."); j >= 0 {
			field, tail = field[:j], field[j:]
		}
		w := c06FieldOf(v, field, 0)
		if w == nil {
			return p + rest
		}
		v, rest = w, tail
	}
	return "?" + rest
}

// c06FieldOf returns the value that field `field` of the struct value v certainly has, in the frame of v: v is a local
// composite (one store to that field), or the single result of a static call all of whose returns are such composites
// with the field set from a parameter (mapped to the argument of the call).
func c06FieldOf(v ssa.Value, field string, depth int) ssa.Value {
	if depth > 3 {
		return nil
	}
	v = an.Unwrap(v)
	fromAlloc := func(a *ssa.Alloc) ssa.Value {
		var val ssa.Value
		n := 0
		for _, ref := range *a.Referrers() {
			switch r := ref.(type) {
			case *ssa.FieldAddr:
				st, ok := c06StructOf(r.X.Type())
				if !ok || r.Field >= st.NumFields() || st.Field(r.Field).Name() != field {
					continue
				}
				for _, fr := range *r.Referrers() {
					switch s := fr.(type) {
					case *ssa.Store:
						if s.Addr == ssa.Value(r) {
							val = s.Val
							n++
						}
					case *ssa.UnOp, *ssa.DebugRef, *ssa.FieldAddr:
					default:
						n += 2 // address escapes
					}
				}
			case *ssa.Store:
				if r.Addr == ssa.Value(a) {
					// whole-struct store: resolve inside the stored value
					if w := c06FieldOf(r.Val, field, depth+1); w != nil {
						val = w
						n++
					} else {
						n += 2
					}
				}
			}
		}
		if n == 1 {
			return val
		}
		return nil
	}
	switch x := v.(type) {
	case *ssa.UnOp:
		if a, ok := x.X.(*ssa.Alloc); ok && x.Op == token.MUL {
			return fromAlloc(a)
		}
	case *ssa.Alloc:
		return fromAlloc(x)
	case *ssa.Call:
		callee := x.Call.StaticCallee()
		if callee == nil || callee.Blocks == nil || callee.Signature.Results().Len() != 1 {
			return nil
		}
		var out ssa.Value
		for _, b := range callee.Blocks {
			ret, ok := b.Instrs[len(b.Instrs)-1].(*ssa.Return)
			if !ok {
				continue
			}
			w := c06FieldOf(ret.Results[0], field, depth+1)
			par, isPar := w.(*ssa.Parameter)
			if w == nil || !isPar {
				return nil
			}
			k := -1
			for i, p := range callee.Params {
				if p == par {
					k = i
				}
			}
			if k < 0 || k >= len(x.Call.Args) {
				return nil
			}
			if out != nil && out != x.Call.Args[k] {
				return nil
			}
			out = x.Call.Args[k]
		}
		return out
	}
	return nil
}

func c06StructOf(t types.Type) (*types.Struct, bool) {
	if p, ok := t.Underlying().(*types.Pointer); ok {
		t = p.Elem()
	}
	st, ok := t.Underlying().(*types.Struct)
	return st, ok
}
