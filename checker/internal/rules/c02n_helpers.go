package rules

import (
	"go/token"
	"go/types"

	"golang.org/x/tools/go/ssa"

	"charonverif/internal/an"
)

// ---------------------------------------------------------------------------------------------
// The leaf helpers of core/qbft recognised by what they are, so that renaming them is silent.

var c02HelperKindMemo = map[*ssa.Function]string{}

// c02HelperKind classifies an in-package function: "zero" (no parameters, returns the zero value of its result type),
// "iszero" (one parameter, answers whether it equals the zero value), "filter" (the message filter: a list of messages,
// a type, a round and three optional pointer criteria, returning a list of messages), "" otherwise.
func c02HelperKind(fn *ssa.Function) string {
	fn = an.Orig(fn)
	if fn == nil || fn.Blocks == nil || fn.Parent() != nil {
		return ""
	}
	if k, ok := c02HelperKindMemo[fn]; ok {
		return k
	}
	k := c02HelperKindRaw(fn)
	c02HelperKindMemo[fn] = k
	return k
}

func c02IsZeroValue(v ssa.Value) bool {
	v = an.Unwrap(v)
	switch x := v.(type) {
	case *ssa.Const:
		if x.Value == nil {
			return true
		}
		if n, ok := an.ConstInt(x); ok && n == 0 {
			return true
		}
	case *ssa.UnOp:
		// `var zero V; return zero`: a load of a local that is never stored to
		if al, ok := x.X.(*ssa.Alloc); ok && x.Op == token.MUL {
			for _, ref := range *al.Referrers() {
				switch r := ref.(type) {
				case *ssa.UnOp, *ssa.DebugRef:
				default:
					_ = r
					return false
				}
			}
			return true
		}
	case *ssa.Call:
		if cal := x.Call.StaticCallee(); cal != nil && !x.Call.IsInvoke() && len(x.Call.Args) == 0 {
			return c02HelperKind(cal) == "zero"
		}
	}
	return false
}

func c02HelperKindRaw(fn *ssa.Function) string {
	sig := fn.Signature
	rets := an.Returns(fn)
	switch {
	case sig.Params().Len() == 0 && sig.Results().Len() == 1 && len(rets) == 1 && len(fn.Blocks) == 1:
		if _, isTP := sig.Results().At(0).Type().(*types.TypeParam); isTP && c02IsZeroValue(rets[0].Results[0]) {
			return "zero"
		}
	case sig.Params().Len() == 1 && sig.Results().Len() == 1 && c02IsBool(sig.Results().At(0).Type()) && len(rets) == 1 && len(fn.Blocks) == 1:
		if bin, ok := an.Unwrap(rets[0].Results[0]).(*ssa.BinOp); ok && bin.Op == token.EQL {
			p := ssa.Value(fn.Params[0])
			if (an.Unwrap(bin.X) == p && c02IsZeroValue(bin.Y)) || (an.Unwrap(bin.Y) == p && c02IsZeroValue(bin.X)) {
				return "iszero"
			}
		}
	case sig.Params().Len() == 6 && sig.Results().Len() == 1:
		isMsgs := func(t types.Type) bool {
			sl, ok := t.Underlying().(*types.Slice)
			return ok && c02Strip(an.TypeName(sl.Elem())) == c02P+".Msg"
		}
		isPtr := func(t types.Type) bool { _, ok := t.Underlying().(*types.Pointer); return ok }
		ps := sig.Params()
		if isMsgs(ps.At(0).Type()) && isMsgs(sig.Results().At(0).Type()) && an.TypeName(ps.At(1).Type()) == c02P+".MsgType" &&
			isPtr(ps.At(3).Type()) && isPtr(ps.At(4).Type()) && isPtr(ps.At(5).Type()) {
			if b, ok := ps.At(2).Type().Underlying().(*types.Basic); ok && b.Info()&types.IsInteger != 0 {
				return "filter"
			}
		}
	}
	return ""
}

// c02CallOfKind returns the call if v is a static call of an in-package helper of the given kind.
func c02CallOfKind(v ssa.Value, kind string) *ssa.Call {
	call, ok := an.Unwrap(v).(*ssa.Call)
	if !ok || call.Call.IsInvoke() || call.Call.StaticCallee() == nil {
		return nil
	}
	cal := an.Orig(call.Call.StaticCallee())
	if pk := c02PkgOf(cal); pk == nil || pk != c02PkgOf(call.Parent()) {
		return nil
	}
	if c02HelperKind(cal) != kind {
		return nil
	}
	return call
}
