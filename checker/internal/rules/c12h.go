package rules

// Path-based formulation of the C12 verification rules (L3, L6).
//
// The verification functions are explored with the symbolic path walker an.Tracer: every function of package
// cluster that is not itself one of the *anchors* below is stepped into (helpers extracted from a root belong to
// the root), loops are unrolled up to two iterations, and every path yields its ordered events (calls with
// symbolic arguments, branch decisions). A rule is then a statement about every path on which the root may
// return a nil error: "the call X on the receiver's field F happened and its error was nil on this path".
// Nothing here depends on how the code is cut into blocks, helpers, named booleans, switches or loop forms.

import (
	"fmt"
	"go/token"
	"go/types"
	"regexp"
	"sort"
	"strings"
	"sync"

	"golang.org/x/tools/go/ssa"

	"charonverif/internal/an"
	"charonverif/internal/rt"
)

// c12Opaque: the functions whose calls are the *events* of the verification rules (anchors of L3/L6). Every other
// function of package cluster reached from a verification root is stepped into.
var c12Opaque = map[string]bool{
	"cluster.isAnyVersion": true, "cluster.hashLock": true, "cluster.hashDefinition": true,
	"cluster.Definition.VerifyHashes": true, "cluster.Definition.VerifySignatures": true,
	"cluster.Lock.VerifyHashes": true, "cluster.Lock.VerifySignatures": true,
	"cluster.parsePubShares": true, "cluster.verifySharesReconstruct": true,
	"cluster.Lock.verifyBuilderRegistrations": true, "cluster.Lock.verifyNodeSignatures": true,
	"cluster.verifySigOrERC1271": true, "cluster.digestEIP712": true,
	"cluster.supportEIP712Sigs": true, "cluster.eip712SigsPresent": true, "cluster.getOperatorEIP712Type": true,
	"cluster.Definition.validateCreatorSignatureLength": true, "cluster.Definition.validateOperatorSignatureLengths": true,
	"cluster.validateSignatureLength": true, "cluster.to0xHex": true,
	"cluster.LoadClusterLock": true, "cmd/combine.loadManifest": true, "cmd/combine.shareIdxByPubkeys": true,
}

func c12Inline(f *ssa.Function) bool {
	if f == nil || len(f.Blocks) == 0 {
		return false
	}
	if f.Parent() != nil {
		return true
	}
	return f.Pkg != nil && an.Short(f.Pkg.Pkg.Path()) == "cluster" && !c12Opaque[an.FuncName(f)]
}

// ---------------------------------------------------------------------------------------------
// Aggregation of per-path verdicts into one finding per construct

type c12AggEntry struct {
	pos    token.Pos
	bad    string
	unsure string
	n      int
}

type c12Agg struct {
	c     *rt.Ctx
	order []string
	m     map[string]*c12AggEntry
	cur   *c12X // the path being judged: a failure on a path with calls the exploration could not follow is undecided
}

func newC12Agg(c *rt.Ctx) *c12Agg { return &c12Agg{c: c, m: map[string]*c12AggEntry{}} }

func (a *c12Agg) entry(construct string, pos token.Pos) *c12AggEntry {
	e := a.m[construct]
	if e == nil {
		e = &c12AggEntry{pos: pos}
		a.m[construct] = e
		a.order = append(a.order, construct)
	}
	if !e.pos.IsValid() {
		e.pos = pos
	}
	e.n++
	return e
}

func (a *c12Agg) check(construct string, pos token.Pos, ok bool, detail string) bool {
	if !ok && a.cur != nil {
		if h := a.cur.hidden(); h != nil {
			a.unsure(construct, c12EvPos(h, pos), "the path calls a function value read from a local table, which the exploration cannot follow ("+detail+")")
			return false
		}
	}
	e := a.entry(construct, pos)
	if !ok && e.bad == "" {
		e.bad = detail
		if e.bad == "" {
			e.bad = "does not hold"
		}
		e.pos = pos
	}
	return ok
}

func (a *c12Agg) unsure(construct string, pos token.Pos, detail string) {
	e := a.entry(construct, pos)
	if e.unsure == "" {
		e.unsure = detail
	}
}

func (a *c12Agg) flush() {
	for _, k := range a.order {
		e := a.m[k]
		switch {
		case e.bad != "":
			a.c.Bad(k, e.pos, e.bad)
		case e.unsure != "":
			a.c.Unsure(k, e.pos, e.unsure)
		default:
			a.c.Good(k, e.pos, fmt.Sprintf("holds on %d explored path(s)", e.n))
		}
	}
}

// ---------------------------------------------------------------------------------------------
// Traces and per-path facts

type c12Tr struct {
	fn    *ssa.Function
	name  string
	res   *an.TraceResult
	dec   *an.H12Decoder
	recv  *ssa.Parameter
	loops map[*ssa.Function][]*an.Loop
}

func c12Trace(fn *ssa.Function, maxVisits int) *c12Tr { return c12TraceIn(fn, maxVisits, c12Inline) }

// c12InlineSame steps into the functions of root's own package (and function literals) that are not anchors.
func c12InlineSame(root *ssa.Function) func(*ssa.Function) bool {
	return func(f *ssa.Function) bool {
		if f == nil || len(f.Blocks) == 0 {
			return false
		}
		if f.Parent() != nil {
			return true
		}
		return f.Pkg != nil && f.Pkg == root.Pkg && !c12Opaque[an.FuncName(f)]
	}
}

// traces are cached per loaded program for the duration of one run of the property (see c12)
var (
	c12CacheMu sync.Mutex
	c12Cache   = map[*ssa.Program]map[string]*c12Tr{}
)

func c12CacheDrop(prog *ssa.Program) {
	c12CacheMu.Lock()
	defer c12CacheMu.Unlock()
	delete(c12Cache, prog)
}

func c12TraceIn(fn *ssa.Function, maxVisits int, inline func(*ssa.Function) bool) *c12Tr {
	return c12TraceFrom(fn, nil, maxVisits, inline)
}

// c12TraceFrom explores the paths from block start (nil: the entry) to the end of fn.
func c12TraceFrom(fn *ssa.Function, start *ssa.BasicBlock, maxVisits int, inline func(*ssa.Function) bool) *c12Tr {
	key := fmt.Sprintf("%p/%p/%d", fn, start, maxVisits)
	c12CacheMu.Lock()
	if t := c12Cache[fn.Prog][key]; t != nil {
		c12CacheMu.Unlock()
		return t
	}
	c12CacheMu.Unlock()
	t := c12TraceRun(fn, start, maxVisits, inline)
	c12CacheMu.Lock()
	if c12Cache[fn.Prog] == nil {
		c12Cache[fn.Prog] = map[string]*c12Tr{}
	}
	c12Cache[fn.Prog][key] = t
	c12CacheMu.Unlock()
	return t
}

func c12TraceRun(fn *ssa.Function, start *ssa.BasicBlock, maxVisits int, inline func(*ssa.Function) bool) *c12Tr {
	t := &c12Tr{fn: fn, name: an.FuncName(fn), loops: map[*ssa.Function][]*an.Loop{}}
	if len(fn.Params) > 0 {
		t.recv = fn.Params[0]
	}
	var pkgs []*ssa.Package
	if fn.Pkg != nil {
		pkgs = append(pkgs, fn.Pkg)
	}
	t.dec = an.H12NewDecoder([]*ssa.Function{fn}, pkgs...)
	tr := &an.Tracer{Root: fn, Start: start, Inline: inline, MaxVisits: maxVisits, MaxPaths: 60000}
	t.res = tr.Run()
	return t
}

// exitTest: the branch instruction is a loop test (its block has a successor outside a loop containing it).
func (t *c12Tr) exitTest(in ssa.Instruction) bool {
	if in == nil || in.Block() == nil {
		return false
	}
	fn := in.Parent()
	ls, ok := t.loops[fn]
	if !ok {
		ls = an.Loops(fn)
		t.loops[fn] = ls
	}
	b := in.Block()
	for _, l := range ls {
		if !l.Body[b] {
			continue
		}
		for _, s := range b.Succs {
			if !l.Body[s] {
				return true
			}
		}
	}
	return false
}

type c12LoopFact struct {
	entered map[int64]bool
	exit    int64 // -1: no exit test failed on the path
}

type c12X struct {
	hid    *c12Hidden
	t      *c12Tr
	p      *an.Path
	ranges map[string]*an.H12Range
	loops  map[string]*c12LoopFact
	feas   bool
}

func (x *c12X) rs(s *an.Sym) *an.Sym { return an.H12Resolve(s, x.p.Mem) }

func (x *c12X) loc(s *an.Sym) *an.H12Loc {
	if s == nil {
		return nil
	}
	return x.t.dec.Decode(x.rs(s))
}

// at: s denotes <receiver><path>.
func (x *c12X) at(s *an.Sym, path string) bool {
	l := x.loc(s)
	return l != nil && l.Param != nil && l.Param == x.t.recv && l.Path == path
}

// termKey identifies an integer term: len of a decoded location, len of another value, or the value itself.
func (x *c12X) termKey(s *an.Sym) (string, bool) {
	if s == nil {
		return "", false
	}
	if arg, ok := an.H12IsLen(s); ok {
		arg = x.rs(arg)
		if l := x.t.dec.Decode(arg); l != nil && l.Param != nil {
			return c12ParamKey(l.Param) + l.Path, true
		}
		return "len:" + arg.Key(), true
	}
	if _, isC := s.IsConstInt(); isC {
		return "", false
	}
	if s.Kind == an.KOpaque || s.Kind == an.KExtract || s.Kind == an.KInit || s.Kind == an.KField {
		return "val:" + s.Key(), true
	}
	return "", false
}

func (x *c12X) rangeOf(key string) *an.H12Range {
	r := x.ranges[key]
	if r == nil {
		r = &an.H12Range{Hi: -1}
		x.ranges[key] = r
	}
	return r
}

func (x *c12X) loopFact(key string) *c12LoopFact {
	l := x.loops[key]
	if l == nil {
		l = &c12LoopFact{entered: map[int64]bool{}, exit: -1}
		x.loops[key] = l
	}
	return l
}

func (t *c12Tr) newX(p *an.Path) *c12X {
	x := &c12X{t: t, p: p, ranges: map[string]*an.H12Range{}, loops: map[string]*c12LoopFact{}, feas: true}
	// static lengths of local array literals
	static := func(s *an.Sym) {
		if arg, ok := an.H12IsLen(s); ok {
			if _, n, ok := an.H12ArrayOfSlice(x.rs(arg)); ok && n >= 0 {
				k, _ := x.termKey(s)
				r := x.rangeOf(k)
				r.H12Constrain(token.EQL, n, false, true)
			}
		}
	}
	for _, e := range p.Evs {
		if e.Kind != "branch" || len(e.Args) != 1 {
			continue
		}
		b := e.Args[0]
		if b.Kind != an.KBin || len(b.Args) != 2 {
			continue
		}
		l, r := b.Args[0], b.Args[1]
		static(l)
		static(r)
		switch b.Op {
		case token.LSS, token.EQL, token.LEQ, token.GTR, token.GEQ, token.NEQ:
		default:
			continue
		}
		if c, ok := l.IsConstInt(); ok {
			if k, ok := x.termKey(r); ok {
				x.rangeOf(k).H12Constrain(b.Op, c, true, e.Taken)
				if b.Op == token.LSS && strings.HasPrefix(k, "len:") && x.t.exitTest(e.In) {
					lf := x.loopFact(k)
					if e.Taken {
						lf.entered[c] = true
					} else {
						lf.exit = c
					}
				}
			} else if c == 0 && b.Op == token.EQL && e.Taken {
				x.sumZero(r)
			}
		} else if c, ok := r.IsConstInt(); ok {
			if k, ok := x.termKey(l); ok {
				x.rangeOf(k).H12Constrain(b.Op, c, false, e.Taken)
			} else if c == 0 && b.Op == token.EQL && e.Taken {
				x.sumZero(l)
			}
		}
	}
	for _, r := range x.ranges {
		if !r.Feasible() {
			x.feas = false
		}
	}
	// branch conditions that the path-local memory decides (values read back from table literals)
	for _, e := range p.Evs {
		if e.Kind == "branch" && len(e.Args) == 1 {
			if v, isC := x.rs(e.Args[0]).IsConstBool(); isC && v != e.Taken {
				x.feas = false
			}
		}
	}
	// errors.New / errors.Wrap never return nil
	for _, e := range p.Evs {
		if e.Kind != "branch" || len(e.Args) != 1 || !e.Taken {
			continue
		}
		b := e.Args[0]
		if b.Kind != an.KBin || b.Op != token.EQL || len(b.Args) != 2 {
			continue
		}
		for i := 0; i < 2; i++ {
			if b.Args[i].IsNil() && b.Args[1-i].Kind == an.KOpaque {
				if pe := x.producer(b.Args[1-i]); pe != nil && (pe.Name == "app/errors.New" || pe.Name == "app/errors.Wrap") {
					x.feas = false
				}
			}
		}
	}
	// pure predicates of package cluster answer the same for the same operands
	pure := map[string]bool{}
	for i := range p.Evs {
		e := &p.Evs[i]
		if e.Kind != "call" || !c12PurePred[e.Name] || len(e.Args) == 0 {
			continue
		}
		v, known := x.boolFact(e.Res)
		if !known {
			continue
		}
		k := e.Name + "|" + x.rs(e.Args[0]).Key()
		if call, ok := e.In.(*ssa.Call); ok && e.Name == "cluster.isAnyVersion" {
			vs, _ := c12VersionsOf(call)
			k += "|" + strings.Join(vs, ",")
		}
		if old, seen := pure[k]; seen && old != v {
			x.feas = false
		}
		pure[k] = v
	}
	return x
}

var c12PurePred = map[string]bool{"cluster.isAnyVersion": true, "cluster.supportEIP712Sigs": true, "cluster.eip712SigsPresent": true}

// sumZero: len(a)+len(b)+… == 0 makes every summand zero.
func (x *c12X) sumZero(s *an.Sym) {
	if s == nil || s.Kind != an.KBin || s.Op != token.ADD || len(s.Args) != 2 {
		return
	}
	for _, a := range s.Args {
		if k, ok := x.termKey(a); ok && strings.HasPrefix(k, "len:") {
			x.rangeOf(k).H12Constrain(token.EQL, 0, false, true)
		} else {
			x.sumZero(a)
		}
	}
}

func (x *c12X) lenKey(path string) string { return c12ParamKey(x.t.recv) + path }

// c12ParamKey names the length term of a location below a parameter by the parameter's position (never its name).
func c12ParamKey(p *ssa.Parameter) string { return fmt.Sprintf("len:#%d", an.H07ParamIndex(p)) }

// emptyLen: the path decided len(<receiver><path>) == 0.
func (x *c12X) emptyLen(path string) bool {
	r := x.ranges[x.lenKey(path)]
	return r != nil && r.Hi == 0
}

// emptyStr: the path decided <receiver><path> == "" (known=false if it never compared it with "").
func (x *c12X) emptyStr(path string) (empty, known bool) {
	for _, e := range x.p.Evs {
		if e.Kind != "branch" || len(e.Args) != 1 {
			continue
		}
		b := e.Args[0]
		if b.Kind != an.KBin || b.Op != token.EQL || len(b.Args) != 2 {
			continue
		}
		for i := 0; i < 2; i++ {
			if c12SymEmptyStr(b.Args[i]) && x.at(b.Args[1-i], path) {
				empty, known = e.Taken, true
			}
		}
	}
	return
}

func c12SymEmptyStr(s *an.Sym) bool {
	return s != nil && s.Kind == an.KConst && s.C != nil && s.C.ExactString() == `""`
}

// nilFact: what the path decided about s == nil.
func (x *c12X) nilFact(s *an.Sym) (isNil, known bool) {
	if s == nil {
		return false, false
	}
	if s.IsNil() {
		return true, true
	}
	for _, e := range x.p.Evs {
		if e.Kind != "branch" || len(e.Args) != 1 {
			continue
		}
		b := e.Args[0]
		if b.Kind != an.KBin || b.Op != token.EQL || len(b.Args) != 2 {
			continue
		}
		if (b.Args[0].IsNil() && an.SymEq(b.Args[1], s)) || (b.Args[1].IsNil() && an.SymEq(b.Args[0], s)) {
			isNil, known = e.Taken, true
		}
	}
	return
}

// boolFact: what the path decided about the boolean s.
func (x *c12X) boolFact(s *an.Sym) (val, known bool) {
	if s == nil {
		return false, false
	}
	if v, ok := s.IsConstBool(); ok {
		return v, true
	}
	neg := false
	for s.Kind == an.KNot && len(s.Args) == 1 {
		s, neg = s.Args[0], !neg
	}
	for _, e := range x.p.Evs {
		if e.Kind == "branch" && len(e.Args) == 1 && an.SymEq(e.Args[0], s) {
			val, known = e.Taken != neg, true
		}
	}
	return
}

// walk visits every symbol occurring in the events of the path.
func (x *c12X) walk(f func(*an.Sym)) {
	seen := map[*an.Sym]bool{}
	var rec func(s *an.Sym, d int)
	rec = func(s *an.Sym, d int) {
		if s == nil || seen[s] || d > 12 {
			return
		}
		seen[s] = true
		f(s)
		for _, a := range s.Args {
			rec(a, d+1)
		}
	}
	for i := range x.p.Evs {
		for _, a := range x.p.Evs[i].Args {
			rec(a, 0)
		}
		rec(x.p.Evs[i].Res, 0)
	}
}

// hidden returns a call on the path whose target is a function value read back from a local composite (a table of
// function values built in the same function): the callee is statically fixed but the exploration did not step into it.
func (x *c12X) hidden() *an.Ev {
	if x.hid != nil {
		return x.hid.e
	}
	x.hid = &c12Hidden{}
	for i := range x.p.Evs {
		e := &x.p.Evs[i]
		if e.Kind != "call" || e.Callee != nil {
			continue
		}
		call, ok := e.In.(ssa.CallInstruction)
		if !ok || call.Common().IsInvoke() {
			continue
		}
		if c12FromLocalTable(call.Common().Value) {
			x.hid.e = e
			break
		}
	}
	return x.hid.e
}

type c12Hidden struct{ e *an.Ev }

// c12FromLocalTable: v is loaded from an element/field of an array or struct allocated in the same function whose
// address is never handed to a call.
func c12FromLocalTable(v ssa.Value) bool {
	for i := 0; i < 24; i++ {
		switch x := an.Unwrap(v).(type) {
		case *ssa.UnOp:
			if x.Op != token.MUL {
				return false
			}
			v = x.X
		case *ssa.FieldAddr:
			v = x.X
		case *ssa.Field:
			v = x.X
		case *ssa.IndexAddr:
			v = x.X
		case *ssa.Index:
			v = x.X
		case *ssa.Slice:
			v = x.X
		case *ssa.Phi:
			// range variable copies: every edge must come from the same table
			if len(x.Edges) == 0 {
				return false
			}
			v = x.Edges[0]
		case *ssa.Alloc:
			return !c12AddrPassedOn(x, map[ssa.Value]bool{})
		default:
			return false
		}
	}
	return false
}

// c12AddrPassedOn: an address derived from a is an operand of a call or is stored somewhere.
func c12AddrPassedOn(a ssa.Value, seen map[ssa.Value]bool) bool {
	if seen[a] {
		return false
	}
	seen[a] = true
	refs := a.Referrers()
	if refs == nil {
		return true
	}
	for _, ref := range *refs {
		switch r := ref.(type) {
		case *ssa.Store:
			if r.Val == a {
				return true
			}
		case *ssa.FieldAddr, *ssa.IndexAddr, *ssa.Slice:
			if c12AddrPassedOn(r.(ssa.Value), seen) {
				return true
			}
		case *ssa.UnOp, *ssa.DebugRef:
		case ssa.CallInstruction:
			if b, ok := r.Common().Value.(*ssa.Builtin); ok && (b.Name() == "len" || b.Name() == "cap") {
				continue
			}
			return true
		default:
			return true
		}
	}
	return false
}

// producer: the call event that produced s (directly or as a tuple component).
func (x *c12X) producer(s *an.Sym) *an.Ev {
	if s == nil {
		return nil
	}
	if s.Kind == an.KExtract && len(s.Args) == 1 {
		s = s.Args[0]
	}
	for i := range x.p.Evs {
		e := &x.p.Evs[i]
		if e.Kind == "call" && e.Res != nil && an.SymEq(e.Res, s) {
			return e
		}
	}
	return nil
}

// mayBeNil: can the error value s be nil on this path.
func (x *c12X) mayBeNil(s *an.Sym) bool {
	if s == nil {
		return true
	}
	if isNil, known := x.nilFact(s); known {
		return isNil
	}
	if s.Kind == an.KOpaque {
		if e := x.producer(s); e != nil && (e.Name == "app/errors.New" || e.Name == "app/errors.Wrap") {
			return false
		}
	}
	return true
}

// result i of a call event.
func c12Res(e *an.Ev, i int) *an.Sym {
	if e == nil || e.Res == nil {
		return nil
	}
	call, ok := e.In.(ssa.CallInstruction)
	if !ok {
		return nil
	}
	n := call.Common().Signature().Results().Len()
	if n == 1 {
		if i == 0 {
			return e.Res
		}
		return nil
	}
	if i >= n {
		return nil
	}
	if e.Res.Kind == an.KTuple && i < len(e.Res.Args) {
		return e.Res.Args[i]
	}
	return &an.Sym{Kind: an.KExtract, Args: []*an.Sym{e.Res}, Index: i}
}

func c12ErrIdx(e *an.Ev) int {
	call, ok := e.In.(ssa.CallInstruction)
	if !ok {
		return -1
	}
	rs := call.Common().Signature().Results()
	for i := 0; i < rs.Len(); i++ {
		if an.IsErrorType(rs.At(i).Type()) {
			return i
		}
	}
	return -1
}

// passed: the call's error result is nil on the path (or is what the root returns) and, if boolIdx >= 0, that
// boolean result is true on the path.
func (x *c12X) passed(e *an.Ev, boolIdx int) (bool, string) {
	if ei := c12ErrIdx(e); ei >= 0 {
		errSym := c12Res(e, ei)
		if errSym == nil {
			return false, "error result is discarded"
		}
		returned := false
		if n := len(x.p.Results); n > 0 && an.SymEq(x.p.Results[n-1], errSym) {
			returned = true
		}
		if isNil, known := x.nilFact(errSym); !known {
			if !returned {
				return false, "a path returns nil without the error result having been compared with nil"
			}
		} else if !isNil {
			return false, "a path returns nil although the check returned an error"
		}
	}
	if boolIdx >= 0 {
		v, known := x.boolFact(c12Res(e, boolIdx))
		if !known {
			return false, "a path returns nil without the boolean result having been tested"
		}
		if !v {
			return false, "a path returns nil although the check returned false"
		}
	}
	return true, ""
}

func (x *c12X) calls(name string) []*an.Ev {
	var out []*an.Ev
	for i := range x.p.Evs {
		if e := &x.p.Evs[i]; e.Kind == "call" && e.Name == name {
			out = append(out, e)
		}
	}
	return out
}

// need: some call of the named callee whose arguments satisfy pred passed on this path.
func (x *c12X) need(name string, boolIdx int, pred func(e *an.Ev) bool) (*an.Ev, string) {
	why := "no call performing this check (on the expected operands) on a path that returns nil"
	for _, e := range x.calls(name) {
		if pred != nil && !pred(e) {
			continue
		}
		ok, w := x.passed(e, boolIdx)
		if ok {
			return e, ""
		}
		why = w
	}
	return nil, why
}

func (x *c12X) pos() token.Pos {
	for i := len(x.p.Evs) - 1; i >= 0; i-- {
		if in := x.p.Evs[i].In; in != nil && in.Pos().IsValid() && in.Parent() == x.t.fn {
			return in.Pos()
		}
	}
	return x.t.fn.Pos()
}

func c12EvPos(e *an.Ev, dflt token.Pos) token.Pos {
	if e != nil && e.In != nil && e.In.Pos().IsValid() {
		return e.In.Pos()
	}
	return dflt
}

// versionFact: the path decided isAnyVersion(<receiver><path>, exactly want...) == truth.
func (x *c12X) versionFact(path string, truth bool, want ...string) bool {
	for _, e := range x.calls("cluster.isAnyVersion") {
		call, ok := e.In.(*ssa.Call)
		if !ok || len(e.Args) != 2 || !x.at(e.Args[0], path) {
			continue
		}
		vs, ok := c12VersionsOf(call)
		if !ok || len(vs) != len(want) {
			continue
		}
		w := append([]string(nil), want...)
		sort.Strings(w)
		same := true
		for i := range w {
			if w[i] != vs[i] {
				same = false
			}
		}
		if !same {
			continue
		}
		if v, known := x.boolFact(e.Res); known && v == truth {
			return true
		}
	}
	return false
}

// successes returns the feasible explored paths on which the root may return a nil error.
func (t *c12Tr) successes() []*c12X {
	var out []*c12X
	for _, p := range t.res.Paths {
		if p.End != "return" || len(p.Results) == 0 {
			continue
		}
		x := t.newX(p)
		if !x.feas {
			continue
		}
		last := p.Results[len(p.Results)-1]
		if !an.IsErrorType(c12SymType(last, t.fn)) {
			continue
		}
		if x.mayBeNil(last) {
			out = append(out, x)
		}
	}
	return out
}

func c12SymType(_ *an.Sym, fn *ssa.Function) types.Type {
	rs := fn.Signature.Results()
	if rs.Len() == 0 {
		return nil
	}
	return rs.At(rs.Len() - 1).Type()
}

// iterations of the loop over <receiver><path>: n iterations were entered (0..n-1, in full) and the loop test
// then failed; ok=false when the path left the loop otherwise (break, no loop at all, skipped indices).
func (x *c12X) iterations(path string) (n int64, ok bool, why string) {
	return x.iterationsKey(x.lenKey(path))
}

func (x *c12X) iterationsKey(key string) (n int64, ok bool, why string) {
	lf := x.loops[key]
	if lf == nil || lf.exit < 0 {
		return 0, false, "the nil return is reached without running a loop over all elements to its end"
	}
	for k := int64(0); k < lf.exit; k++ {
		if !lf.entered[k] {
			return 0, false, fmt.Sprintf("the loop does not visit element %d", k)
		}
	}
	return lf.exit, true, ""
}

// sliceOf: s is `v[:]` of a local array whose content on this path is h.
func (x *c12X) sliceOf(s, h *an.Sym) bool {
	if h == nil {
		return false
	}
	cell, _, ok := an.H12ArrayOfSlice(x.rs(s))
	if !ok {
		return false
	}
	v := x.p.Mem[cell]
	return v != nil && an.SymEq(v, h)
}

// ---------------------------------------------------------------------------------------------
// L3 on paths

func c12Truncated(c *rt.Ctx, t *c12Tr) bool {
	if t.res.Truncated {
		c.Unsure(t.name+" paths", t.fn.Pos(), "path exploration truncated")
		return true
	}
	return false
}

// c12HashCmp: the success path recomputed hashFn(<receiver><root>, extra...) and compared it with the stored field.
func c12HashCmp(a *c12Agg, x *c12X, what, hashFn, root, field string, cfg *bool) {
	name := x.t.name
	h, why := x.need(hashFn, -1, func(e *an.Ev) bool {
		if len(e.Args) == 0 || !x.at(e.Args[0], root) {
			return false
		}
		if cfg != nil {
			b, ok := x.rs(e.Args[1]).IsConstBool()
			return ok && b == *cfg
		}
		return true
	})
	if !a.check(name+" recompute "+what, c12EvPos(h, x.pos()), h != nil, "recomputation of the "+what+" from the receiver: "+why) {
		a.check(name+" compare "+what, x.pos(), false, "no comparison of the stored "+field+" with a recomputed "+what)
		return
	}
	hv := c12Res(h, 0)
	eq, why := x.need("bytes.Equal", 0, func(e *an.Ev) bool {
		return len(e.Args) == 2 && ((x.at(e.Args[0], root+field) && x.sliceOf(e.Args[1], hv)) || (x.at(e.Args[1], root+field) && x.sliceOf(e.Args[0], hv)))
	})
	if eq == nil {
		// the recomputed hash *is* compared (and the comparison passed) with a value whose origin the path does not
		// reveal (read back from a local table / merged variable): not positive evidence of a missing comparison
		for _, e := range x.calls("bytes.Equal") {
			if len(e.Args) != 2 {
				continue
			}
			if ok, _ := x.passed(e, 0); !ok {
				continue
			}
			for i := 0; i < 2; i++ {
				if l := x.loc(e.Args[1-i]); x.sliceOf(e.Args[i], hv) && !x.sliceOf(e.Args[1-i], hv) && (l == nil || l.Param == nil) {
					a.unsure(name+" compare "+what, c12EvPos(e, x.pos()), "the recomputed "+what+" is compared with a value the path exploration cannot trace back to the stored "+field)
					return
				}
			}
		}
	}
	a.check(name+" compare "+what, c12EvPos(eq, x.pos()), eq != nil, "comparison of the stored "+field+" with the recomputed "+what+": "+why)
}

func c12DefVerifyHashesP(c *rt.Ctx) {
	t := c12Trace(c.Fn("cluster.Definition.VerifyHashes"), 4)
	if c12Truncated(c, t) {
		return
	}
	xs := t.successes()
	if len(xs) == 0 {
		c.Bail("Definition.VerifyHashes has no explored path returning nil")
	}
	a := newC12Agg(c)
	tr, fa := true, false
	for _, x := range xs {
		a.cur = x
		c12HashCmp(a, x, "config hash", "cluster.hashDefinition", "", ".ConfigHash", &tr)
		c12HashCmp(a, x, "definition hash", "cluster.hashDefinition", "", ".DefinitionHash", &fa)
	}
	a.flush()
}

func c12LockVerifyHashesP(c *rt.Ctx) {
	t := c12Trace(c.Fn("cluster.Lock.VerifyHashes"), 4)
	if c12Truncated(c, t) {
		return
	}
	xs := t.successes()
	if len(xs) == 0 {
		c.Bail("Lock.VerifyHashes has no explored path returning nil")
	}
	a := newC12Agg(c)
	tr, fa := true, false
	for _, x := range xs {
		a.cur = x
		dv, why := x.need("cluster.Definition.VerifyHashes", -1, func(e *an.Ev) bool { return len(e.Args) > 0 && x.at(e.Args[0], ".Definition") })
		if dv == nil && len(x.calls("cluster.Definition.VerifyHashes")) == 0 && len(x.calls("cluster.hashDefinition")) > 0 {
			// Definition.VerifyHashes expanded in place: both hashes of the embedded definition must be compared here
			sub := newC12Agg(c)
			c12HashCmp(sub, x, "config hash", "cluster.hashDefinition", ".Definition", ".ConfigHash", &tr)
			c12HashCmp(sub, x, "definition hash", "cluster.hashDefinition", ".Definition", ".DefinitionHash", &fa)
			ok := true
			for _, e := range sub.m {
				if e.bad != "" {
					ok, why = false, "Definition.VerifyHashes is not called on the embedded definition and its expansion is incomplete: "+e.bad
				}
			}
			a.check(t.name+" definition hashes", x.pos(), ok, why)
		} else {
			a.check(t.name+" definition hashes", c12EvPos(dv, x.pos()), dv != nil, "Definition.VerifyHashes on the embedded definition: "+why)
		}
		c12HashCmp(a, x, "lock hash", "cluster.hashLock", "", ".LockHash", nil)
	}
	a.flush()
}

func c12LockVerifySigsP(c *rt.Ctx) {
	t := c12Trace(c.Fn("cluster.Lock.VerifySignatures"), 0)
	if c12Truncated(c, t) {
		return
	}
	name := t.name
	xs := t.successes()
	if len(xs) == 0 {
		c.Bail("Lock.VerifySignatures has no explored path returning nil")
	}
	a := newC12Agg(c)
	full := 0
	for _, x := range xs {
		x := x
		a.cur = x
		recvArg := func(e *an.Ev) bool { return len(e.Args) > 0 && x.at(e.Args[0], "") }
		defSigs, dwhy := x.need("cluster.Definition.VerifySignatures", -1, func(e *an.Ev) bool { return len(e.Args) > 0 && x.at(e.Args[0], ".Definition") })
		if x.emptyLen(".SignatureAggregate") {
			// frozen early exit: locks of v1.0/v1.1 were created without an aggregate signature
			a.check(name+" early-exit empty-aggregate", x.pos(), x.versionFact(".Definition.Version", true, "v1.0.0", "v1.1.0"),
				"nil is returned for an empty SignatureAggregate outside the v1.0/v1.1 exemption")
			a.check(name+" early-exit definition signatures", c12EvPos(defSigs, x.pos()), defSigs != nil, "definition signatures: "+dwhy)
			continue
		}
		full++
		a.check(name+" definition signatures", c12EvPos(defSigs, x.pos()), defSigs != nil, "definition signatures: "+dwhy)
		sig, why := x.need("tbls/tblsconv.SignatureFromBytes", -1, func(e *an.Ev) bool { return len(e.Args) == 1 && x.at(e.Args[0], ".SignatureAggregate") })
		a.check(name+" aggregate signature parse", c12EvPos(sig, x.pos()), sig != nil, "aggregate signature parse: "+why)
		n, okLoop, why := x.iterations(".Validators")
		a.check(name+" validator loop", x.pos(), okLoop, "per-validator checks: "+why)
		if !okLoop {
			continue
		}
		shares := make([]*an.Sym, n)
		var seenMap *an.Sym
		for k := int64(0); k < n; k++ {
			el := fmt.Sprintf(".Validators[c:%d]", k)
			// share count
			cnt := false
			for _, e := range x.p.Evs {
				if e.Kind != "branch" || len(e.Args) != 1 || !e.Taken {
					continue
				}
				b := e.Args[0]
				if b.Kind != an.KBin || b.Op != token.EQL || len(b.Args) != 2 {
					continue
				}
				l0, ok0 := an.H12IsLen(b.Args[0])
				l1, ok1 := an.H12IsLen(b.Args[1])
				if ok0 && ok1 && ((x.at(l0, el+".PubShares") && x.at(l1, ".Definition.Operators")) || (x.at(l1, el+".PubShares") && x.at(l0, ".Definition.Operators"))) {
					cnt = true
				}
			}
			a.check(name+" per-validator share count", x.pos(), cnt, "a validator passes without len(val.PubShares) == len(l.Operators) having been established")
			key, why := x.need("tbls/tblsconv.PubkeyFromBytes", -1, func(e *an.Ev) bool { return len(e.Args) == 1 && x.at(e.Args[0], el+".PubKey") })
			a.check(name+" per-validator group key parse", c12EvPos(key, x.pos()), key != nil, "group key parse: "+why)
			parse, why := x.need("cluster.parsePubShares", -1, func(e *an.Ev) bool { return len(e.Args) == 1 && x.at(e.Args[0], el+".PubShares") })
			a.check(name+" per-validator public share parse/duplicates", c12EvPos(parse, x.pos()), parse != nil, "public share parse/duplicates: "+why)
			if key == nil || parse == nil {
				a.check(name+" per-validator duplicate key", x.pos(), false, "no duplicate test of the group public key")
				a.check(name+" per-validator share reconstruction", x.pos(), false, "no share reconstruction check on the validator being iterated")
				continue
			}
			kv, sv := c12Res(key, 0), c12Res(parse, 0)
			shares[k] = sv
			// duplicate group key
			dup, unsure, m := x.dupTest(kv)
			if unsure != "" {
				a.unsure(name+" per-validator duplicate key", x.pos(), unsure)
			} else {
				if dup == "" && seenMap != nil && !an.SymEq(seenMap, m) {
					dup = "the seen-set is not one map shared by all iterations"
				}
				a.check(name+" per-validator duplicate key", x.pos(), dup == "", dup)
			}
			if m != nil {
				seenMap = m
			}
			recon, why := x.need("cluster.verifySharesReconstruct", -1, func(e *an.Ev) bool {
				return len(e.Args) == 3 && an.SymEq(x.rs(e.Args[0]), kv) && an.SymEq(x.rs(e.Args[1]), sv) && x.at(e.Args[2], ".Definition.Threshold")
			})
			a.check(name+" per-validator share reconstruction", c12EvPos(recon, x.pos()), recon != nil, "share reconstruction (group key, parsed shares, l.Threshold): "+why)
		}
		h, why := x.need("cluster.hashLock", -1, recvArg)
		a.check(name+" lock hash", c12EvPos(h, x.pos()), h != nil, "lock hash: "+why)
		if h != nil && sig != nil {
			hv, sg := c12Res(h, 0), c12Res(sig, 0)
			unsureAcc := ""
			agg, why := x.need("tbls.VerifyAggregate", -1, func(e *an.Ev) bool {
				if len(e.Args) != 3 || !an.SymEq(x.rs(e.Args[1]), sg) || !x.sliceOf(e.Args[2], hv) {
					return false
				}
				ok, uns := x.accumulates(e.Args[0], shares)
				if uns != "" {
					unsureAcc = uns
				}
				return ok
			})
			if agg == nil && unsureAcc != "" {
				a.unsure(name+" aggregate signature over lock hash and all verified shares", x.pos(), unsureAcc)
			} else {
				a.check(name+" aggregate signature over lock hash and all verified shares", c12EvPos(agg, x.pos()), agg != nil,
					"tbls.VerifyAggregate(all verified shares, parsed aggregate signature, recomputed lock hash): "+why)
			}
		} else {
			a.check(name+" aggregate signature over lock hash and all verified shares", x.pos(), false, "no verification of the aggregate signature over the recomputed lock hash")
		}
		br, why := x.need("cluster.Lock.verifyBuilderRegistrations", -1, recvArg)
		a.check(name+" builder registrations", c12EvPos(br, x.pos()), br != nil, "builder registrations: "+why)
		ns, why := x.need("cluster.Lock.verifyNodeSignatures", -1, recvArg)
		a.check(name+" node signatures", c12EvPos(ns, x.pos()), ns != nil, "node signatures: "+why)
	}
	if full == 0 {
		a.unsure(name+" validator loop", t.fn.Pos(), "no explored path verifies a populated aggregate signature")
	}
	a.flush()
}

// dupTest: the path rejected a group key already in a seen-set and recorded the key. Returns the reason it does not
// ("" = it does), an "unrecognised" note, and the seen-set.
func (x *c12X) dupTest(kv *an.Sym) (bad, unsure string, m *an.Sym) {
	type lk struct {
		i   int
		e   *an.Ev
		cok bool
	}
	var lks []lk
	for i := range x.p.Evs {
		e := &x.p.Evs[i]
		if e.Kind == "lookup" && len(e.Args) == 2 && an.SymEq(x.rs(e.Args[1]), kv) {
			l, _ := e.In.(*ssa.Lookup)
			lks = append(lks, lk{i, e, l != nil && l.CommaOk})
		}
	}
	if len(lks) == 0 {
		return "no duplicate test of the group public key", "", nil
	}
	recorded := func(mp *an.Sym, after int) int {
		for i := range x.p.Evs {
			e := &x.p.Evs[i]
			if i > after && e.Kind == "mapupdate" && len(e.Args) == 3 && an.SymEq(e.Args[0], mp) && an.SymEq(x.rs(e.Args[1]), kv) {
				return i
			}
		}
		return -1
	}
	why := ""
	for _, l := range lks {
		mp := l.e.Args[0]
		if mp.Kind != an.KFresh {
			why = "the seen-set is not a map created by this verification"
			continue
		}
		if l.cok {
			present, known := x.boolFact(&an.Sym{Kind: an.KExtract, Args: []*an.Sym{l.e.Res}, Index: 1})
			if !known {
				continue
			}
			if present {
				why = "a key already in the seen-set is accepted"
				continue
			}
			if recorded(mp, -1) < 0 {
				why = "the group key is not recorded in the seen-set on every iteration"
				continue
			}
			return "", "", mp
		}
		// counting form: m[k]++ followed by a test m[k] <= 1
		if w := recorded(mp, -1); w >= 0 && l.i > w {
			if k, ok := x.termKey(l.e.Res); ok {
				if r := x.ranges[k]; r != nil && r.Hi >= 0 && r.Hi <= 1 {
					return "", "", mp
				}
			}
		}
		// boolean set form: if m[k] { reject }; m[k] = true
		if present, known := x.boolFact(l.e.Res); known {
			if present {
				why = "a key already in the seen-set is accepted"
				continue
			}
			if recorded(mp, -1) < 0 {
				why = "the group key is not recorded in the seen-set on every iteration"
				continue
			}
			return "", "", mp
		}
	}
	if why != "" {
		return why, "", lks[0].e.Args[0]
	}
	return "", "the seen-set is consulted for the group key in a form that is not recognised", lks[0].e.Args[0]
}

var c12FreshCell = regexp.MustCompile(`^alloc[0-9]+$`)

// c12EmptySlice: nil, `make([]T, 0, n)`, or the never-assigned content of a local declared on the path (`var s []T`).
func c12EmptySlice(s *an.Sym) bool {
	switch {
	case s == nil, s.IsNil():
		return true
	case s.Kind == an.KFresh:
		if mk, isMk := s.V.(*ssa.MakeSlice); isMk {
			n, isC := an.ConstInt(mk.Len)
			return isC && n == 0
		}
	case s.Kind == an.KInit:
		return c12FreshCell.MatchString(s.Cell)
	case s.Kind == an.KPure && len(s.Args) == 0 && strings.HasPrefix(s.Name, "zerofield"):
		// a field never assigned in a struct value built on the path (accumulator kept in a parameter object /
		// method receiver: `c := collector{...}; c.add(...)`): its zero value, i.e. the nil slice
		return true
	}
	return false
}

// accumulates: pk is exactly the concatenation, in order, of the verified share lists.
func (x *c12X) accumulates(pk *an.Sym, shares []*an.Sym) (ok bool, unsure string) {
	pk = x.rs(pk)
	type chunk struct {
		spread *an.Sym
		elems  []*an.Sym
	}
	var rev []chunk
	cur := pk
	for cur != nil && cur.Kind == an.KAppend && len(cur.Args) >= 1 {
		if cur.Spread {
			if len(cur.Args) != 2 {
				return false, "unrecognised append form"
			}
			rev = append(rev, chunk{spread: x.rs(cur.Args[1])})
		} else {
			rev = append(rev, chunk{elems: cur.Args[1:]})
		}
		cur = cur.Args[0]
	}
	switch {
	case c12EmptySlice(cur):
	default:
		if len(rev) == 0 {
			return false, "the public keys handed to tbls.VerifyAggregate are not built by append in the explored code"
		}
		return false, ""
	}
	var flat []chunk
	for i := len(rev) - 1; i >= 0; i-- {
		flat = append(flat, rev[i])
	}
	pos := 0
	for _, sv := range shares {
		if sv == nil {
			return false, ""
		}
		if pos < len(flat) && flat[pos].spread != nil {
			if !an.SymEq(flat[pos].spread, sv) {
				return false, ""
			}
			pos++
			continue
		}
		// element-wise: every element of sv, in order
		m, okIt, _ := x.iterationsKey("len:" + sv.Key())
		if !okIt {
			return false, ""
		}
		for j := int64(0); j < m; j++ {
			if pos >= len(flat) || flat[pos].spread != nil || len(flat[pos].elems) != 1 {
				return false, ""
			}
			want := fmt.Sprintf("init:*(%s)[c:%d]", sv.Key(), j)
			if x.rs(flat[pos].elems[0]).Key() != want {
				return false, ""
			}
			pos++
		}
	}
	return pos == len(flat), ""
}

// ---------------------------------------------------------------------------------------------
// Definition.VerifySignatures (L3) and the EIP-712 digests (L6) from the same paths

type c12DefSigs struct {
	t  *c12Tr
	xs []*c12X
}

func c12DefSigsTrace(c *rt.Ctx) *c12DefSigs {
	t := c12Trace(c.Fn("cluster.Definition.VerifySignatures"), 0)
	if c12Truncated(c, t) {
		return nil
	}
	xs := t.successes()
	if len(xs) == 0 {
		c.Bail("Definition.VerifySignatures has no explored path returning nil")
	}
	return &c12DefSigs{t, xs}
}

// sigCheck: the verifySigOrERC1271 call on (<receiver><addr>, <receiver><sig>) that passed on the path.
func (x *c12X) sigCheck(addr, sig string) (*an.Ev, string) {
	return x.need("cluster.verifySigOrERC1271", 0, func(e *an.Ev) bool {
		return len(e.Args) == 4 && x.at(e.Args[1], addr) && x.at(e.Args[3], sig)
	})
}

func (d *c12DefSigs) early(x *c12X) bool {
	for _, e := range x.calls("cluster.supportEIP712Sigs") {
		if len(e.Args) == 1 && x.at(e.Args[0], ".Version") {
			if v, known := x.boolFact(e.Res); known && !v {
				return true
			}
		}
	}
	return false
}

func c12DefVerifySigsP(c *rt.Ctx) {
	d := c12DefSigsTrace(c)
	if d == nil {
		return
	}
	name := d.t.name
	a := newC12Agg(c)
	full := 0
	for _, x := range d.xs {
		x := x
		a.cur = x
		if d.early(x) {
			// frozen early exit: definitions older than v1.3 carry no EIP-712 signatures
			unsigned := false
			for _, e := range x.calls("cluster.eip712SigsPresent") {
				if len(e.Args) == 1 && x.at(e.Args[0], ".Operators") {
					if v, known := x.boolFact(e.Res); known && !v {
						unsigned = true
					}
				}
			}
			a.check(name+" early-exit pre-v1.3", x.pos(), unsigned, "nil is returned for a pre-v1.3 definition without testing that no operator signature is present")
			continue
		}
		full++
		n, okLoop, why := x.iterations(".Operators")
		a.check(name+" operator loop", x.pos(), okLoop, "per-operator checks: "+why)
		if !okLoop {
			continue
		}
		unsignedOps := int64(0)
		for k := int64(0); k < n; k++ {
			el := fmt.Sprintf(".Operators[c:%d]", k)
			cfg, cwhy := x.sigCheck(el+".Address", el+".ConfigSignature")
			enr, ewhy := x.sigCheck(el+".Address", el+".ENRSignature")
			if cfg != nil && enr != nil {
				a.check(name+" operator config signature", c12EvPos(cfg, x.pos()), true, "")
				a.check(name+" operator enr signature", c12EvPos(enr, x.pos()), true, "")
				continue
			}
			// the only accepted bypass: a completely unsigned operator (no address, no signatures)
			noAddr, _ := x.emptyStr(el + ".Address")
			if noAddr && x.emptyLen(el+".ENRSignature") && x.emptyLen(el+".ConfigSignature") {
				unsignedOps++
				continue
			}
			if cfg == nil {
				a.check(name+" operator config signature", x.pos(), false, "an operator that is not completely unsigned (empty address and signatures) passes without verifySigOrERC1271(eth1, o.Address, digest, o.ConfigSignature): "+cwhy)
			}
			if enr == nil {
				a.check(name+" operator enr signature", x.pos(), false, "an operator that is not completely unsigned (empty address and signatures) passes without verifySigOrERC1271(eth1, o.Address, digest, o.ENRSignature): "+ewhy)
			}
		}
		a.check(name+" all-or-none unsigned operators", x.pos(), unsignedOps == 0 || unsignedOps == n,
			"nil is returned although some operators are completely unsigned while others signed")
		// creator
		cr, crwhy := x.sigCheck(".Creator.Address", ".Creator.ConfigSignature")
		noAddr, _ := x.emptyStr(".Creator.Address")
		switch {
		case cr != nil:
			a.check(name+" creator signature", c12EvPos(cr, x.pos()), true, "")
		case x.versionFact(".Version", true, "v1.3.0"):
			// frozen exemption: v1.3 definitions have no creator signature
			a.check(name+" creator signature", x.pos(), true, "")
		case noAddr && x.emptyLen(".Creator.ConfigSignature"):
			a.check(name+" creator signature", x.pos(), true, "")
			a.check(name+" unsigned-creator exemption", x.pos(), unsignedOps >= 1 && unsignedOps == n,
				"an unsigned creator is accepted without requiring that every operator is unsigned too")
		default:
			a.check(name+" creator signature", x.pos(), false, "nil is returned without verifySigOrERC1271(eth1, d.Creator.Address, digest, d.Creator.ConfigSignature) outside the v1.3 / unsigned-creator exemptions: "+crwhy)
		}
	}
	if full == 0 {
		a.unsure(name+" operator loop", d.t.fn.Pos(), "no explored path verifies the operator signatures")
	}
	a.flush()
	// supportEIP712Sigs is exactly !isAnyVersion(version, v1.0, v1.1, v1.2)
	sf := c.Fn("cluster.supportEIP712Sigs")
	st := c12Trace(sf, 0)
	exact, n := !st.res.Truncated, 0
	for _, p := range st.res.Paths {
		if p.End != "return" || len(p.Results) != 1 {
			continue
		}
		n++
		x := st.newX(p)
		if rv, isC := p.Results[0].IsConstBool(); isC {
			if !x.versionFact("", !rv, "v1.0.0", "v1.1.0", "v1.2.0") {
				exact = false
			}
			continue
		}
		ok := false
		for _, e := range x.calls("cluster.isAnyVersion") {
			if r := p.Results[0]; r.Kind == an.KNot && len(r.Args) == 1 && an.SymEq(r.Args[0], e.Res) && len(e.Args) == 2 && x.at(e.Args[0], "") {
				if call, isCall := e.In.(*ssa.Call); isCall {
					vs, okv := c12VersionsOf(call)
					ok = okv && strings.Join(vs, ",") == "v1.0.0,v1.1.0,v1.2.0"
				}
			}
		}
		if !ok {
			exact = false
		}
	}
	c.Check("cluster.supportEIP712Sigs versions", sf.Pos(), exact && n > 0, "supportEIP712Sigs is not exactly `!isAnyVersion(version, v1.0, v1.1, v1.2)`: the signature-free early exit covers other versions")
}

// c12GlobalSym: s is the content of the package-level variable cluster.<name>.
func (x *c12X) globalSym(s *an.Sym, name string) bool {
	l := x.loc(s)
	return l != nil && l.Path == "" && strings.HasPrefix(l.Root, "g:") && strings.HasSuffix(l.Root, "/cluster."+name)
}

func c12L6P(c *rt.Ctx) {
	d := c12DefSigsTrace(c)
	if d == nil {
		return
	}
	name := d.t.name
	a := newC12Agg(c)
	digest := func(x *c12X, what string, v *an.Ev, typeOK func(*an.Sym) bool, opOK func(*an.Sym) bool) {
		dg, why := x.need("cluster.digestEIP712", -1, func(e *an.Ev) bool {
			return len(v.Args) == 4 && an.SymEq(x.rs(v.Args[2]), c12Res(e, 0))
		})
		if dg == nil {
			a.check(name+" "+what+" digest", c12EvPos(v, x.pos()), false, "the digest verified is not the checked result of digestEIP712: "+why)
			return
		}
		ok := len(dg.Args) == 3 && typeOK(dg.Args[0]) && x.at(dg.Args[1], "") && opOK(dg.Args[2])
		a.check(name+" "+what+" digest", c12EvPos(dg, x.pos()), ok, "digest is not built from the expected EIP-712 type, this definition and the operator being verified")
	}
	anyOp := func(*an.Sym) bool { return true }
	for _, x := range d.xs {
		x := x
		a.cur = x
		if d.early(x) {
			continue
		}
		n, okLoop, _ := x.iterations(".Operators")
		if okLoop {
			for k := int64(0); k < n; k++ {
				el := fmt.Sprintf(".Operators[c:%d]", k)
				if cfg, _ := x.sigCheck(el+".Address", el+".ConfigSignature"); cfg != nil {
					digest(x, "operator config", cfg, func(s *an.Sym) bool {
						e := x.producer(x.rs(s))
						return e != nil && e.Name == "cluster.getOperatorEIP712Type" && len(e.Args) == 1 && x.at(e.Args[0], ".Version")
					}, anyOp)
				}
				if enr, _ := x.sigCheck(el+".Address", el+".ENRSignature"); enr != nil {
					digest(x, "operator enr", enr, func(s *an.Sym) bool { return x.globalSym(s, "eip712ENR") },
						func(s *an.Sym) bool { return x.at(s, el) })
				}
			}
		}
		if cr, _ := x.sigCheck(".Creator.Address", ".Creator.ConfigSignature"); cr != nil {
			digest(x, "creator config", cr, func(s *an.Sym) bool { return x.globalSym(s, "eip712CreatorConfigHash") }, anyOp)
		}
	}
	a.flush()
	// getOperatorEIP712Type: eip712V1x3ConfigHash exactly for v1.3, eip712OperatorConfigHash otherwise
	gt := c.Fn("cluster.getOperatorEIP712Type")
	tt := c12Trace(gt, 0)
	okT, nT := !tt.res.Truncated, 0
	for _, p := range tt.res.Paths {
		if p.End != "return" || len(p.Results) != 1 {
			continue
		}
		nT++
		x := tt.newX(p)
		switch {
		case x.globalSym(p.Results[0], "eip712V1x3ConfigHash"):
			okT = okT && x.versionFact("", true, "v1.3.0")
		case x.globalSym(p.Results[0], "eip712OperatorConfigHash"):
			okT = okT && x.versionFact("", false, "v1.3.0")
		default:
			okT = false
		}
	}
	c.Check("cluster.getOperatorEIP712Type", gt.Pos(), okT && nT >= 2, "does not return eip712V1x3ConfigHash exactly for v1.3 and eip712OperatorConfigHash otherwise")
}

// atP: s denotes <p><path> for a parameter p of the traced function.
func (x *c12X) atP(s *an.Sym, p *ssa.Parameter, path string) bool {
	l := x.loc(s)
	return l != nil && l.Param != nil && l.Param == p && l.Path == path
}

func c12StructFieldIdx(t types.Type, name string) int {
	st, ok := t.Underlying().(*types.Struct)
	if !ok {
		return -1
	}
	for i := 0; i < st.NumFields(); i++ {
		if st.Field(i).Name() == name {
			return i
		}
	}
	return -1
}

// c12ValueFuncsP: the value signed under each EIP-712 type is the field the type denotes. The ValueFunc of the single
// field of each type is found in the memory left by the package initialiser (whatever form the initialiser has:
// function literal, named function, shared variable) and its return value is decoded on every path.
func c12ValueFuncsP(c *rt.Ctx) {
	sp := c.SSAPkg("cluster")
	initFn := sp.Func("init")
	if initFn == nil {
		c.Bail("cluster.init not found")
	}
	tObj, fObj := sp.Pkg.Scope().Lookup("eip712Type"), sp.Pkg.Scope().Lookup("eip712TypeField")
	if tObj == nil || fObj == nil {
		c.Bail("cluster.eip712Type / eip712TypeField not found")
	}
	fieldsIdx, vfIdx := c12StructFieldIdx(tObj.Type(), "Fields"), c12StructFieldIdx(fObj.Type(), "ValueFunc")
	if fieldsIdx < 0 || vfIdx < 0 {
		c.Bail("eip712Type.Fields / eip712TypeField.ValueFunc not found")
	}
	tr := &an.Tracer{Root: initFn, Inline: func(f *ssa.Function) bool { return false }}
	res := tr.Run()
	for _, g := range []struct {
		name, path string
		param      int
	}{
		{"eip712CreatorConfigHash", ".ConfigHash", 0}, {"eip712OperatorConfigHash", ".ConfigHash", 0},
		{"eip712V1x3ConfigHash", ".ConfigHash", 0}, {"eip712ENR", ".ENR", 1},
	} {
		construct := "cluster." + g.name + " ValueFunc"
		var vf *ssa.Function
		n := 0
		for _, p := range res.Paths {
			gs := p.Mem["g:"+sp.Pkg.Path()+"."+g.name]
			if gs == nil || gs.Kind != an.KStruct || gs.Fields[fieldsIdx] == nil {
				continue
			}
			cell, _, ok := an.H12ArrayOfSlice(gs.Fields[fieldsIdx])
			if !ok {
				continue
			}
			for i := 0; i < 8; i++ {
				el := an.H12Resolve(&an.Sym{Kind: an.KInit, Cell: fmt.Sprintf("%s[c:%d]", cell, i)}, p.Mem)
				if el == nil || el.Kind != an.KStruct {
					break
				}
				n++
				if f := el.Fields[vfIdx]; f != nil && (f.Kind == an.KFunc || f.Kind == an.KClosure) {
					vf = f.Fn
				}
			}
		}
		if n != 1 || vf == nil || len(vf.Params) != 2 {
			c.Unsure(construct, token.NoPos, "cannot resolve the single ValueFunc of "+g.name+" from the package initialiser")
			continue
		}
		t := c12Trace(vf, 0)
		ok, rets := !t.res.Truncated, 0
		for _, p := range t.res.Paths {
			if p.End != "return" || len(p.Results) != 1 {
				continue
			}
			rets++
			x := t.newX(p)
			v := x.rs(p.Results[0])
			if g.param == 0 {
				e := x.producer(v)
				if e == nil || e.Name != "cluster.to0xHex" || len(e.Args) != 1 {
					ok = false
					continue
				}
				v = e.Args[0]
			}
			if !x.atP(v, vf.Params[g.param], g.path) {
				ok = false
			}
		}
		c.Check(construct, vf.Pos(), ok && rets > 0, "the signed value is not the field the type denotes ("+g.path+")")
	}
}
