package rules

// c10n_follow.go — value provenance through parameter objects (C10 hardening round 3).
//
//   - c10Cx.source: where a (function) value comes from, looking through the parameters of the call chain,
//     phis entered from a known edge, local variables whose content is known on the path, members of local
//     struct literals used as parameter objects, and captured variables;
//   - c10Origin.requestField: a map of sets / a set kept in a field of a request-scoped helper object
//     (a batch, an accumulator) instead of a local variable.

import (
	"go/token"
	"go/types"
	"strings"

	"golang.org/x/tools/go/ssa"

	"charonverif/internal/an"
)

// source follows v to the value it was taken from (same frame or a caller's frame).
func (cx c10Cx) source(v ssa.Value) (ssa.Value, c10Cx) {
	for i := 0; i < 12; i++ {
		v = c10Strip(v)
		switch x := v.(type) {
		case *ssa.Parameter:
			fn := x.Parent()
			if len(cx.ch) == 0 || c10Callee(cx.ch[0]) != an.Orig(fn) {
				return v, cx
			}
			idx := c10IndexOfParam(fn, x)
			if idx < 0 || idx >= len(cx.ch[0].Common().Args) {
				return v, cx
			}
			v = cx.ch[0].Common().Args[idx]
			cx.ch = cx.ch[1:]
		case *ssa.FreeVar:
			b, bcx, ok := cx.binding(x)
			if !ok {
				return v, cx
			}
			v, cx = b, bcx
		case *ssa.Phi:
			b, ok := cx.st.phis[x]
			if !ok || b == ssa.Value(x) {
				return v, cx
			}
			v = b
		case *ssa.UnOp:
			if x.Op != token.MUL {
				return v, cx
			}
			if s := cx.cellOf(x); s != nil {
				v = s
				continue
			}
			fa, ok := c10Strip(x.X).(*ssa.FieldAddr)
			if !ok {
				return v, cx
			}
			base, bcx := cx.source(fa.X)
			al, ok := base.(*ssa.Alloc)
			if !ok {
				return v, cx
			}
			if val := c10FieldStore(al, fa.Field, nil); val != nil {
				v, cx = val, bcx
				continue
			}
			// a spilled struct value (parameter copied to memory): the member of the value it was copied from
			if ws := c10WholeStore(al); ws != nil {
				if val, vcx, ok := bcx.memberOf(ws, fa.Field); ok {
					v, cx = val, vcx
					continue
				}
			}
			return v, cx
		case *ssa.Field:
			val, vcx, ok := cx.memberOf(x.X, x.Field)
			if !ok {
				return v, cx
			}
			v, cx = val, vcx
		default:
			return v, cx
		}
	}
	return v, cx
}

// memberOf: the value put into member field of the struct value sv, if sv is (a copy of) a local struct
// literal filled member by member.
func (cx c10Cx) memberOf(sv ssa.Value, field int) (ssa.Value, c10Cx, bool) {
	base, bcx := cx.source(sv)
	ld, ok := base.(*ssa.UnOp)
	if !ok || ld.Op != token.MUL {
		return nil, cx, false
	}
	al, ok := c10Strip(ld.X).(*ssa.Alloc)
	if !ok {
		return nil, cx, false
	}
	val := c10FieldStore(al, field, nil)
	if val == nil {
		return nil, cx, false
	}
	return val, bcx, true
}

// fieldSource: the struct field v was read from or is an element of (a function taken from a slice of
// subscribers, ...), following the value and its container through the parameters of the call chain.
func (cx c10Cx) fieldSource(v ssa.Value) (string, bool) {
	for i := 0; i < 8; i++ {
		v, cx = cx.source(v)
		if k, _, ok := an.FieldOf(v); ok {
			return k, true
		}
		// step from an element to its container and go on
		moved := false
		for j := 0; j < 8 && !moved; j++ {
			switch x := c10Strip(v).(type) {
			case *ssa.Extract:
				v = x.Tuple
			case *ssa.Next:
				v = x.Iter
			case *ssa.Range:
				v = x.X
			case *ssa.Index:
				v = x.X
			case *ssa.IndexAddr:
				v = x.X
			case *ssa.Lookup:
				v = x.X
			case *ssa.Slice:
				v = x.X
			case *ssa.UnOp:
				if x.Op != token.MUL {
					return "", false
				}
				if _, isIdx := c10Strip(x.X).(*ssa.IndexAddr); !isIdx {
					return "", false
				}
				v = x.X
			case *ssa.Parameter, *ssa.FreeVar, *ssa.Phi:
				moved = true
			default:
				return "", false
			}
		}
		if !moved {
			return "", false
		}
		if nv, _ := cx.source(v); nv == c10Strip(v) {
			return "", false
		}
	}
	return "", false
}

// c10FieldCallAt: the call goes through function values kept in the struct field key, read directly or
// handed down to the calling helper as a parameter.
func c10FieldCallAt(key string, in ssa.Instruction, ch c10Chain) bool {
	call, ok := in.(ssa.CallInstruction)
	if !ok {
		return false
	}
	cc := call.Common()
	if an.FieldCall(key)(cc) {
		return true
	}
	if cc.IsInvoke() || cc.StaticCallee() != nil || len(ch) == 0 {
		return false
	}
	cx := c10Cx{w: &c10W{fn: in.Parent(), ch: ch}, ch: ch, st: c10NewState()}
	k, ok := cx.fieldSource(cc.Value)
	return ok && k == key
}

// dynName names a call of a function value by the struct field the value was read from, following the
// value through parameter objects and helper parameters ("" if it does not come from a field).
func (cx c10Cx) dynName(cc *ssa.CallCommon) string {
	if n := an.CalleeName(cc); strings.HasPrefix(n, "field:") {
		// a field of a local parameter object stands for the value put there
		src, _ := cx.source(cc.Value)
		if src != c10Strip(cc.Value) {
			if k, _, ok := an.FieldOf(src); ok {
				return "field:" + k
			}
		}
		return n
	}
	src, _ := cx.source(cc.Value)
	if k, _, ok := an.FieldOf(src); ok {
		return "field:" + k
	}
	return ""
}

// ---------------------------------------------------------------------------------------------

// requestField decides a set (isMap=false) or map of sets (isMap=true) read from field key of a struct
// other than the component: it is as good as a local variable if objects of that struct type cannot be
// kept in long-lived state (no struct field or package variable of the package has a type containing
// it), every value stored into the field is made inside the component for the request, and every read
// of the field is used harmlessly.
func (o *c10Origin) requestField(v ssa.Value, isMap bool) (handled, ok, unsure bool, why string) {
	var fa *ssa.FieldAddr
	switch x := an.Unwrap(v).(type) {
	case *ssa.UnOp:
		fa, _ = x.X.(*ssa.FieldAddr)
	}
	if fa == nil {
		return false, false, false, ""
	}
	pt, isPtr := fa.X.Type().Underlying().(*types.Pointer)
	if !isPtr {
		return false, false, false, ""
	}
	named, isNamed := pt.Elem().(*types.Named)
	if !isNamed || an.TypeName(named) == c10Comp {
		return false, false, false, ""
	}
	fn := fa.Parent()
	pkg := c10PkgOf(fn)
	if pkg == nil || named.Obj().Pkg() != pkg.Pkg {
		return true, false, true, "set is kept in a field of " + an.TypeName(named) + ", a type of another package"
	}
	k := c10ReqFieldMark(fa)
	if o.seen[k] {
		return true, true, false, ""
	}
	o.seen[k] = true
	// objects of the type are not reachable from long-lived state
	scope := pkg.Pkg.Scope()
	for _, n := range scope.Names() {
		switch obj := scope.Lookup(n).(type) {
		case *types.TypeName:
			st, isSt := obj.Type().Underlying().(*types.Struct)
			if !isSt {
				continue
			}
			for i := 0; i < st.NumFields(); i++ {
				if c10TypeContains(st.Field(i).Type(), named, 0) {
					return true, false, true, "set is kept in a field of " + an.TypeName(named) + ", objects of which are held in " + n + "." + st.Field(i).Name()
				}
			}
		case *types.Var:
			if c10TypeContains(obj.Type(), named, 0) {
				return true, false, true, "set is kept in a field of " + an.TypeName(named) + ", objects of which are held in the package variable " + n
			}
		}
	}
	// every store into the field, every read of it
	for _, f := range an.PkgFuncs(pkg) {
		for _, in := range an.Instrs(f, false) {
			g, isFA := in.(*ssa.FieldAddr)
			if !isFA || g.Field != fa.Field || !types.Identical(g.X.Type(), fa.X.Type()) {
				continue
			}
			for _, ref := range *g.Referrers() {
				switch r := ref.(type) {
				case *ssa.Store:
					if r.Addr != ssa.Value(g) {
						return true, false, true, "address of the field holding the sets is stored"
					}
					var ok, u bool
					var why string
					if isMap {
						ok, u, why = o.mapOfSets(r.Val, nil)
					} else {
						ok, u, why = o.set(r.Val, nil)
					}
					if !ok {
						return true, false, u, why
					}
				case *ssa.UnOp:
					var ok, u bool
					var why string
					if isMap {
						ok, u, why = o.mapUses(r, r.Referrers(), nil)
					} else {
						ok, u, why = o.escapes(r, r.Referrers(), nil)
					}
					if !ok {
						return true, false, u, why
					}
				case *ssa.DebugRef:
				default:
					return true, false, true, "field holding the sets is used through its address"
				}
			}
		}
	}
	return true, true, false, ""
}

func c10ReqFieldMark(fa *ssa.FieldAddr) string { return "f" + an.FieldKey(fa.X.Type(), fa.Field) }

// storedInRequestField: the store puts the value into a field that is being decided by requestField.
func (o *c10Origin) storedInRequestField(st *ssa.Store) bool {
	fa, ok := st.Addr.(*ssa.FieldAddr)
	return ok && o.seen[c10ReqFieldMark(fa)]
}

func c10TypeContains(t types.Type, want *types.Named, d int) bool {
	if d > 6 {
		return false
	}
	if n, ok := t.(*types.Named); ok {
		if n.Obj() == want.Obj() {
			return true
		}
		return false
	}
	switch u := t.(type) {
	case *types.Pointer:
		return c10TypeContains(u.Elem(), want, d+1)
	case *types.Slice:
		return c10TypeContains(u.Elem(), want, d+1)
	case *types.Array:
		return c10TypeContains(u.Elem(), want, d+1)
	case *types.Chan:
		return c10TypeContains(u.Elem(), want, d+1)
	case *types.Map:
		return c10TypeContains(u.Key(), want, d+1) || c10TypeContains(u.Elem(), want, d+1)
	case *types.Struct:
		for i := 0; i < u.NumFields(); i++ {
			if c10TypeContains(u.Field(i).Type(), want, d+1) {
				return true
			}
		}
	}
	return false
}
