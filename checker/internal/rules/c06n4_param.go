package rules

import (
	"go/constant"
	"go/token"

	"golang.org/x/tools/go/ssa"

	"charonverif/internal/an"
)

// c06Cur is the model of the current run (the field attribution below needs the package's call sites).
var c06Cur *c06Model

// c06MapField is an.FieldOf for map values that reach a helper through a parameter (or a literal through a captured
// variable): `putIfAbsent(db.attDuties, key, v, check)` makes the parameter inside putIfAbsent (one instance per
// type argument list for a generic helper) stand for MemDB.attDuties, provided every mention of the helper is a static
// call and all call sites pass the same field. Anything else stays unattributed (the D2 safety net then reports
// UNDECIDED for a write through it).
func c06MapField(v ssa.Value) (string, bool) {
	if k, _, ok := an.FieldOf(v); ok {
		return k, true
	}
	if c06Cur == nil {
		return "", false
	}
	return c06Cur.mapField(v, 0)
}

func (m *c06Model) mapField(v ssa.Value, d int) (string, bool) {
	if k, _, ok := an.FieldOf(v); ok {
		return k, true
	}
	if d > 3 {
		return "", false
	}
	switch x := an.Resolve(v).(type) {
	case *ssa.Parameter:
		fn := x.Parent()
		idx := -1
		for i, p := range fn.Params {
			if p == x {
				idx = i
			}
		}
		if idx < 0 || fn.Parent() != nil {
			return "", false
		}
		sites, ok := m.staticSites(fn)
		if !ok || len(sites) == 0 {
			return "", false
		}
		field := ""
		for _, cc := range sites {
			if idx >= len(cc.Args) {
				return "", false
			}
			k, ok := m.mapField(cc.Args[idx], d+1)
			if !ok || (field != "" && k != field) {
				return "", false
			}
			field = k
		}
		return field, true
	case *ssa.FreeVar:
		fn := x.Parent()
		idx := -1
		for i, p := range fn.FreeVars {
			if p == x {
				idx = i
			}
		}
		if idx < 0 || fn.Parent() == nil {
			return "", false
		}
		field := ""
		for _, in := range an.Instrs(fn.Parent(), false) {
			mc, ok := in.(*ssa.MakeClosure)
			if !ok || mc.Fn != ssa.Value(fn) || idx >= len(mc.Bindings) {
				continue
			}
			k, ok := m.mapField(mc.Bindings[idx], d+1)
			if !ok || (field != "" && k != field) {
				return "", false
			}
			field = k
		}
		return field, field != ""
	case *ssa.UnOp:
		// load of a captured / spilled variable holding the map
		if al, ok := x.X.(*ssa.Alloc); ok {
			if src := an.UniqueStore(al); src != nil {
				return m.mapField(src, d+1)
			}
		}
		if fv, ok := x.X.(*ssa.FreeVar); ok {
			// captured by reference: the binding is the cell
			fn := fv.Parent()
			idx := -1
			for i, p := range fn.FreeVars {
				if p == fv {
					idx = i
				}
			}
			if idx < 0 || fn.Parent() == nil {
				return "", false
			}
			field := ""
			for _, in := range an.Instrs(fn.Parent(), false) {
				mc, ok := in.(*ssa.MakeClosure)
				if !ok || mc.Fn != ssa.Value(fn) || idx >= len(mc.Bindings) {
					continue
				}
				al, ok := mc.Bindings[idx].(*ssa.Alloc)
				if !ok {
					return "", false
				}
				src := an.UniqueStore(al)
				if src == nil {
					return "", false
				}
				k, ok := m.mapField(src, d+1)
				if !ok || (field != "" && k != field) {
					return "", false
				}
				field = k
			}
			return field, field != ""
		}
	}
	return "", false
}

// staticSites lists the calls of fn in the package; ok is false when fn is mentioned in any other way (passed or
// stored as a value, started as a goroutine).
func (m *c06Model) staticSites(fn *ssa.Function) ([]*ssa.CallCommon, bool) {
	var out []*ssa.CallCommon
	for _, in := range m.refs[fn] {
		ci, ok := in.(ssa.CallInstruction)
		if !ok {
			return nil, false
		}
		if _, isGo := in.(*ssa.Go); isGo {
			return nil, false
		}
		cc := ci.Common()
		if cc.IsInvoke() || cc.Value != ssa.Value(fn) {
			return nil, false
		}
		for _, a := range cc.Args {
			if a == ssa.Value(fn) {
				return nil, false
			}
		}
		out = append(out, cc)
	}
	return out, true
}

// chanGetterParam: call is `get()` where get is a function-typed parameter of an in-package helper all of whose call
// sites pass the method value `x.M` of the named interface method ("iface:core.Deadliner.C"): the helper obtains the
// channel exactly like a direct x.M() would.
func (m *c06Model) chanGetterParam(call *ssa.Call, callee string) bool {
	if call.Call.IsInvoke() {
		return false
	}
	p, ok := an.Resolve(call.Call.Value).(*ssa.Parameter)
	if !ok {
		return false
	}
	h := p.Parent()
	idx := -1
	for i, q := range h.Params {
		if q == p {
			idx = i
		}
	}
	sites, ok := m.staticSites(h)
	if idx < 0 || !ok || len(sites) == 0 || h.Parent() != nil {
		return false
	}
	for _, cc := range sites {
		if idx >= len(cc.Args) {
			return false
		}
		mc, ok := an.Resolve(cc.Args[idx]).(*ssa.MakeClosure)
		if !ok {
			return false
		}
		w, ok := mc.Fn.(*ssa.Function)
		if !ok || w.Synthetic == "" || w.Blocks == nil {
			return false
		}
		found := false
		for _, in := range an.Instrs(w, false) {
			if ci, ok := in.(ssa.CallInstruction); ok && an.CalleeName(ci.Common()) == callee {
				found = true
			}
		}
		if !found {
			return false
		}
	}
	return true
}

// c06HandOff is one synchronous use of a function value: the calls that invoke it (a direct call, or the calls of the
// parameter inside the in-package helper it is passed to).
type c06HandOff struct {
	site ssa.CallInstruction
	invs []ssa.CallInstruction
}

// handOffs decides the mention r of fn as a value (creation of a literal / method value, or fn itself as an
// argument): every use is a plain call of the value or passes it to a static in-package callee that does nothing with
// the parameter but call it (and compare it with nil). ok=false for anything else.
func (m *c06Model) handOffs(r ssa.Instruction, fn *ssa.Function) ([]c06HandOff, bool) {
	var out []c06HandOff
	passed := func(ci ssa.CallInstruction, v ssa.Value) bool {
		if _, isCall := ci.(*ssa.Call); !isCall {
			return false
		}
		cc := ci.Common()
		if cc.Value == v {
			for _, a := range cc.Args {
				if a == v {
					return false
				}
			}
			out = append(out, c06HandOff{site: ci, invs: []ssa.CallInstruction{ci}})
			return true
		}
		h := cc.StaticCallee()
		if h == nil || !m.inPkg(h) || h.Blocks == nil {
			return false
		}
		idx := -1
		for i, a := range cc.Args {
			if a == v {
				if idx >= 0 {
					return false
				}
				idx = i
			}
		}
		if idx < 0 || idx >= len(h.Params) {
			return false
		}
		ho := c06HandOff{site: ci}
		for _, ref := range *h.Params[idx].Referrers() {
			switch x := ref.(type) {
			case *ssa.DebugRef:
			case *ssa.BinOp:
				if x.Op != token.EQL && x.Op != token.NEQ {
					return false
				}
			case *ssa.Call:
				if x.Call.Value != ssa.Value(h.Params[idx]) {
					return false
				}
				for _, a := range x.Call.Args {
					if a == ssa.Value(h.Params[idx]) {
						return false
					}
				}
				ho.invs = append(ho.invs, x)
			default:
				return false
			}
		}
		out = append(out, ho)
		return true
	}
	switch x := r.(type) {
	case *ssa.MakeClosure:
		if m.funcOf(x) != fn {
			return nil, false
		}
		n := 0
		for _, ref := range *x.Referrers() {
			if _, isDbg := ref.(*ssa.DebugRef); isDbg {
				continue
			}
			ci, ok := ref.(ssa.CallInstruction)
			if !ok || !passed(ci, x) {
				return nil, false
			}
			n++
		}
		return out, n > 0
	case *ssa.Call:
		// fn is mentioned among the arguments: as itself, or as a method value / literal whose creation is a mention
		// of its own (decided there)
		n := 0
		for _, a := range x.Call.Args {
			if m.funcOf(a) != fn {
				continue
			}
			n++
			if _, isMC := a.(*ssa.MakeClosure); isMC {
				continue
			}
			if a != ssa.Value(fn) || !passed(x, a) {
				return nil, false
			}
		}
		return out, n > 0
	}
	return nil, false
}

// c06ClashEscapes searches, from just after instruction from under valuation env, a path on which the function reports
// success without a rejecting comparison that involves one of the stored values. A success return that hands the
// stored value back to the caller (`return existing, true` of a get-or-insert helper that cannot reject by itself) is
// not the end of the story: the search continues after every call site of the function, with the results that are
// constant on that return known (`found` = true) and the returned stored value as the value to compare. esc: such a
// path exists (positive evidence); opaque: a path ends in a check through an unresolvable function value; unknown:
// the continuation could not be followed (reason).
func c06ClashEscapes(m *c06Model, from ssa.Instruction, env an.H06Env, stored []ssa.Value, depth int) (path []*ssa.BasicBlock, esc, opaque bool, unknown string) {
	fn := from.Parent()
	type handed struct {
		r      *ssa.Return
		consts map[int]constant.Value
		idx    []int
	}
	var back []handed
	path, esc = an.H06Escape(from, an.H06Opt{Env: env, NoReenter: true,
		Effect: func(in ssa.Instruction) bool {
			for _, sv := range stored {
				if c06RejectingComparison(m, in, sv) || c06RejectingCall(m, in, sv) {
					return true
				}
				if c06OpaqueCheck(m, in, sv) {
					opaque = true
					return true
				}
			}
			return false
		},
		Facts: c06ErrFacts,
		ReturnOK: func(r *ssa.Return, known an.H06Env) bool {
			if c06RetOK(r, known) {
				return true
			}
			h := handed{r: r, consts: map[int]constant.Value{}}
			for i, res := range returnValues(r) {
				dep := false
				for _, sv := range stored {
					if c06DependsOn(res, sv) {
						dep = true
					}
				}
				if dep {
					h.idx = append(h.idx, i)
					continue
				}
				if c, ok := an.Unwrap(res).(*ssa.Const); ok && c.Value != nil {
					h.consts[i] = c.Value
				} else if known != nil {
					if k, ok := an.H06Eval(res, known); ok && k != nil && (k.Kind() == constant.Bool || k.Kind() == constant.Int) {
						h.consts[i] = k
					}
				}
			}
			if len(h.idx) == 0 {
				return false // the caller never sees the stored value: nobody can compare it any more
			}
			back = append(back, h)
			return true
		}})
	if esc || len(back) == 0 {
		return path, esc, opaque, ""
	}
	if depth > 2 {
		return nil, false, opaque, "the stored value is handed back through more helper levels than the rule follows"
	}
	sites, ok := m.staticSites(fn)
	if !ok || len(sites) == 0 || fn.Parent() != nil {
		return nil, false, opaque, "the stored value is handed back to the callers of " + an.FuncName(fn) + ", which is used as a value: cannot follow where it is compared"
	}
	for _, h := range back {
		for _, in := range m.refs[fn] {
			call, isCall := in.(*ssa.Call)
			if !isCall {
				return nil, false, opaque, "the stored value is handed back to a deferred call of " + an.FuncName(fn)
			}
			known := map[ssa.Value]constant.Value{}
			var sv []ssa.Value
			if len(h.r.Results) == 1 {
				sv = append(sv, call)
			} else {
				for _, ref := range *call.Referrers() {
					ex, ok := ref.(*ssa.Extract)
					if !ok {
						continue
					}
					if k, ok := h.consts[ex.Index]; ok {
						known[ex] = k
					}
					for _, i := range h.idx {
						if i == ex.Index {
							sv = append(sv, ex)
						}
					}
				}
			}
			if len(sv) == 0 {
				// the caller drops the stored value: it cannot compare
				sv = nil
			}
			handedBack := sv
			cenv := func(v ssa.Value) (constant.Value, bool) {
				if k, ok := known[v]; ok {
					return k, true
				}
				// stored values are never nil (D2 inserts addresses of fresh clones): a nil test of the value handed back
				// on the existing-key path is decided
				if bin, ok := v.(*ssa.BinOp); ok && (bin.Op == token.EQL || bin.Op == token.NEQ) {
					for _, x := range handedBack {
						if !c06Nillable(x.Type()) {
							continue
						}
						if (an.Unwrap(bin.X) == x && an.IsNilConst(bin.Y)) || (an.Unwrap(bin.Y) == x && an.IsNilConst(bin.X)) {
							return constant.MakeBool(bin.Op == token.NEQ), true
						}
					}
				}
				return nil, false
			}
			p2, esc2, op2, unk2 := c06ClashEscapes(m, call, cenv, sv, depth+1)
			if esc2 {
				return p2, true, opaque || op2, ""
			}
			if op2 {
				opaque = true
			}
			if unk2 != "" && unknown == "" {
				unknown = unk2
			}
		}
	}
	return nil, false, opaque, unknown
}
