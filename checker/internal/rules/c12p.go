package rules

// Path-based formulation of C12-L4 (Combine stores only secrets whose public key was compared with the lock) and
// C12-L5 (the loaders ignore a verification error only under the no-verify flag). See c12h.go for the engine.

import (
	"go/token"
	"regexp"

	"golang.org/x/tools/go/ssa"

	"charonverif/internal/an"
	"charonverif/internal/rt"
)

// eqFact: the path decided a == b (true) / a != b (false).
func (x *c12X) eqFact(a, b *an.Sym) (eq, known bool) {
	for _, e := range x.p.Evs {
		if e.Kind != "branch" || len(e.Args) != 1 {
			continue
		}
		bs := e.Args[0]
		if bs.Kind != an.KBin || bs.Op != token.EQL || len(bs.Args) != 2 {
			continue
		}
		l, r := x.rs(bs.Args[0]), x.rs(bs.Args[1])
		if (an.SymEq(l, a) && an.SymEq(r, b)) || (an.SymEq(l, b) && an.SymEq(r, a)) {
			eq, known = e.Taken, true
		}
	}
	return
}

// flagFact: what the path decided about the boolean at <param><path>.
func (x *c12X) flagFact(p *ssa.Parameter, path string) (val, known bool) {
	for _, e := range x.p.Evs {
		if e.Kind != "branch" || len(e.Args) != 1 {
			continue
		}
		if l := x.loc(e.Args[0]); l != nil && l.Param == p && l.Path == path {
			val, known = e.Taken, true
		}
	}
	return
}

// nilFactAt: what the path decided about <param><path> == nil.
func (x *c12X) nilFactAt(p *ssa.Parameter, path string) (isNil, known bool) {
	for _, e := range x.p.Evs {
		if e.Kind != "branch" || len(e.Args) != 1 {
			continue
		}
		b := e.Args[0]
		if b.Kind != an.KBin || b.Op != token.EQL || len(b.Args) != 2 {
			continue
		}
		for i := 0; i < 2; i++ {
			if b.Args[i].IsNil() {
				if l := x.loc(b.Args[1-i]); l != nil && l.Param == p && l.Path == path {
					isNil, known = e.Taken, true
				}
			}
		}
	}
	return
}

var c12ValPubKey = regexp.MustCompile(`^\.Validators\[(.+)\]\.PubKey$`)

func c12L4P(c *rt.Ctx) {
	fn := c.Fn("cmd/combine.Combine")
	name := "cmd/combine.Combine"
	inline := c12InlineSame(fn)
	// the lock is what loadManifest returned, and its error was checked before anything is recombined
	lmCall := c.OneCall(fn, an.Static("cmd/combine.loadManifest"), "loadManifest", false)
	fromLoad := func(v ssa.Value) bool {
		ex, ok := an.Resolve(v).(*ssa.Extract)
		return ok && ex.Index == 0 && ex.Tuple == lmCall.Value()
	}
	isLock := func(s *an.Sym) bool {
		if s == nil {
			return false
		}
		switch s.Kind {
		case an.KExtract:
			return s.Index == 0 && len(s.Args) == 1 && s.Args[0].Kind == an.KOpaque && s.Args[0].V == lmCall.Value()
		case an.KOpaque:
			// the variable holding the lock, read after the starting point (a variable captured by a function literal)
			return s.V != nil && fromLoad(s.V)
		case an.KInit:
			if len(s.Args) == 1 && s.Args[0] != nil {
				if al, ok := s.Args[0].V.(*ssa.Alloc); ok {
					if st := an.AllStores(al); len(st) == 1 {
						return fromLoad(st[0].Val)
					}
				}
			}
		}
		return false
	}
	// exploration starts where the recombination loop is entered (the directory scanning before it only multiplies paths)
	start := c12RecombineStart(fn, inline)
	if start == nil {
		c.Bail("no loop in Combine that leads to tbls.RecoverSecret")
	}
	if ok, why := an.Guarded(lmCall, start.Instrs[0], an.DefaultGuard); !ok {
		c.Bad(name+" keystore holds only compared secrets", lmCall.Pos(), "secrets are recombined although loading the cluster lock may have failed: "+why)
		return
	}
	t := c12TraceFrom(fn, start, 0, inline)
	if c12Truncated(c, t) {
		return
	}
	xs := t.successes()
	if len(xs) == 0 {
		c.Bail("Combine has no explored path returning nil")
	}
	a := newC12Agg(c)
	stored := 0
	for _, x := range xs {
		x := x
		a.cur = x
		kss := x.calls("field:cmd/combine.options.keyStoreFunc")
		if len(kss) == 0 {
			continue
		}
		locks := map[string]bool{}
		x.walk(func(s *an.Sym) {
			if isLock(s) && !locks[s.Key()] {
				locks[s.Key()] = true
				t.dec.AddRoot(s.Key(), lmCall.Common().Signature().Results().At(0).Type())
			}
		})
		for _, ks := range kss {
			if len(ks.Args) < 1 {
				continue
			}
			// what is written: an append chain of single secrets
			var elems []*an.Sym
			okChain, cur := true, x.rs(ks.Args[0])
			for cur != nil && cur.Kind == an.KAppend && len(cur.Args) >= 1 {
				if cur.Spread {
					okChain = false
				}
				for i := len(cur.Args) - 1; i >= 1; i-- {
					elems = append(elems, x.rs(cur.Args[i]))
				}
				cur = cur.Args[0]
			}
			if !c12EmptySlice(cur) {
				okChain = false
			}
			if !a.check(name+" keystore holds only compared secrets", c12EvPos(ks, x.pos()), okChain,
				"the slice handed to the keystore writer is not the accumulation of the compared secrets") {
				continue
			}
			if len(locks) == 0 && len(elems) > 0 {
				a.check(name+" keystore holds only compared secrets", c12EvPos(ks, x.pos()), false, "keys are stored on a path that never uses the loaded cluster lock")
				continue
			}
			for _, s := range elems {
				stored++
				rc := x.producer(s)
				if rc == nil || rc.Name != "tbls.RecoverSecret" || !an.SymEq(c12Res(rc, 0), s) {
					a.check(name+" keystore holds only compared secrets", c12EvPos(ks, x.pos()), false, "a stored key is not the result of tbls.RecoverSecret")
					continue
				}
				if ok, why := x.passed(rc, -1); !ok {
					a.check(name+" keystore holds only compared secrets", c12EvPos(rc, x.pos()), false, "tbls.RecoverSecret: "+why)
					continue
				}
				// derivations
				var gens, vals []*an.Ev
				gwhy, vwhy := "no tbls.SecretToPublicKey of the recombined secret", "no tblsconv.PubkeyFromBytes of a lock validator's public key"
				for _, e := range x.calls("tbls.SecretToPublicKey") {
					if len(e.Args) == 1 && an.SymEq(x.rs(e.Args[0]), s) {
						if ok, w := x.passed(e, -1); ok {
							gens = append(gens, e)
						} else {
							gwhy = w
						}
					}
				}
				for _, e := range x.calls("tbls/tblsconv.PubkeyFromBytes") {
					if len(e.Args) != 1 {
						continue
					}
					if l := x.loc(e.Args[0]); l != nil && locks[l.Root] && c12ValPubKey.MatchString(l.Path) {
						if ok, w := x.passed(e, -1); ok {
							vals = append(vals, e)
						} else {
							vwhy = w
						}
					}
				}
				// the comparison that admitted this secret
				var gen, val *an.Ev
				cmpWhy := "the recombined secret is stored without comparing tbls.SecretToPublicKey(secret) with the lock's validator public key"
				for _, g := range gens {
					for _, v := range vals {
						if eq, known := x.eqFact(c12Res(g, 0), c12Res(v, 0)); known {
							if eq {
								gen, val = g, v
							} else {
								cmpWhy = "a secret whose public key differs from the lock's validator public key is stored"
							}
						}
					}
				}
				a.check(name+" public-key comparison", c12EvPos(rc, x.pos()), gen != nil, cmpWhy)
				if gen == nil {
					// attribute a missing/unchecked derivation to its own construct as well
					if len(gens) == 0 {
						a.check(name+" generated public key derivation checked", c12EvPos(rc, x.pos()), false, gwhy)
					}
					if len(vals) == 0 {
						a.check(name+" lock validator key derivation checked", c12EvPos(rc, x.pos()), false, vwhy)
					}
					continue
				}
				a.check(name+" generated public key derivation checked", c12EvPos(gen, x.pos()), true, "")
				a.check(name+" lock validator key derivation checked", c12EvPos(val, x.pos()), true, "")
				// same validator index for the shares and the lock entry
				idx := c12ValPubKey.FindStringSubmatch(x.loc(val.Args[0]).Path)[1]
				bind := false
				if sh := x.producer(x.rs(rc.Args[0])); sh != nil && sh.Name == "cmd/combine.shareIdxByPubkeys" && len(sh.Args) == 3 {
					if ok, _ := x.passed(sh, -1); ok && isLock(x.rs(sh.Args[0])) && x.rs(sh.Args[2]).Key() == idx {
						set := x.rs(sh.Args[1])
						for _, e := range x.p.Evs {
							if e.Kind == "lookup" && len(e.Args) == 2 && e.Res != nil && an.SymEq(e.Res, set) && x.rs(e.Args[1]).Key() == idx {
								bind = true
							}
						}
					}
				}
				a.check(name+" validator index binding", c12EvPos(val, x.pos()), bind,
					"the secret is recombined from the shares of one validator index but compared with the lock entry of another")
			}
		}
	}
	if stored == 0 {
		a.unsure(name+" public-key comparison", fn.Pos(), "no explored path stores a recombined secret")
	}
	a.flush()
}

// c12RecombineStart: the block from which the outermost loop of fn that (through the functions stepped into) leads
// to tbls.RecoverSecret is entered.
func c12RecombineStart(fn *ssa.Function, inline func(*ssa.Function) bool) *ssa.BasicBlock {
	seen := map[*ssa.Function]bool{}
	var reaches func(f *ssa.Function, d int) bool
	reaches = func(f *ssa.Function, d int) bool {
		if f == nil || seen[f] || d > 6 {
			return false
		}
		seen[f] = true
		for _, in := range an.Instrs(f, true) {
			if ci, ok := in.(ssa.CallInstruction); ok {
				if an.Static("tbls.RecoverSecret")(ci.Common()) {
					return true
				}
				if sc := ci.Common().StaticCallee(); sc != nil && inline(sc) && reaches(sc, d+1) {
					return true
				}
			}
		}
		return false
	}
	var best *an.Loop
	for _, l := range an.Loops(fn) {
		hit := false
		for b := range l.Body {
			for _, in := range b.Instrs {
				ci, ok := in.(ssa.CallInstruction)
				if !ok {
					continue
				}
				if an.Static("tbls.RecoverSecret")(ci.Common()) {
					hit = true
				} else if sc := ci.Common().StaticCallee(); sc != nil && inline(sc) {
					seen = map[*ssa.Function]bool{}
					if reaches(sc, 0) {
						hit = true
					}
				}
			}
		}
		if hit && (best == nil || len(l.Body) > len(best.Body)) {
			best = l
		}
	}
	if best == nil {
		return nil
	}
	var pre *ssa.BasicBlock
	for _, p := range best.Header.Preds {
		if !best.Body[p] {
			if pre != nil {
				return nil
			}
			pre = p
		}
	}
	return pre
}

// c12NoVerifyP: on every path on which the loader succeeds, the verification ran and returned nil, or the path
// established that the no-verify flag is set.
func c12NoVerifyP(c *rt.Ctx, t *c12Tr, callee string, flagSet func(x *c12X) bool, exempt func(x *c12X) bool) {
	key := t.name + " " + callee
	a := newC12Agg(c)
	n := 0
	for _, x := range t.successes() {
		if exempt != nil && exempt(x) {
			continue
		}
		n++
		a.cur = x
		if flagSet(x) {
			a.check(key, x.pos(), true, "")
			continue
		}
		evs := x.calls(callee)
		if len(evs) == 0 {
			a.check(key, x.pos(), false, "a successful return is reachable without running the verification (and without the no-verify flag being set)")
			continue
		}
		ok, why := false, ""
		for _, e := range evs {
			if g, w := x.passed(e, -1); g {
				ok = true
			} else {
				why = w
			}
		}
		a.check(key, c12EvPos(evs[0], x.pos()), ok, "with a verification error the successful return is reachable without the no-verify flag being set: "+why)
	}
	if n == 0 {
		a.unsure(key, t.fn.Pos(), "no successful return found")
	}
	a.flush()
}

// c12ArgOnPaths: every call of callee on the explored paths of root passes an argument satisfying pred at idx.
func c12ArgOnPaths(c *rt.Ctx, t *c12Tr, construct, callee string, idx int, pred func(x *c12X, s *an.Sym) bool, detail string) {
	n, ok := 0, true
	var pos token.Pos
	for _, p := range t.res.Paths {
		x := t.newX(p)
		for _, e := range x.calls(callee) {
			n++
			pos = c12EvPos(e, t.fn.Pos())
			if idx >= len(e.Args) || !pred(x, x.rs(e.Args[idx])) {
				ok = false
			}
		}
	}
	if n == 0 {
		c.Unsure(construct, t.fn.Pos(), "no call of "+callee+" on the explored paths")
		return
	}
	c.Check(construct, pos, ok, detail)
}

func c12L5P(c *rt.Ctx) {
	lcl := c.Fn("cluster.LoadClusterLock")
	tl := c12TraceIn(lcl, 0, c12InlineSame(lcl))
	if !c12Truncated(c, tl) {
		flag := func(x *c12X) bool {
			v, known := x.boolFact(&an.Sym{Kind: an.KParam, V: lcl.Params[2]})
			return known && v
		}
		c12NoVerifyP(c, tl, "cluster.Lock.VerifyHashes", flag, nil)
		c12NoVerifyP(c, tl, "cluster.Lock.VerifySignatures", flag, nil)
	}
	ld := c.Fn("dkg.loadDefinition")
	td := c12TraceIn(ld, 0, c12InlineSame(ld))
	if !c12Truncated(c, td) {
		flag := func(x *c12X) bool {
			v, known := x.flagFact(ld.Params[1], ".NoVerify")
			return known && v
		}
		// frozen exemption: the in-process test definition (conf.TestConfig.Def != nil) is returned as is
		testDef := func(x *c12X) bool {
			isNil, known := x.nilFactAt(ld.Params[1], ".TestConfig.Def")
			return known && !isNil
		}
		c12NoVerifyP(c, td, "cluster.Definition.VerifyHashes", flag, testDef)
		c12NoVerifyP(c, td, "cluster.Definition.VerifySignatures", flag, testDef)
	}
	// flag provenance
	lv := c.Fn("cluster.LoadClusterLockAndVerify")
	c12ArgOnPaths(c, c12TraceIn(lv, 0, c12InlineSame(lv)), "cluster.LoadClusterLockAndVerify noVerify=false", "cluster.LoadClusterLock", 2,
		func(_ *c12X, s *an.Sym) bool { b, isC := s.IsConstBool(); return isC && !b },
		"LoadClusterLockAndVerify does not pass the constant false as noVerify")
	lm := c.Fn("cmd/combine.loadManifest")
	c12ArgOnPaths(c, c12TraceIn(lm, 0, c12InlineSame(lm)), "cmd/combine.loadManifest noVerify passthrough", "cluster.LoadClusterLock", 2,
		func(_ *c12X, s *an.Sym) bool { return an.SymEq(s, &an.Sym{Kind: an.KParam, V: lm.Params[2]}) },
		"loadManifest does not forward its own noverify parameter")
	cb := c.Fn("cmd/combine.Combine")
	call := c.OneCall(cb, an.Static("cmd/combine.loadManifest"), "loadManifest", false)
	c.Check("cmd/combine.Combine noVerify passthrough", call.Pos(), an.Resolve(call.Common().Args[2]) == ssa.Value(cb.Params[4]), "Combine does not forward its own noverify parameter")
}
