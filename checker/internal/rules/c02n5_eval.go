package rules

import (
	"fmt"
	"go/constant"
	"go/token"
	"go/types"
	"math"
	"strings"

	"golang.org/x/tools/go/ssa"

	"charonverif/internal/an"
)

// ---------------------------------------------------------------------------------------------
// Finite-domain folding of threshold expressions (round 5)
//
// A threshold that is not spelled `d.Quorum()` / `d.Faulty()+1` but written as arithmetic over the cluster size
// (`d.Nodes`), over Quorum()/Faulty() themselves, or hidden in a pure in-package helper, is still a function of the
// single integer n = Definition.Nodes. The folder computes that function for every n of a finite domain by constant
// folding the SSA expression (integer/float arithmetic, conversions, math.Ceil/Floor/Trunc/Round, min/max, loop-free
// pure in-package callees) with `Definition.Nodes := n`, and does the same for the bodies of Definition.Quorum and
// Definition.Faulty as they are written in the analysed tree. Two expressions are the same threshold iff their tables
// agree — no text or shape of the formula is consulted, so an inlined or re-spelled Quorum() is recognised as
// "quorum", while `Nodes-(Nodes-1)/3` (n-f) is positively different (n=3,6,9,…). Anything the folder cannot
// evaluate (loops, calls it cannot resolve, values that do not depend on n alone) is not classified here.

const (
	c02EvLo     = 1  // domain on which two spellings must agree to be called the same threshold
	c02EvHi     = 64 //
	c02EvPropLo = 3  // cluster sizes quantified by the property (n=3,f=0 and 4..7); a difference in
	c02EvPropHi = 7  // this range is positive evidence, one only outside is left undecided
)

type c02Num struct {
	kind byte // 'i' int, 'f' float, 'b' bool, 'd' a Definition value (carries n)
	i    int64
	f    float64
	b    bool
}

type c02Ev struct {
	n        int64
	env      map[ssa.Value]c02Num
	budget   *int
	sawNodes *bool
}

func c02IsDefinitionType(t types.Type) bool {
	t = types.Unalias(t)
	if p, ok := t.Underlying().(*types.Pointer); ok {
		t = types.Unalias(p.Elem())
	}
	nm, ok := t.(*types.Named)
	if !ok {
		return false
	}
	o := nm.Origin().Obj()
	return o != nil && o.Name() == "Definition" && o.Pkg() != nil && strings.HasSuffix(o.Pkg().Path(), c02P)
}

func c02IsNodesField(structT types.Type, idx int) bool {
	if !c02IsDefinitionType(structT) {
		return false
	}
	t := types.Unalias(structT)
	if p, ok := t.Underlying().(*types.Pointer); ok {
		t = p.Elem()
	}
	st, ok := t.Underlying().(*types.Struct)
	if !ok || idx >= st.NumFields() {
		return false
	}
	return st.Field(idx).Name() == "Nodes"
}

func (e *c02Ev) val(v ssa.Value, depth int) (c02Num, bool) {
	if depth > 40 {
		return c02Num{}, false
	}
	*e.budget--
	if *e.budget < 0 {
		return c02Num{}, false
	}
	if x, ok := e.env[v]; ok {
		return x, true
	}
	if c02IsDefinitionType(v.Type()) {
		return c02Num{kind: 'd'}, true
	}
	switch x := v.(type) {
	case *ssa.Const:
		if x.Value == nil {
			return c02Num{}, false
		}
		switch x.Value.Kind() {
		case constant.Int:
			if b, ok := x.Type().Underlying().(*types.Basic); ok && b.Info()&types.IsFloat != 0 {
				f, _ := constant.Float64Val(x.Value)
				return c02Num{kind: 'f', f: f}, true
			}
			n, exact := constant.Int64Val(x.Value)
			return c02Num{kind: 'i', i: n}, exact
		case constant.Float:
			if b, ok := x.Type().Underlying().(*types.Basic); ok && b.Info()&types.IsInteger != 0 {
				n, exact := constant.Int64Val(constant.ToInt(x.Value))
				return c02Num{kind: 'i', i: n}, exact
			}
			f, _ := constant.Float64Val(x.Value)
			return c02Num{kind: 'f', f: f}, true
		case constant.Bool:
			return c02Num{kind: 'b', b: constant.BoolVal(x.Value)}, true
		}
		return c02Num{}, false
	case *ssa.Field:
		if c02IsNodesField(x.X.Type(), x.Field) {
			*e.sawNodes = true
			return c02Num{kind: 'i', i: e.n}, true
		}
		return c02Num{}, false
	case *ssa.UnOp:
		switch x.Op {
		case token.MUL:
			switch a := x.X.(type) {
			case *ssa.FieldAddr:
				if c02IsNodesField(a.X.Type(), a.Field) {
					*e.sawNodes = true
					return c02Num{kind: 'i', i: e.n}, true
				}
			case *ssa.Alloc:
				if src := an.UniqueStore(a); src != nil {
					return e.val(src, depth+1)
				}
			}
			return c02Num{}, false
		case token.SUB:
			a, ok := e.val(x.X, depth+1)
			if !ok {
				return a, false
			}
			switch a.kind {
			case 'i':
				return c02Num{kind: 'i', i: -a.i}, true
			case 'f':
				return c02Num{kind: 'f', f: -a.f}, true
			}
			return c02Num{}, false
		case token.NOT:
			a, ok := e.val(x.X, depth+1)
			if !ok || a.kind != 'b' {
				return c02Num{}, false
			}
			return c02Num{kind: 'b', b: !a.b}, true
		}
		return c02Num{}, false
	case *ssa.ChangeType:
		return e.val(x.X, depth+1)
	case *ssa.Convert:
		a, ok := e.val(x.X, depth+1)
		if !ok {
			return a, false
		}
		b, isB := x.Type().Underlying().(*types.Basic)
		if !isB {
			return c02Num{}, false
		}
		switch {
		case b.Info()&types.IsInteger != 0:
			if a.kind == 'i' {
				return a, true
			}
			if a.kind == 'f' && !math.IsNaN(a.f) && !math.IsInf(a.f, 0) && math.Abs(a.f) < 1e15 {
				return c02Num{kind: 'i', i: int64(a.f)}, true
			}
		case b.Info()&types.IsFloat != 0:
			if a.kind == 'f' {
				return a, true
			}
			if a.kind == 'i' {
				return c02Num{kind: 'f', f: float64(a.i)}, true
			}
		}
		return c02Num{}, false
	case *ssa.BinOp:
		a, ok := e.val(x.X, depth+1)
		if !ok {
			return a, false
		}
		b, ok := e.val(x.Y, depth+1)
		if !ok {
			return b, false
		}
		return c02Arith(x.Op, a, b)
	case *ssa.Phi:
		if len(x.Edges) == 1 {
			return e.val(x.Edges[0], depth+1)
		}
		return c02Num{}, false
	case *ssa.Call:
		return e.call(&x.Call, depth)
	}
	return c02Num{}, false
}

func c02Arith(op token.Token, a, b c02Num) (c02Num, bool) {
	if a.kind != b.kind {
		return c02Num{}, false
	}
	switch a.kind {
	case 'i':
		switch op {
		case token.ADD:
			return c02Num{kind: 'i', i: a.i + b.i}, true
		case token.SUB:
			return c02Num{kind: 'i', i: a.i - b.i}, true
		case token.MUL:
			return c02Num{kind: 'i', i: a.i * b.i}, true
		case token.QUO:
			if b.i == 0 {
				return c02Num{}, false
			}
			return c02Num{kind: 'i', i: a.i / b.i}, true
		case token.REM:
			if b.i == 0 {
				return c02Num{}, false
			}
			return c02Num{kind: 'i', i: a.i % b.i}, true
		case token.SHL:
			if b.i < 0 || b.i > 30 {
				return c02Num{}, false
			}
			return c02Num{kind: 'i', i: a.i << uint(b.i)}, true
		case token.SHR:
			if b.i < 0 || b.i > 62 {
				return c02Num{}, false
			}
			return c02Num{kind: 'i', i: a.i >> uint(b.i)}, true
		case token.EQL:
			return c02Num{kind: 'b', b: a.i == b.i}, true
		case token.NEQ:
			return c02Num{kind: 'b', b: a.i != b.i}, true
		case token.LSS:
			return c02Num{kind: 'b', b: a.i < b.i}, true
		case token.LEQ:
			return c02Num{kind: 'b', b: a.i <= b.i}, true
		case token.GTR:
			return c02Num{kind: 'b', b: a.i > b.i}, true
		case token.GEQ:
			return c02Num{kind: 'b', b: a.i >= b.i}, true
		}
	case 'f':
		switch op {
		case token.ADD:
			return c02Num{kind: 'f', f: a.f + b.f}, true
		case token.SUB:
			return c02Num{kind: 'f', f: a.f - b.f}, true
		case token.MUL:
			return c02Num{kind: 'f', f: a.f * b.f}, true
		case token.QUO:
			if b.f == 0 {
				return c02Num{}, false
			}
			return c02Num{kind: 'f', f: a.f / b.f}, true
		case token.EQL:
			return c02Num{kind: 'b', b: a.f == b.f}, true
		case token.NEQ:
			return c02Num{kind: 'b', b: a.f != b.f}, true
		case token.LSS:
			return c02Num{kind: 'b', b: a.f < b.f}, true
		case token.LEQ:
			return c02Num{kind: 'b', b: a.f <= b.f}, true
		case token.GTR:
			return c02Num{kind: 'b', b: a.f > b.f}, true
		case token.GEQ:
			return c02Num{kind: 'b', b: a.f >= b.f}, true
		}
	case 'b':
		switch op {
		case token.EQL:
			return c02Num{kind: 'b', b: a.b == b.b}, true
		case token.NEQ:
			return c02Num{kind: 'b', b: a.b != b.b}, true
		}
	}
	return c02Num{}, false
}

func (e *c02Ev) call(cc *ssa.CallCommon, depth int) (c02Num, bool) {
	if cc.IsInvoke() {
		return c02Num{}, false
	}
	var args []c02Num
	for _, a := range cc.Args {
		x, ok := e.val(a, depth+1)
		if !ok {
			return x, false
		}
		args = append(args, x)
	}
	if b, ok := cc.Value.(*ssa.Builtin); ok {
		if (b.Name() == "min" || b.Name() == "max") && len(args) > 0 {
			out := args[0]
			for _, a := range args[1:] {
				lt, ok := c02Arith(token.LSS, a, out)
				if !ok {
					return c02Num{}, false
				}
				if lt.b == (b.Name() == "min") {
					out = a
				}
			}
			return out, out.kind == 'i' || out.kind == 'f'
		}
		return c02Num{}, false
	}
	fn := cc.StaticCallee()
	if fn == nil {
		return c02Num{}, false
	}
	fn = an.Orig(fn)
	if fn.Pkg != nil && fn.Pkg.Pkg.Path() == "math" {
		if len(args) == 1 && args[0].kind == 'f' {
			switch fn.Name() {
			case "Ceil":
				return c02Num{kind: 'f', f: math.Ceil(args[0].f)}, true
			case "Floor":
				return c02Num{kind: 'f', f: math.Floor(args[0].f)}, true
			case "Trunc":
				return c02Num{kind: 'f', f: math.Trunc(args[0].f)}, true
			case "Round":
				return c02Num{kind: 'f', f: math.Round(args[0].f)}, true
			case "Abs":
				return c02Num{kind: 'f', f: math.Abs(args[0].f)}, true
			}
		}
		if len(args) == 2 && args[0].kind == 'f' && args[1].kind == 'f' {
			switch fn.Name() {
			case "Max":
				return c02Num{kind: 'f', f: math.Max(args[0].f, args[1].f)}, true
			case "Min":
				return c02Num{kind: 'f', f: math.Min(args[0].f, args[1].f)}, true
			}
		}
		return c02Num{}, false
	}
	if fn.Pkg == nil || !strings.HasSuffix(fn.Pkg.Pkg.Path(), c02P) || len(fn.Blocks) == 0 || len(fn.FreeVars) > 0 {
		return c02Num{}, false
	}
	if len(args) != len(fn.Params) {
		return c02Num{}, false
	}
	return e.fold(fn, args, depth+1)
}

// fold evaluates a loop-free pure function body on concrete arguments.
func (e *c02Ev) fold(fn *ssa.Function, args []c02Num, depth int) (c02Num, bool) {
	if depth > 40 {
		return c02Num{}, false
	}
	in := &c02Ev{n: e.n, env: map[ssa.Value]c02Num{}, budget: e.budget, sawNodes: e.sawNodes}
	for i, p := range fn.Params {
		in.env[p] = args[i]
	}
	var prev *ssa.BasicBlock
	cur := fn.Blocks[0]
	visited := map[*ssa.BasicBlock]bool{}
	for {
		if visited[cur] {
			return c02Num{}, false // a loop: not folded
		}
		visited[cur] = true
		var next *ssa.BasicBlock
		for _, ins := range cur.Instrs {
			switch x := ins.(type) {
			case *ssa.Phi:
				idx := -1
				for i, p := range cur.Preds {
					if p == prev {
						idx = i
					}
				}
				if idx < 0 {
					return c02Num{}, false
				}
				v, ok := in.val(x.Edges[idx], depth+1)
				if !ok {
					return v, false
				}
				in.env[x] = v
			case *ssa.If:
				c, ok := in.val(x.Cond, depth+1)
				if !ok || c.kind != 'b' {
					return c02Num{}, false
				}
				if c.b {
					next = cur.Succs[0]
				} else {
					next = cur.Succs[1]
				}
			case *ssa.Jump:
				next = cur.Succs[0]
			case *ssa.Return:
				if len(x.Results) != 1 {
					return c02Num{}, false
				}
				return in.val(x.Results[0], depth+1)
			case *ssa.Panic:
				return c02Num{}, false
			case *ssa.DebugRef, *ssa.Store:
				// stores are read back through their unique-store allocation only
			case ssa.Value:
				// pure values are folded on demand
			default:
				return c02Num{}, false
			}
		}
		if next == nil {
			return c02Num{}, false
		}
		prev, cur = cur, next
	}
}

// c02EvalTable folds v for every cluster size of the domain; ok only if every point folds to an integer and the
// value really depends on Definition.Nodes (directly or through Quorum()/Faulty()/a helper).
func c02EvalTable(v ssa.Value) ([]int64, bool) {
	out := make([]int64, 0, c02EvHi-c02EvLo+1)
	saw := false
	for n := int64(c02EvLo); n <= c02EvHi; n++ {
		budget := 4000
		e := &c02Ev{n: n, env: map[ssa.Value]c02Num{}, budget: &budget, sawNodes: &saw}
		x, ok := e.val(v, 0)
		if !ok || x.kind != 'i' {
			return nil, false
		}
		out = append(out, x.i)
	}
	return out, saw
}

type c02RefTabs struct {
	quorum, faulty []int64
	ok             bool
}

var c02RefTabMemo = map[*ssa.Package]*c02RefTabs{}

// c02RefTables folds the bodies of Definition.Quorum and Definition.Faulty of the analysed tree.
func c02RefTables(pkg *ssa.Package) *c02RefTabs {
	if pkg == nil {
		return &c02RefTabs{}
	}
	if r, ok := c02RefTabMemo[pkg]; ok {
		return r
	}
	r := &c02RefTabs{}
	c02RefTabMemo[pkg] = r
	tn := pkg.Type("Definition")
	if tn == nil {
		return r
	}
	nm, ok := types.Unalias(tn.Type()).(*types.Named)
	if !ok {
		return r
	}
	tab := func(name string) ([]int64, bool) {
		for i := 0; i < nm.NumMethods(); i++ {
			m := nm.Method(i)
			if m.Name() != name {
				continue
			}
			fn := pkg.Prog.FuncValue(m)
			if fn == nil || len(fn.Blocks) == 0 || len(fn.Params) != 1 {
				return nil, false
			}
			var out []int64
			for n := int64(c02EvLo); n <= c02EvHi; n++ {
				budget := 4000
				saw := false
				e := &c02Ev{n: n, env: map[ssa.Value]c02Num{}, budget: &budget, sawNodes: &saw}
				x, ok := e.fold(fn, []c02Num{{kind: 'd'}}, 0)
				if !ok || x.kind != 'i' {
					return nil, false
				}
				out = append(out, x.i)
			}
			return out, true
		}
		return nil, false
	}
	var okQ, okF bool
	r.quorum, okQ = tab("Quorum")
	r.faulty, okF = tab("Faulty")
	r.ok = okQ && okF
	return r
}

func c02PkgOfValue(v ssa.Value) *ssa.Package {
	fn := v.Parent()
	for fn != nil && fn.Parent() != nil {
		fn = fn.Parent()
	}
	if fn == nil {
		return nil
	}
	fn = an.Orig(fn)
	return fn.Pkg
}

func c02TabEq(a, b []int64, lo, hi int, shift int64) bool {
	if len(a) != len(b) {
		return false
	}
	for n := lo; n <= hi; n++ {
		i := n - c02EvLo
		if i < 0 || i >= len(a) {
			continue
		}
		if a[i] != b[i]+shift {
			return false
		}
	}
	return true
}

// c02FormulaKind classifies a threshold written as arithmetic (not the bare Quorum()/Faulty() call): "quorum",
// "f+1", "f" when its table equals the reference on the whole domain; "formula" when it is a function of the
// cluster size that equals none of them. ok=false: not a foldable function of Definition.Nodes.
func c02FormulaKind(v ssa.Value) (string, bool) {
	r := an.Resolve(v)
	switch x := r.(type) {
	case *ssa.BinOp:
		if c02IsCmp(x.Op) {
			return "", false
		}
	case *ssa.Call:
		if x.Call.IsInvoke() || x.Call.StaticCallee() == nil {
			return "", false
		}
		switch c02Callee(&x.Call) {
		case c02P + ".Definition.Quorum", c02P + ".Definition.Faulty":
			return "", false // the plain spelling: classified by name
		}
	default:
		return "", false // a bare `d.Nodes`, a parameter, a phi: no arithmetic to fold here
	}
	pkg := c02PkgOfValue(v)
	if pkg == nil || !strings.HasSuffix(pkg.Pkg.Path(), c02P) {
		return "", false
	}
	ref := c02RefTables(pkg)
	if !ref.ok {
		return "", false
	}
	tab, ok := c02EvalTable(v)
	if !ok {
		return "", false
	}
	switch {
	case c02TabEq(tab, ref.quorum, c02EvLo, c02EvHi, 0):
		return "quorum", true
	case c02TabEq(tab, ref.faulty, c02EvLo, c02EvHi, 1):
		return "f+1", true
	case c02TabEq(tab, ref.faulty, c02EvLo, c02EvHi, 0):
		return "f", true
	}
	return "formula", true
}

// c02FormulaVerdict compares the folded threshold with the one the protocol rule needs (want: "quorum" or "f+1").
// differs=true with a witness when the values differ for a cluster size the property quantifies over; differs=false,
// decided=false when they differ only outside that range (or cannot be folded).
func c02FormulaVerdict(v ssa.Value, want string) (witness string, differs, decided bool) {
	pkg := c02PkgOfValue(v)
	ref := c02RefTables(pkg)
	tab, ok := c02EvalTable(v)
	if !ok || !ref.ok {
		return "", false, false
	}
	var wt []int64
	var shift int64
	var wname string
	switch want {
	case "quorum":
		wt, wname = ref.quorum, "Quorum()"
	case "f+1":
		wt, shift, wname = ref.faulty, 1, "Faulty()+1"
	default:
		return "", false, false
	}
	var wits []string
	for n := c02EvPropLo; n <= c02EvPropHi; n++ {
		i := n - c02EvLo
		if tab[i] != wt[i]+shift {
			wits = append(wits, fmt.Sprintf("for n=%d it is %d where %s is %d", n, tab[i], wname, wt[i]+shift))
		}
	}
	if len(wits) > 0 {
		return strings.Join(wits, "; "), true, true
	}
	if c02TabEq(tab, wt, c02EvLo, c02EvHi, shift) {
		return "", false, true
	}
	return "", false, false
}
