package rules

import (
	"go/token"
	"go/types"

	"golang.org/x/tools/go/ssa"

	"charonverif/internal/an"
	"charonverif/internal/rt"
)

func init() {
	Register(&Prop{
		ID: "C16",
		Decides: "core.deadliner: (N1) the duty set and the timer are owned by the single run goroutine, the expiry channel is written only there, only in the timer case, with the duty selected by getCurrDuty; " +
			"(N2) a registration is answered Exempt/Expired and skipped before it can enter the set, the Scheduled reply precedes the insertion, the set is keyed by the duty (re-adding is idempotent) and the timer is re-armed when the new deadline is earlier; " +
			"(N3) an expired duty is removed from the set only on paths on which its report was delivered; (N4) getCurrDuty selects the minimum deadline and updates duty and deadline together.",
		NotDecided: "'at or after its deadline' and ordering by deadline as statements about clock values; behaviour of the clockwork timer.",
		Run:        c16,
		Mutants: []Mutant{
			{ID: "C16-N1-second-writer", File: "core/deadline.go", Expect: "N1",
				Old: "\t\t\tinput.success <- DeadlineScheduled\n",
				New: "\t\t\tinput.success <- DeadlineScheduled\n\n\t\t\tif len(duties) > 1024 {\n\t\t\t\td.deadlineChan <- input.duty\n\t\t\t}\n"},
			{ID: "C16-N1-wrong-duty", File: "core/deadline.go", Expect: "N1",
				Old: "\t\t\tcase d.deadlineChan <- currDuty:",
				New: "\t\t\tcase d.deadlineChan <- Duty{Slot: currDuty.Slot}:"},
			{ID: "C16-N2-insert-before-expiry-test", File: "core/deadline.go", Expect: "N2",
				Old: "\t\t\t// Ignore (and signal) duties that have already expired.\n",
				New: "\t\t\tduties[input.duty] = true\n\t\t\t// Ignore (and signal) duties that have already expired.\n"},
			{ID: "C16-N2-exempt-scheduled", File: "core/deadline.go", Expect: "N2",
				Old: "\t\t\t\tinput.success <- DeadlineExempt\n\t\t\t\tcontinue\n",
				New: "\t\t\t\tinput.success <- DeadlineExempt\n"},
			{ID: "C16-N2-no-rearm", File: "core/deadline.go", Expect: "N2",
				Old: "\t\t\tif deadline.Before(currDeadline) {\n\t\t\t\tsetCurrState()\n\t\t\t}",
				New: "\t\t\tif deadline.Before(currDeadline) && len(duties) == 1 {\n\t\t\t\tsetCurrState()\n\t\t\t}"},
			{ID: "C16-N2-wrong-status", File: "core/deadline.go", Expect: "N2",
				Old: "\t\t\t\tinput.success <- DeadlineExpired\n\t\t\t\tcontinue",
				New: "\t\t\t\tinput.success <- DeadlineScheduled\n\t\t\t\tcontinue"},
			{ID: "C16-N3-second-droppable", File: "core/deadline.go", Expect: "N3|input",
				Old: "\t\t\tif deadline.Before(currDeadline) {\n\t\t\t\tsetCurrState()\n\t\t\t}",
				New: "\t\t\tif deadline.Before(currDeadline) {\n\t\t\t\tsetCurrState()\n\t\t\t}\n\n\t\t\tif len(duties) > 4096 {\n\t\t\t\tdelete(duties, input.duty)\n\t\t\t}"},
			{ID: "C16-N5-skip-recompute-when-empty", File: "core/deadline.go", Expect: "N5",
				Old: "\t\t\tdelete(duties, currDuty)\n\t\t\tsetCurrState()",
				New: "\t\t\tdelete(duties, currDuty)\n\n\t\t\tif len(duties) > 0 {\n\t\t\t\tsetCurrState()\n\t\t\t}"},
			{ID: "C16-N4-latest", File: "core/deadline.go", Expect: "N4",
				Old: "\t\tif currDeadline.After(dutyDeadline) {",
				New: "\t\tif currDeadline.Before(dutyDeadline) {"},
			{ID: "C16-N4-split-update", File: "core/deadline.go", Expect: "N4",
				Old: "\t\tif currDeadline.After(dutyDeadline) {\n\t\t\tcurrDuty = duty\n",
				New: "\t\tcurrDuty = duty\n\t\tif currDeadline.After(dutyDeadline) {\n"},
		},
	})
}

const dlnr = "core.deadliner"

func c16(c *rt.Ctx) {
	run := c.Fn("core.deadliner.run")
	all := an.Closure(run)

	// the duty set: the map[Duty]bool written in the input case
	var setUps []*ssa.MapUpdate
	for _, in := range an.Instrs(run, true) {
		if mu, ok := in.(*ssa.MapUpdate); ok {
			if m, ok := mu.Map.Type().Underlying().(*types.Map); ok && an.TypeName(m.Key()) == "core.Duty" {
				setUps = append(setUps, mu)
			}
		}
	}
	outer := func() *ssa.Select { // the event select: has a receive from d.inputChan
		for _, in := range an.Instrs(run, false) {
			if sel, ok := in.(*ssa.Select); ok {
				for _, st := range sel.States {
					if k, _, ok := an.FieldOf(st.Chan); ok && k == dlnr+".inputChan" && st.Dir == types.RecvOnly {
						return sel
					}
				}
			}
		}
		return nil
	}()

	c.Rule("N1", 4, func() {
		if outer == nil {
			c.Bail("run: event select with the inputChan case not found")
		}
		// all sends on deadlineChan, program-wide in package core
		n := 0
		for _, fn := range an.PkgFuncs(c.SSAPkg("core")) {
			for _, in := range an.Instrs(fn, false) {
				switch x := in.(type) {
				case *ssa.Send:
					if k, _, ok := an.FieldOf(x.Chan); ok && k == dlnr+".deadlineChan" {
						n++
						c.Bad(an.FuncName(fn)+" send deadlineChan", x.Pos(), "expiry channel written outside the timer case of deadliner.run (blocking send)")
					}
				case *ssa.Select:
					for i, st := range x.States {
						k, _, ok := an.FieldOf(st.Chan)
						if !ok || k != dlnr+".deadlineChan" || st.Dir != types.SendOnly {
							continue
						}
						n++
						good, why := fn == run, "expiry channel written outside deadliner.run"
						if good {
							// inside the timer case of the event select
							tIdx := -1
							for j, os := range outer.States {
								if call, ok := os.Chan.(*ssa.Call); ok && call.Call.IsInvoke() && call.Call.Method.Name() == "Chan" {
									tIdx = j
								}
							}
							good, why = false, "send is not confined to the timer case of the event select"
							if tIdx >= 0 {
								for _, cd := range an.CondsOn(run, selIndex(outer)) {
									if k, ok := an.ConstInt(cd.Other); ok && int(k) == tIdx && cd.Op == token.EQL && cd.Succ(true).Dominates(x.Block()) {
										good = true
									}
								}
							}
						}
						c.Check(an.FuncName(fn)+" send deadlineChan in timer case", st.Pos, good, why)
						// value sent = the duty chosen by getCurrDuty
						c.Check(an.FuncName(fn)+" sent duty is getCurrDuty's", st.Pos, c16FromGetCurr(x.States[i].Send, 0),
							"the reported duty is not the one selected by getCurrDuty")
					}
				}
			}
		}
		if n == 0 {
			c.Bail("no send on deadlineChan found")
		}
		// ownership: no goroutine is started from run, closures are only called/deferred directly
		for _, fn := range all {
			for _, in := range an.Instrs(fn, false) {
				if g, ok := in.(*ssa.Go); ok {
					c.Bad(an.FuncName(fn)+" starts goroutine", g.Pos(), "deadliner.run shares its duty set/timer with another goroutine")
				}
				if mc, ok := in.(*ssa.MakeClosure); ok {
					direct := true
					for _, ref := range *mc.Referrers() {
						ci, isCall := ref.(ssa.CallInstruction)
						if !isCall || ci.Common().Value != ssa.Value(mc) {
							direct = false
						}
					}
					c.Check(an.FuncName(fn)+" closure "+an.FuncName(mc.Fn.(*ssa.Function))+" stays local", mc.Pos(), direct,
						"a closure over the duty set/timer escapes deadliner.run")
				}
			}
		}
		// run is started exactly once per deadliner, from the constructor
		starts := 0
		for _, fn := range an.PkgFuncs(c.SSAPkg("core")) {
			for _, in := range an.Instrs(fn, false) {
				if ci, ok := in.(ssa.CallInstruction); ok && ci.Common().StaticCallee() == run {
					starts++
					_, isGo := in.(*ssa.Go)
					_, fresh := an.Unwrap(ci.Common().Args[0]).(*ssa.Alloc)
					c.Check(an.FuncName(fn)+" starts run", in.Pos(), isGo && fresh && an.FuncName(fn) == "core.newDeadliner",
						"deadliner.run must be started once, as a goroutine, on the freshly constructed deadliner")
				}
			}
		}
		if starts != 1 {
			c.Unsure("run starts", run.Pos(), "expected exactly one start of deadliner.run")
		}
	})

	c.Rule("N2", 9, func() {
		if len(setUps) == 0 {
			c.Bail("no insertion into the duty set found")
		}
		scheduled, expired, exempt := constOf(c, "core", "DeadlineScheduled"), constOf(c, "core", "DeadlineExpired"), constOf(c, "core", "DeadlineExempt")
		sendsOf := func(v int64) []*ssa.Send {
			var out []*ssa.Send
			for _, in := range an.Instrs(run, false) {
				if s, ok := in.(*ssa.Send); ok {
					if k, _, ok := an.FieldOf(s.Chan); ok && k == "core.deadlineInput.success" {
						if n, ok := an.ConstInt(s.X); ok && n == v {
							out = append(out, s)
						}
					}
				}
			}
			return out
		}
		for _, up := range setUps {
			// key is the registered duty: input.duty of the received input
			keyOK := false
			if k, base, ok := an.FieldOf(up.Key); ok && k == "core.deadlineInput.duty" {
				if al, isAl := base.(*ssa.Alloc); isAl && an.UniqueStore(al) != nil {
					base = an.UniqueStore(al)
				}
				keyOK = valueFromSelectRecv(base, outer)
			}
			c.Check("run insert key is the registered duty", posOf(up), keyOK, "the set is not keyed by the duty received on inputChan (re-adding would not be idempotent)")
			// deadlineFunc(input.duty): canExpire true edge and not-before-now edge dominate
			var df *ssa.Call
			for _, in := range an.Instrs(run, false) {
				if call, ok := in.(*ssa.Call); ok && !call.Call.IsInvoke() && call.Call.StaticCallee() == nil && an.Resolve(call.Call.Value) == ssa.Value(run.Params[2]) &&
					an.Dominates(call, up) && an.Equiv(call.Call.Args[0], up.Key) {
					df = call
				}
			}
			if df == nil {
				c.Bad("run insert after deadlineFunc", posOf(up), "insertion is not preceded by deadlineFunc on the same duty")
				continue
			}
			g, why := an.Guarded(df, up, an.GuardOpt{BoolIdx: 1, BoolWant: true, NoErr: true})
			c.Check("run insert only if the duty can expire", posOf(up), g, "never-expiring duty can enter the set: "+why)
			// expiry test: Before(deadline, now) true edge leaves
			var dl ssa.Value
			for _, ref := range *df.Referrers() {
				if ex, ok := ref.(*ssa.Extract); ok && ex.Index == 0 {
					dl = ex
				}
			}
			good := false
			for _, in := range an.Instrs(run, false) {
				call, ok := in.(*ssa.Call)
				if !ok || !an.Static("time.Time.Before")(&call.Call) || !an.Dominates(call, up) || !c16LoadsOf(call.Call.Args[0], dl) {
					continue
				}
				if now, ok := an.Unwrap(call.Call.Args[1]).(*ssa.Call); !ok || !now.Call.IsInvoke() || now.Call.Method.Name() != "Now" {
					continue
				}
				for _, cd := range an.CondsOn(run, call) {
					if cd.Other == nil && an.EdgeCuts(cd.Succ(true), up, map[*ssa.BasicBlock]bool{call.Block(): true}) {
						good = true
						// the Expired reply is on that edge
						rep := false
						for _, s := range sendsOf(expired) {
							if cd.Succ(true).Dominates(s.Block()) {
								rep = true
							}
						}
						c.Check("run late registration answered DeadlineExpired", call.Pos(), rep, "a duty registered after its deadline is not answered DeadlineExpired")
					}
				}
			}
			c.Check("run insert only before the deadline", posOf(up), good, "a duty whose deadline has passed can enter the set (it would be reported although refused)")
			// Scheduled reply dominates the insertion; Exempt reply on the !canExpire edge
			rep := false
			for _, s := range sendsOf(scheduled) {
				if an.Dominates(s, up) {
					rep = true
				}
			}
			c.Check("run Scheduled reply precedes insertion", posOf(up), rep, "the status reply does not precede scheduling")
			for _, s := range append(sendsOf(exempt), sendsOf(expired)...) {
				c.Check("run refusal reply cannot reach insertion", s.Pos(), !an.CanReach(s.Block(), up.Block(), map[*ssa.BasicBlock]bool{outer.Block(): true}),
					"after answering Exempt/Expired the duty can still be inserted")
			}
			rex := false
			for _, s := range sendsOf(exempt) {
				for _, cd := range an.CondsOn(run, c16Extract(df, 1)) {
					if cd.Other == nil && cd.Succ(false).Dominates(s.Block()) {
						rex = true
					}
				}
			}
			c.Check("run never-expiring duty answered DeadlineExempt", df.Pos(), rex, "a duty that never expires is not answered DeadlineExempt")
			// re-arm: after the insertion, Before(deadline, currDeadline) true edge calls the closure that re-reads getCurrDuty
			rearm := false
			for _, in := range an.Instrs(run, false) {
				call, ok := in.(*ssa.Call)
				if !ok || !an.Static("time.Time.Before")(&call.Call) || !an.Dominates(up, call) || !c16LoadsOf(call.Call.Args[0], dl) ||
					!c16FromGetCurr(call.Call.Args[1], 1) {
					continue
				}
				for _, cd := range an.CondsOn(run, call) {
					if cd.Other != nil || cd.Neg {
						continue
					}
					for _, in2 := range cd.Succ(true).Instrs {
						if ci, ok := in2.(*ssa.Call); ok {
							if mc, ok := ci.Call.Value.(*ssa.MakeClosure); ok && len(an.Calls(mc.Fn.(*ssa.Function), an.Static("core.getCurrDuty"), false)) > 0 {
								rearm = true
							}
						}
					}
				}
			}
			c.Check("run re-arms the timer for an earlier deadline", posOf(up), rearm, "a newly registered earlier deadline does not re-arm the timer (it would be reported late, after a later duty)")
		}
	})

	c.Rule("N3", 1, func() {
		n := 0
		for _, fn := range all {
			for _, in := range an.Instrs(fn, false) {
				call, ok := in.(*ssa.Call)
				if !ok {
					continue
				}
				b, ok := call.Call.Value.(*ssa.Builtin)
				if !ok || (b.Name() != "delete" && b.Name() != "clear") {
					continue
				}
				if m, ok := call.Call.Args[0].Type().Underlying().(*types.Map); !ok || an.TypeName(m.Key()) != "core.Duty" {
					continue
				}
				n++
				// find the select with the send state of deadlineChan dominating this delete
				var sel *ssa.Select
				sendIdx := -1
				for _, in2 := range an.Instrs(fn, false) {
					if s, ok := in2.(*ssa.Select); ok && an.Dominates(s, call) {
						for i, st := range s.States {
							if k, _, ok := an.FieldOf(st.Chan); ok && k == dlnr+".deadlineChan" && st.Dir == types.SendOnly && an.Equiv(st.Send, call.Call.Args[1]) {
								sel, sendIdx = s, i
							}
						}
					}
				}
				where := "timer"
				if sel == nil {
					if len(setUps) > 0 && an.Dominates(call, setUps[0]) || true {
						where = "input"
					}
					c.Bad("run delete(duties) without report ("+where+")", call.Pos(), "a duty is removed from the set without its expiry having been sent on the expiry channel")
					continue
				}
				path, undelivered := c16UndeliveredPath(sel, sendIdx, call.Block())
				c.Check("run delete(duties) only after delivered report", call.Pos(), !undelivered,
					"the expired duty is deleted on a path on which its report was not delivered (select falls through without sending): "+an.PathString(c.P, path))
			}
		}
		if n == 0 {
			c.Bail("no removal from the duty set found")
		}
	})

	c.Rule("N5", 1, func() {
		// after an expired duty is removed from the set, the timer state (current duty, deadline, timer) is
		// recomputed on every path back to the event loop: otherwise the stale, past deadline stays armed and no
		// later registration can re-arm it (N2 only re-arms for a deadline earlier than the current one)
		n := 0
		for _, in := range an.Instrs(run, false) {
			call, ok := in.(*ssa.Call)
			if !ok {
				continue
			}
			b, ok := call.Call.Value.(*ssa.Builtin)
			if !ok || b.Name() != "delete" {
				continue
			}
			if m, ok := call.Call.Args[0].Type().Underlying().(*types.Map); !ok || an.TypeName(m.Key()) != "core.Duty" {
				continue
			}
			n++
			l := an.InnermostLoop(run, call.Block())
			opt := an.PassOpt{}
			if l != nil {
				opt.StopAt = func(b *ssa.BasicBlock) bool { return b == l.Header }
			}
			path, esc := an.EscapePath(call, func(x ssa.Instruction) bool {
				ci, ok := x.(*ssa.Call)
				if !ok {
					return false
				}
				mc, ok := ci.Call.Value.(*ssa.MakeClosure)
				if !ok {
					return false
				}
				f := mc.Fn.(*ssa.Function)
				return len(an.Calls(f, an.Static("core.getCurrDuty"), false)) > 0 && len(an.Calls(f, an.Invoke("github.com/jonboulle/clockwork.Clock.NewTimer"), false)) > 0
			}, opt)
			c.Check("run delete(duties)→recompute timer state", call.Pos(), !esc,
				"after removing the expired duty the next duty/deadline/timer are not recomputed on path "+an.PathString(c.P, path)+": the stale deadline stays current and later registrations never arm a timer")
		}
		if n == 0 {
			c.Bail("no removal from the duty set found")
		}
	})

	c.Rule("N4", 2, func() {
		fn := c.Fn("core.getCurrDuty")
		rets := an.Returns(fn)
		if len(rets) != 1 || len(rets[0].Results) != 2 {
			c.Bail("getCurrDuty: unexpected shape")
		}
		dutyPhi, okD := rets[0].Results[0].(*ssa.Phi)
		dlPhi, okL := rets[0].Results[1].(*ssa.Phi)
		if !okD || !okL {
			c.Bail("getCurrDuty: results are not loop-carried values")
		}
		// the update block: where both phis take their new values
		upd := map[*ssa.BasicBlock][2]ssa.Value{}
		var walk func(p *ssa.Phi, idx int, seen map[*ssa.Phi]bool)
		walk = func(p *ssa.Phi, idx int, seen map[*ssa.Phi]bool) {
			if seen[p] {
				return
			}
			seen[p] = true
			for i, e := range p.Edges {
				switch x := e.(type) {
				case *ssa.Phi:
					walk(x, idx, seen)
				case *ssa.Const:
				default:
					if _, isCall := e.(*ssa.Call); isCall && idx == 1 {
						continue // initial far-future deadline
					}
					u := upd[p.Block().Preds[i]]
					u[idx] = e
					upd[p.Block().Preds[i]] = u
				}
			}
		}
		walk(dutyPhi, 0, map[*ssa.Phi]bool{})
		walk(dlPhi, 1, map[*ssa.Phi]bool{})
		together := len(upd) > 0
		for _, u := range upd {
			if u[0] == nil || u[1] == nil {
				together = false
			}
		}
		c.Check("getCurrDuty updates duty and deadline together", fn.Pos(), together, "the selected duty and the selected deadline are not updated on the same edges (they can refer to different duties)")
		// min selection: the update edge is the true edge of After(currMin, candidate) (or Before(candidate, currMin))
		min := false
		for b, u := range upd {
			for _, in := range an.Instrs(fn, false) {
				call, ok := in.(*ssa.Call)
				if !ok {
					continue
				}
				isAfter, isBefore := an.Static("time.Time.After")(&call.Call), an.Static("time.Time.Before")(&call.Call)
				if !isAfter && !isBefore {
					continue
				}
				recv, arg := call.Call.Args[0], call.Call.Args[1]
				if isBefore {
					recv, arg = arg, recv
				}
				// recv = current minimum (phi), arg = candidate deadline == u[1]
				if _, isPhi := an.Unwrap(recv).(*ssa.Phi); !isPhi || !an.Equiv(arg, u[1]) {
					continue
				}
				for _, cd := range an.CondsOn(fn, call) {
					if cd.Other == nil && (cd.Succ(true) == b || cd.Succ(true).Dominates(b)) && !an.CanReach(cd.Succ(false), b, map[*ssa.BasicBlock]bool{call.Block(): true}) {
						min = true
					}
				}
			}
			// candidate deadline belongs to the candidate duty
			if ex, ok := an.Unwrap(u[1]).(*ssa.Extract); ok {
				if call, ok := ex.Tuple.(*ssa.Call); !ok || !an.Equiv(call.Call.Args[0], u[0]) {
					min = false
				}
			}
		}
		c.Check("getCurrDuty selects the earliest deadline", fn.Pos(), min, "the duty chosen for the timer is not the one with the minimum deadline")
	})
}

// selIndex returns the index result (#0) of a select.
func selIndex(s *ssa.Select) ssa.Value {
	for _, ref := range *s.Referrers() {
		if ex, ok := ref.(*ssa.Extract); ok && ex.Index == 0 {
			return ex
		}
	}
	return nil
}

func c16Extract(call *ssa.Call, idx int) ssa.Value {
	for _, ref := range *call.Referrers() {
		if ex, ok := ref.(*ssa.Extract); ok && ex.Index == idx {
			return ex
		}
	}
	return nil
}

// valueFromSelectRecv: v is a value received by a state of select sel.
func valueFromSelectRecv(v ssa.Value, sel *ssa.Select) bool {
	ex, ok := an.Unwrap(v).(*ssa.Extract)
	return ok && sel != nil && ex.Tuple == ssa.Value(sel) && ex.Index >= 2
}

// c16LoadsOf: v is value dl or a load of a local that was assigned dl.
func c16LoadsOf(v, dl ssa.Value) bool {
	v = an.Unwrap(v)
	if v == dl {
		return true
	}
	if ld, ok := v.(*ssa.UnOp); ok && ld.Op == token.MUL {
		if al, ok := ld.X.(*ssa.Alloc); ok {
			for _, ref := range *al.Referrers() {
				if st, ok := ref.(*ssa.Store); ok && st.Addr == ssa.Value(al) && st.Val == dl {
					return true
				}
			}
		}
	}
	return false
}

// c16FromGetCurr: v is a load of a captured local every assignment of which is result #idx of getCurrDuty.
func c16FromGetCurr(v ssa.Value, idx int) bool {
	ld, ok := an.Unwrap(v).(*ssa.UnOp)
	if !ok || ld.Op != token.MUL {
		return false
	}
	var stores []*ssa.Store
	switch x := ld.X.(type) {
	case *ssa.Alloc:
		stores = c16StoresTo(x, x.Parent())
	case *ssa.FreeVar:
		// find the binding in the parent
		par := x.Parent().Parent()
		for _, in := range an.Instrs(par, false) {
			if mc, ok := in.(*ssa.MakeClosure); ok && mc.Fn == ssa.Value(x.Parent()) {
				for i, fv := range x.Parent().FreeVars {
					if fv == x {
						if al, ok := mc.Bindings[i].(*ssa.Alloc); ok {
							stores = c16StoresTo(al, par)
						}
					}
				}
			}
		}
	}
	if len(stores) == 0 {
		return false
	}
	for _, st := range stores {
		ex, ok := st.Val.(*ssa.Extract)
		if !ok || ex.Index != idx {
			return false
		}
		call, ok := ex.Tuple.(*ssa.Call)
		if !ok || !an.Static("core.getCurrDuty")(&call.Call) {
			return false
		}
	}
	return true
}

// c16StoresTo: all stores to alloc al in fn and in its closures (through free-variable bindings).
func c16StoresTo(al *ssa.Alloc, fn *ssa.Function) []*ssa.Store {
	var out []*ssa.Store
	for _, ref := range *al.Referrers() {
		switch x := ref.(type) {
		case *ssa.Store:
			if x.Addr == ssa.Value(al) {
				out = append(out, x)
			}
		case *ssa.MakeClosure:
			cl := x.Fn.(*ssa.Function)
			for i, b := range x.Bindings {
				if b == ssa.Value(al) {
					fv := cl.FreeVars[i]
					for _, r2 := range *fv.Referrers() {
						if st, ok := r2.(*ssa.Store); ok && st.Addr == ssa.Value(fv) {
							out = append(out, st)
						}
					}
				}
			}
		}
	}
	return out
}

// c16UndeliveredPath searches a path from select sel to block target on which the state sendIdx was
// NOT the one taken (the report was not delivered), tracking the feasible values of the select index.
func c16UndeliveredPath(sel *ssa.Select, sendIdx int, target *ssa.BasicBlock) ([]*ssa.BasicBlock, bool) {
	idx := selIndex(sel)
	feasible := map[int]bool{}
	for i := range sel.States {
		if i != sendIdx {
			feasible[i] = true
		}
	}
	if !sel.Blocking {
		feasible[-1] = true
	}
	type key struct {
		b *ssa.BasicBlock
		s string
	}
	enc := func(m map[int]bool) string {
		s := ""
		for i := -1; i < len(sel.States); i++ {
			if m[i] {
				s += itoa(i) + ","
			}
		}
		return s
	}
	seen := map[key]bool{}
	var path []*ssa.BasicBlock
	var walk func(b *ssa.BasicBlock, f map[int]bool) bool
	walk = func(b *ssa.BasicBlock, f map[int]bool) bool {
		if len(f) == 0 || seen[key{b, enc(f)}] {
			return false
		}
		seen[key{b, enc(f)}] = true
		path = append(path, b)
		if b == target {
			return true
		}
		if iff, ok := b.Instrs[len(b.Instrs)-1].(*ssa.If); ok && idx != nil {
			if bin, ok := iff.Cond.(*ssa.BinOp); ok && bin.Op == token.EQL && bin.X == idx {
				if k, ok := an.ConstInt(bin.Y); ok {
					t, e := map[int]bool{}, map[int]bool{}
					for i := range f {
						if i == int(k) {
							t[i] = true
						} else {
							e[i] = true
						}
					}
					if walk(b.Succs[0], t) || walk(b.Succs[1], e) {
						return true
					}
					path = path[:len(path)-1]
					return false
				}
			}
		}
		for _, s := range b.Succs {
			if s == sel.Block() {
				continue
			}
			if walk(s, f) {
				return true
			}
		}
		path = path[:len(path)-1]
		return false
	}
	return path, walk(sel.Block(), feasible)
}
